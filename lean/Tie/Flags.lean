import Gen.Flags
import Sourcer.Proofs.FlagCheck
import Sourcer.Proofs.Refine
/-
  Obligation T1: the flag table regenerated from /repo's working tree is locally sound.
  Discharged by kernel evaluation over the finite table; instantiates the refinement theorem
  with what the code says now.
-/
namespace Tie
open Sourcer

theorem implFlags_check : LocallySoundB Gen.implFlags = true := by decide +kernel

theorem implFlags_sound : LocallySound Gen.implFlags := locallySound_of_check implFlags_check

/-- C01/C03 for the implementation's own flags: wherever the documented meaning is defined, the
    emitted code (as modelled) computes it. -/
theorem impl_refines (P : Program) (inp : List Nat) (fuel : Nat) :
    Refines (gen Gen.implFlags P inp fuel) (peg P inp fuel) :=
  gen_refines implFlags_sound P inp fuel

end Tie
