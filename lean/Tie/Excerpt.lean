import Gen.Excerpt
import Sourcer.Proofs.PyPrimProofs
/-
  Obligations T2 (C09): theorems about the runtime arithmetic *as translated from /repo's working
  tree* (Gen/Excerpt.lean is regenerated on every run).
-/
namespace Tie
open Sourcer.Py Gen.Excerpt

/-! ### line / column table -/

def stepLC (cl cc : Int) (c : Nat) : Int × Int := if c = 10 then (cl + 1, 0) else (cl, cc + 1)

def linesFrom (cl cc : Int) : Str → List Int
  | [] => []
  | c :: cs => (stepLC cl cc c).1 :: linesFrom (stepLC cl cc c).1 (stepLC cl cc c).2 cs

def colsFrom (cl cc : Int) : Str → List Int
  | [] => []
  | c :: cs => (stepLC cl cc c).2 :: colsFrom (stepLC cl cc c).1 (stepLC cl cc c).2 cs

theorem fold_eq (text : Str) : ∀ (cl cc : Int) (ln cn : List Int),
    text.foldl (fun (x : Int × Int × List Int × List Int) c =>
      match x with
      | (current_line, current_column, line_numbers, column_numbers) =>
        let (current_line, current_column) := if c = 10 then
          let current_line := current_line + (1 : Int)
          let current_column := (0 : Int)
          (current_line, current_column)
        else
          let current_column := current_column + (1 : Int)
          (current_line, current_column)
        let line_numbers := line_numbers ++ [current_line]
        let column_numbers := column_numbers ++ [current_column]
        (current_line, current_column, line_numbers, column_numbers)) (cl, cc, ln, cn)
    = ((text.foldl (fun (x : Int × Int) c => stepLC x.1 x.2 c) (cl, cc)).1,
       (text.foldl (fun (x : Int × Int) c => stepLC x.1 x.2 c) (cl, cc)).2,
       ln ++ linesFrom cl cc text, cn ++ colsFrom cl cc text) := by
  induction text with
  | nil => intro cl cc ln cn; simp [linesFrom, colsFrom]
  | cons c cs ih =>
    intro cl cc ln cn
    simp only [List.foldl_cons]
    by_cases hc : c = 10
    · simp only [hc, ↓reduceIte]
      rw [ih]
      simp [linesFrom, colsFrom, stepLC]
    · simp only [hc, ↓reduceIte]
      rw [ih]
      simp [linesFrom, colsFrom, stepLC, hc]

theorem map_index_eq (text : Str) :
    map_index_to_line_and_column text = (linesFrom 1 0 text, colsFrom 1 0 text) := by
  unfold map_index_to_line_and_column
  simp only
  rw [fold_eq]
  simp

/-- number of consecutive non-newline characters ending at index `i` (0 on a newline) -/
def colNat (text : Str) : Nat → Nat
  | 0 => if text[0]? = some 10 then 0 else 1
  | i + 1 => if text[i + 1]? = some 10 then 0 else colNat text i + 1

def colAt (cc : Int) (text : Str) : Nat → Int
  | 0 => if text[0]? = some 10 then 0 else cc + 1
  | i + 1 => if text[i + 1]? = some 10 then 0 else colAt cc text i + 1

theorem colAt_zero_eq (text : Str) : ∀ i, colAt 0 text i = (colNat text i : Int) := by
  intro i
  induction i with
  | zero => simp only [colAt, colNat]; split <;> simp
  | succ n ih => simp only [colAt, colNat, ih]; split <;> simp

theorem colAt_cons (cc : Int) (c : Nat) (cs : Str) :
    ∀ j, colAt cc (c :: cs) (j + 1) = colAt (colAt cc (c :: cs) 0) cs j := by
  intro j
  induction j with
  | zero => simp [colAt]
  | succ n ih =>
    show (if (c :: cs)[n + 1 + 1]? = some 10 then 0 else colAt cc (c :: cs) (n + 1) + 1) = _
    rw [ih]
    simp [colAt]

theorem colsFrom_get (text : Str) : ∀ (cl cc : Int) (i : Nat), i < text.length →
    (colsFrom cl cc text)[i]? = some (colAt cc text i) := by
  induction text with
  | nil => intro cl cc i hi; simp at hi
  | cons c cs ih =>
    intro cl cc i hi
    cases i with
    | zero =>
      simp only [colsFrom, stepLC, colAt, List.getElem?_cons_zero]
      by_cases hc : c = 10 <;> simp [hc]
    | succ j =>
      simp only [colsFrom, List.getElem?_cons_succ]
      rw [ih _ _ j (by simpa using hi), colAt_cons]
      congr 2
      simp only [stepLC, colAt, List.getElem?_cons_zero]
      by_cases hc : c = 10 <;> simp [hc]

theorem linesFrom_get (text : Str) : ∀ (cl cc : Int) (i : Nat), i < text.length →
    (linesFrom cl cc text)[i]? = some (cl + ((text.take (i + 1)).count 10 : Nat)) := by
  induction text with
  | nil => intro cl cc i hi; simp at hi
  | cons c cs ih =>
    intro cl cc i hi
    cases i with
    | zero =>
      simp only [linesFrom, stepLC, List.getElem?_cons_zero]
      by_cases hc : c = 10 <;> simp [hc, List.count_cons]
    | succ j =>
      simp only [linesFrom, List.getElem?_cons_succ]
      rw [ih _ _ j (by simpa using hi)]
      simp only [stepLC, List.take_succ_cons, List.count_cons]
      by_cases hc : c = 10
      · simp [hc]; omega
      · simp [hc]

theorem colNat_spec (text : Str) : ∀ i, text[i]? ≠ some 10 →
    1 ≤ colNat text i ∧ colNat text i ≤ i + 1 ∧
    (∀ j, i + 1 - colNat text i ≤ j → j ≤ i → text[j]? ≠ some 10) ∧
    (colNat text i = i + 1 ∨ text[i - colNat text i]? = some 10) := by
  intro i
  induction i with
  | zero =>
    intro h
    simp only [colNat, h, ↓reduceIte]
    refine ⟨by omega, by omega, ?_, Or.inl (by simp)⟩
    intro j _ hj
    have : j = 0 := by omega
    subst this; exact h
  | succ n ih =>
    intro h
    simp only [colNat, h, ↓reduceIte]
    by_cases hn : text[n]? = some 10
    · have h0 : colNat text n = 0 := by
        cases n with
        | zero => simp [colNat, hn]
        | succ m => simp [colNat, hn]
      simp only [h0]
      refine ⟨by omega, by omega, ?_, Or.inr (by simpa using hn)⟩
      intro j h1 h2
      have : j = n + 1 := by omega
      subst this; exact h
    · obtain ⟨h1, h2, h3, h4⟩ := ih hn
      refine ⟨by omega, by omega, ?_, ?_⟩
      · intro j hj1 hj2
        by_cases hj : j = n + 1
        · subst hj; exact h
        · exact h3 j (by omega) (by omega)
      · rcases h4 with h4 | h4
        · left; omega
        · right
          have : n + 1 - (colNat text n + 1) = n - colNat text n := by omega
          rw [this]; exact h4

theorem index_natCast (xs : List Int) (n : Nat) : index xs (n : Int) = xs[n]? := by
  unfold index
  have : ¬ ((n : Int) < 0) := by omega
  simp [this]

/-- **C09 (line and column).**  For an index that does not hold a line break the translated
    `_get_line_and_column` returns line = 1 + number of newlines before it and
    column = `colNat` = 1 + offset from the start of its line. -/
theorem linecol_spec (text : Str) (i : Nat) (hi : i < text.length) (hc : text[i]? ≠ some 10) :
    get_line_and_column text (i : Int)
      = some ((1 : Int) + ((text.take i).count 10 : Nat), (colNat text i : Int)) := by
  unfold get_line_and_column
  simp only [map_index_eq, index_natCast]
  rw [linesFrom_get _ _ _ _ hi, colsFrom_get _ _ _ _ hi, colAt_zero_eq]
  simp only
  congr 3
  rw [List.take_add_one]
  cases hti : text[i]? with
  | none => simp
  | some ch =>
    have : ch ≠ 10 := by intro h; subst h; exact hc hti
    simp [List.count_append, this]

/-! ### where the pair exists, and what it is at a line break -/

theorem linesFrom_length (text : Str) : ∀ (cl cc : Int), (linesFrom cl cc text).length = text.length := by
  induction text with
  | nil => intro cl cc; simp [linesFrom]
  | cons c cs ih => intro cl cc; simp [linesFrom, ih]

theorem colsFrom_length (text : Str) : ∀ (cl cc : Int), (colsFrom cl cc text).length = text.length := by
  induction text with
  | nil => intro cl cc; simp [colsFrom]
  | cons c cs ih => intro cl cc; simp [colsFrom, ih]

/-- **C09 (where line and column exist).** The translated `_get_line_and_column` yields a pair for
    exactly the indices below the end of the text (line break or not); at the end of input and
    beyond it is Python's `IndexError` (`none`) - which is why the emitted `_raise_error` functions
    must, and do, test `pos >= len(text)` first and report `None, None` there. -/
theorem linecol_defined_iff (text : Str) (i : Nat) :
    (get_line_and_column text (i : Int)).isSome = true ↔ i < text.length := by
  unfold get_line_and_column
  simp only [map_index_eq, index_natCast]
  by_cases hi : i < text.length
  · rw [linesFrom_get _ _ _ _ hi, colsFrom_get _ _ _ _ hi]
    simp [hi]
  · have h1 : (linesFrom 1 0 text)[i]? = none := by
      rw [List.getElem?_eq_none_iff, linesFrom_length]; omega
    rw [h1]
    simp [hi]

/-- at a line break the table gives column 0 and the line that *follows* - the reason for which
    the property excludes these indices -/
theorem linecol_at_newline (text : Str) (i : Nat) (hc : text[i]? = some 10) :
    get_line_and_column text (i : Int)
      = some ((1 : Int) + ((text.take (i + 1)).count 10 : Nat), 0) := by
  have hi : i < text.length := by
    rcases Nat.lt_or_ge i text.length with h | h
    · exact h
    · rw [List.getElem?_eq_none_iff.mpr h] at hc; cases hc
  unfold get_line_and_column
  simp only [map_index_eq, index_natCast]
  rw [linesFrom_get _ _ _ _ hi, colsFrom_get _ _ _ _ hi, colAt_zero_eq]
  have : colNat text i = 0 := by
    cases i with
    | zero => simp [colNat, hc]
    | succ j => simp [colNat, hc]
  simp [this]

example : get_line_and_column (lit "ab\ncd") 5 = none := by decide
example : get_line_and_column (lit "ab\ncd") 4 = some (2, 2) := by decide
example : get_line_and_column (lit "ab\ncd") 2 = some (2, 0) := by decide

/-! ### excerpt and caret -/

theorem caret_at_nat (k : Nat) : caret_at (k : Int) = [10] ++ List.replicate k 32 ++ [94] := by
  unfold caret_at
  rw [strMul_space]

/-- shape of a well-formed excerpt: one line `l` without line break, then the caret line with the
    caret under `l[k]`, which is the character at the error index -/
def GoodExcerpt (text : Str) (i : Nat) (ex : Str) : Prop :=
  ∃ (l : Str) (k : Nat), ex = l ++ [10] ++ List.replicate k 32 ++ [94] ∧ 10 ∉ l ∧ k < l.length ∧
    l[k]? = text[i]?

/-- **C09 (caret).**  For every text and every index that does not hold a line break, the
    translated `_extract_excerpt`, given the column the translated line/column table assigns to the
    index, produces a well-formed excerpt – in all four regimes, for lines of any length. -/
theorem excerpt_spec (text : Str) (i : Nat) (hi : i < text.length) (hc : text[i]? ≠ some 10) :
    GoodExcerpt text i (extract_excerpt false text (i : Int) (colNat text i : Int)) := by
  obtain ⟨hc1, hc2, hc3, _⟩ := colNat_spec text i hc
  obtain ⟨e, he, he1, he2, he3⟩ := searchNl_spec text i hi
  generalize hcdef : colNat text i = c at *
  -- the line is text[s, e), it contains i, and it holds no line break
  have hline : ∀ j, i + 1 - c ≤ j → j < e → text[j]? ≠ some 10 := by
    intro j h1 h2
    by_cases hj : j ≤ i
    · exact hc3 j h1 hj
    · exact he3 j (by omega) h2
  have hstart : ((i : Int) - ((c : Int) - 1)) = ((i + 1 - c : Nat) : Int) := by omega
  unfold extract_excerpt
  simp only [Bool.false_eq_true, ↓reduceIte, hstart]
  have hlenE : e = text.length → len text = (e : Int) := by intro h; simp [len, h]
  rcases he with he | ⟨he, hlen⟩
  · simp only [he]
    have hcm1 : ((c : Int) - 1) = ((c - 1 : Nat) : Int) := by omega
    split
    · -- the whole line fits
      rename_i h96
      refine ⟨slice text ((i + 1 - c : Nat) : Int) (e : Int), c - 1, ?_, ?_, ?_, ?_⟩
      · rw [hcm1, caret_at_nat]; simp [List.append_assoc]
      · exact slice_nat_no_nl text _ _ (by omega) he2 hline
      · rw [slice_nat_length text _ _ (by omega) he2]; omega
      · rw [slice_nat_get text _ _ _ (by omega) he2 (by omega)]
        congr 1; omega
    · rename_i h96
      split
      · -- chopped at the end
        rename_i h60
        have h90 : (((i + 1 - c : Nat) : Int) + 90) = ((i + 1 - c + 90 : Nat) : Int) := by omega
        rw [h90]
        refine ⟨slice text ((i + 1 - c : Nat) : Int) ((i + 1 - c + 90 : Nat) : Int) ++ [32, 46, 46, 46], c - 1, ?_, ?_, ?_, ?_⟩
        · rw [hcm1, caret_at_nat]; simp [List.append_assoc]
        · intro hmem
          rcases List.mem_append.mp hmem with h | h
          · exact slice_nat_no_nl text _ _ (by omega) (by omega) (fun j h1 h2 => hline j h1 (by omega)) h
          · simp at h
        · rw [List.length_append, slice_nat_length text _ _ (by omega) (by omega)]; simp; omega
        · rw [List.getElem?_append_left (by rw [slice_nat_length text _ _ (by omega) (by omega)]; omega)]
          rw [slice_nat_get text _ _ _ (by omega) (by omega) (by omega)]
          congr 1; omega
      · rename_i h60
        split
        · -- chopped at the start
          rename_i h42
          have hlo : ((e : Int) - 90) = ((e - 90 : Nat) : Int) := by omega
          rw [hlo]
          have hk : ((i : Int) - ((e - 90 : Nat) : Int) + 4) = ((i - (e - 90) + 4 : Nat) : Int) := by omega
          rw [hk, caret_at_nat]
          refine ⟨[46, 46, 46, 32] ++ slice text ((e - 90 : Nat) : Int) (e : Int), i - (e - 90) + 4, ?_, ?_, ?_, ?_⟩
          · simp [List.append_assoc]
          · intro hmem
            rcases List.mem_append.mp hmem with h | h
            · simp at h
            · exact slice_nat_no_nl text _ _ (by omega) he2 (fun j h1 h2 => hline j (by omega) h2) h
          · rw [List.length_append, slice_nat_length text _ _ (by omega) he2]; simp; omega
          · rw [List.getElem?_append_right (by simp)]
            simp only [List.length_cons, List.length_nil]
            have : i - (e - 90) + 4 - (0 + 1 + 1 + 1 + 1) = i - (e - 90) := by omega
            rw [this, slice_nat_get text _ _ _ (by omega) he2 (by omega)]
            congr 1; omega
        · -- chopped at both ends
          rename_i h42
          have hlo : ((i : Int) - 42) = ((i - 42 : Nat) : Int) := by omega
          have hhi : ((i : Int) + 42) = ((i + 42 : Nat) : Int) := by omega
          have hk : ((42 : Int) + 4) = ((46 : Nat) : Int) := by omega
          rw [hlo, hhi, hk, caret_at_nat]
          refine ⟨[46, 46, 46, 32] ++ slice text ((i - 42 : Nat) : Int) ((i + 42 : Nat) : Int) ++ [32, 46, 46, 46], 46, ?_, ?_, ?_, ?_⟩
          · simp [List.append_assoc]
          · intro hmem
            rcases List.mem_append.mp hmem with h | h
            · rcases List.mem_append.mp h with h | h
              · simp at h
              · exact slice_nat_no_nl text _ _ (by omega) (by omega) (fun j h1 h2 => hline j (by omega) (by omega)) h
            · simp at h
          · simp only [List.length_append, slice_nat_length text _ _ (show i - 42 ≤ i + 42 by omega) (show i + 42 ≤ text.length by omega)]
            simp; omega
          · have hlen := slice_nat_length text (i - 42) (i + 42) (by omega) (by omega)
            rw [List.getElem?_append_left (by
              simp only [List.length_append, List.length_cons, List.length_nil, hlen]; omega)]
            rw [List.getElem?_append_right (by simp)]
            simp only [List.length_cons, List.length_nil]
            rw [slice_nat_get text _ _ _ (by omega) (by omega) (by omega)]
            congr 1; omega
  · simp only [he, hlenE hlen]
    have hcm1 : ((c : Int) - 1) = ((c - 1 : Nat) : Int) := by omega
    split
    · -- the whole line fits
      rename_i h96
      refine ⟨slice text ((i + 1 - c : Nat) : Int) (e : Int), c - 1, ?_, ?_, ?_, ?_⟩
      · rw [hcm1, caret_at_nat]; simp [List.append_assoc]
      · exact slice_nat_no_nl text _ _ (by omega) he2 hline
      · rw [slice_nat_length text _ _ (by omega) he2]; omega
      · rw [slice_nat_get text _ _ _ (by omega) he2 (by omega)]
        congr 1; omega
    · rename_i h96
      split
      · -- chopped at the end
        rename_i h60
        have h90 : (((i + 1 - c : Nat) : Int) + 90) = ((i + 1 - c + 90 : Nat) : Int) := by omega
        rw [h90]
        refine ⟨slice text ((i + 1 - c : Nat) : Int) ((i + 1 - c + 90 : Nat) : Int) ++ [32, 46, 46, 46], c - 1, ?_, ?_, ?_, ?_⟩
        · rw [hcm1, caret_at_nat]; simp [List.append_assoc]
        · intro hmem
          rcases List.mem_append.mp hmem with h | h
          · exact slice_nat_no_nl text _ _ (by omega) (by omega) (fun j h1 h2 => hline j h1 (by omega)) h
          · simp at h
        · rw [List.length_append, slice_nat_length text _ _ (by omega) (by omega)]; simp; omega
        · rw [List.getElem?_append_left (by rw [slice_nat_length text _ _ (by omega) (by omega)]; omega)]
          rw [slice_nat_get text _ _ _ (by omega) (by omega) (by omega)]
          congr 1; omega
      · rename_i h60
        split
        · -- chopped at the start
          rename_i h42
          have hlo : ((e : Int) - 90) = ((e - 90 : Nat) : Int) := by omega
          rw [hlo]
          have hk : ((i : Int) - ((e - 90 : Nat) : Int) + 4) = ((i - (e - 90) + 4 : Nat) : Int) := by omega
          rw [hk, caret_at_nat]
          refine ⟨[46, 46, 46, 32] ++ slice text ((e - 90 : Nat) : Int) (e : Int), i - (e - 90) + 4, ?_, ?_, ?_, ?_⟩
          · simp [List.append_assoc]
          · intro hmem
            rcases List.mem_append.mp hmem with h | h
            · simp at h
            · exact slice_nat_no_nl text _ _ (by omega) he2 (fun j h1 h2 => hline j (by omega) h2) h
          · rw [List.length_append, slice_nat_length text _ _ (by omega) he2]; simp; omega
          · rw [List.getElem?_append_right (by simp)]
            simp only [List.length_cons, List.length_nil]
            have : i - (e - 90) + 4 - (0 + 1 + 1 + 1 + 1) = i - (e - 90) := by omega
            rw [this, slice_nat_get text _ _ _ (by omega) he2 (by omega)]
            congr 1; omega
        · -- chopped at both ends
          rename_i h42
          have hlo : ((i : Int) - 42) = ((i - 42 : Nat) : Int) := by omega
          have hhi : ((i : Int) + 42) = ((i + 42 : Nat) : Int) := by omega
          have hk : ((42 : Int) + 4) = ((46 : Nat) : Int) := by omega
          rw [hlo, hhi, hk, caret_at_nat]
          refine ⟨[46, 46, 46, 32] ++ slice text ((i - 42 : Nat) : Int) ((i + 42 : Nat) : Int) ++ [32, 46, 46, 46], 46, ?_, ?_, ?_, ?_⟩
          · simp [List.append_assoc]
          · intro hmem
            rcases List.mem_append.mp hmem with h | h
            · rcases List.mem_append.mp h with h | h
              · simp at h
              · exact slice_nat_no_nl text _ _ (by omega) (by omega) (fun j h1 h2 => hline j (by omega) (by omega)) h
            · simp at h
          · simp only [List.length_append, slice_nat_length text _ _ (show i - 42 ≤ i + 42 by omega) (show i + 42 ≤ text.length by omega)]
            simp; omega
          · have hlen := slice_nat_length text (i - 42) (i + 42) (by omega) (by omega)
            rw [List.getElem?_append_left (by
              simp only [List.length_append, List.length_cons, List.length_nil, hlen]; omega)]
            rw [List.getElem?_append_right (by simp)]
            simp only [List.length_cons, List.length_nil]
            rw [slice_nat_get text _ _ _ (by omega) (by omega) (by omega)]
            congr 1; omega

end Tie
