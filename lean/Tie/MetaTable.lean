import Gen.MetaTable
/-
  Obligation T3 (C19 grouping): the rows of the `Expr` operator table of /repo's grammar.txt, as
  regenerated on this run, are the documented ones in the documented order.  By the meaning of
  operator tables (C02: earlier rows bind tighter, `left` rows associate to the left) this is the
  statement that un-parenthesised operators group as documented.
-/
namespace Tie

/-- the documented grouping: postfix forms tightest, then `//` `/?`, then `<<` `>>`, then
    `<|` `|>` `where`, then `|`, every binary row left-associative; `between { … }` loosest -/
def documentedRows : List (String × List String) := [
  ("mixfix", ["(", "Expr", ")"]),
  ("postfix", ["ArgList", "FieldAccess"]),
  ("postfix", ["?", "*", "+", "Repeat"]),
  ("left", ["//", "/?"]),
  ("left", ["<<", ">>"]),
  ("left", ["<|", "|>", "where"]),
  ("left", ["|"]),
  ("postfix", ["OperatorTable"])
]

theorem metaTable_grouping : Gen.metaExprRows = documentedRows := by decide

end Tie
