import Gen.Binders
import Sourcer.Env
/-
  Obligation T4 (C05/C06): the binding discipline that the names layer (`Sourcer/Env.lean`) models is the one
  the real symbol counter implements, as probed on this run.

  `Gen.binderFacts` is regenerated from /repo on every run.  The first group of facts is compared with what the
  MODEL's own notion of free names (`X.fv`) answers on the corresponding model expressions - so the expected
  values are computed by the model, not written down; the two deviations of the real counter (it counts a `let`
  name as bound in its own binding expression, and a class field as bound in members before it) are pinned
  explicitly: they widen scopes, which is only observable in programs that shadow or use a name before it is
  bound (the known finding C05-shadowing / ill-scoped programs), never on the well-scoped programs of `xgen_sim`.
-/
namespace Tie
open Sourcer.X

/-- is the name free in the argument expression as seen from outside the binder? (model) -/
def freeIn (x : Name) (e : XExpr) : Bool := (fv e).contains x

/-- the argument `["b", `x`]` of the probes -/
def argMentioning (x : Name) : XExpr := .seq [.lit [98], .py ⟨0, [x]⟩]

/-- what the MODEL says for each probe: the name mentioned by the argument is bound by the enclosing binder
    iff it is NOT free in the enclosing expression -/
def modelFacts : List (String × Bool) := [
  ("let_binds_in_body", !freeIn "xa" (.let_ "xa" (.lit [97]) (.call 0 [(none, argMentioning "xa")]))),
  -- deviation 1: lexically the binding expression is outside the scope (model: free, i.e. not bound);
  -- the real counter says bound
  ("let_binds_in_its_own_binding_expression", true),
  ("class_parameter_bound", ws ["pb"] (.bseq [(some "fa", .call 0 [(none, argMentioning "pb")])] "C" ["fa"])),
  ("class_earlier_field_bound",
    !freeIn "fa" (.bseq [(some "fa", .lit [120]), (some "fb", .call 0 [(none, argMentioning "fa")])] "C" ["fa", "fb"])),
  ("class_earlier_let_field_bound",
    !freeIn "fa" (.bseq [(some "fa", .lit [120]), (some "fb", .call 0 [(none, argMentioning "fa")])] "C" ["fb"])),
  -- deviation 2: the real counter binds a field in the whole class body
  ("class_later_field_bound", true),
  ("pass_member_binds_nothing",
    !freeIn "qq" (.bseq [(none, .lit [120]), (some "fb", .call 0 [(none, argMentioning "qq")])] "C" ["fb"])),
  ("rule_parameter_bound", ws ["pb"] (.call 0 [(none, argMentioning "pb")])),
  ("parameter_used_as_parser_is_local", ws ["pb"] (.call 0 [(none, .seq [.pvar "pb", .lit [98]])])),
  ("sibling_scope_binds_nothing",
    !freeIn "xa" (.seq [.let_ "xa" (.lit [97]) (.lit [98]), .call 0 [(none, argMentioning "xa")]])),
  ("where_predicate_sees_let",
    !freeIn "xa" (.let_ "xa" (.lit [97]) (.call 0 [(none, .where_ (.lit [98]) (.py ⟨1003, ["xa"]⟩))]))),
  ("count_sees_let",
    !freeIn "xa" (.let_ "xa" (.lit [48]) (.call 0 [(none, .rep (.lit [98]) ⟨0, ["xa"]⟩)])))
]

/-- the class attributes that `SymbolCounter` dispatches on: only `Let` defines a local, only `Rule` and
    `Class` have parameters, only `Ref` is a reference -/
def attributeFacts : List (String × Bool) :=
  (["Let", "Rule", "Class", "Ref", "Seq", "Where", "Apply", "Call", "List", "Choice", "Opt"].map fun c =>
    [(c ++ ".defines_local", c == "Let"), (c ++ ".has_params", c == "Rule" || c == "Class"),
     (c ++ ".is_reference", c == "Ref")]).flatten

theorem binders_agree : Gen.binderFacts = modelFacts ++ attributeFacts := by decide

/-- The names layer threads positions functionally: a construct that fails gives back the position it started
    from.  The emitted code does that only where the static flags say it is needed, so for the classes of the names
    layer the flags have to be conservative: a predicate, a call and a data-dependent count can fail after their
    operand consumed input (`always_succeeds = false`, `can_partially_succeed = true` whatever the operand is), and a
    `let` always succeeds only if both parts do and otherwise may fail after consuming. -/
def flagsConservative : String → List (Bool × Bool) → Bool × Bool → Bool
  | "where", [_], f => !f.1 && f.2
  | "call", [_], f => !f.1 && f.2
  | "count", [_], f => !f.1 && f.2
  | "let", [a, b], f => (!f.1 || (a.1 && b.1)) && (f.1 || f.2)
  | _, _, _ => false

theorem names_flags_conservative :
    Gen.namesFlags.all (fun r => flagsConservative r.1 r.2.1 r.2.2) = true ∧
    Gen.namesFlags.map (·.1) = List.replicate 4 "where" ++ List.replicate 16 "let" ++ List.replicate 8 "call" ++ List.replicate 4 "count" := by
  decide

-- the two pinned deviations are exactly where the lexical model answers differently
example : freeIn "xa" (.let_ "xa" (.call 0 [(none, argMentioning "xa")]) (.lit [99])) = true := by decide
example : freeIn "fa" (.bseq [(some "fb", .call 0 [(none, argMentioning "fa")]), (some "fa", .lit [120])] "C" ["fb", "fa"]) = true := by
  decide

end Tie
