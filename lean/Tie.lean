import Tie.Flags
import Tie.Excerpt
import Tie.MetaTable
