import Tie.Flags
import Tie.Excerpt
