import Tie.Flags
