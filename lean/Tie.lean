import Tie.Flags
import Tie.Excerpt
import Tie.MetaTable
import Tie.Binders
