import Sourcer.Value
import Sourcer.Expr
import Sourcer.Gen
import Sourcer.Peg
