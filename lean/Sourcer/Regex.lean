/-
  A small backtracking regex matcher with Python `re` semantics for the fragment the harness
  generates (literals, `.`, classes, groups, `|`, greedy and lazy `* + ? {m,n}`).  It is used by
  the driver only; theorems treat the matcher as a parameter of `Program`.
-/
namespace Sourcer

inductive Rx where
  | eps
  | chr (c : Nat)
  | any (dotall : Bool)
  | cls (neg : Bool) (ranges : List (Nat × Nat))
  | seq (a b : Rx)
  | alt (a b : Rx)
  /-- `a{min, max}`; `max = none` is unbounded; `greedy = false` is the lazy variant -/
  | rep (a : Rx) (min : Nat) (max : Option Nat) (greedy : Bool)
  /-- `$` (without MULTILINE): at the end of the text, or in front of a line break that ends it; `\Z`: at the end -/
  | atEnd (strict : Bool)
  /-- `^` / `\A` (without MULTILINE): at index 0 of the text (not of the slice the parse started at) -/
  | atStart
  /-- `(?=a)` and `(?!a)` -/
  | look (neg : Bool) (a : Rx)
  deriving Inhabited, Repr

namespace Rx

def inRanges (c : Nat) : List (Nat × Nat) → Bool
  | [] => false
  | (a, b) :: rs => (a ≤ c && c ≤ b) || inRanges c rs

/-- `m fuel r inp i k`: match `r` at index `i`, then continue with `k` on the end index;
    first success in Python's backtracking order. -/
def m : Nat → Rx → Array Nat → Nat → (Nat → Option Nat) → Option Nat
  | 0, _, _, _, _ => none
  | fuel + 1, r, inp, i, k =>
    match r with
    | .eps => k i
    | .chr c => if inp[i]? == some c then k (i + 1) else none
    | .any dotall =>
      match inp[i]? with
      | some c => if dotall || c != 10 then k (i + 1) else none
      | none => none
    | .cls neg rs =>
      match inp[i]? with
      | some c => if inRanges c rs != neg then k (i + 1) else none
      | none => none
    | .atEnd strict =>
      if i == inp.size || (!strict && i + 1 == inp.size && inp[i]? == some 10) then k i else none
    | .atStart => if i == 0 then k i else none
    | .look neg a =>
      match m fuel a inp i some with
      | some _ => if neg then none else k i
      | none => if neg then k i else none
    | .seq a b => m fuel a inp i (fun j => m fuel b inp j k)
    | .alt a b =>
      match m fuel a inp i k with
      | some e => some e
      | none => m fuel b inp i k
    | .rep a min max greedy =>
      if min > 0 then
        m fuel a inp i (fun j => m fuel (.rep a (min - 1) (max.map (· - 1)) greedy) inp j k)
      else if max == some 0 then k i
      else
        let more := fun (_ : Unit) =>
          m fuel a inp i (fun j =>
            if j == i then none   -- an empty iteration makes no progress
            else m fuel (.rep a 0 (max.map (· - 1)) greedy) inp j k)
        if greedy then
          match more () with
          | some e => some e
          | none => k i
        else
          match k i with
          | some e => some e
          | none => more ()

/-- `pattern.match(text, pos)`: end index of the match starting at `pos`, if any -/
def matchAt (r : Rx) (inp : List Nat) (pos : Nat) : Option Nat :=
  let arr := inp.toArray
  m (4 * (arr.size + 4) * 8 + 64) r arr pos some

end Rx
end Sourcer
