import Sourcer.Expr
/-
  The flag table as a flat array of bits – the exchange format between translator T1
  (`harness/extract_flags.py`), the regenerated `Gen/Flags.lean` and the driver.
-/
namespace Sourcer

def flagsIdx (f : Flags) : Nat := (if f.as then 2 else 0) + (if f.cps then 1 else 0)
def boolIdx (b : Bool) : Nat := if b then 1 else 0
def minIdx : MinClass → Nat
  | .zero => 0 | .one => 1 | .many => 2
def sepIdx (o : SepOpts) : Nat :=
  8 * boolIdx o.discard + 4 * boolIdx o.trailer + 2 * boolIdx o.empty + boolIdx o.require

/-- The flag table as a flat list of bits, two (`as`, `cps`) per entry, entries in the order
    fixed here.  `harness/extract_flags.py` writes the bits in the same order. -/
def FlagTable.ofBits (bits : Array Bool) : FlagTable :=
  let get (i : Nat) : Flags := ⟨bits.getD (2 * i) false, bits.getD (2 * i + 1) true⟩
  { str := fun e => get (0 + boolIdx e)
    regex := get 2
    byte := get 3
    ref := get 4
    seq := fun b => get (5 + boolIdx b)
    cls := fun b => get (7 + boolIdx b)
    discard := fun a b => get (9 + 4 * flagsIdx a + flagsIdx b)
    choice := fun aa ac => get (25 + 2 * boolIdx aa + boolIdx ac)
    opt := fun c => get (29 + flagsIdx c)
    list := fun m c => get (33 + 4 * minIdx m + flagsIdx c)
    sep := fun o _ _ => get (45 + sepIdx o)
    expect := fun c => get (61 + flagsIdx c)
    expectNot := fun c => get (65 + flagsIdx c)
    skip := get 69
    longest := fun aa ac => get (70 + 2 * boolIdx aa + boolIdx ac)
    backtrack := get 74
    fail := get 75
    py := get 76
    apply := fun a b => get (77 + 4 * flagsIdx a + flagsIdx b)
    optable := fun hp c => get (93 + 4 * boolIdx hp + flagsIdx c) }

def FlagTable.numEntries : Nat := 101

end Sourcer
