import Sourcer.Value
/-
  L3: parsing-expression AST, one constructor per class of `sourcer/expressions` that the core
  properties (C01, C03, C04, C10) mention, and the static flags `always_succeeds()` /
  `can_partially_succeed()` as a *table* `FlagTable` (regenerated from /repo by translator T1).
-/
namespace Sourcer

structure Flags where
  as : Bool
  cps : Bool
  deriving DecidableEq, Repr, Inhabited

structure SepOpts where
  discard : Bool    -- discard_separators
  trailer : Bool    -- allow_trailer
  empty : Bool      -- allow_empty
  require : Bool    -- require_separator
  deriving DecidableEq, Repr, Inhabited

/-- scalar constants of inline Python -/
inductive PyConst where
  | none
  | bool (b : Bool)
  | int (i : Int)
  deriving Inhabited, DecidableEq

def PyConst.toVal : PyConst → Val
  | .none => .none
  | .bool b => .bool b
  | .int i => .int i

inductive Expr where
  | str (s : List Nat) (skip : Bool)
  | regex (rx : Nat) (skip : Bool)
  | byte (b : Nat) (skip : Bool)
  | ref (rule : Nat)
  | seq (xs : List Expr)
  /-- body of a class rule: members, and for each member `some field` iff it is a named,
      non-omitted field -/
  | cls (name : String) (xs : List Expr) (keep : List (Option String))
  /-- `left = true` is `a >> b` (discard the left value), `false` is `a << b` -/
  | discard (a b : Expr) (left : Bool)
  | choice (xs : List Expr)
  | opt (e : Expr)
  /-- `e{min, min+extra}`; `extra = none` means no upper bound.  (The constructor of the
      implementation rejects `max < min`, so that case is not representable.) -/
  | list (e : Expr) (min : Nat) (extra : Option Nat)
  | sep (e s : Expr) (o : SepOpts)
  | expect (e : Expr)
  | expectNot (e : Expr)
  | skip (xs : List Expr)
  | longest (xs : List Expr)
  | backtrack (n : Nat)
  | fail
  /-- inline Python whose value is a scalar constant (`None`, `True`, a number) -/
  | py (c : PyConst)
  /-- `Apply(e, `lambda x: (tag…, x)`)`: how `OperatorTable.create` marks the operators of a row
      with `(precedence, associativity id)` (prefix/infix rows) or `(precedence)` (postfix rows) -/
  | tagged (e : Expr) (tag : List Int)
  /-- `operand between { rows }` after `OperatorTable.create`: tagged prefix rows, the operand
      followed by the mixfix rows, tagged postfix rows, tagged infix rows (several rows of one
      kind are combined by `Longest`) -/
  | optable (pre : List Expr) (operand : Expr) (mixfix : List Expr) (post inf : List Expr)
  deriving Inhabited

/-- The classes of `min_len` values that `List.always_succeeds` / `List._compile` distinguish. -/
inductive MinClass where
  | zero | one | many
  deriving DecidableEq, Repr, Inhabited

def maxOf (min : Nat) (extra : Option Nat) : Option Nat := extra.map (min + ·)

def minClass (m : Nat) : MinClass :=
  if m = 0 then .zero else if m = 1 then .one else .many

/-- What the implementation's flag methods compute, as a finite table.  Variadic classes depend
    on their children only through the aggregates shown (the extractor checks that). -/
structure FlagTable where
  str : Bool → Flags                      -- argument: the literal is empty
  regex : Flags
  byte : Flags
  ref : Flags
  seq : Bool → Flags                      -- argument: all members always succeed
  cls : Bool → Flags                      -- argument: all members always succeed
  discard : Flags → Flags → Flags
  choice : Bool → Bool → Flags            -- arguments: any child as, any child cps
  opt : Flags → Flags
  list : MinClass → Flags → Flags
  sep : SepOpts → Flags → Flags → Flags
  expect : Flags → Flags
  expectNot : Flags → Flags
  skip : Flags
  longest : Bool → Bool → Flags
  backtrack : Flags
  fail : Flags
  py : Flags
  apply : Flags → Flags → Flags
  optable : Bool → Flags → Flags           -- arguments: has prefix rows, flags of the operands

mutual
def flagsOf (F : FlagTable) : Expr → Flags
  | .str s _ => F.str s.isEmpty
  | .regex _ _ => F.regex
  | .byte _ _ => F.byte
  | .ref _ => F.ref
  | .seq xs => F.seq (allAs F xs)
  | .cls _ xs _ => F.cls (allAs F xs)
  | .discard a b _ => F.discard (flagsOf F a) (flagsOf F b)
  | .choice xs => F.choice (anyAs F xs) (anyCps F xs)
  | .opt e => F.opt (flagsOf F e)
  | .list e m _ => F.list (minClass m) (flagsOf F e)
  | .sep e s o => F.sep o (flagsOf F e) (flagsOf F s)
  | .expect e => F.expect (flagsOf F e)
  | .expectNot e => F.expectNot (flagsOf F e)
  | .skip _ => F.skip
  | .longest xs => F.longest (anyAs F xs) (anyCps F xs)
  | .backtrack _ => F.backtrack
  | .fail => F.fail
  | .py _ => F.py
  | .tagged e _ => F.apply (flagsOf F e) F.py
  | .optable pre operand mixfix _ _ =>
    F.optable (!pre.isEmpty)
      (match mixfix with
       | [] => flagsOf F operand
       | _ => F.longest ((flagsOf F operand).as || anyAs F mixfix) ((flagsOf F operand).cps || anyCps F mixfix))
def anyAs (F : FlagTable) : List Expr → Bool
  | [] => false
  | x :: xs => (flagsOf F x).as || anyAs F xs
def anyCps (F : FlagTable) : List Expr → Bool
  | [] => false
  | x :: xs => (flagsOf F x).cps || anyCps F xs
def allAs (F : FlagTable) : List Expr → Bool
  | [] => true
  | x :: xs => (flagsOf F x).as && allAs F xs
end

/-- `combine` of `OperatorTable.create`: nothing, the single row, or `Longest` of the rows -/
def combineRows : List Expr → Option Expr
  | [] => none
  | [x] => some x
  | xs => some (.longest xs)

def Expr.isFail : Expr → Bool
  | .fail => true
  | _ => false

/-- A grammar after preparation: rule bodies by index, the index of the synthetic `_ignored`
    rule if any, the regex matchers (`matcher rx text pos = some end`), text or bytes mode. -/
structure Program where
  rules : List Expr
  ignored : Option Nat
  matcher : Nat → List Nat → Nat → Option Nat
  bytesMode : Bool

def Program.lit (P : Program) (s : List Nat) : Val :=
  if P.bytesMode then .bytes s else .str s

/-- does `s` occur in `inp` at offset `p` (Python: `text[p : p + len(s)] == s`) -/
def matchAt (inp : List Nat) (p : Nat) (s : List Nat) : Bool :=
  (inp.drop p).take s.length == s

end Sourcer
