import Sourcer.Proofs.Refine
import Sourcer.Proofs.Bounds
import Sourcer.Proofs.PrepareProofs
import Sourcer.Proofs.RunProofs
import Sourcer.Proofs.Positions
import Sourcer.Proofs.Spans
import Sourcer.Proofs.Bounded
import Sourcer.Api
import Sourcer.Proofs.ObjectsProofs
import Sourcer.Proofs.WalkProofs
import Sourcer.Proofs.TransformProofs
import Sourcer.Proofs.ModulesProofs
import Sourcer.Syntax
import Sourcer.Proofs.EnvProofs
import Sourcer.Proofs.OpShape
import Sourcer.Proofs.FuelMono
import Sourcer.Proofs.Shift
import Sourcer.Proofs.Rename
import Sourcer.Proofs.LengthenSkip
import Sourcer.Proofs.Bridge
import Sourcer.Proofs.EnvSubst
import Sourcer.Proofs.Chain
/-
  Property theorems (statements only; proofs are one-liners over Sourcer/Proofs/*).
  Every theorem is followed by an `example` showing its hypotheses are met by a concrete,
  non-trivial instance.
-/
namespace Sourcer

/-! ## C01 / C03 – generated parsers implement the documented PEG meaning -/

theorem peg_seq (P : Program) (inp : List Nat) (fuel : Nat) (xs : List Expr) (p : Nat) :
    peg P inp (fuel + 1) (.seq xs) p = pegSeq (peg P inp fuel) xs p [] := by simp [peg]

theorem peg_opt_fail (P : Program) (inp : List Nat) (fuel : Nat) (a : Expr) (p : Nat)
    (ha : peg P inp fuel a p = some .fail) :
    peg P inp (fuel + 1) (.opt a) p = some (.ok .none p) := by simp [peg, ha]

/-- **C01 (and the `List`/`Sep` part of C03).**  For every locally sound flag table, every
    program, input, expression, start position and amount of fuel: wherever the documented PEG
    meaning is defined, the code model terminates within the same fuel, succeeds or fails alike,
    and on success leaves the same value and the same end position. -/
theorem C01_codegen_refines_peg {F : FlagTable} (hF : LocallySound F) (P : Program)
    (inp : List Nat) (fuel : Nat) (e : Expr) (p : Nat) (res : Res)
    (h : peg P inp fuel e p = some res) :
    ∃ r, gen F P inp fuel e p = some r ∧ Rel r res :=
  gen_refines hF P inp fuel e p res h

/-- The documented meaning does not depend on the amount of fuel: once defined, it is defined with
    the same outcome for every larger amount.  (So "wherever `peg` is defined" speaks about one
    partial function of program, input, expression and position.) -/
theorem C01_meaning_independent_of_fuel (P : Program) (inp : List Nat) (n m : Nat) (hnm : n ≤ m)
    (e : Expr) (p : Nat) (res : Res) (h : peg P inp n e p = some res) : peg P inp m e p = some res :=
  peg_mono P inp n m hnm e p res h

/-- … and the generated code agrees with it for every amount of fuel from there on -/
theorem C01_codegen_refines_peg_from_there_on {F : FlagTable} (hF : LocallySound F) (P : Program)
    (inp : List Nat) (n m : Nat) (hnm : n ≤ m) (e : Expr) (p : Nat) (res : Res)
    (h : peg P inp n e p = some res) : ∃ r, gen F P inp m e p = some r ∧ Rel r res :=
  gen_refines hF P inp m e p res (peg_mono P inp n m hnm e p res h)

/-- a concrete program for the non-vacuity examples: rule 0 is `A = "a" >> "b"`, which fails
    *after consuming* on `aa` -/
def exP : Program :=
  { rules := [.discard (.str [97] false) (.str [98] false) true], ignored := none,
    matcher := fun _ _ _ => none, bytesMode := false }

-- non-vacuity: `("a"{2} | "ab")` on `ab` – the first alternative fails after consuming one `a`
example : peg exP [97, 98] 5 (.choice [.list (.str [97] false) 2 (some 0), .str [97, 98] false]) 0
    = some (.ok (.str [97, 98]) 2) := by rfl

/-- `|` commits to the first alternative that matches (code model). -/
theorem C01_choice_commits_first {F : FlagTable} (hF : LocallySound F) (P : Program)
    (inp : List Nat) (fuel : Nat) (a : Expr) (rest : List Expr) (p : Nat) (v : Val) (p' : Nat)
    (h : peg P inp fuel a p = some (.ok v p')) :
    ∃ r, gen F P inp (fuel + 1) (.choice (a :: rest)) p = some r ∧ Rel r (.ok v p') := by
  apply gen_refines hF
  simp [peg, pegChoice, h]

example : peg exP [97, 98] 4 (.str [97] false) 0 = some (.ok (.str [97]) 1) := by rfl

/-- A failed alternative leaves no trace: the next alternative starts where the failed one
    started (code model: whatever the failed alternative did to `_pos`). -/
theorem C01_failed_alternative_leaves_no_trace {F : FlagTable} (hF : LocallySound F) (P : Program)
    (inp : List Nat) (fuel : Nat) (a b : Expr) (p : Nat) (res : Res)
    (ha : peg P inp fuel a p = some .fail) (hb : peg P inp fuel b p = some res) :
    ∃ r, gen F P inp (fuel + 1) (.choice [a, b]) p = some r ∧ Rel r res := by
  apply gen_refines hF
  cases res <;> simp [peg, pegChoice, ha, hb]

-- non-vacuity: `A | "a"` on `aa`: `A` fails after consuming, `"a"` then matches at 0
example : peg exP [97, 97] 4 (.ref 0) 0 = some .fail ∧
    peg exP [97, 97] 4 (.str [97] false) 0 = some (.ok (.str [97]) 1) := ⟨by rfl, by rfl⟩

/-- The continuation after a failed option starts where the option started. -/
theorem C01_failed_option_leaves_no_trace {F : FlagTable} (hF : LocallySound F) (P : Program)
    (inp : List Nat) (fuel : Nat) (a b : Expr) (p : Nat) (v : Val) (p' : Nat)
    (ha : peg P inp fuel a p = some .fail) (hb : peg P inp (fuel + 1) b p = some (.ok v p')) :
    ∃ r, gen F P inp (fuel + 2) (.seq [.opt a, b]) p = some r ∧
      Rel r (.ok (.list [.none, v]) p') := by
  apply gen_refines hF
  rw [peg_seq]
  simp [pegSeq, peg_opt_fail P inp fuel a p ha, hb]

example : peg exP [97, 97] 4 (.ref 0) 0 = some .fail ∧
    peg exP [97, 97] 5 (.str [97] false) 0 = some (.ok (.str [97]) 1) := ⟨by rfl, by rfl⟩

/-- Lookahead never consumes, whatever its operand did. -/
theorem C01_lookahead_restores {F : FlagTable} (hF : LocallySound F) (P : Program)
    (inp : List Nat) (fuel : Nat) (a : Expr) (p : Nat) (v : Val) (p' : Nat)
    (ha : peg P inp fuel a p = some (.ok v p')) :
    (∃ r, gen F P inp (fuel + 1) (.expect a) p = some r ∧ Rel r (.ok v p)) ∧
    (∃ r, gen F P inp (fuel + 1) (.expectNot a) p = some r ∧ Rel r .fail) := by
  constructor <;> apply gen_refines hF <;> simp [peg, ha]

example : peg exP [97, 98] 4 (.ref 0) 0 = some (.ok (.str [98]) 2) := by rfl

/-- `Longest` takes the alternative that consumes most, the first one among equals (spec). -/
theorem C01_longest_first_on_ties (P : Program) (inp : List Nat) (fuel : Nat) (a b : Expr)
    (p : Nat) (va vb : Val) (pa pb : Nat)
    (ha : peg P inp fuel a p = some (.ok va pa)) (hb : peg P inp fuel b p = some (.ok vb pb)) :
    peg P inp (fuel + 1) (.longest [a, b]) p =
      some (if pa < pb then .ok vb pb else .ok va pa) := by
  by_cases hlt : pa < pb <;> simp [peg, pegLongestOpts, ha, hb, hlt]

example : peg exP [97, 98] 4 (.str [97] false) 0 = some (.ok (.str [97]) 1) ∧
    peg exP [97, 98] 4 (.ref 0) 0 = some (.ok (.str [98]) 2) := ⟨by rfl, by rfl⟩

/-! ## C02 – operator tables

  `gen` contains the emitted shunting-yard loop; `C01_codegen_refines_peg` (which covers
  `.optable`) says it computes what the operational specification `pegOT` computes.  The theorems
  here say what that is, declaratively. -/

/-- **C02.**  What a table returns is the value of a *well-shaped* tree - operators of earlier
    rows bind tighter, `left`/`right` rows group to their side, a non-associative operator has none
    of its own row on either side, prefix and postfix operators attach according to their row
    (`WellShaped`) - and reading its operands and operators in order gives a sequence that the
    sub-parsers accept consecutively from the start of the expression to the end position that is
    returned (`Trace`): exactly the occurrences consumed, ending with a complete operand (an
    operator that is not followed by an operand is not part of it). -/
theorem C02_tree_well_shaped_and_yield (P : Program) (inp : List Nat) (fuel : Nat)
    (pre : List Expr) (operand : Expr) (mixfix post inf : List Expr) (p : Nat) (v : Val) (pe : Nat)
    (htag : tableTaggedB pre inf = true)
    (h : peg P inp (fuel + 1) (.optable pre operand mixfix post inf) p = some (.ok v pe)) :
    ∃ tree : OTree, v = tree.toVal ∧ WellShaped tree ∧
      Trace (peg P inp fuel) (ptableExprs pre operand mixfix post inf) p tree.yield pe := by
  simp only [peg] at h
  obtain ⟨tree, h1, h2, h3, _⟩ :=
    pegOT_result_shaped _ _ (tagged_of_check P inp fuel pre operand mixfix post inf htag) fuel p v pe h
  exact ⟨tree, h1, h2, h3⟩

/-- the same for the code model: the emitted loop returns that value and that end position -/
theorem C02_generated_code_builds_that_tree {F : FlagTable} (hF : LocallySound F) (P : Program) (inp : List Nat)
    (fuel : Nat) (pre : List Expr) (operand : Expr) (mixfix post inf : List Expr) (p : Nat) (v : Val) (pe : Nat)
    (htag : tableTaggedB pre inf = true)
    (h : peg P inp (fuel + 1) (.optable pre operand mixfix post inf) p = some (.ok v pe)) :
    (∃ r, gen F P inp (fuel + 1) (.optable pre operand mixfix post inf) p = some r ∧ Rel r (.ok v pe)) ∧
    ∃ tree : OTree, v = tree.toVal ∧ WellShaped tree ∧
      Trace (peg P inp fuel) (ptableExprs pre operand mixfix post inf) p tree.yield pe :=
  ⟨gen_refines hF P inp (fuel + 1) _ p _ h, C02_tree_well_shaped_and_yield P inp fuel pre operand mixfix post inf p v pe htag h⟩

/-- the reductions that the loop performs never lose or reorder an occurrence: the final pops
    of a consistent stack give one tree whose reading is the reading of the stacks -/
theorem C02_reductions_preserve_order (ops : List OpEntry) (t : OTree) (rest : List OTree) (h : CInv ops t rest) :
    ∃ T, popAll ops (t :: rest) = some [T] ∧ WellShaped T ∧ T.yield = yieldBelow ops rest ++ t.yield := by
  obtain ⟨T, h1, h2, h3, _⟩ := popAll_spec ops t rest h
  exact ⟨T, h1, h2, h3⟩

/-- **C02, "the unique tree".**  Two well-shaped trees with the same in-order reading are the same
    tree: what a table returns is *the* tree that groups the consumed occurrences according to
    the precedences and associativities of their rows.  (Proof: the stack operations rebuild every
    well-shaped tree from its reading, `syTree_yield`.) -/
theorem C02_unique (t₁ t₂ : OTree) (h₁ : WellShaped t₁) (h₂ : WellShaped t₂) (hy : t₁.yield = t₂.yield) : t₁ = t₂ :=
  wellShaped_unique t₁ t₂ h₁ h₂ hy

/-- so the result of a table is determined by the occurrences it consumed: any well-shaped tree
    with the reading of the result has the value that was returned -/
theorem C02_result_is_the_well_shaped_tree (P : Program) (inp : List Nat) (fuel : Nat)
    (pre : List Expr) (operand : Expr) (mixfix post inf : List Expr) (p : Nat) (v : Val) (pe : Nat)
    (htag : tableTaggedB pre inf = true)
    (h : peg P inp (fuel + 1) (.optable pre operand mixfix post inf) p = some (.ok v pe)) :
    ∃ tree : OTree, v = tree.toVal ∧ WellShaped tree ∧
      Trace (peg P inp fuel) (ptableExprs pre operand mixfix post inf) p tree.yield pe ∧
      ∀ other : OTree, WellShaped other → other.yield = tree.yield → other.toVal = v := by
  obtain ⟨tree, hv, hw, htr⟩ := C02_tree_well_shaped_and_yield P inp fuel pre operand mixfix post inf p v pe htag h
  refine ⟨tree, hv, hw, htr, ?_⟩
  intro other ho hy
  rw [wellShaped_unique other tree ho hw hy, hv]

/-- **C02, the extent of the expression.**  The expression ends at the returned position for one
    of exactly these reasons: the table has no infix rows, or no infix operator can be read there;
    or one can be read, but after it (and any prefix operators) no operand follows - so that
    dangling operator is left unconsumed; or the infix operator that can be read there is
    non-associative and an operator of its own row is open at the right edge of the tree (the
    expression ends before the second one).  In every other situation the loop goes on: the
    expression extends over the longest run of operands and operators of this shape. -/
theorem C02_run_is_maximal (P : Program) (inp : List Nat) (fuel : Nat)
    (pre : List Expr) (operand : Expr) (mixfix post inf : List Expr) (p : Nat) (v : Val) (pe : Nat)
    (htag : tableTaggedB pre inf = true)
    (h : peg P inp (fuel + 1) (.optable pre operand mixfix post inf) p = some (.ok v pe)) :
    ∃ tree : OTree, v = tree.toVal ∧ WellShaped tree ∧
      Stops (peg P inp fuel) (ptableExprs pre operand mixfix post inf) tree pe := by
  simp only [peg] at h
  obtain ⟨tree, h1, h2, _, h4⟩ :=
    pegOT_result_shaped _ _ (tagged_of_check P inp fuel pre operand mixfix post inf htag) fuel p v pe h
  exact ⟨tree, h1, h2, h4⟩

namespace C02Example
/-- `"1" between { left: "*"; left: "+" }`: `*` (row 0) binds tighter than `+` (row 1) -/
def table : Expr :=
  .optable [] (.str [49] false) [] []
    [.tagged (.str [42] false) [0, 1], .tagged (.str [43] false) [1, 1]]
def prog : Program := { rules := [], ignored := none, matcher := fun _ _ _ => none, bytesMode := false }
end C02Example

-- non-vacuity: `1+1*1+` gives `(1 + (1 * 1))` and leaves the dangling `+` unconsumed (end position 5)
example : tableTaggedB [] [.tagged (.str [42] false) [0, 1], .tagged (.str [43] false) [1, 1]] = true ∧
    peg C02Example.prog [49, 43, 49, 42, 49, 43] 40 C02Example.table 0 =
      some (.ok (mkInfix (.str [49]) (.str [43]) (mkInfix (.str [49]) (.str [42]) (.str [49]))) 5) := by
  refine ⟨by decide, by rfl⟩

/-! ## C03 – bounded repetition and separated lists (clauses spelled out by the property) -/

/-- `e{min, min+k}` returns at least `min` and at most `min+k` elements, and it is greedy: it
    stops only at the upper bound or where the element fails. -/
theorem C03_len_bounds (P : Program) (inp : List Nat) (fuel : Nat) (e : Expr) (min : Nat)
    (extra : Option Nat) (p : Nat) (v : Val) (p' : Nat)
    (h : peg P inp (fuel + 1) (.list e min extra) p = some (.ok v p')) :
    ∃ vs, v = .list vs ∧ min ≤ vs.length ∧ (∀ k, extra = some k → vs.length ≤ min + k) ∧
      ((∃ k, extra = some k ∧ vs.length = min + k) ∨ peg P inp fuel e p' = some .fail) := by
  simp only [peg, pegList] at h
  split at h
  · rename_i hm
    simp at h; obtain ⟨h1, h2⟩ := h; subst h1 h2
    cases extra with
    | none => simp [maxOf] at hm
    | some k =>
      simp [maxOf] at hm
      exact ⟨[], rfl, by simp [hm.1], fun _ _ => by simp, Or.inl ⟨k, rfl, by simp [hm.1, hm.2]⟩⟩
  · rename_i hm
    split at h
    · simp at h
    · rename_i acc p1 hloop
      obtain ⟨_, hub, hstop⟩ := pegListLoop_spec e _ _ _ _ _ _ hloop
      split at h
      · rename_i hlen
        simp at h; obtain ⟨h1, h2⟩ := h; subst h1 h2
        refine ⟨acc.reverse, rfl, by simpa using hlen, ?_, ?_⟩
        · intro k hk
          have := hub (min + k) (by simp [maxOf, hk]) (by
            simp only [List.length_nil]
            cases hz : min + k with
            | zero => simp [maxOf, hk, hz] at hm
            | succ n => omega)
          simpa using this
        · rcases hstop with hstop | hstop
          · left
            cases extra with
            | none => simp [maxOf] at hstop
            | some k => exact ⟨k, rfl, by simp [maxOf] at hstop; simp; omega⟩
          · exact Or.inr hstop
      · simp at h

/-- a list whose first element does not match is `[]` if empty lists are allowed, else a failure -/
theorem C03_sep_allow_empty (run : PRun) (fuel : Nat) (e s : Expr) (o : SepOpts) (p : Nat)
    (h : run e p = some .fail) :
    pegSep run (fuel + 1) e s o p = some (if o.empty then .ok (.list []) p else .fail) := by
  obtain ⟨d, t, em, rq⟩ := o
  cases em <;> cases rq <;> simp [pegSep, pegSepLoop, h, sepAccepts]

/-- one element and no separator after it: accepted unless a separator is required -/
theorem C03_sep_require_separator (run : PRun) (fuel : Nat) (e s : Expr) (o : SepOpts)
    (p p1 : Nat) (v : Val) (h1 : run e p = some (.ok v p1)) (h2 : run s p1 = some .fail) :
    pegSep run (fuel + 1) e s o p = some (if o.require then .fail else .ok (.list [v]) p1) := by
  obtain ⟨d, t, em, rq⟩ := o
  cases em <;> cases rq <;> simp [pegSep, pegSepLoop, h1, h2, sepAccepts]

/-- element, separator, then no further element: the separator is consumed iff `allow_trailer`,
    otherwise the list ends right after the element and the separator stays in the input; a
    kept separator that is left in the input is not part of the result -/
theorem C03_sep_trailer (run : PRun) (fuel : Nat) (e s : Expr) (o : SepOpts)
    (p p1 p2 : Nat) (v w : Val) (hreq : o.require = false) (hemp : o.empty = true)
    (h1 : run e p = some (.ok v p1)) (h2 : run s p1 = some (.ok w p2))
    (h3 : run e p2 = some .fail) :
    pegSep run (fuel + 2) e s o p =
      some (.ok (.list (if !o.discard && o.trailer then [v, w] else [v])) (if o.trailer then p2 else p1)) := by
  obtain ⟨d, t, em, rq⟩ := o
  simp only at hreq hemp
  subst hreq hemp
  cases d <;> cases t <;> simp [pegSep, pegSepLoop, h1, h2, h3, sepAccepts]

/-- two elements with a separator between them: the separator is part of the result iff
    separators are kept -/
theorem C03_sep_keeps_separators (run : PRun) (fuel : Nat) (e s : Expr) (o : SepOpts)
    (p p1 p2 p3 : Nat) (v w v2 : Val) (hreq : o.require = false)
    (h1 : run e p = some (.ok v p1)) (h2 : run s p1 = some (.ok w p2))
    (h3 : run e p2 = some (.ok v2 p3)) (h4 : run s p3 = some .fail) :
    pegSep run (fuel + 2) e s o p =
      some (.ok (.list (if o.discard then [v, v2] else [v, w, v2])) p3) := by
  obtain ⟨d, t, em, rq⟩ := o
  simp only at hreq
  subst hreq
  cases d <;> cases em <;> cases t <;> simp [pegSep, pegSepLoop, h1, h2, h3, h4, sepAccepts]

/-- a repetition or separated list that cannot be completed has no effect on where the next
    alternative starts (code model) -/
theorem C03_no_effect_on_failure {F : FlagTable} (hF : LocallySound F) (P : Program)
    (inp : List Nat) (fuel : Nat) (l b : Expr) (p : Nat) (res : Res)
    (hl : peg P inp fuel l p = some .fail) (hb : peg P inp fuel b p = some res) :
    ∃ r, gen F P inp (fuel + 1) (.choice [l, b]) p = some r ∧ Rel r res :=
  C01_failed_alternative_leaves_no_trace hF P inp fuel l b p res hl hb

-- non-vacuity: `"a"{2,3}` on `aaaa` gives three elements; `"a"{2}` fails on `ab` after consuming one `a`
example : peg exP [97, 97, 97, 97] 6 (.list (.str [97] false) 2 (some 1)) 0
    = some (.ok (.list [.str [97], .str [97], .str [97]]) 3) := by rfl
example : peg exP [97, 98] 6 (.list (.str [97] false) 2 (some 0)) 0 = some .fail := by rfl
example : peg exP [97, 98] 6 (.sep (.str [97] false) (.str [98] false) ⟨true, true, true, false⟩) 0
    = some (.ok (.list [.str [97]]) 2) := by rfl
example : peg exP [97, 98] 6 (.sep (.str [97] false) (.str [98] false) ⟨true, false, true, false⟩) 0
    = some (.ok (.list [.str [97]]) 1) := by rfl

/-! ## C04 – ignored patterns are skipped exactly at token boundaries -/

theorem setSkipList_refs (is : List Nat) : setSkipList (is.map .ref) = is.map .ref := by
  induction is with
  | nil => rfl
  | cons i is ih => simp [setSkipList, setSkip, ih]

/-- (a) with at least one ignore declaration, every literal of every rule of the prepared
    grammar – the ignored rules' own literals included – skips ignorable text after matching -/
theorem C04_every_literal_skips (rules : List RuleDef) (h : ignoredIdxs rules 0 ≠ []) :
    AllSkipList (prepare rules).bodies = true := by
  have : (ignoredIdxs rules 0).isEmpty = false := by cases hh : ignoredIdxs rules 0 <;> simp_all
  simp only [prepare, this, Bool.false_eq_true, ↓reduceIte]
  exact allSkipList_setSkipList _

theorem findStart_lt : ∀ (rs : List RuleDef) (j i : Nat), findStart rs j = some i → i < j + rs.length := by
  intro rs
  induction rs with
  | nil => intro j i h; simp [findStart] at h
  | cons r rs ih =>
    intro j i h
    simp only [findStart] at h
    split at h
    · simp at h; subst h; simp
    · have := ih _ _ h; simp; omega

theorem firstPlain_lt : ∀ (rs : List RuleDef) (j i : Nat), firstPlain rs j = some i → i < j + rs.length := by
  intro rs
  induction rs with
  | nil => intro j i h; simp [firstPlain] at h
  | cons r rs ih =>
    intro j i h
    simp only [firstPlain] at h
    split at h
    · have := ih _ _ h; simp; omega
    · simp at h; subst h; simp

theorem startOf_lt (rules : List RuleDef) (i : Nat) (h : startOf rules = some i) : i < rules.length := by
  unfold startOf at h
  split at h
  · next j hj => cases h; simpa using findStart_lt rules 0 _ hj
  · simpa using firstPlain_lt rules 0 _ h

/-- the first rule found by `firstPlain` is not ignored, and every rule before it is -/
theorem firstPlain_spec : ∀ (rs : List RuleDef) (j i : Nat), firstPlain rs j = some i →
    j ≤ i ∧ (∃ r, rs[i - j]? = some r ∧ r.ignored = false) ∧ ∀ k, k < i - j → ∃ r, rs[k]? = some r ∧ r.ignored = true := by
  intro rs
  induction rs with
  | nil => intro j i h; simp [firstPlain] at h
  | cons r rs ih =>
    intro j i h
    simp only [firstPlain] at h
    split at h
    · next hr =>
      obtain ⟨h1, ⟨r', h2, h3⟩, h4⟩ := ih _ _ h
      refine ⟨by omega, ⟨r', ?_, h3⟩, ?_⟩
      · have : i - j = (i - (j + 1)) + 1 := by omega
        rw [this]; simpa using h2
      · intro k hk
        cases k with
        | zero => exact ⟨r, by simp, hr⟩
        | succ k => simpa using h4 k (by omega)
    · next hr =>
      simp at h; subst h
      refine ⟨Nat.le_refl _, ⟨r, by simp, by simpa using hr⟩, ?_⟩
      intro k hk; omega

/-- **C04 (which rule is the start rule).**  The rule called `start`; in a grammar without one, the
    first rule that does not carry the `ignore` modifier - wherever the ignore declarations stand. -/
theorem C04_start_rule (rules : List RuleDef) :
    (∀ i, findStart rules 0 = some i → startOf rules = some i) ∧
    (findStart rules 0 = none → ∀ i, startOf rules = some i →
      (∃ r, rules[i]? = some r ∧ r.ignored = false) ∧ ∀ k, k < i → ∃ r, rules[k]? = some r ∧ r.ignored = true) := by
  refine ⟨fun i h => by simp [startOf, h], ?_⟩
  intro hn i h
  simp only [startOf, hn] at h
  obtain ⟨_, h2, h3⟩ := firstPlain_spec rules 0 i h
  exact ⟨by simpa using h2, fun k hk => h3 k (by omega)⟩

-- non-vacuity: `ignore Sp = " "; Main = "a"; Other = "b"` has no rule called start: `Main` it is, with the leading skip
example :
    let rules : List RuleDef := [⟨false, .str [32] false, true⟩, ⟨false, .str [97] false, false⟩, ⟨false, .str [98] false, false⟩]
    findStart rules 0 = none ∧ startOf rules = some 1 ∧ (prepare rules).start = 1 ∧
    (prepare rules).bodies[1]? = some (.discard (.ref 3) (.str [97] true) true) := by
  refine ⟨by rfl, by rfl, by rfl, by rfl⟩

/-- (b) the skip rule is `Skip(r₁, …, rₙ)` over exactly the rules declared `ignore`, in
    declaration order, wherever they were declared -/
theorem C04_ignored_rule (rules : List RuleDef) (h : ignoredIdxs rules 0 ≠ []) :
    (prepare rules).ignored = some rules.length ∧
    (prepare rules).bodies[rules.length]? = some (.skip ((ignoredIdxs rules 0).map .ref)) := by
  have : (ignoredIdxs rules 0).isEmpty = false := by cases hh : ignoredIdxs rules 0 <;> simp_all
  simp only [prepare, this, Bool.false_eq_true, ↓reduceIte]
  refine ⟨trivial, ?_⟩
  rw [setSkipList_getElem?, mapIdx_getElem?]
  have hne : startOf rules ≠ some rules.length := by
    intro heq
    have := startOf_lt rules _ heq
    omega
  simp [hne, setSkip, setSkipList_refs]

/-- (c) the leading skip sits in front of the start rule's expression … -/
theorem C04_leading_skip (rules : List RuleDef) (h : ignoredIdxs rules 0 ≠ []) (i : Nat)
    (r : RuleDef) (hs : startOf rules = some i) (hr : rules[i]? = some r) :
    (prepare rules).bodies[i]? = some (setSkip (addLeading rules.length r.body)) := by
  have : (ignoredIdxs rules 0).isEmpty = false := by cases hh : ignoredIdxs rules 0 <;> simp_all
  have hi : i < rules.length := by
    rcases Nat.lt_or_ge i rules.length with hlt | hge
    · exact hlt
    · have : rules[i]? = none := by simp; omega
      simp [this] at hr
  have hget : rules[i] = r := by simpa [List.getElem?_eq_getElem hi] using hr
  simp only [prepare, this, Bool.false_eq_true, ↓reduceIte]
  rw [setSkipList_getElem?, mapIdx_getElem?]
  simp [hs, List.getElem?_append_left, hi, hget]

/-- … and no other rule body acquires a reference to the skip rule: ignorable text is skipped
    at the start and after literals, and at no other point -/
theorem C04_no_other_skip_point (rules : List RuleDef) (h : ignoredIdxs rules 0 ≠ []) (i : Nat)
    (r : RuleDef) (hs : startOf rules ≠ some i) (hr : rules[i]? = some r)
    (hrefs : RefsBelow rules.length r.body = true) :
    ∃ b, (prepare rules).bodies[i]? = some b ∧ RefsBelow rules.length b = true := by
  have : (ignoredIdxs rules 0).isEmpty = false := by cases hh : ignoredIdxs rules 0 <;> simp_all
  have hi : i < rules.length := by
    rcases Nat.lt_or_ge i rules.length with hlt | hge
    · exact hlt
    · have : rules[i]? = none := by simp; omega
      simp [this] at hr
  refine ⟨setSkip r.body, ?_, by rw [refsBelow_setSkip]; exact hrefs⟩
  have hget : rules[i] = r := by simpa [List.getElem?_eq_getElem hi] using hr
  simp only [prepare, this, Bool.false_eq_true, ↓reduceIte]
  rw [setSkipList_getElem?, mapIdx_getElem?]
  simp [hs, List.getElem?_append_left, hi, hget]

/-- (d) a literal of a prepared grammar: the literal, then the skip rule; what was skipped never
    shows up in the value -/
theorem C04_literal_then_skip (P : Program) (inp : List Nat) (fuel : Nat) (s : List Nat)
    (p k : Nat) (v : Val) (p' : Nat) (hne : s.isEmpty = false) (hm : matchAt inp p s = true)
    (hk : P.ignored = some k)
    (hs : peg P inp fuel (.ref k) (p + s.length) = some (.ok v p')) :
    peg P inp (fuel + 1) (.str s true) p = some (.ok (P.lit s) p') := by
  simp [peg, hne, hm, pegSkipTo, hk, hs]

/-- (e) the skip rule consumes a *maximal* run: where it stops, no ignored pattern matches -/
theorem C04_skip_maximal (run : PRun) (xs : List Expr) :
    ∀ fuel p v p', pegSkipLoop run xs fuel p = some (.ok v p') →
    v = .none ∧ pegSkipAlts run p' xs = some none := by
  intro fuel
  induction fuel with
  | zero => intro p v p' h; simp [pegSkipLoop] at h
  | succ n ih =>
    intro p v p' h
    unfold pegSkipLoop at h
    split at h
    · simp at h
    · exact ih _ _ _ h
    · rename_i ha; simp at h; obtain ⟨h1, h2⟩ := h; subst h1 h2; exact ⟨rfl, ha⟩

/-- **C04, last clause.**  For grammars whose tokens can neither match nor look at ignorable text and
    that do not look behind, lengthening a run of ignorable text changes no parsed value.  Stated
    for one step of lengthening - doubling one character `w` of the input (`one pre w post` ↦
    `dbl pre w post`), longer runs follow by repetition: from the corresponding position
    (`ins pre.length`: everything behind the doubled character moves by one) every expression has
    the corresponding outcome - defined together, the same success or failure, the same value with
    spans and end position moved.  Hypotheses, all explicit: the ignore rule is `Skip` over regular
    expressions whose matches on the two inputs end at corresponding positions (`IgnoreAlts`);
    string and byte literals do not contain `w`; token regular expressions neither match nor look
    at it (`RxStable`: same matches, same matched text); no `Backtrack` (`tokensOk`). -/
theorem C04_lengthening (P : Program) (pre : List Nat) (w : Nat) (post : List Nat)
    (okR : Nat → Bool) (ign : Nat) (xs : List Expr)
    (hign : P.ignored = none ∨ P.ignored = some ign)
    (hbody : P.rules[ign]? = some (.skip xs))
    (halts : IgnoreAlts P (one pre w post) (dbl pre w post) (ins pre.length) xs)
    (hrx : ∀ rx, okR rx = true → RxStable P (one pre w post) (dbl pre w post) (ins pre.length) rx)
    (hP : ∀ k body, k ≠ ign → P.rules[k]? = some body → tokensOk (litAvoids w) okR (· != w) body = true)
    (fuel : Nat) (e : Expr) (q : Nat) (he : tokensOk (litAvoids w) okR (· != w) e = true) :
    peg P (dbl pre w post) fuel e (ins pre.length q) =
      (peg P (one pre w post) fuel e q).map (mapRes (ins pre.length)) :=
  peg_lengthen P pre w post okR ign xs hign hbody halts hrx hP fuel e q he

/-- the general form behind it (and behind the shift law of C08): re-indexing by any strictly
    monotone position map under which the tokens are stable -/
theorem C04_reindexing (P : Program) (inp inp' : List Nat) (φ : Nat → Nat)
    (okS : List Nat → Bool) (okR okB : Nat → Bool) (ign : Nat)
    (hst : Stable P inp inp' φ okS okR okB ign)
    (hP : ∀ k body, k ≠ ign → P.rules[k]? = some body → tokensOk okS okR okB body = true)
    (fuel : Nat) (e : Expr) (q : Nat) (he : tokensOk okS okR okB e = true) :
    peg P inp' fuel e (φ q) = (peg P inp fuel e q).map (mapRes φ) :=
  peg_reindex P inp inp' φ okS okR okB ign hst hP fuel e q he

namespace C04Example
/-- `ignore / +/` (regex 0 is `blanksEnd`: the end of a run of blanks), `start = "a" "b"` with skipping
    after each literal; rule 0 is the ignore rule, rule 1 the start rule -/
def prog : Program :=
  { rules := [.skip [.regex 0 false], .seq [.str [97] true, .str [98] true]], ignored := some 0,
    matcher := fun _ inp p => blanksEnd inp p, bytesMode := false }
end C04Example

/-- non-vacuity of ALL hypotheses of `C04_lengthening` at once: for the program `ignore / +/`,
    `start = "a" "b"`, every input, every blank in it and every amount of fuel, doubling that blank
    gives the corresponding outcome. -/
theorem C04_lengthening_instance (pre post : List Nat) (fuel q : Nat) :
    peg C04Example.prog (dbl pre 32 post) fuel (.ref 1) (ins pre.length q) =
      (peg C04Example.prog (one pre 32 post) fuel (.ref 1) q).map (mapRes (ins pre.length)) := by
  refine C04_lengthening C04Example.prog pre 32 post (fun _ => false) 0 [.regex 0 false]
    (Or.inr rfl) rfl ?_ (fun rx h => by simp at h) ?_ fuel (.ref 1) q (by decide)
  · intro x hx
    simp only [List.mem_singleton] at hx
    exact ⟨0, hx, fun p => blanksEnd_dbl pre post p⟩
  · intro k body hk hb
    match k, hk, hb with
    | 0, hk, _ => exact absurd rfl hk
    | 1, _, hb =>
      simp [C04Example.prog] at hb
      subst hb
      decide
    | k + 2, _, hb => simp [C04Example.prog] at hb

-- non-vacuity of the conclusion: `a␣b` and `a␣␣b` (the blank at index 1 doubled) give the same value,
-- end position 3 ↦ 4
example :
    peg C04Example.prog (one [97] 32 [98]) 12 (.ref 1) 0 = some (.ok (.list [.str [97], .str [98]]) 3) ∧
    peg C04Example.prog (dbl [97] 32 [98]) 12 (.ref 1) (ins 1 0) = some (.ok (.list [.str [97], .str [98]]) 4) ∧
    mapRes (ins 1) (.ok (.list [.str [97], .str [98]]) 3) = .ok (.list [.str [97], .str [98]]) 4 ∧
    tokensOk (litAvoids 32) (fun _ => false) (· != 32) (.seq [.str [97] true, .str [98] true]) = true := by
  refine ⟨by rfl, by rfl, by rfl, by decide⟩

-- non-vacuity: `ignore " "+` / `start = "a" "b"`, prepared, on `" a  b "`
def exRules : List RuleDef :=
  [⟨false, .list (.str [32] false) 1 none, true⟩,
   ⟨true, .seq [.str [97] false, .str [98] false], false⟩]
example : ignoredIdxs exRules 0 ≠ [] := by decide
example : findStart exRules 0 = some 1 := by decide
example :
    let Q := prepare exRules
    peg ⟨Q.bodies, Q.ignored, fun _ _ _ => none, false⟩ [32, 97, 32, 32, 98, 32] 40 (.ref Q.start) 0
      = some (.ok (.list [.str [97], .str [98]]) 6) := by rfl

/-! ## C07 – packrat guarantee of the `_run` trampoline -/

section C07
open Run
variable {K R : Type} [DecidableEq K]

/-- the trampoline with its memo returns exactly what direct recursive evaluation of the rule
    bodies returns (and it terminates whenever that evaluation does) -/
theorem C07_memo_transparent (body : K → Prog K R) (n : Nat) (k0 : K) (r : R)
    (h : eval body n k0 = some r) :
    ∃ j, (steps body j (init body k0)).stack = [] ∧
         (steps body j (init body k0)).pending = some r := by
  obtain ⟨j, m', st', hj, _⟩ := run_key body n k0 r h [] (fun _ => none) [k0] (fun _ _ hm => by simp at hm)
  exact ⟨j, by simp [init, hj], by simp [init, hj]⟩

/-- a rule body is started only on a memo miss (no hypothesis on the grammar) -/
theorem C07_started_only_on_miss (body : K → Prog K R) (s s' : State K R)
    (h : step body s = some s') :
    s'.starts = s.starts ∨ ∃ k, s'.starts = k :: s.starts ∧ s.memo k = none := by
  unfold step at h
  split at h
  · simp at h
  · split at h
    · simp at h
    · simp at h; subst h; exact Or.inl rfl
    · split at h
      · simp at h; subst h; exact Or.inl rfl
      · rename_i hm
        simp at h; subst h; exact Or.inr ⟨_, rfl, hm⟩

/-- a later reference to a completed key receives the stored outcome itself, and nothing is
    evaluated for it -/
theorem C07_hit_returns_stored (body : K → Prog K R) (s : State K R) (key : K) (g : Gtor K R)
    (rest : List (K × Gtor K R)) (k : K) (cont : R → Prog K R) (r : R)
    (hst : s.stack = (key, g) :: rest) (hsend : send g s.pending = some (.call k cont))
    (hm : s.memo k = some r) :
    ∃ s', step body s = some s' ∧ s'.pending = some r ∧ s'.starts = s.starts ∧ s'.memo = s.memo := by
  exact ⟨{ s with stack := (key, .waiting cont) :: rest, pending := some r },
    by simp only [step, hst, hsend, hm], rfl, rfl, rfl⟩

/-- when no key is requested while it is on the stack, every (rule, position) key is started at
    most once in the whole run … -/
theorem C07_at_most_once (body : K → Prog K R) (k0 : K) (hre : NoReentry body k0) (j : Nat) :
    (steps body j (init body k0)).starts.Nodup :=
  (inv_reachable body k0 hre j).starts_nodup

/-- … hence the number of rule-body evaluations is bounded by the number of possible keys
    (`rules × (len + 1)` when positions stay inside the input) -/
theorem C07_evaluation_bound (body : K → Prog K R) (k0 : K) (hre : NoReentry body k0)
    (U : List K) (j : Nat) (hU : ∀ k ∈ (steps body j (init body k0)).starts, k ∈ U) :
    (steps body j (init body k0)).starts.length ≤ U.length :=
  nodup_length_le _ _ (C07_at_most_once body k0 hre j) hU

/-- … and a memo entry, once written, is never overwritten -/
theorem C07_memo_write_once (body : K → Prog K R) (s s' : State K R) (hi : Inv s)
    (hs : step body s = some s') (k : K) (r : R) (hm : s.memo k = some r) :
    s'.memo k = some r := by
  unfold step at hs
  split at hs
  · simp at hs
  · rename_i key g rest hst
    split at hs
    · simp at hs
    · simp at hs; subst hs
      have hne : k ≠ key := by
        intro heq; subst heq
        have := hi.keys_not_memo k (by simp [keys, hst])
        simp [this] at hm
      simp [update, hne, hm]
    · split at hs <;> (simp at hs; subst hs; exact hm)

-- non-vacuity: rule 0 refers to rule 1 twice; the second reference is a memo hit
def exBody : Nat → Prog Nat Nat
  | 0 => .call 1 (fun a => .call 1 (fun b => .ret (a + b)))
  | _ => .ret 5
example : eval exBody 2 0 = some 10 := by rfl
example : (steps exBody 10 (init exBody 0)).starts = [1, 0] := by rfl
example : (steps exBody 10 (init exBody 0)).pending = some 10 := by rfl

end C07

/-! ## C08 – exactly three outcomes, fixed by the entry rule's match -/

mutual
theorem finalize_of_spansLe (len : Nat) : ∀ v : Val, spansLe len v = true → ∃ v', finalize len v = some v'
  | .none, _ => ⟨_, rfl⟩
  | .bool _, _ => ⟨_, rfl⟩
  | .int _, _ => ⟨_, rfl⟩
  | .str _, _ => ⟨_, rfl⟩
  | .bytes _, _ => ⟨_, rfl⟩
  | .err, _ => ⟨_, rfl⟩
  | .list xs, h => by
    obtain ⟨xs', hx⟩ := finalizeList_of_spansLe len xs (by simpa [spansLe] using h)
    exact ⟨.list xs', by simp [finalize, hx]⟩
  | .tuple xs, h => by
    obtain ⟨xs', hx⟩ := finalizeList_of_spansLe len xs (by simpa [spansLe] using h)
    exact ⟨.tuple xs', by simp [finalize, hx]⟩
  | .obj c fs sp, h => by
    simp only [spansLe, Bool.and_eq_true] at h
    obtain ⟨fs', hf⟩ := finalizeFields_of_spansLe len fs h.2
    cases sp with
    | none => exact ⟨.obj c fs' none, by simp [finalize, hf]⟩
    | some se =>
      obtain ⟨s, e⟩ := se
      have hse := h.1
      simp only [Bool.and_eq_true, decide_eq_true_eq] at hse
      have : finalizeSpan len s e = some (s, max (e - 1) s) := by
        unfold finalizeSpan
        have : s ≤ len ∧ max (e - 1) s ≤ len := ⟨hse.1, by omega⟩
        simp [this]
      exact ⟨.obj c fs' (some (s, max (e - 1) s)), by simp [finalize, hf, this]⟩
theorem finalizeList_of_spansLe (len : Nat) : ∀ xs : List Val, spansLeList len xs = true →
    ∃ xs', finalizeList len xs = some xs'
  | [], _ => ⟨[], rfl⟩
  | x :: xs, h => by
    simp only [spansLeList, Bool.and_eq_true] at h
    obtain ⟨x', hx⟩ := finalize_of_spansLe len x h.1
    obtain ⟨xs', hxs⟩ := finalizeList_of_spansLe len xs h.2
    exact ⟨x' :: xs', by simp [finalizeList, hx, hxs]⟩
theorem finalizeFields_of_spansLe (len : Nat) : ∀ fs : List (String × Val), spansLeFields len fs = true →
    ∃ fs', finalizeFields len fs = some fs'
  | [], _ => ⟨[], rfl⟩
  | f :: fs, h => by
    simp only [spansLeFields, Bool.and_eq_true] at h
    obtain ⟨v', hv⟩ := finalize_of_spansLe len f.2 h.1
    obtain ⟨fs', hfs⟩ := finalizeFields_of_spansLe len fs h.2
    exact ⟨(f.1, v') :: fs', by simp [finalizeFields, hv, hfs]⟩
end

/-- **C08.**  When the entry expression matches from `pos` up to `p'` with value `v`, `parse`
    returns the (finalised) value if `fullparse` is false or the match reaches the end of the input,
    and raises `PartialParseError(value, p')` otherwise; no `IndexError` escapes.  Holds for every
    program (lookahead and `Backtrack` included), every input, every start offset inside it. -/
theorem C08_match_outcome {F : FlagTable} (hF : LocallySound F) (P : Program) (inp : List Nat)
    (hm : MatcherBounded P) (fuel : Nat) (e : Expr) (pos : Nat) (hpos : pos ≤ inp.length)
    (fullparse : Bool) (v : Val) (p' : Nat) (h : peg P inp fuel e pos = some (.ok v p')) :
    ∃ r v', gen F P inp fuel e pos = some r ∧ finalize inp.length v = some v' ∧
      parseApi inp.length fullparse r =
        (if fullparse && decide (p' < inp.length) then .partialParse v' p' else .value v') := by
  obtain ⟨r, hg, h1, h2, h3⟩ := gen_refines hF P inp fuel e pos _ h
  have hb := peg_bounded P inp hm fuel e pos v p' h hpos
  obtain ⟨v', hv'⟩ := finalize_of_spansLe inp.length v hb.2
  have hmax : max inp.length p' = inp.length := Nat.max_eq_left hb.1
  exact ⟨r, v', hg, hv', by simp [parseApi, h1, h2, h3, hmax, hv']⟩

/-- **C08.**  When the entry expression does not match, `parse` raises `ParseError`, at an index
    inside the input (and not before `pos` when the grammar does not use `Backtrack`). -/
theorem C08_failure_outcome {F : FlagTable} (hF : LocallySound F) (P : Program) (inp : List Nat)
    (hm : MatcherBounded P) (hP : RulesNoBt P) (fuel : Nat) (e : Expr) (pos : Nat)
    (hpos : pos ≤ inp.length) (fullparse : Bool) (h : peg P inp fuel e pos = some .fail) :
    ∃ r, gen F P inp fuel e pos = some r ∧ parseApi inp.length fullparse r = .parseError r.pos ∧
      r.pos ≤ inp.length ∧ (NoBt e = true → pos ≤ r.pos) := by
  obtain ⟨r, hg, hst⟩ := gen_refines hF P inp fuel e pos _ h
  have hst' : r.status = false := hst
  have := gen_pos (F := F) P inp hm hP fuel e pos r hg
  exact ⟨r, hg, by simp [parseApi, hst'], this.1 hpos, this.2⟩

-- non-vacuity: `A = "a" >> "b"` on `abx` with fullparse → partial at 2; on `aa` → error at 1
example : peg exP [97, 98, 120] 4 (.ref 0) 0 = some (.ok (.str [98]) 2) := by rfl
example : parseApi 3 true ⟨true, .str [98], 2⟩ = .partialParse (.str [98]) 2 := by rfl

/-! ## C09 – index range of reported positions (see Tie/Excerpt.lean for the excerpt theorems) -/

/-- every position the code model reports - on failure or on success - lies inside the input,
    and without `Backtrack` never before the start offset -/
theorem C09_index_range {F : FlagTable} (P : Program) (inp : List Nat) (hm : MatcherBounded P)
    (hP : RulesNoBt P) (fuel : Nat) (e : Expr) (pos : Nat) (r : Reg)
    (h : gen F P inp fuel e pos = some r) :
    (pos ≤ inp.length → r.pos ≤ inp.length) ∧ (NoBt e = true → pos ≤ r.pos) :=
  gen_pos P inp hm hP fuel e pos r h

/-! ## C10 – spans of class instances -/

/-- a class instance carries exactly the raw span `(position where its match began, position
    where it ended)`; finalised, its end is the last consumed offset -/
theorem C10_span_exact (P : Program) (inp : List Nat) (fuel : Nat) (name : String) (xs : List Expr)
    (keep : List (Option String)) (p p' : Nat) (v : Val)
    (h : peg P inp (fuel + 1) (.cls name xs keep) p = some (.ok v p')) :
    ∃ fs, v = .obj name fs (some (p, p')) := by
  simp only [peg] at h
  have : ∀ (xs : List Expr) (ks : List (Option String)) (q : Nat) (acc : List (String × Val)),
      pegCls (peg P inp fuel) name p xs ks q acc = some (.ok v p') → ∃ fs, v = .obj name fs (some (p, p')) := by
    intro xs
    induction xs with
    | nil => intro ks q acc h; simp [pegCls] at h; obtain ⟨h1, h2⟩ := h; subst h1 h2; exact ⟨_, rfl⟩
    | cons e es ih =>
      intro ks q acc h
      unfold pegCls at h
      split at h
      · simp at h
      · simp at h
      · exact ih _ _ _ h
  exact this xs keep p [] h

theorem C10_finalized_end (len s e : Nat) (hs : s < e) (he : e ≤ len) :
    finalizeSpan len s e = some (s, e - 1) := by
  unfold finalizeSpan
  have h1 : max (e - 1) s = e - 1 := by omega
  have h2 : s ≤ len ∧ e - 1 ≤ len := by omega
  simp [h1, h2]

/-- spans of nested instances lie inside the span of the value that contains them (no
    value-producing lookahead, no `Backtrack`) -/
theorem C10_nested (P : Program) (inp : List Nat) (hm : MatcherBounded P) (hP : RulesNoLook P)
    (fuel : Nat) (e : Expr) (p p' : Nat) (v : Val) (h : peg P inp fuel e p = some (.ok v p'))
    (hnl : NoLook e = true) : p ≤ p' ∧ spansIn p p' v = true :=
  peg_spans P inp hm hP fuel e p v p' h hnl

/-- values of successive sequence members occupy successive, non-overlapping intervals, in input
    order -/
theorem C10_ordered_seq (P : Program) (inp : List Nat) (hm : MatcherBounded P) (hP : RulesNoLook P)
    (fuel : Nat) (xs : List Expr) (p p' : Nat) (v : Val)
    (h : peg P inp (fuel + 1) (.seq xs) p = some (.ok v p')) (hnl : NoLookList xs = true) :
    ∃ vs, v = .list vs ∧ Chain p p' vs := by
  simp only [peg] at h
  exact pegSeq_spans (peg_spans P inp hm hP fuel) p xs p [] v p' h hnl (Nat.le_refl _)

/-- … and so do successive elements of a repetition -/
theorem C10_ordered_list (P : Program) (inp : List Nat) (hm : MatcherBounded P) (hP : RulesNoLook P)
    (fuel : Nat) (x : Expr) (min : Nat) (extra : Option Nat) (p p' : Nat) (v : Val)
    (h : peg P inp (fuel + 1) (.list x min extra) p = some (.ok v p')) (hnl : NoLook x = true) :
    ∃ vs, v = .list vs ∧ Chain p p' vs := by
  simp only [peg, pegList] at h
  split at h
  · simp at h; obtain ⟨h1, h2⟩ := h; subst h1 h2; exact ⟨[], rfl, Nat.le_refl _⟩
  · split at h
    · simp at h
    · rename_i acc q hloop
      have hc := pegListLoop_spans (peg_spans P inp hm hP fuel) x _ hnl p _ _ _ _ _ hloop (Nat.le_refl _)
      split at h
      · simp at h; obtain ⟨h1, h2⟩ := h; subst h1 h2; exact ⟨_, rfl, hc⟩
      · simp at h

-- non-vacuity: a class with two members on `ab`
example : peg exP [97, 98] 4 (.cls "C" [.str [97] false, .str [98] false] [some "x", some "y"]) 0
    = some (.ok (.obj "C" [("x", .str [97]), ("y", .str [98])] (some (0, 2))) 2) := by rfl

/-! ## C14 – parsed objects are values -/

section C14
open Obj

/-- `==` on result trees is an equivalence relation -/
theorem C14_eq_equivalence :
    (∀ a : PV, peq a a = true) ∧ (∀ a b : PV, peq a b = true → peq b a = true) ∧
    (∀ a b c : PV, peq a b = true → peq b c = true → peq a c = true) :=
  ⟨peq_refl, peq_symm, peq_trans⟩

/-- two objects are equal exactly when they have the same class and pairwise equal fields;
    position metadata (and identity) play no role -/
theorem C14_eq_iff_same_class_and_fields (c d : Nat) (xs ys : List PV) (m m' : Option (Nat × Nat)) :
    peq (.obj c xs m) (.obj d ys m') = (c == d && peqList xs ys) := by simp [peq]

/-- an object never equals a scalar, a list, a tuple or a dict -/
theorem C14_obj_ne_other (c : Nat) (xs : List PV) (m : Option (Nat × Nat)) (b : PV)
    (h : ∀ d ys m', b ≠ .obj d ys m') : peq (.obj c xs m) b = false ∧ peq b (.obj c xs m) = false := by
  cases b <;> simp_all [peq]

/-- equal objects have equal hashes, whatever their fields hold (for any builtin hash functions
    in which a tuple's hash is a function of its elements' hashes) -/
theorem C14_eq_implies_hash_eq (hf : HashFns) (a b : PV) (h : peq a b = true) : H hf a = H hf b :=
  H_congr hf a b h

/-- `_asdict()` lists the fields in declaration order -/
theorem C14_asdict_order (names : List String) (fs : List PV) (h : names.length = fs.length) :
    (asdict names fs).map (·.1) = names ∧ (asdict names fs).map (·.2) = fs := by
  unfold asdict
  constructor
  · rw [List.map_fst_zip]; omega
  · rw [List.map_snd_zip]; omega

/-- `_replace(**kw)` yields an object of the same class with the same metadata whose fields are
    the given ones where given and the old ones elsewhere -/
theorem C14_replace (c : Nat) (fs : List PV) (m : Option (Nat × Nat)) (kw : Nat → Option PV) :
    ∃ fs', replace (.obj c fs m) kw = .obj c fs' m ∧ fs'.length = fs.length ∧
      ∀ j, j < fs.length → fs'[j]? = (kw j).orElse (fun _ => fs[j]?) := by
  refine ⟨replaceFields fs 0 kw, rfl, replaceFields_length fs 0 kw, ?_⟩
  intro j hj
  have := replaceFields_get fs 0 kw j hj
  simpa using this

-- non-vacuity: two equal-but-not-identical trees with a list, a dict and a nested object inside
example : peq (.obj 1 [.int 1, .list [.str [97], .dict [(.str [98], .bool true)]], .obj 2 [.none] (some (0, 1))] none)
              (.obj 1 [.bool true, .list [.str [97], .dict [(.str [98], .int 1)]], .obj 2 [.none] (some (5, 9))] (some (3, 4)))
    = true := by rfl

end C14

/-! ## C15 – visit and traverse -/

section C15
open Walk

/-- `visit` (the explicit-stack loop) yields exactly the recursive depth-first pre-order of the
    parsed objects, a shared object only where it is met first – for arbitrary sharing -/
theorem C15_visit_eq_first_occurrence_preorder (t : T) : visit t = (dfs t []).1 :=
  visit_eq_dfs t

/-- no object is yielded twice, and only reachable parsed objects are yielded -/
theorem C15_visit_at_most_once (t : T) : (visit t).Nodup ∧ ∀ y ∈ visit t, y ∈ objIds t := by
  rw [visit_eq_dfs]
  exact ⟨(dfs_good t []).nodup, (dfs_good t []).only⟩

/-- without sharing (no identity of an object or of a container – list, tuple, dict – occurs
    twice; `nodeIds` lists these identities), `visit` yields every reachable parsed object exactly
    once, parents before children and siblings left to right (`objIds` is that order by
    definition).  With sharing this fails by design: what lies below a container or object met
    before is not walked again. -/
theorem C15_visit_complete (t : T) (h : (nodeIds t).Nodup) : visit t = objIds t := by
  rw [visit_eq_dfs]
  exact dfs_complete t [] h (by simp)

/-- `traverse` (the explicit-stack loop) emits exactly the events of the recursive specification:
    one entering and one finished event per root / field / element / entry occurrence, nested
    depth first and left to right, equal or identical leaves included; a shared container or
    object is expanded only where it is met first -/
theorem C15_traverse_events (t : T) : traverse t = (walk none none t []).1 :=
  traverse_eq_walk t

/-- every occurrence contributes its entering event first and its finished event last -/
theorem C15_traverse_brackets (p f : Option Nat) (t : T) (V : List Nat) :
    ∃ mid, (walk p f t V).1 = ⟨p, f, t.id, false⟩ :: mid ++ [⟨p, f, t.id, true⟩] := by
  obtain ⟨k, id, cs⟩ := t
  simp only [walk, T.id]
  split
  · exact ⟨[], rfl⟩
  · split
    · exact ⟨[], rfl⟩
    · exact ⟨_, rfl⟩

-- non-vacuity: an object with a repeated identical leaf (id 1) and a shared child object (id 7)
def exT : T :=
  .mk .obj 5 [(0, .mk .leaf 1 []), (1, .mk .obj 7 [(0, .mk .leaf 1 [])]),
              (2, .mk .list 9 [(0, .mk .obj 7 [(0, .mk .leaf 1 [])]), (1, .mk .leaf 1 [])])]
example : visit exT = [5, 7] := by rfl
example : (traverse exT).length = 14 := by rfl

-- a shared container met twice: both fields of the root hold the same list (id 9) with one object
-- (id 7); the list is expanded only where it is met first, the object is yielded once; here the
-- list of reachable objects has a repetition and the hypothesis of `C15_visit_complete` fails
def exShared : T :=
  .mk .obj 5 [(0, .mk .list 9 [(0, .mk .obj 7 [])]), (1, .mk .list 9 [(0, .mk .obj 7 [])])]
example : visit exShared = [5, 7] := by rfl
example : objIds exShared = [5, 7, 7] ∧ nodeIds exShared = [5, 9, 7, 9, 7] := by decide

end C15

/-! ## C16 – transform -/

section C16
open Tr

/-- every object occurrence reachable through fields and lists is passed to every callback
    exactly once -/
theorem C16_once_per_node (cbs : List Cb) (v : V) :
    (tr cbs v).2.2.length = cbs.length * objCount v := tr_log_length cbs v

/-- children before parents, siblings left to right: the first callback sees the occurrences in
    post-order (each one already rebuilt from its transformed children, by definition of `tr`) -/
theorem C16_bottom_up (f : Cb) (fs : List Cb) (v : V) :
    firstTags (tr (f :: fs) v).2.2 = postTags v := tr_order f fs v

/-- with callbacks that return their argument, the result equals the input -/
theorem C16_identity (cbs : List Cb) (h : AllId cbs) (v : V) : (transform cbs v).1 = v := by
  unfold transform
  split
  · rfl
  · exact tr_id cbs h v

/-- a replacement object without metadata of its own carries the metadata of the node it stands
    for; one that has metadata keeps it; a non-object replacement is taken as it is -/
theorem C16_metadata (c t : Nat) (fs : List V) (pm : Option Nat) (c' t' : Nat) (fs' : List V) :
    adopt (.obj c t fs pm) (.obj c' t' fs' none) = .obj c' t' fs' pm ∧
    (∀ m, adopt (.obj c t fs pm) (.obj c' t' fs' (some m)) = .obj c' t' fs' (some m)) ∧
    (∀ k, adopt (.obj c t fs pm) (.leaf k) = .leaf k) := by
  refine ⟨rfl, fun m => rfl, fun k => rfl⟩

/-- a copy made because a child changed keeps class, tag and position metadata of the node -/
theorem C16_copy_keeps_metadata (cbs : List Cb) (h : AllId cbs) (c t : Nat) (fs : List V) (pm : Option Nat) :
    (tr cbs (.obj c t fs pm)).1 = .obj c t (trList cbs fs).1 pm := by
  simp only [tr]
  exact (applyCbs_id cbs 0 _ h).1

/-- leaves pass through unchanged, lists are rebuilt element-wise -/
theorem C16_leaves_and_lists (cbs : List Cb) (k : Nat) (xs : List V) :
    (tr cbs (.leaf k)).1 = .leaf k ∧ (tr cbs (.list xs)).1 = .list (trList cbs xs).1 := ⟨rfl, rfl⟩

-- non-vacuity: a callback that replaces class 2 by a metadata-less object of class 3
def exCb : Cb := fun v => match v with
  | .obj 2 t fs _ => some (.obj 3 t fs none)
  | _ => none
example : (transform [exCb] (.obj 1 10 [.list [.obj 2 11 [.leaf 5] (some 7)]] (some 4))).1
    = .obj 1 10 [.list [.obj 3 11 [.leaf 5] (some 7)]] (some 4) := by rfl

end C16

/-! ## C11 / C13 – context tables -/

/-- the `_Context` table as the epilogue of `generate_source_code` fills it for a module without
    parent: every rule name is bound to the module's own implementation -/
def ownCtx (names : List String) : List (String × Nat) := names.zipIdx

def ctxLookup (ctx : List (String × Nat)) (n : String) : Option Nat :=
  (ctx.find? (·.1 == n)).map (·.2)

theorem ctxLookup_zipIdx (names : List String) (n : String) (k : Nat) :
    ctxLookup (names.zipIdx k) n = (names.idxOf? n).map (· + k) := by
  induction names generalizing k with
  | nil => simp [ctxLookup, List.idxOf?]
  | cons a as ih =>
    simp only [List.zipIdx_cons, ctxLookup, List.find?_cons]
    by_cases h : a = n
    · subst h; simp [List.idxOf?, List.findIdx?_cons]
    · have hne : (a == n) = false := by simpa using h
      simp only [hne]
      have := ih (k + 1)
      simp only [ctxLookup] at this
      rw [this]
      simp [List.idxOf?, List.findIdx?_cons, hne]
      cases List.findIdx? (fun x => x == n) as <;> simp; omega

/-- **C11.**  In a named grammar every reference goes through the context table; for a module
    without parent the table is the identity: looking a rule up through it finds the rule's own
    implementation, exactly what the direct reference of an unnamed grammar denotes. -/
theorem C11_context_table_identity (names : List String) (n : String) :
    ctxLookup (ownCtx names) n = names.idxOf? n := by
  unfold ownCtx
  rw [ctxLookup_zipIdx]
  cases names.idxOf? n <;> simp

example : ctxLookup (ownCtx ["start", "A", "B"]) "A" = some 1 := by decide

section C13
open Modules

/-- **C13 (late binding).**  Every reference of a grammar module – also those inside inherited
    rules – goes through the module's context table, and that table binds each name to the nearest
    level of the `extends` chain that defines it. -/
theorem C13_late_binding (levels : List (List String)) (n : String) :
    lookup (chainCtx levels) n = nearest 0 levels n :=
  chainCtxFrom_eq_nearest levels 0 [] n (by simp)

/-- **C13 (super).**  `super.R` written at level `i` is looked up in the table of level `i + 1`
    (the parent of the module that contains the reference), hence denotes the nearest definition
    of `R` strictly above level `i` – whichever module the parse was started through. -/
theorem C13_super (levels : List (List String)) (i : Nat) (n : String) :
    lookup (chainCtx (levels.drop (i + 1))) n = nearest 0 (levels.drop (i + 1)) n :=
  C13_late_binding _ n

-- non-vacuity: C extends B extends A; R defined in A and B, S only in A, T in C
example : lookup (chainCtx [["T", "start"], ["R"], ["start", "R", "S"]]) "R" = some (1, 0) := by decide
example : lookup (chainCtx [["T", "start"], ["R"], ["start", "R", "S"]]) "S" = some (2, 2) := by decide
example : lookup (chainCtx ([["T", "start"], ["R"], ["start", "R", "S"]].drop 2)) "R" = some (0, 1) := by decide

/-- **C13 (the meaning of a chain).**  `Chain.chainProg` is the program the generated modules of a chain
    `… extends … extends …` amount to when the parse is entered through level 0: every definition is a
    rule of its own, plain references go through the entry grammar's context table (the nearest
    definition from level 0 up), `super.k` at level `l` through the parent context of the module that
    contains it (the nearest definition from level `l + 1` up).  `Chain.flatProg` is the single
    grammar the correspondence check compiles as its reference (names = nearest definitions, private
    copies for the targets of `super`).  They mean the same, for every expression written at any level. -/
theorem C13_flattening (C : Chain.Chain) (hN : 0 < C.N) (base : Program) (inp : List Nat) (l fuel : Nat)
    (e : Expr) (p : Nat) :
    peg (Chain.flatProg C base) inp fuel (rerefExpr (Chain.conv C l) e) p
      = peg (Chain.chainProg C base) inp fuel (rerefExpr (Chain.resolveRef C l) e) p :=
  Chain.flat_means_chain C hN base inp l fuel e p

/-- the rule `k` of the flattened grammar is the entry grammar's `k` -/
theorem C13_flattened_name (C : Chain.Chain) (hN : 0 < C.N) (base : Program) (inp : List Nat) (k : Nat)
    (hk : k < C.N) (fuel p : Nat) :
    peg (Chain.flatProg C base) inp fuel (.ref k) p
      = peg (Chain.chainProg C base) inp fuel (.ref (Chain.resolveRef C 0 k)) p :=
  Chain.flat_name_means_entry C hN base inp k hk fuel p

/-- The meaning of a program does not depend on how its rules are numbered, ordered or duplicated
    (used for C13; it is also what makes the context table of a named grammar - C11 - and the
    renaming of rules - C20 - harmless). -/
theorem C13_rule_numbering_is_immaterial (g : Nat → Nat) (P₁ P₂ : Program) (h : RuleSim g P₁ P₂)
    (inp : List Nat) (fuel : Nat) (e : Expr) (p : Nat) :
    peg P₂ inp fuel (rerefExpr g e) p = peg P₁ inp fuel e p :=
  peg_reref g P₁ P₂ h inp fuel e p

-- non-vacuity: A: `R = "a"`, `S = R`; B extends A: `R = "b" | super.R` (names R = 0, S = 1; N = 2); entered through B,
-- the inherited `S` reads `b` and `a`; the flattened grammar does the same
example :
    let A : Chain.Level := fun k => if k = 0 then some (.str [97] false) else if k = 1 then some (.ref 0) else none
    let B : Chain.Level := fun k => if k = 0 then some (.choice [.str [98] false, .ref 2]) else none
    let C : Chain.Chain := ⟨2, [B, A]⟩
    let base : Program := { rules := [], ignored := none, matcher := fun _ _ _ => none, bytesMode := false }
    Chain.resolveRef C 0 1 = 3 ∧ Chain.resolveRef C 0 0 = 0 ∧ Chain.resolveRef C 0 2 = 2 ∧
    peg (Chain.chainProg C base) [98] 6 (.ref 3) 0 = some (.ok (.str [98]) 1) ∧
    peg (Chain.chainProg C base) [97] 6 (.ref 3) 0 = some (.ok (.str [97]) 1) ∧
    peg (Chain.flatProg C base) [97] 6 (.ref 1) 0 = some (.ok (.str [97]) 1) := by
  refine ⟨by rfl, by rfl, by rfl, by rfl, by rfl, by rfl⟩

end C13

/-! ## C17 – semantically transparent wrappers, to any depth -/

/-- `k` layers of `[ · ]` -/
def wrapSeq : Nat → Expr → Expr
  | 0, e => e
  | k + 1, e => .seq [wrapSeq k e]

def wrapSeqVal : Nat → Val → Val
  | 0, v => v
  | k + 1, v => .list [wrapSeqVal k v]

/-- `k` layers of `( · )?` and of `Fail() | ·` -/
def wrapOpt : Nat → Expr → Expr
  | 0, e => e
  | k + 1, e => .opt (wrapOpt k e)

def wrapAlt : Nat → Expr → Expr
  | 0, e => e
  | k + 1, e => .choice [.fail, wrapAlt k e]

/-- **C17.**  Wrapping an expression in `k` nested sequences yields the `k`-fold wrapped value,
    for every `k` (specification; the code model follows by C01, whatever helper functions the
    generator splits the code into being outside this model) -/
theorem C17_nested_sequences (P : Program) (inp : List Nat) (e : Expr) (p : Nat) (v : Val) (p' : Nat) :
    ∀ (k fuel : Nat), peg P inp fuel e p = some (.ok v p') →
      peg P inp (fuel + k) (wrapSeq k e) p = some (.ok (wrapSeqVal k v) p') := by
  intro k
  induction k with
  | zero => intro fuel h; simpa [wrapSeq, wrapSeqVal] using h
  | succ k ih =>
    intro fuel h
    have := ih fuel h
    rw [show fuel + (k + 1) = (fuel + k) + 1 by omega]
    simp [wrapSeq, wrapSeqVal, peg, pegSeq, this]

theorem C17_nested_options (P : Program) (inp : List Nat) (e : Expr) (p : Nat) (v : Val) (p' : Nat) :
    ∀ (k fuel : Nat), peg P inp fuel e p = some (.ok v p') →
      peg P inp (fuel + k) (wrapOpt k e) p = some (.ok v p') := by
  intro k
  induction k with
  | zero => intro fuel h; simpa [wrapOpt] using h
  | succ k ih =>
    intro fuel h
    have := ih fuel h
    rw [show fuel + (k + 1) = (fuel + k) + 1 by omega]
    simp [wrapOpt, peg, this]

theorem C17_nested_failing_choices (P : Program) (inp : List Nat) (e : Expr) (p : Nat) (v : Val) (p' : Nat) :
    ∀ (k fuel : Nat), peg P inp fuel e p = some (.ok v p') →
      peg P inp (fuel + k) (wrapAlt k e) p = some (.ok v p') := by
  intro k
  induction k with
  | zero => intro fuel h; simpa [wrapAlt] using h
  | succ k ih =>
    intro fuel h
    have := ih fuel h
    have hpos : ∃ m, fuel + k = m + 1 := by
      cases fuel with
      | zero => simp [peg] at h
      | succ f => exact ⟨f + k, by omega⟩
    obtain ⟨m, hm⟩ := hpos
    rw [show fuel + (k + 1) = (fuel + k) + 1 by omega]
    have hfail : peg P inp (fuel + k) .fail p = some .fail := by rw [hm]; simp [peg]
    simp [wrapAlt, peg, pegChoice, hfail, this]

-- non-vacuity
example : peg exP [97] 6 (wrapSeq 3 (.str [97] false)) 0 = some (.ok (wrapSeqVal 3 (.str [97])) 1) := by rfl

/-! ## C18 – parse calls are isolated from each other -/

section C18
open Run
variable {K R : Type} [DecidableEq K]

/-- two parses in flight, each with its own per-call state (`memo`, `stack`, pending result):
    a schedule says which of them takes the next step of its `while stack:` loop -/
def interleave (bodyA bodyB : K → Prog K R) : List Bool → State K R × State K R → State K R × State K R
  | [], s => s
  | true :: sched, (a, b) => interleave bodyA bodyB sched (steps bodyA 1 a, b)
  | false :: sched, (a, b) => interleave bodyA bodyB sched (a, steps bodyB 1 b)

/-- **C18.**  Under any interleaving, each parse ends up exactly where it would running alone
    for the same number of steps: no step of one call can influence the other, because all
    state a step reads or writes belongs to the call. -/
theorem C18_interleaving (bodyA bodyB : K → Prog K R) (sched : List Bool) (a b : State K R) :
    interleave bodyA bodyB sched (a, b) =
      (steps bodyA (sched.count true) a, steps bodyB (sched.count false) b) := by
  induction sched generalizing a b with
  | nil => simp [interleave, steps]
  | cons x xs ih =>
    have hone : ∀ (body : K → Prog K R) (n : Nat) (s : State K R),
        steps body (n + 1) s = steps body n (steps body 1 s) := by
      intro body n s; rw [Nat.add_comm, steps_add]
    cases x
    · have h1 : List.count true (false :: xs) = List.count true xs := by simp
      have h2 : List.count false (false :: xs) = List.count false xs + 1 := by simp
      rw [h1, h2, hone]
      simp only [interleave, ih]
    · have h1 : List.count true (true :: xs) = List.count true xs + 1 := by simp
      have h2 : List.count false (true :: xs) = List.count false xs := by simp
      rw [h1, h2, hone]
      simp only [interleave, ih]


/-- any number of parses in flight (threads, or nested parses started from inline Python while an
    outer one is suspended): parse `i` runs `bodies i` on its own state; the schedule names the
    parse that takes the next step of its `while stack:` loop -/
def interleaveN (bodies : Nat → K → Prog K R) : List Nat → (Nat → State K R) → (Nat → State K R)
  | [], s => s
  | i :: sched, s =>
    interleaveN bodies sched (fun j => if j = i then steps (bodies i) 1 (s i) else s j)

/-- **C18 (any number of calls).**  Under any schedule over any number of parses, parse `i` is
    exactly where it would be after running alone for as many steps as the schedule gave it. -/
theorem C18_interleaving_any_number (bodies : Nat → K → Prog K R) (sched : List Nat)
    (s : Nat → State K R) (i : Nat) :
    interleaveN bodies sched s i = steps (bodies i) (sched.count i) (s i) := by
  induction sched generalizing s with
  | nil => simp [interleaveN, steps]
  | cons x xs ih =>
    simp only [interleaveN, ih]
    by_cases h : i = x
    · subst h
      simp only [↓reduceIte, List.count_cons_self]
      rw [Nat.add_comm, steps_add]
    · have hx : (x == i) = false := by simpa using fun e => h e.symm
      simp [h, List.count_cons, hx]

/-- a nested parse (started at a callback of the outer one and run to its end before the outer
    one resumes) is the schedule `outer^a ++ inner^n ++ outer^b`: the outer parse ends where
    `a + b` uninterrupted steps take it -/
theorem C18_nested_call_is_invisible (bodies : Nat → K → Prog K R) (s : Nat → State K R) (a n b : Nat) :
    interleaveN bodies (List.replicate a 0 ++ List.replicate n 1 ++ List.replicate b 0) s 0
      = steps (bodies 0) (a + b) (s 0) := by
  rw [C18_interleaving_any_number]
  simp [List.count_append, List.count_replicate]

end C18

section C18ex
open Run
-- three calls in flight on one module, stepped in an arbitrary order: each ends with its own result
example :
    let s := interleaveN (fun _ => exBody) [0, 1, 2, 1, 0, 2, 2, 0, 1, 1, 0, 2, 0, 1, 2, 0, 1, 2, 0, 1, 2, 0, 1, 2, 0, 1, 2, 0, 1, 2]
              (fun i => init exBody (if i = 2 then 1 else 0))
    (s 0).pending = some 10 ∧ (s 1).pending = some 10 ∧ (s 2).pending = (steps exBody 10 (init exBody 1)).pending := by
  refine ⟨by rfl, by rfl, by rfl⟩
end C18ex

/-! ## C19 – alternative spellings elaborate to the same expression -/

/-- operator spellings and constructor spellings elaborate to the very same expression object
    (for operands that are not bare inline Python, which the constructor forms read as option
    values – here: for every operand, because `Syn` keeps option values apart) -/
theorem C19_sugar (e a b : Syn) :
    elabSyn (.postfix e "?") = elabSyn (.call "Opt" [e] []) ∧
    elabSyn (.postfix e "*") = elabSyn (.call "List" [e] []) ∧
    elabSyn (.postfix e "+") = elabSyn (.call "Some" [e] []) ∧
    elabSyn (.infix a ">>" b) = elabSyn (.call "Right" [a, b] []) ∧
    elabSyn (.infix a "<<" b) = elabSyn (.call "Left" [a, b] []) ∧
    elabSyn (.infix a "//" b) = elabSyn (.call "Sep" [a, b] []) ∧
    elabSyn (.infix a "/?" b) = elabSyn (.call "Sep" [a, b] [("allow_trailer", .pybool true)]) ∧
    elabSyn (.listLit [a, b]) = elabSyn (.call "Seq" [a, b] []) := by
  refine ⟨?_, ?_, ?_, ?_, ?_, ?_, ?_, ?_⟩
  · cases h : elabSyn e <;> simp [elabSyn, elabSynList, h]
  · cases h : elabSyn e <;> simp [elabSyn, elabSynList, h, kwNat, mkList]
  · cases h : elabSyn e <;> simp [elabSyn, elabSynList, h]
  · cases ha : elabSyn a <;> cases hb : elabSyn b <;> simp [elabSyn, elabSynList, ha, hb]
  · cases ha : elabSyn a <;> cases hb : elabSyn b <;> simp [elabSyn, elabSynList, ha, hb]
  · cases ha : elabSyn a <;> cases hb : elabSyn b <;> simp [elabSyn, elabSynList, ha, hb, kwBool]
  · cases ha : elabSyn a <;> cases hb : elabSyn b <;> simp [elabSyn, elabSynList, ha, hb, kwBool]
  · cases ha : elabSyn a <;> cases hb : elabSyn b <;> simp [elabSyn, elabSynList, ha, hb]

/-- `e{m,n}` and `List(e, min_len=m, max_len=n)` -/
theorem C19_repeat (e : Syn) (m n : Nat) :
    elabSyn (.repeat e (some (.pynum m)) (some (.pynum n))) =
      elabSyn (.call "List" [e] [("min_len", .pynum m), ("max_len", .pynum n)]) := by
  cases h : elabSyn e <;> simp [elabSyn, elabSynList, h, uncookBound, kwNat]

/-- `a | b` and `Choice(a, b)` when neither side is itself a choice (otherwise `|` flattens,
    which changes the tree but not the meaning: see `pegChoice`) -/
theorem C19_choice (a b : Syn) (x y : Expr) (ha : elabSyn a = some x) (hb : elabSyn b = some y)
    (hx : ∀ xs, x ≠ .choice xs) (hy : ∀ ys, y ≠ .choice ys) :
    elabSyn (.infix a "|" b) = elabSyn (.call "Choice" [a, b] []) := by
  have h1 : (match x with | .choice xs => xs | z => [z]) = [x] := by
    cases x <;> first | rfl | (rename_i xs; exact absurd rfl (hx xs))
  have h2 : (match y with | .choice xs => xs | z => [z]) = [y] := by
    cases y <;> first | rfl | (rename_i ys; exact absurd rfl (hy ys))
  simp only [elabSyn, elabSynList, ha, hb, h1, h2]
  simp

-- non-vacuity
example : elabSyn (.infix (.str [97]) "/?" (.postfix (.ref 0) "+"))
    = some (.sep (.str [97] false) (.list (.ref 0) 1 none) ⟨true, true, true, false⟩) := by rfl

/-! ## C05 – bound names see the values parsed earlier; C06 – templates behave like their expansion

  `X.xpeg` gives names their documented, lexical meaning; `X.xgen` is what the generated Python
  does (one flat dictionary of locals per function call, assignments that nothing undoes, argument
  expressions moved into helper functions that receive the values of their sorted free names). -/

open X in
/-- **C05.**  On a well-scoped program in which no binder shadows a name in scope, wherever the
    lexical specification is defined the generated code computes the same outcome - in every
    later inline Python expression, `where` predicate, repetition count and argument a bound name
    denotes the value produced for it in the current attempt - and the names in scope are left as
    they were (`Agree`), whatever abandoned alternatives, repetitions and callees assigned. -/
theorem C05_flat_locals_realise_lexical_scoping (P : XProgram) (inp : List Nat) (hP : wsProgram P = true)
    (fuel : Nat) (e : XExpr) (Γ : List Name) (L : Locals) (ρ : SEnv) (p : Nat) (r : Res)
    (hws : ws Γ e = true) (hag : Agree Γ L ρ) (h : xpeg P inp fuel e ρ p = some r) :
    ∃ L', xgen P inp fuel e L p = some (r, L') ∧ Agree Γ L' ρ :=
  xgen_sim P inp (wsProgram_iff P hP) fuel e Γ L ρ p r hws hag h

open X in
/-- the same for a whole parse: the outcome of a rule -/
theorem C05_rule_outcome (P : XProgram) (inp : List Nat) (hP : wsProgram P = true) (fuel r p : Nat) (res : Res)
    (h : xpeg P inp fuel (.ref r) [] p = some res) :
    ∃ L', xgen P inp fuel (.ref r) [] p = some (res, L') := by
  obtain ⟨L', h1, _⟩ := xgen_sim P inp (wsProgram_iff P hP) fuel (.ref r) [] [] [] p res (by simp [ws]) (agree_nil _ _) h
  exact ⟨L', h1⟩

open X in
/-- what the specification says about `where`, `|>`, `<|` and class bodies (the clauses of C05):
    `e where p` is `e`'s value iff `p(value)` is truthy; `e |> f` and `f <| e` are `f(value)` (the
    operands are parsed in the order written); a class body yields an instance holding exactly the
    kept fields, in declaration order, with the values bound to them -/
theorem C05_where_apply_class (P : XProgram) (inp : List Nat) (fuel : Nat) (e f : XExpr) (ρ : SEnv)
    (p p' p'' : Nat) (v fv : Val) :
    (xpeg P inp fuel e ρ p = some (.ok v p') → xpeg P inp fuel f ρ p' = some (.ok fv p'') →
      xpeg P inp (fuel + 1) (.where_ e f) ρ p = some (if P.truthy (P.app fv v) then .ok v p'' else .fail) ∧
      xpeg P inp (fuel + 1) (.apply e f) ρ p = some (.ok (P.app fv v) p'')) ∧
    (xpeg P inp fuel f ρ p = some (.ok fv p') → xpeg P inp fuel e ρ p' = some (.ok v p'') →
      xpeg P inp (fuel + 1) (.applyL f e) ρ p = some (.ok (P.app fv v) p'')) ∧
    (∀ ctor fields vs start q, valuesS ρ fields = some vs →
      specItems (xpeg P inp fuel) ctor fields start [] ρ q = some (.ok (.obj ctor (fields.zip vs) (some (start, q))) q)) := by
  refine ⟨?_, ?_, ?_⟩
  · intro he hf
    refine ⟨?_, ?_⟩
    · simp only [xpeg, he, hf]
      split <;> rfl
    · simp [xpeg, he, hf]
  · intro hf he
    simp [xpeg, he, hf]
  · intro ctor fields vs start q hv
    simp [specItems, hv]

namespace C05Example
open X
/-- ``let xa = "a" in [let xa = "b" in `xa`, `xa`]``: the inner binder shadows the outer one -/
def shadow : XProgram :=
  { rules := [.let_ "xa" (.lit [97]) (.seq [.let_ "xa" (.lit [98]) (.py ⟨0, ["xa"]⟩), .py ⟨0, ["xa"]⟩])],
    templates := [], pyf := fun _ args => args.headD .none, app := fun _ v => v, truthy := fun _ => true }
/-- ``let xa = "a" in [let xb = "b" in `xb`, `xa`]`` -/
def noShadow : XProgram :=
  { rules := [.let_ "xa" (.lit [97]) (.seq [.let_ "xb" (.lit [98]) (.py ⟨0, ["xb"]⟩), .py ⟨0, ["xa"]⟩])],
    templates := [], pyf := fun _ args => args.headD .none, app := fun _ v => v, truthy := fun _ => true }
end C05Example

open X in
/-- **C05, known finding.**  With shadowing the property fails, in the model exactly as in the
    implementation: lexically the second `` `xa` `` is `'a'`, the generated code returns `'b'`
    (replayed against the real generator by the check). -/
theorem C05_shadowing_breaks_it :
    wsProgram C05Example.shadow = false ∧
    xpeg C05Example.shadow [97, 98] 8 (.ref 0) [] 0 = some (.ok (.list [.str [98], .str [97]]) 2) ∧
    (xgen C05Example.shadow [97, 98] 8 (.ref 0) [] 0).map (·.1) = some (.ok (.list [.str [98], .str [98]]) 2) := by
  refine ⟨by decide, by rfl, by rfl⟩

-- non-vacuity: a well-scoped program on which the specification is defined
open X in
example : wsProgram C05Example.noShadow = true ∧
    xpeg C05Example.noShadow [97, 98] 8 (.ref 0) [] 0 = some (.ok (.list [.str [98], .str [97]]) 2) := by
  refine ⟨by decide, by rfl⟩

open X in
/-- **C06.**  A template call in generated code (helper functions for the argument expressions,
    `_ParseFunction` with the captured values, a fresh frame that holds the parameters) has the
    outcome of the template's body evaluated with each parameter denoting its argument - a parsing
    expression together with the environment of the call site, parsed where and when the body uses
    the parameter; a value computed at the call site; a string literal that is both - and it leaves
    the caller's locals exactly as they were: instantiations cannot influence each other. -/
theorem C06_call_is_body_with_arguments (P : XProgram) (inp : List Nat) (hP : wsProgram P = true)
    (fuel : Nat) (t : Nat) (T : Template) (args : List (Option Name × XExpr)) (bound : List (Name × XExpr))
    (Γ : List Name) (L : Locals) (ρ ρ' : SEnv) (p : Nat) (r : Res)
    (hT : P.templates[t]? = some T) (hb : bindArgs T.params args = some bound) (hs : argsS P ρ bound = some ρ')
    (hws : ws Γ (.call t args) = true) (hag : Agree Γ L ρ)
    (h : xpeg P inp fuel T.body ρ' p = some r) :
    xgen P inp (fuel + 1) (.call t args) L p = some (r, L) := by
  have hspec : xpeg P inp (fuel + 1) (.call t args) ρ p = some r := by simp [xpeg, hT, hb, hs, h]
  obtain ⟨L', h1, _⟩ := xgen_sim P inp (wsProgram_iff P hP) (fuel + 1) (.call t args) Γ L ρ p r hws hag hspec
  have : L' = L := by
    simp only [xgen, hT, hb] at h1
    cases ha : argsI P L bound with
    | none => simp [ha] at h1
    | some Lc =>
      simp only [ha] at h1
      cases hr : xgen P inp fuel T.body Lc p with
      | none => simp [hr] at h1
      | some rl =>
        simp [hr] at h1
        exact h1.2.symm
  rw [this] at h1
  exact h1

open X in
/-- keyword arguments bind by name, positional ones in order: the frame of the callee holds
    exactly the parameters, in declaration order, each bound to one of the call's arguments -/
theorem C06_arguments_bind_parameters {α : Type} (params : List Name) (args : List (Option Name × α))
    (bound : List (Name × α)) (h : bindArgs params args = some bound) :
    bound.map (·.1) = params ∧ ∀ xa, xa ∈ bound → ∃ k, (k, xa.2) ∈ args :=
  ⟨bindArgs_keys params args bound h, bindArgs_mem params args bound h⟩

namespace C06Example
open X
/-- `start = let xa = /[a-c]/ in T0(pa = (/[a-c]/ where `lambda v: v != xa`))`, `T0(pa) = [pa, pa?]` -/
def prog : XProgram :=
  { rules := [.let_ "xa" (.cc 97 99) (.call 0 [(some "pa", .where_ (.cc 97 99) (.py ⟨0, ["xa"]⟩))])],
    templates := [{ params := ["pa"], body := .seq [.pvar "pa", .opt (.pvar "pa")] }],
    -- `lambda v: v != xa` as a value: the captured `xa`; calling it compares
    pyf := fun _ args => args.headD .none,
    app := fun f v => match f, v with
      | .str a, .str b => .bool (a != b)
      | _, _ => .none,
    truthy := fun v => match v with | .bool b => b | _ => false }
end C06Example

-- non-vacuity: the argument mentions a name bound at the call site and is parsed twice by the body
open X in
example : wsProgram C06Example.prog = true ∧
    xpeg C06Example.prog [97, 98, 97] 12 (.ref 0) [] 0 = some (.ok (.list [.str [98], .none]) 2) ∧
    (xgen C06Example.prog [97, 98, 97] 12 (.ref 0) [] 0).map (·.1) = some (.ok (.list [.str [98], .none]) 2) := by
  refine ⟨by decide, by rfl, by rfl⟩

open X in
/-- **C06, the textual reading (closed arguments).**  If a call `T(args)` has an outcome, then the
    body of `T` with every parameter replaced by the corresponding argument expression (`subst`:
    binders of the same name end the replacement) has the same outcome, in any environment and
    with any larger amount of fuel.  Arguments here are closed parsing expressions or string
    literals; for arguments that mention call-site names the semantic statement is
    `C06_call_is_body_with_arguments`. -/
theorem C06_call_means_its_expansion_closed_arguments (P : XProgram) (inp : List Nat) (hP : wsProgram P = true)
    (t : Nat) (T : Template) (args : List (Option Name × XExpr)) (bound : List (Name × XExpr))
    (hT : P.templates[t]? = some T) (hb : bindArgs T.params args = some bound)
    (hclosed : closedArgs bound = true) (hpy : pyAvoids bound T.body = true)
    (n n' : Nat) (hn : n ≤ n') (ρ ρ₂ : SEnv) (p : Nat) (r : Res)
    (h : xpeg P inp n (.call t args) ρ p = some r) : xpeg P inp n' (subst bound T.body) ρ₂ p = some r :=
  call_means_expansion P inp (wsProgram_iff P hP) t T args bound hT hb hclosed hpy n n' hn ρ ρ₂ p r h

open X in
/-- the meaning of a rule does not depend on the amount of fuel once it is defined -/
theorem C06_more_fuel_same_outcome (P : XProgram) (inp : List Nat) (hP : wsProgram P = true) (n n' : Nat)
    (hn : n ≤ n') (k p : Nat) (r : Res) (h : xpeg P inp n (.ref k) [] p = some r) :
    xpeg P inp n' (.ref k) [] p = some r :=
  xpeg_rule_fuel_mono P inp (wsProgram_iff P hP) n n' hn k p r h

namespace C06Example
open X
/-- `start = T0(/[a-c]/ "b")` (a sequence as argument), `T0(pa) = [pa, pa?]` -/
def closedProg : XProgram :=
  { rules := [.call 0 [(none, .seq [.cc 97 99, .lit [98]])]],
    templates := [{ params := ["pa"], body := .seq [.pvar "pa", .opt (.pvar "pa")] }],
    pyf := fun _ _ => .none, app := fun _ v => v, truthy := fun _ => true }
end C06Example

-- non-vacuity: the hypotheses hold, the call is defined, and the expansion `[[/[a-c]/,"b"], [/[a-c]/,"b"]?]` agrees
open X in
example : wsProgram C06Example.closedProg = true ∧
    closedArgs [("pa", XExpr.seq [.cc 97 99, .lit [98]])] = true ∧
    pyAvoids [("pa", XExpr.seq [.cc 97 99, .lit [98]])] (.seq [.pvar "pa", .opt (.pvar "pa")]) = true ∧
    xpeg C06Example.closedProg [97, 98, 99, 98] 10 (.call 0 [(none, .seq [.cc 97 99, .lit [98]])]) [] 0 =
      some (.ok (.list [.list [.str [97], .str [98]], .list [.str [99], .str [98]]]) 4) ∧
    xpeg C06Example.closedProg [97, 98, 99, 98] 10
      (subst [("pa", XExpr.seq [.cc 97 99, .lit [98]])] (.seq [.pvar "pa", .opt (.pvar "pa")])) [] 0 =
      some (.ok (.list [.list [.str [97], .str [98]], .list [.str [99], .str [98]]]) 4) := by
  refine ⟨by decide, by decide, by decide, by rfl, by rfl⟩

/-! ## C08 – the shift law; C20 – renaming -/

/-- **C08, last clause.**  For grammars without lookbehind, and a regex matcher that is itself
    shift-invariant (no anchors), parsing `pre ++ text` from `pre.length + p` is parsing `text`
    from `p` with every reported position - the end position and the spans of all objects in the
    value - moved by `pre.length`; both sides are defined together.  Operator tables included. -/
theorem C08_shift_law (P : Program) (pre inp : List Nat) (hm : MatcherShift P pre inp)
    (hP : noBacktrackProg P = true) (fuel : Nat) (e : Expr) (p : Nat) (he : noBacktrack e = true) :
    peg P (pre ++ inp) fuel e (pre.length + p) = (peg P inp fuel e p).map (shiftRes pre.length) :=
  peg_shift P pre inp hm hP fuel e p he

/-- … and the generated code follows: wherever the meaning on `text` is defined, the code model on
    `pre ++ text` from the shifted position returns the shifted outcome -/
theorem C08_shift_law_generated_code {F : FlagTable} (hF : LocallySound F) (P : Program) (pre inp : List Nat)
    (hm : MatcherShift P pre inp) (hP : noBacktrackProg P = true) (fuel : Nat) (e : Expr) (p : Nat)
    (he : noBacktrack e = true) (res : Res) (h : peg P inp fuel e p = some res) :
    ∃ r, gen F P (pre ++ inp) fuel e (pre.length + p) = some r ∧ Rel r (shiftRes pre.length res) := by
  refine gen_refines hF P (pre ++ inp) fuel e (pre.length + p) _ ?_
  rw [peg_shift P pre inp hm hP fuel e p he, h]
  rfl

-- non-vacuity: `A = "a" >> "b"` (rule 0 of `exP`) on `ab` from 0 and on `xxab` from 2
example : noBacktrackProg exP = true ∧ MatcherShift exP [120, 120] [97, 98] ∧
    peg exP [97, 98] 5 (.ref 0) 0 = some (.ok (.str [98]) 2) ∧
    peg exP ([120, 120] ++ [97, 98]) 5 (.ref 0) 2 = some (.ok (.str [98]) 4) := by
  refine ⟨by decide, ?_, by rfl, by rfl⟩
  intro rx p
  rfl

/-- **C20, on the meaning.**  Renaming classes and fields (`c`, `f`: any functions that leave the
    API names `Infix`/`Prefix`/`Postfix`, `left`/`operator`/`right` alone) in a whole program changes
    nothing but those names in the results: same definedness, same success or failure, same end
    positions, the value renamed.  Rules are referred to by position in the model, parameters and
    `let` variables by position in the environment of the names layer, so renaming them is the
    identity by construction; what remains - Python identifiers of the generated text - is decided
    by the correspondence of the C20 check. -/
theorem C20_renaming_changes_only_names (c f : String → String) (hapi : FixesApi c f) (P : Program)
    (inp : List Nat) (fuel : Nat) (e : Expr) (p : Nat) :
    peg (renameProg c f P) inp fuel (renameExpr c f e) p = (peg P inp fuel e p).map (renameRes c f) :=
  peg_rename c f hapi P inp fuel e p

/-- an injective renaming keeps distinct classes distinct -/
theorem C20_injective_renaming_keeps_classes_apart (c f : String → String) (hc : ∀ a b, c a = c b → a = b)
    (a b : String) (fs gs : List (String × Val)) (sp sq : Option (Nat × Nat))
    (h : renameVal c f (.obj a fs sp) = renameVal c f (.obj b gs sq)) : a = b :=
  peg_rename_injective_distinct c f hc a b fs gs sp sq h

-- non-vacuity: a class `K { first: "a" }` renamed to `len { slice: "a" }`
example :
    let c : String → String := fun s => if s = "K" then "len" else s
    let f : String → String := fun s => if s = "first" then "slice" else s
    FixesApi c f ∧
    peg (renameProg c f exP) [97] 5 (renameExpr c f (.cls "K" [.str [97] false] [some "first"])) 0
      = some (.ok (.obj "len" [("slice", .str [97])] (some (0, 1))) 1) := by
  refine ⟨⟨by decide, by decide, by decide, by decide, by decide, by decide⟩, by rfl⟩

/-! ## the two specification layers agree where they overlap -/

open X in
/-- The lexical specification of the names layer (C05/C06) and the core specification (C01-C04, C08,
    C10) were written separately.  On the expressions both can write - literals, sequences, ordered
    choice, options, greedy repetition, references to rules without parameters - every outcome of
    the first is the outcome of the second (for every sufficiently larger amount of fuel, hence, by
    `C01_meaning_independent_of_fuel`, the outcome). -/
theorem C05_specification_layers_agree (XP : XProgram) (CP : Program) (inp : List Nat) (hE : Embedded XP CP)
    (n m : Nat) (hm : n + inp.length + 1 ≤ m) (e : XExpr) (e' : Expr) (ρ : SEnv) (p : Nat) (r : Res)
    (he : embed e = some e') (h : xpeg XP inp n e ρ p = some r) : peg CP inp m e' p = some r :=
  bridge XP CP inp hE n m hm e e' ρ p r he h

-- non-vacuity: `start = ["a", ("b" | "ab")*]` in both layers on `abab`
open X in
example :
    let xp : XProgram := { rules := [.seq [.lit [97], .star (.choice [.lit [98], .lit [97, 98]])]], templates := [],
                           pyf := fun _ _ => .none, app := fun _ v => v, truthy := fun _ => true }
    let cp : Program := { rules := [.seq [.str [97] false, .list (.choice [.str [98] false, .str [97, 98] false]) 0 none]],
                          ignored := none, matcher := fun _ _ _ => none, bytesMode := false }
    embed (.ref 0) = some (.ref 0) ∧
    xpeg xp [97, 98, 97, 98] 6 (.ref 0) [] 0 = some (.ok (.list [.str [97], .list [.str [98], .str [97, 98]]]) 4) ∧
    peg cp [97, 98, 97, 98] 11 (.ref 0) 0 = some (.ok (.list [.str [97], .list [.str [98], .str [97, 98]]]) 4) := by
  refine ⟨by rfl, by rfl, by rfl⟩

/-! ## C17 – an expression moved into a helper function (nesting too deep for Python) -/

open X in
/-- **C17 (spilled helpers, names layer).**  When an expression is nested too deeply, the generator
    moves it into a helper function `_function_N(_ctx, _text, _pos, *sorted free names)` and calls it
    in place with the caller's locals of those names (`Expression.functionalize`, the same mechanism
    as for argument expressions).  On a well-scoped program the helper, run in a frame that holds
    nothing but those values, produces the outcome that lexical scoping gives the expression where
    it stands - which is also what the expression compiled in place produces.  (The caller's locals
    are out of the helper's reach, so the names in scope are trivially left as they were.) -/
theorem C17_spilled_helper_same_outcome (P : XProgram) (inp : List Nat) (hP : wsProgram P = true)
    (fuel : Nat) (e : XExpr) (Γ : List Name) (L : Locals) (ρ : SEnv) (p : Nat) (r : Res)
    (hws : ws Γ e = true) (hag : Agree Γ L ρ) (h : xpeg P inp fuel e ρ p = some r) :
    ∃ vals F' L', capture L (captured e) = some vals ∧
      xgen P inp fuel e ((captured e).zip vals) p = some (r, F') ∧
      xgen P inp fuel e L p = some (r, L') := by
  obtain ⟨vals, hc, hrel⟩ := hag.closure e hws
  obtain ⟨hws', _, hag'⟩ := hrel.frame
  obtain ⟨F', h1, _⟩ := xgen_sim P inp (wsProgram_iff P hP) fuel e (captured e) _ ρ p r hws' hag' h
  obtain ⟨L', h2, _⟩ := xgen_sim P inp (wsProgram_iff P hP) fuel e Γ L ρ p r hws hag h
  exact ⟨vals, F', L', hc, h1, h2⟩

-- non-vacuity: `let xa = "a" in [xa-as-value, "b"]`: the body, spilled, is handed `xa` and nothing else
open X in
example :
    let P : XProgram := { rules := [], templates := [], pyf := fun _ vs => vs.headD .none, app := fun _ v => v, truthy := fun _ => true }
    let body : XExpr := .seq [.py ⟨0, ["xa"]⟩, .lit [98]]
    captured body = ["xa"] ∧
    capture [("zz", .val (.str [122])), ("xa", .val (.str [97]))] (captured body) = some [.val (.str [97])] ∧
    (xgen P [97, 98] 5 body ((captured body).zip [.val (.str [97])]) 1).map (·.1) = some (.ok (.list [.str [97], .str [98]]) 2) := by
  refine ⟨by rfl, by rfl, by rfl⟩

end Sourcer
