import Sourcer.Proofs.Refine
/-
  Property theorems (statements only; proofs are one-liners over Sourcer/Proofs/*).
  Every theorem is followed by an `example` showing its hypotheses are met by a concrete,
  non-trivial instance.
-/
namespace Sourcer

/-! ## C01 / C03 – generated parsers implement the documented PEG meaning -/

theorem peg_seq (P : Program) (inp : List Nat) (fuel : Nat) (xs : List Expr) (p : Nat) :
    peg P inp (fuel + 1) (.seq xs) p = pegSeq (peg P inp fuel) xs p [] := by simp [peg]

theorem peg_opt_fail (P : Program) (inp : List Nat) (fuel : Nat) (a : Expr) (p : Nat)
    (ha : peg P inp fuel a p = some .fail) :
    peg P inp (fuel + 1) (.opt a) p = some (.ok .none p) := by simp [peg, ha]

/-- **C01 (and the `List`/`Sep` part of C03).**  For every locally sound flag table, every
    program, input, expression, start position and amount of fuel: wherever the documented PEG
    meaning is defined, the code model terminates within the same fuel, succeeds or fails alike,
    and on success leaves the same value and the same end position. -/
theorem C01_codegen_refines_peg {F : FlagTable} (hF : LocallySound F) (P : Program)
    (inp : List Nat) (fuel : Nat) (e : Expr) (p : Nat) (res : Res)
    (h : peg P inp fuel e p = some res) :
    ∃ r, gen F P inp fuel e p = some r ∧ Rel r res :=
  gen_refines hF P inp fuel e p res h

/-- a concrete program for the non-vacuity examples: rule 0 is `A = "a" >> "b"`, which fails
    *after consuming* on `aa` -/
def exP : Program :=
  { rules := [.discard (.str [97] false) (.str [98] false) true], ignored := none,
    matcher := fun _ _ _ => none, bytesMode := false }

-- non-vacuity: `("a"{2} | "ab")` on `ab` – the first alternative fails after consuming one `a`
example : peg exP [97, 98] 5 (.choice [.list (.str [97] false) 2 (some 0), .str [97, 98] false]) 0
    = some (.ok (.str [97, 98]) 2) := by rfl

/-- `|` commits to the first alternative that matches (code model). -/
theorem C01_choice_commits_first {F : FlagTable} (hF : LocallySound F) (P : Program)
    (inp : List Nat) (fuel : Nat) (a : Expr) (rest : List Expr) (p : Nat) (v : Val) (p' : Nat)
    (h : peg P inp fuel a p = some (.ok v p')) :
    ∃ r, gen F P inp (fuel + 1) (.choice (a :: rest)) p = some r ∧ Rel r (.ok v p') := by
  apply gen_refines hF
  simp [peg, pegChoice, h]

example : peg exP [97, 98] 4 (.str [97] false) 0 = some (.ok (.str [97]) 1) := by rfl

/-- A failed alternative leaves no trace: the next alternative starts where the failed one
    started (code model: whatever the failed alternative did to `_pos`). -/
theorem C01_failed_alternative_leaves_no_trace {F : FlagTable} (hF : LocallySound F) (P : Program)
    (inp : List Nat) (fuel : Nat) (a b : Expr) (p : Nat) (res : Res)
    (ha : peg P inp fuel a p = some .fail) (hb : peg P inp fuel b p = some res) :
    ∃ r, gen F P inp (fuel + 1) (.choice [a, b]) p = some r ∧ Rel r res := by
  apply gen_refines hF
  cases res <;> simp [peg, pegChoice, ha, hb]

-- non-vacuity: `A | "a"` on `aa`: `A` fails after consuming, `"a"` then matches at 0
example : peg exP [97, 97] 4 (.ref 0) 0 = some .fail ∧
    peg exP [97, 97] 4 (.str [97] false) 0 = some (.ok (.str [97]) 1) := ⟨by rfl, by rfl⟩

/-- The continuation after a failed option starts where the option started. -/
theorem C01_failed_option_leaves_no_trace {F : FlagTable} (hF : LocallySound F) (P : Program)
    (inp : List Nat) (fuel : Nat) (a b : Expr) (p : Nat) (v : Val) (p' : Nat)
    (ha : peg P inp fuel a p = some .fail) (hb : peg P inp (fuel + 1) b p = some (.ok v p')) :
    ∃ r, gen F P inp (fuel + 2) (.seq [.opt a, b]) p = some r ∧
      Rel r (.ok (.list [.none, v]) p') := by
  apply gen_refines hF
  rw [peg_seq]
  simp [pegSeq, peg_opt_fail P inp fuel a p ha, hb]

example : peg exP [97, 97] 4 (.ref 0) 0 = some .fail ∧
    peg exP [97, 97] 5 (.str [97] false) 0 = some (.ok (.str [97]) 1) := ⟨by rfl, by rfl⟩

/-- Lookahead never consumes, whatever its operand did. -/
theorem C01_lookahead_restores {F : FlagTable} (hF : LocallySound F) (P : Program)
    (inp : List Nat) (fuel : Nat) (a : Expr) (p : Nat) (v : Val) (p' : Nat)
    (ha : peg P inp fuel a p = some (.ok v p')) :
    (∃ r, gen F P inp (fuel + 1) (.expect a) p = some r ∧ Rel r (.ok v p)) ∧
    (∃ r, gen F P inp (fuel + 1) (.expectNot a) p = some r ∧ Rel r .fail) := by
  constructor <;> apply gen_refines hF <;> simp [peg, ha]

example : peg exP [97, 98] 4 (.ref 0) 0 = some (.ok (.str [98]) 2) := by rfl

/-- `Longest` takes the alternative that consumes most, the first one among equals (spec). -/
theorem C01_longest_first_on_ties (P : Program) (inp : List Nat) (fuel : Nat) (a b : Expr)
    (p : Nat) (va vb : Val) (pa pb : Nat)
    (ha : peg P inp fuel a p = some (.ok va pa)) (hb : peg P inp fuel b p = some (.ok vb pb)) :
    peg P inp (fuel + 1) (.longest [a, b]) p =
      some (if pa < pb then .ok vb pb else .ok va pa) := by
  by_cases hlt : pa < pb <;> simp [peg, pegLongestOpts, ha, hb, hlt]

example : peg exP [97, 98] 4 (.str [97] false) 0 = some (.ok (.str [97]) 1) ∧
    peg exP [97, 98] 4 (.ref 0) 0 = some (.ok (.str [98]) 2) := ⟨by rfl, by rfl⟩

end Sourcer
