import Sourcer.Expr
import Sourcer.OpTable
/-
  SPECIFICATION: the documented PEG meaning of the expressions.  Failure carries no position;
  whatever is tried after a failed attempt (next alternative, continuation after an option, a
  repetition, a lookahead) starts where the failed attempt started; `|` commits to the first
  alternative that matches.  No flags, no registers.

  `none` = out of fuel / undefined rule / ill-formed repetition (a `Skip` alternative that
  succeeds without consuming: the documented meaning `(x₁ | … | xₙ)*` is then undefined).
-/
namespace Sourcer

inductive Res where
  | ok (v : Val) (p : Nat)
  | fail
  deriving Inhabited

abbrev PRun := Expr → Nat → Option Res

def pegSeq (run : PRun) : List Expr → Nat → List Val → Option Res
  | [], p, acc => some (.ok (.list acc.reverse) p)
  | e :: es, p, acc =>
    match run e p with
    | none => none
    | some .fail => some .fail
    | some (.ok v p') => pegSeq run es p' (v :: acc)

def pegCls (run : PRun) (name : String) (start : Nat) :
    List Expr → List (Option String) → Nat → List (String × Val) → Option Res
  | [], _, p, acc => some (.ok (.obj name acc.reverse (some (start, p))) p)
  | e :: es, ks, p, acc =>
    match run e p with
    | none => none
    | some .fail => some .fail
    | some (.ok v p') =>
      let acc' := match ks.head? with
        | some (some f) => (f, v) :: acc
        | _ => acc
      pegCls run name start es ks.tail p' acc'

/-- ordered choice: every alternative is tried at the same position `p` -/
def pegChoice (run : PRun) : List Expr → Nat → Option Res
  | [], _ => some .fail
  | e :: es, p =>
    match run e p with
    | none => none
    | some .fail => pegChoice run es p
    | some r => some r

/-- greedy repetition: returns the values (reversed) and the position after the last element -/
def pegListLoop (run : PRun) (e : Expr) (max : Option Nat) : Nat → Nat → List Val → Option (List Val × Nat)
  | 0, _, _ => none
  | fuel + 1, p, acc =>
    match run e p with
    | none => none
    | some .fail => some (acc, p)
    | some (.ok v p') =>
      let acc' := v :: acc
      if max == some acc'.length then some (acc', p')
      else pegListLoop run e max fuel p' acc'

def pegList (run : PRun) (fuel : Nat) (e : Expr) (min : Nat) (max : Option Nat) (p : Nat) : Option Res :=
  if max == some 0 then some (.ok (.list []) p)
  else
    match pegListLoop run e max fuel p [] with
    | none => none
    | some (acc, p') => if min ≤ acc.length then some (.ok (.list acc.reverse) p') else some .fail

/-- separated list.  State: values so far (reversed), the position the list would end at if it
    stopped now (`stop`), whether a separator has been seen.  Returns the final state. -/
def pegSepLoop (run : PRun) (e s : Expr) (o : SepOpts) :
    Nat → Nat → List Val → Nat → Bool → Option (List Val × Nat × Bool)
  | 0, _, _, _, _ => none
  | fuel + 1, p, st, stop, saw =>
    match run e p with
    | none => none
    | some .fail =>
      -- a kept separator that is not followed by an element is dropped again unless trailers are allowed
      some (if !o.discard && !o.trailer && !st.isEmpty then st.tail else st, stop, saw)
    | some (.ok v p1) =>
      let st1 := v :: st
      match run s p1 with
      | none => none
      | some .fail => some (st1, p1, saw)
      | some (.ok w p2) =>
        pegSepLoop run e s o fuel p2 (if o.discard then st1 else w :: st1)
          (if o.trailer then p2 else p1) (if o.require then true else saw)

/-- if a separator is required, one must have been seen (or the list is empty and empty lists
    are allowed); otherwise the list must be non-empty unless empty lists are allowed -/
def sepAccepts (o : SepOpts) (staging : List Val) (saw : Bool) : Bool :=
  if o.require then saw || (o.empty && staging.isEmpty) else (o.empty || !staging.isEmpty)

def pegSep (run : PRun) (fuel : Nat) (e s : Expr) (o : SepOpts) (p : Nat) : Option Res :=
  match pegSepLoop run e s o fuel p [] p false with
  | none => none
  | some (st, stop, saw) =>
    if sepAccepts o st saw then some (.ok (.list st.reverse) stop) else some .fail

/-- one pass over the alternatives of `Skip` (value discarded): `some (some p')` = the first
    alternative that matches *and consumes* ends at `p'`; `some none` = no alternative consumes
    anything here (a match that consumes nothing is no progress) -/
def pegSkipAlts (run : PRun) (p : Nat) : List Expr → Option (Option Nat)
  | [] => some none
  | x :: xs =>
    match run x p with
    | none => none
    | some .fail => pegSkipAlts run p xs
    | some (.ok _ p') => if p' != p then some (some p') else pegSkipAlts run p xs

def pegSkipLoop (run : PRun) (xs : List Expr) : Nat → Nat → Option Res
  | 0, _ => none
  | fuel + 1, p =>
    match pegSkipAlts run p xs with
    | none => none
    | some (some p') => pegSkipLoop run xs fuel p'
    | some none => some (.ok .none p)

/-- all alternatives are tried at `p`; the one that consumes most wins, the first among equals -/
def pegLongestOpts (run : PRun) (p : Nat) : List Expr → Option (Val × Nat) → Option (Option (Val × Nat))
  | [], best => some best
  | x :: xs, best =>
    match run x p with
    | none => none
    | some .fail => pegLongestOpts run p xs best
    | some (.ok v p') =>
      match best with
      | none => pegLongestOpts run p xs (some (v, p'))
      | some (bv, bp) =>
        if bp < p' then pegLongestOpts run p xs (some (v, p')) else pegLongestOpts run p xs (some (bv, bp))

def pegSkipTo (P : Program) (run : PRun) (skip : Bool) (e : Nat) : Option Nat :=
  if skip then
    match P.ignored with
    | none => some e
    | some k =>
      match run (.ref k) e with
      | none => none
      | some (.ok _ p') => some p'
      | some .fail => none     -- the synthetic `_ignored` rule is a `Skip`; it cannot fail
  else some e

structure PTableExprs where
  prefixes : Option Expr
  operands : Expr
  postfixes : Option Expr
  infixes : Option Expr

def ptableExprs (pre : List Expr) (operand : Expr) (mixfix post inf : List Expr) : PTableExprs :=
  { prefixes := combineRows pre
    operands := (combineRows (operand :: mixfix)).getD operand
    postfixes := combineRows post
    infixes := combineRows inf }

/-- Operator table, operational specification: read `prefix* operand postfix* (infix prefix*
    operand postfix*)*` with PEG sub-parsers (a failed attempt consumes nothing), building the
    tree with the operator-precedence stacks; the expression ends after the last complete
    operand (a dangling operator stays in the input) or before a non-associative conflict. -/
def pegOT (run : PRun) (T : PTableExprs) : Nat → Phase → OTState → Option Res
  | 0, _, _ => none
  | fuel + 1, .pre, st =>
    match T.prefixes with
    | none => pegOT run T fuel .operand st
    | some pe =>
      match run pe st.pos with
      | none => none
      | some .fail => pegOT run T fuel .operand st
      | some (.ok v p') =>
        match decodeOp v with
        | none => none
        | some o => pegOT run T fuel .pre { st with ops := o :: st.ops, pos := p' }
  | fuel + 1, .operand, st =>
    match run T.operands st.pos with
    | none => none
    | some .fail =>
      if st.operands.isEmpty then some .fail
      else
        match finishTable st.ops st.operands st.marker with
        | none => none
        | some v => some (.ok v.toVal st.outerCp)
    | some (.ok v p') => pegOT run T fuel .post { st with operands := .leaf v :: st.operands, pos := p' }
  | fuel + 1, .post, st =>
    match T.postfixes with
    | none => pegOT run T fuel .inf { st with marker := st.ops.length, outerCp := st.pos }
    | some pe =>
      match run pe st.pos with
      | none => none
      | some .fail => pegOT run T fuel .inf { st with marker := st.ops.length, outerCp := st.pos }
      | some (.ok v p') =>
        match decodePost v with
        | none => none
        | some (prec, op) =>
          match reducePost prec st.ops st.operands with
          | none => none
          | some (ops', operands') =>
            match operands' with
            | [] => none
            | x :: rest =>
              pegOT run T fuel .post { st with ops := ops', operands := .postfix x prec op :: rest, pos := p' }
  | fuel + 1, .inf, st =>
    match T.infixes with
    | none =>
      match finishTable st.ops st.operands st.marker with
      | none => none
      | some v => some (.ok v.toVal st.pos)
    | some ie =>
      match run ie st.pos with
      | none => none
      | some .fail =>
        match finishTable st.ops st.operands st.marker with
        | none => none
        | some v => some (.ok v.toVal st.pos)
      | some (.ok v p') =>
        match decodeOp v with
        | none => none
        | some o =>
          match reduceInfix o.prec st.ops st.operands with
          | none => none
          | some (.conflict ops' operands') =>
            match finishTable ops' operands' st.marker with
            | none => none
            | some tree => some (.ok tree.toVal st.outerCp)
          | some (.go ops' operands') =>
            pegOT run T fuel .pre
              { st with ops := o :: ops', operands := operands', marker := ops'.length, pos := p' }

def peg (P : Program) (inp : List Nat) : Nat → Expr → Nat → Option Res
  | 0, _, _ => none
  | fuel + 1, e, p =>
    let run : PRun := peg P inp fuel
    match e with
    | .str s skip =>
      if s.isEmpty then some (.ok (P.lit []) p)
      else if matchAt inp p s then
        match pegSkipTo P run skip (p + s.length) with
        | none => none
        | some p' => some (.ok (P.lit s) p')
      else some .fail
    | .regex rx skip =>
      match P.matcher rx inp p with
      | some e' =>
        match pegSkipTo P run skip e' with
        | none => none
        | some p' => some (.ok (P.lit ((inp.drop p).take (e' - p))) p')
      | none => some .fail
    | .byte b skip =>
      if P.bytesMode && inp[p]? == some b then
        match pegSkipTo P run skip (p + 1) with
        | none => none
        | some p' => some (.ok (.int b) p')
      else some .fail
    | .ref k =>
      match P.rules[k]? with
      | none => none
      | some body => run body p
    | .seq xs => pegSeq run xs p []
    | .cls name xs keep => pegCls run name p xs keep p []
    | .discard a b left =>
      match run a p with
      | none => none
      | some .fail => some .fail
      | some (.ok va pa) =>
        match run b pa with
        | none => none
        | some .fail => some .fail
        | some (.ok vb pb) => some (.ok (if left then vb else va) pb)
    | .choice xs => pegChoice run xs p
    | .opt x =>
      match run x p with
      | none => none
      | some .fail => some (.ok .none p)
      | some r => some r
    | .list x min extra => pegList run fuel x min (maxOf min extra) p
    | .sep x s o => pegSep run fuel x s o p
    | .expect x =>
      match run x p with
      | none => none
      | some .fail => some .fail
      | some (.ok v _) => some (.ok v p)
    | .expectNot x =>
      match run x p with
      | none => none
      | some .fail => some (.ok .none p)
      | some (.ok _ _) => some .fail
    | .skip xs => pegSkipLoop run xs fuel p
    | .longest xs =>
      match pegLongestOpts run p xs none with
      | none => none
      | some none => some .fail
      | some (some (v, p')) => some (.ok v p')
    | .backtrack n => if n ≤ p then some (.ok .none (p - n)) else some .fail
    | .fail => some .fail
    | .py c => some (.ok c.toVal p)
    | .tagged x tag =>
      match run x p with
      | none => none
      | some .fail => some .fail
      | some (.ok v p') => some (.ok (.tuple (tag.map Val.int ++ [v])) p')
    | .optable pre operand mixfix post inf =>
      pegOT run (ptableExprs pre operand mixfix post inf) fuel .pre ⟨[], [], 0, p, p⟩

end Sourcer
