/-
  MODEL of `transform` / `_transform` (C16).  Values: leaves (anything that is neither a list
  nor a parsed object: passed through), lists (rebuilt element-wise, always a new list object),
  objects (class, tag, fields, metadata).  `tag` identifies where an object came from; copies made
  by `_replace` keep it.  A callback returns `none` when it returns its argument itself (`node is
  prev`) and `some v` when it returns a different object `v`.
-/
namespace Sourcer.Tr

inductive V where
  | leaf (t : Nat)
  | list (xs : List V)
  | obj (cls : Nat) (tag : Nat) (fields : List V) (pos : Option Nat)
  deriving Inhabited

abbrev Cb := V → Option V

/-- one callback application as the user's function sees it: (index of the callback, argument) -/
abbrev Log := List (Nat × V)

/-- the metadata rule of `transform.callback`: a replacement object without metadata of its own
    takes the metadata of the object it stands for -/
def adopt (prev new : V) : V :=
  match prev, new with
  | .obj _ _ _ pm, .obj c t fs none => .obj c t fs pm
  | _, n => n

/-- `for f in callbacks: prev = node; node = f(prev); …`; returns the final node, whether it is a
    different object than the argument, and the applications made -/
def applyCbs : List Cb → Nat → V → V × Bool × Log
  | [], _, v => (v, false, [])
  | f :: fs, i, v =>
    match f v with
    | none =>
      let r := applyCbs fs (i + 1) v
      (r.1, r.2.1, (i, v) :: r.2.2)
    | some v' =>
      let r := applyCbs fs (i + 1) (adopt v v')
      (r.1, true, (i, v) :: r.2.2)

mutual
/-- `_transform(node, callback)`: result, "is a different object", log -/
def tr (cbs : List Cb) : V → V × Bool × Log
  | .leaf t => (.leaf t, false, [])
  | .list xs =>
    let r := trList cbs xs
    (.list r.1, true, r.2.2)
  | .obj c t fs pm =>
    let r := trList cbs fs
    -- `_replace(**updates)` when a field is no longer the same object: same class, tag, metadata
    let r2 := applyCbs cbs 0 (.obj c t r.1 pm)
    (r2.1, r.2.1 || r2.2.1, r.2.2 ++ r2.2.2)
/-- children left to right; the Bool says whether any child is a different object -/
def trList (cbs : List Cb) : List V → List V × Bool × Log
  | [] => ([], false, [])
  | x :: xs =>
    let r1 := tr cbs x
    let r2 := trList cbs xs
    (r1.1 :: r2.1, r1.2.1 || r2.2.1, r1.2.2 ++ r2.2.2)
end

/-- `transform(node, *callbacks)` -/
def transform (cbs : List Cb) (v : V) : V × Log :=
  if cbs.isEmpty then (v, []) else ((tr cbs v).1, (tr cbs v).2.2)

mutual
/-- number of object occurrences reachable through fields and lists -/
def objCount : V → Nat
  | .leaf _ => 0
  | .list xs => objCountL xs
  | .obj _ _ fs _ => 1 + objCountL fs
def objCountL : List V → Nat
  | [] => 0
  | x :: xs => objCount x + objCountL xs
end

mutual
/-- tags of the object occurrences, children before parents, left to right -/
def postTags : V → List Nat
  | .leaf _ => []
  | .list xs => postTagsL xs
  | .obj _ t fs _ => postTagsL fs ++ [t]
def postTagsL : List V → List Nat
  | [] => []
  | x :: xs => postTags x ++ postTagsL xs
end

def V.tag? : V → Option Nat
  | .obj _ t _ _ => some t
  | _ => none

end Sourcer.Tr
