/-
  MODEL of parsed objects as values (C14): Python `==` on result trees as `ParsedObject.__eq__`
  and the builtin comparisons define it, `ParsedObject.__hash__` / `_hash`, `_asdict`, `_replace`.

  Identity shortcuts (`self is other`, `left is not right and …`) are not modelled: they are sound
  exactly because `==` is reflexive on every modelled value (`peq_refl`; floats/NaN are excluded).
  A dict is kept in a canonical order of its (pairwise unequal) keys - Python's dict equality and
  the XOR that `_hash` folds over the items do not depend on insertion order.
-/
namespace Sourcer.Obj

inductive PV where
  | none
  | bool (b : Bool)
  | int (i : Int)
  | str (s : List Nat)
  | list (xs : List PV)
  | tuple (xs : List PV)
  | dict (kvs : List (PV × PV))
  /-- class id, field values in declaration order, position metadata -/
  | obj (cls : Nat) (fields : List PV) (pos : Option (Nat × Nat))
  deriving Inhabited

def b2i (b : Bool) : Int := if b then 1 else 0

mutual
/-- Python `a == b` -/
def peq : PV → PV → Bool
  | .none, .none => true
  | .bool x, .bool y => b2i x == b2i y
  | .bool x, .int y => b2i x == y
  | .int x, .bool y => x == b2i y
  | .int x, .int y => x == y
  | .str x, .str y => x == y
  | .list xs, .list ys => peqList xs ys
  | .tuple xs, .tuple ys => peqList xs ys
  | .dict xs, .dict ys => peqPairs xs ys
  | .obj c xs _, .obj d ys _ => c == d && peqList xs ys
  | _, _ => false
def peqList : List PV → List PV → Bool
  | [], [] => true
  | x :: xs, y :: ys => peq x y && peqList xs ys
  | _, _ => false
def peqPairs : List (PV × PV) → List (PV × PV) → Bool
  | [], [] => true
  | x :: xs, y :: ys => peq x.1 y.1 && peq x.2 y.2 && peqPairs xs ys
  | _, _ => false
end

mutual
/-- `hash(v)` does not raise TypeError -/
def hashable : PV → Bool
  | .list _ => false
  | .dict _ => false
  | .tuple xs => hashableList xs
  | _ => true
def hashableList : List PV → Bool
  | [] => true
  | x :: xs => hashable x && hashableList xs
end

/-- the builtin hash functions, as parameters; `combine` is the XOR used by `_hash`/`__hash__` -/
structure HashFns where
  hnone : Int
  hnum : Int → Int            -- hash of an int; `hash(True) == hash(1)` because both go through `b2i`
  hstr : List Nat → Int
  htuple : List Int → Int     -- hash of a tuple of hashables: a function of the element hashes
  combine : Int → Int → Int

mutual
/-- `_hash(v)`: the builtin hash where it exists, otherwise the XOR of the parts -/
def H (h : HashFns) : PV → Int
  | .none => h.hnone
  | .bool b => h.hnum (b2i b)
  | .int i => h.hnum i
  | .str s => h.hstr s
  | .list xs => (HList h xs).foldl h.combine 0
  | .tuple xs => if hashableList xs then h.htuple (HList h xs) else (HList h xs).foldl h.combine 0
  | .dict kvs => (HPairs h kvs).foldl h.combine 0
  | .obj _ fs _ => (HList h fs).foldl h.combine 0
def HList (h : HashFns) : List PV → List Int
  | [] => []
  | x :: xs => H h x :: HList h xs
/-- `_hash(pair)` for the items of a dict: the pair is a tuple `(k, v)` -/
def HPairs (h : HashFns) : List (PV × PV) → List Int
  | [] => []
  | kv :: kvs =>
    (if hashable kv.1 && hashable kv.2 then h.htuple [H h kv.1, H h kv.2]
     else [H h kv.1, H h kv.2].foldl h.combine 0) :: HPairs h kvs
end

/-- `_asdict()` -/
def asdict (names : List String) (fields : List PV) : List (String × PV) := names.zip fields

/-- `_replace(**kw)`: `kw` maps field indices to new values; metadata is carried over -/
def replaceFields : List PV → Nat → (Nat → Option PV) → List PV
  | [], _, _ => []
  | f :: fs, i, kw => (match kw i with | some v => v | none => f) :: replaceFields fs (i + 1) kw

def replace (o : PV) (kw : Nat → Option PV) : PV :=
  match o with
  | .obj c fs pos => .obj c (replaceFields fs 0 kw) pos
  | v => v

end Sourcer.Obj
