/-
  MODEL of `visit` and `traverse` (C15): result trees whose nodes carry an identity (`id`; equal
  ids = the same Python object, which also models interned strings, cached ints, `None`, `()`),
  the two functions as the explicit-stack loops they are, and the recursive depth-first
  specifications.
-/
namespace Sourcer.Walk

inductive Kind where
  | leaf | list | tuple | dict | obj
  deriving DecidableEq, Inhabited, Repr

/-- a value: kind, identity, labelled children (list index / dict key / field index) -/
inductive T where
  | mk (kind : Kind) (id : Nat) (children : List (Nat × T))
  deriving Inhabited

def T.kind : T → Kind | .mk k _ _ => k
def T.id : T → Nat | .mk _ i _ => i
def T.children : T → List (Nat × T) | .mk _ _ cs => cs

mutual
def T.size : T → Nat
  | .mk _ _ cs => 1 + sizeL cs
def sizeL : List (Nat × T) → Nat
  | [] => 0
  | c :: cs => c.2.size + sizeL cs
end

def sizeS : List T → Nat
  | [] => 0
  | t :: ts => t.size + sizeS ts

/-! ### `visit` -/

/-- the `while stack:` loop of `visit`; the stack is written top first; yields object ids.
    Leaves are dropped; an object or a container (list, tuple, dict) whose identity was met before
    is not expanded again; only objects are yielded. -/
def visitLoop : Nat → List T → List Nat → List Nat
  | 0, _, _ => []
  | _ + 1, [], _ => []
  | f + 1, .mk k id cs :: rest, visited =>
    match k with
    | .leaf => visitLoop f rest visited
    | .obj =>
      if id ∈ visited then visitLoop f rest visited
      else id :: visitLoop f (cs.map (·.2) ++ rest) (id :: visited)
    | _ =>                                               -- list, tuple, dict (values)
      if id ∈ visited then visitLoop f rest visited
      else visitLoop f (cs.map (·.2) ++ rest) (id :: visited)

def visit (t : T) : List Nat := visitLoop (t.size + 1) [t] []

mutual
/-- SPEC: recursive depth-first pre-order of the parsed objects; an object or a container is
    expanded only the first time it is met.  Returns the ids yielded and the visited set afterwards. -/
def dfs : T → List Nat → List Nat × List Nat
  | .mk k id cs, visited =>
    match k with
    | .leaf => ([], visited)
    | .obj =>
      if id ∈ visited then ([], visited)
      else
        let r := dfsL cs (id :: visited)
        (id :: r.1, r.2)
    | _ =>
      if id ∈ visited then ([], visited)
      else dfsL cs (id :: visited)
def dfsL : List (Nat × T) → List Nat → List Nat × List Nat
  | [], visited => ([], visited)
  | c :: cs, visited =>
    let r1 := dfs c.2 visited
    let r2 := dfsL cs r1.2
    (r1.1 ++ r2.1, r2.2)
end

def dfsS : List T → List Nat → List Nat × List Nat
  | [], visited => ([], visited)
  | t :: ts, visited =>
    let r1 := dfs t visited
    let r2 := dfsS ts r1.2
    (r1.1 ++ r2.1, r2.2)

/-! ### `traverse` -/

structure Event where
  parent : Option Nat     -- id of the parent container, `none` for the root
  field : Option Nat
  child : Nat             -- id of the child
  finished : Bool
  deriving DecidableEq, Inhabited, Repr

/-- a stack entry of `traverse`: the event to emit and (for entering entries) the child itself -/
structure Item where
  parent : Option Nat
  field : Option Nat
  child : T
  finished : Bool

def Item.event (i : Item) : Event := ⟨i.parent, i.field, i.child.id, i.finished⟩

def childItems (parent : Nat) (cs : List (Nat × T)) : List Item :=
  cs.map fun c => ⟨some parent, some c.1, c.2, false⟩

/-- the `while stack:` loop of `traverse` (stack top first) -/
def traverseLoop : Nat → List Item → List Nat → List Event
  | 0, _, _ => []
  | _ + 1, [], _ => []
  | f + 1, it :: rest, visited =>
    if it.finished then it.event :: traverseLoop f rest visited
    else
      let fin : Item := { it with finished := true }
      match it.child with
      | .mk k id cs =>
        if k = .leaf then it.event :: traverseLoop f (fin :: rest) visited
        else if id ∈ visited then it.event :: traverseLoop f (fin :: rest) visited
        else it.event :: traverseLoop f (childItems id cs ++ fin :: rest) (id :: visited)

def traverse (t : T) : List Event := traverseLoop (2 * t.size + 1) [⟨none, none, t, false⟩] []

mutual
/-- SPEC: one entering and one finished event per occurrence, nested depth first, left to right;
    a container or object is expanded the first time it is met -/
def walk (parent field : Option Nat) : T → List Nat → List Event × List Nat
  | .mk k id cs, visited =>
    if k = .leaf then ([⟨parent, field, id, false⟩, ⟨parent, field, id, true⟩], visited)
    else if id ∈ visited then ([⟨parent, field, id, false⟩, ⟨parent, field, id, true⟩], visited)
    else
      let r := walkL id cs (id :: visited)
      (⟨parent, field, id, false⟩ :: r.1 ++ [⟨parent, field, id, true⟩], r.2)
def walkL (parent : Nat) : List (Nat × T) → List Nat → List Event × List Nat
  | [], visited => ([], visited)
  | c :: cs, visited =>
    let r1 := walk (some parent) (some c.1) c.2 visited
    let r2 := walkL parent cs r1.2
    (r1.1 ++ r2.1, r2.2)
end

end Sourcer.Walk
