import Sourcer.Gen
/-
  MODEL of the `_run` epilogue and `_finalize_parse_info`: the three outcomes of `parse`, and the
  conversion of raw spans `(start_pos, _pos)` to `(start, end)` with `end = max(_pos - 1, start)`,
  looked up in line/column tables that have `max len pos + 1` entries, `pos` being where the parse
  ended (a lookup beyond them is Python's IndexError, kept as an explicit outcome).
-/
namespace Sourcer

inductive Outcome where
  | value (v : Val)
  | partialParse (v : Val) (idx : Nat)
  | parseError (idx : Nat)
  | indexError
  deriving Inhabited

def finalizeSpan (len s e : Nat) : Option (Nat × Nat) :=
  let e' := max (e - 1) s
  if s ≤ len ∧ e' ≤ len then some (s, e') else none

mutual
def finalize (len : Nat) : Val → Option Val
  | .obj c fs sp =>
    match finalizeFields len fs with
    | none => none
    | some fs' =>
      match sp with
      | none => some (.obj c fs' none)
      | some (s, e) =>
        match finalizeSpan len s e with
        | none => none
        | some se => some (.obj c fs' (some se))
  | .list xs => (finalizeList len xs).map .list
  | .tuple xs => (finalizeList len xs).map .tuple
  | .none => some .none
  | .bool b => some (.bool b)
  | .int i => some (.int i)
  | .str s => some (.str s)
  | .bytes s => some (.bytes s)
  | .err => some .err
def finalizeList (len : Nat) : List Val → Option (List Val)
  | [] => some []
  | x :: xs =>
    match finalize len x, finalizeList len xs with
    | some x', some xs' => some (x' :: xs')
    | _, _ => none
def finalizeFields (len : Nat) : List (String × Val) → Option (List (String × Val))
  | [] => some []
  | f :: fs =>
    match finalize len f.2, finalizeFields len fs with
    | some v', some fs' => some ((f.1, v') :: fs')
    | _, _ => none
end

/-- what `parse(text, pos, fullparse)` does with the registers the entry rule left -/
def parseApi (len : Nat) (fullparse : Bool) (r : Reg) : Outcome :=
  if r.status then
    -- the tables are extended as far as the parse went (a parse may start beyond the end of the text)
    match finalize (max len r.pos) r.result with
    | none => .indexError
    | some v => if fullparse && decide (r.pos < len) then .partialParse v r.pos else .value v
  else .parseError r.pos

end Sourcer
