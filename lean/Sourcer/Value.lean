/-
  Python values that can appear in parse results (model layer, imports nothing outside core).

  Text is a list of code points (`Nat`); the same type is used for `str` and `bytes` inputs, the
  tag on the value says which of the two Python types the implementation would return.
-/
namespace Sourcer

inductive Val where
  | none
  | bool (b : Bool)
  | int (i : Int)
  | str (s : List Nat)
  | bytes (s : List Nat)
  | list (xs : List Val)
  | tuple (xs : List Val)
  /-- an error function `_raise_error<N>`; what a failed expression leaves in `_result` -/
  | err
  /-- a `ParsedObject`: class name, fields in declaration order, raw span `(start_pos, _pos)` -/
  | obj (cls : String) (fields : List (String × Val)) (span : Option (Nat × Nat))
  deriving Inhabited

namespace Val

def natsToString (s : List Nat) : String :=
  " ".intercalate (s.map toString)

mutual
/-- canonical printer shared with the Python harness (compact S-expression) -/
partial def print : Val → String
  | .none => "N"
  | .bool true => "T"
  | .bool false => "F"
  | .int i => s!"(i {i})"
  | .str s => if s.isEmpty then "(s)" else s!"(s {natsToString s})"
  | .bytes s => if s.isEmpty then "(b)" else s!"(b {natsToString s})"
  | .list xs => if xs.isEmpty then "(l)" else s!"(l {printList xs})"
  | .tuple xs => if xs.isEmpty then "(t)" else s!"(t {printList xs})"
  | .err => "E"
  | .obj c fs sp =>
    let spS := match sp with
      | some (a, b) => s!" (span {a} {b})"
      | Option.none => ""
    let fsS := " ".intercalate (fs.map fun (k, v) => s!"({k} {print v})")
    if fs.isEmpty then s!"(o {c}{spS})" else s!"(o {c}{spS} {fsS})"
partial def printList (xs : List Val) : String :=
  " ".intercalate (xs.map print)
end

end Val
end Sourcer
