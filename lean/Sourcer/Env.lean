import Sourcer.Peg
/-
  L6 ("tier 2"): names.  How bound names (`let`, class fields, parameters) and template
  arguments are implemented, against what they are documented to mean.

  * `xpeg` is the SPECIFICATION: lexical environments.  A binder extends the environment for its
    scope only; an argument that is a parsing expression is a closure of the expression and the
    environment of the call site, and is parsed where and when the body uses the parameter;
    a call evaluates the body of the template in an environment that holds nothing but its
    parameters.  This is "the body with each parameter replaced by the corresponding argument".

  * `xgen` is the IMPLEMENTATION: every rule/template/helper invocation is a Python function call
    with one flat dictionary of locals.  `let` and named sequence members are assignments
    (`name = _result`) which nothing ever undoes - not the end of the scope, not a failed
    alternative.  An argument expression is moved into a helper function whose parameters are the
    sorted free names of the expression (`Expression.functionalize` / `freevars`), and the
    argument that is passed is `_ParseFunction(helper, values of those names now)`
    (`Expression.argumentize`); inline Python arguments are evaluated at the call site;
    string literals are passed as `_StringLiteral` (a value and a parser).

  Inline Python is an uninterpreted function symbol applied to the values of the local names it
  mentions (`PyTerm`): the theorems hold for every interpretation `pyf`.

  Positions are threaded functionally in both (the restores of the emitted code are the subject
  of the core model `gen`/`peg`); results carry no error position.
-/
namespace Sourcer.X

abbrev Name := String

/-- inline Python: function symbol `fn` applied to the values of `names` (in this order) -/
structure PyTerm where
  fn : Nat
  names : List Name
  deriving Inhabited, Repr, DecidableEq

inductive XExpr where
  | lit (s : List Nat)
  /-- one character in the range `lo..hi` (a regex class), value: that character as a string -/
  | cc (lo hi : Nat)
  | seq (xs : List XExpr)
  | choice (xs : List XExpr)
  | star (e : XExpr)
  | opt (e : XExpr)
  /-- a rule without parameters -/
  | ref (r : Nat)
  /-- a local name used as a parser: a parameter that holds a parsing expression -/
  | pvar (x : Name)
  /-- `` `expr` `` -/
  | py (t : PyTerm)
  | let_ (x : Name) (e body : XExpr)
  /-- `e where p`: `p` is an expression (usually inline Python) whose value is a function -/
  | where_ (e p : XExpr)
  /-- `e |> f`: the argument is parsed first, then the function -/
  | apply (e f : XExpr)
  /-- `f <| e`: the function is parsed first, then the argument -/
  | applyL (f e : XExpr)
  /-- ``e{`t(names…)`}``: a data-dependent repetition count -/
  | rep (e : XExpr) (t : PyTerm)
  /-- `T(args)`: `some k` is a keyword argument.  An argument of the form `py t` is a value,
      `lit s` is a string that is a value and a parser, anything else is a parser. -/
  | call (t : Nat) (args : List (Option Name × XExpr))
  /-- the body of a class: members with their names (`none` for `pass`/`requires` members),
      the class name and the names of the fields that the instance keeps -/
  | bseq (items : List (Option Name × XExpr)) (ctor : String) (fields : List Name)
  deriving Inhabited

/-- a rule or template: parameter names and body.  (A class is a template whose body is a `bseq`.) -/
structure Template where
  params : List Name
  body : XExpr
  deriving Inhabited

structure XProgram where
  /-- rules without parameters -/
  rules : List XExpr
  templates : List Template
  /-- interpretation of the inline Python function symbols -/
  pyf : Nat → List Val → Val
  /-- calling a function value (the value of a `lambda`) -/
  app : Val → Val → Val
  /-- Python truthiness -/
  truthy : Val → Bool

/-! ### free names -/

def remove (x : Name) (l : List Name) : List Name := l.filter (· != x)

mutual
/-- the local names an expression mentions outside the binders that bind them
    (`SymbolCounter`: references marked `is_local`, and `local_names` of inline Python) -/
def fv : XExpr → List Name
  | .lit _ => []
  | .cc _ _ => []
  | .seq xs => fvList xs
  | .choice xs => fvList xs
  | .star e => fv e
  | .opt e => fv e
  | .ref _ => []
  | .pvar x => [x]
  | .py t => t.names
  | .let_ x e b => fv e ++ remove x (fv b)
  | .where_ e q => fv e ++ fv q
  | .apply e f => fv e ++ fv f
  | .applyL f e => fv f ++ fv e
  | .rep e t => fv e ++ t.names
  | .call _ args => fvArgs args
  | .bseq items _ fields => fvItems fields items
def fvList : List XExpr → List Name
  | [] => []
  | x :: xs => fv x ++ fvList xs
def fvArgs : List (Option Name × XExpr) → List Name
  | [] => []
  | (_, e) :: rest => fv e ++ fvArgs rest
/-- members bind sequentially: a name is visible in the members after its own, and to the
    constructor call at the end (which reads the kept fields) -/
def fvItems (fields : List Name) : List (Option Name × XExpr) → List Name
  | [] => fields
  | (none, e) :: rest => fv e ++ fvItems fields rest
  | (some x, e) :: rest => fv e ++ remove x (fvItems fields rest)
end

/-- insertion into a sorted duplicate-free list (`sorted(set(...))`) -/
def insertSorted (x : Name) : List Name → List Name
  | [] => [x]
  | y :: ys => if x < y then x :: y :: ys else if x = y then y :: ys else y :: insertSorted x ys

def sortNames : List Name → List Name
  | [] => []
  | x :: xs => insertSorted x (sortNames xs)

/-- the parameters of the helper function of an argument expression: `sorted(self.freevars())` -/
def captured (e : XExpr) : List Name := sortNames (fv e)

/-! ### specification: lexical environments -/

/-- what a name can denote -/
inductive SVal where
  | val (v : Val)
  /-- a string literal argument: value and parser -/
  | slit (s : List Nat)
  /-- a parsing-expression argument together with the environment of its call site -/
  | clo (e : XExpr) (env : List (Name × SVal))
  deriving Inhabited

abbrev SEnv := List (Name × SVal)

def lookupS (ρ : SEnv) (x : Name) : Option SVal :=
  match ρ with
  | [] => none
  | (y, v) :: rest => if x = y then some v else lookupS rest x

/-- the value of a name inside inline Python; parsers have no value in the model -/
def SVal.data : SVal → Option Val
  | .val v => some v
  | .slit s => some (.str s)
  | .clo _ _ => none

def valuesS (ρ : SEnv) : List Name → Option (List Val)
  | [] => some []
  | x :: xs =>
    match lookupS ρ x with
    | none => none
    | some sv =>
      match sv.data, valuesS ρ xs with
      | some v, some vs => some (v :: vs)
      | _, _ => none

def evalPyS (P : XProgram) (ρ : SEnv) (t : PyTerm) (extra : List Val) : Option Val :=
  (valuesS ρ t.names).map (fun vs => P.pyf t.fn (extra ++ vs))

/-- match the literal `s` at `p` -/
def matchLit (inp : List Nat) (s : List Nat) (p : Nat) : Res :=
  if (inp.drop p).take s.length = s ∧ p + s.length ≤ inp.length then .ok (.str s) (p + s.length) else .fail

def matchCc (inp : List Nat) (lo hi : Nat) (p : Nat) : Res :=
  match inp[p]? with
  | some c => if lo ≤ c ∧ c ≤ hi then .ok (.str [c]) (p + 1) else .fail
  | none => .fail

/-- the argument for parameter number `i` called `q`: the `i`-th positional one, else the one keyword `q` -/
def argFor {α : Type} (pos : List α) (kws : List (Name × α)) (i : Nat) (q : Name) : Option α :=
  match pos[i]? with
  | some a => some a
  | none =>
    match kws.filter (fun kv => kv.1 = q) with
    | [kv] => some kv.2
    | _ => none

def bindFrom {α : Type} (pos : List α) (kws : List (Name × α)) : Nat → List Name → Option (List (Name × α))
  | _, [] => some []
  | i, q :: qs =>
    match argFor pos kws i q, bindFrom pos kws (i + 1) qs with
    | some a, some rest => some ((q, a) :: rest)
    | _, _ => none

/-- bind the arguments to the parameters as a Python call does: positional ones in order, keyword
    ones by name; every parameter gets exactly one argument and no argument is left over -/
def posOf {α : Type} (ka : Option Name × α) : Option α :=
  match ka.1 with
  | none => some ka.2
  | some _ => none

def kwOf {α : Type} (ka : Option Name × α) : Option (Name × α) :=
  match ka.1 with
  | some n => some (n, ka.2)
  | none => none

def bindArgs {α : Type} (params : List Name) (args : List (Option Name × α)) : Option (List (Name × α)) :=
  if (args.filterMap posOf).length + (args.filterMap kwOf).length = params.length then
    bindFrom (args.filterMap posOf) (args.filterMap kwOf) 0 params
  else none

abbrev SRun := XExpr → SEnv → Nat → Option Res

def specSeq (run : SRun) (ρ : SEnv) : List XExpr → Nat → List Val → Option Res
  | [], p, acc => some (.ok (.list acc.reverse) p)
  | e :: es, p, acc =>
    match run e ρ p with
    | none => none
    | some .fail => some .fail
    | some (.ok v p') => specSeq run ρ es p' (v :: acc)

def specChoice (run : SRun) (ρ : SEnv) : List XExpr → Nat → Option Res
  | [], _ => some .fail
  | e :: es, p =>
    match run e ρ p with
    | none => none
    | some .fail => specChoice run ρ es p
    | some r => some r

/-- greedy repetition; an element that matches without consuming is repeated for ever by the
    generated loop: the meaning is then undefined (out of fuel) -/
def specStar (run : SRun) (ρ : SEnv) (e : XExpr) : Nat → Nat → List Val → Option Res
  | 0, _, _ => none
  | fuel + 1, p, acc =>
    match run e ρ p with
    | none => none
    | some .fail => some (.ok (.list acc.reverse) p)
    | some (.ok v p') => specStar run ρ e fuel p' (v :: acc)

/-- exactly `n` times -/
def specRep (run : SRun) (ρ : SEnv) (e : XExpr) : Nat → Nat → List Val → Option Res
  | 0, p, acc => some (.ok (.list acc.reverse) p)
  | n + 1, p, acc =>
    match run e ρ p with
    | none => none
    | some .fail => some .fail
    | some (.ok v p') => specRep run ρ e n p' (v :: acc)

/-- the members of a class body, each in the environment extended by the named members before it -/
def specItems (run : SRun) (ctor : String) (fields : List Name) (start : Nat) :
    List (Option Name × XExpr) → SEnv → Nat → Option Res
  | [], ρ, p =>
    match valuesS ρ fields with
    | none => none
    | some vs => some (.ok (.obj ctor (fields.zip vs) (some (start, p))) p)
  | (k, e) :: rest, ρ, p =>
    match run e ρ p with
    | none => none
    | some .fail => some .fail
    | some (.ok v p') =>
      match k with
      | none => specItems run ctor fields start rest ρ p'
      | some x => specItems run ctor fields start rest ((x, .val v) :: ρ) p'

/-- what an argument denotes at the call site -/
def argS (P : XProgram) (ρ : SEnv) : XExpr → Option SVal
  | .py t => (evalPyS P ρ t []).map .val
  | .lit s => some (.slit s)
  | .pvar x => lookupS ρ x          -- a name given as an argument: what the name denotes
  | e => some (.clo e ρ)

def argsS (P : XProgram) (ρ : SEnv) : List (Name × XExpr) → Option SEnv
  | [] => some []
  | (x, e) :: rest =>
    match argS P ρ e, argsS P ρ rest with
    | some v, some vs => some ((x, v) :: vs)
    | _, _ => none

def xpeg (P : XProgram) (inp : List Nat) : Nat → XExpr → SEnv → Nat → Option Res
  | 0, _, _, _ => none
  | fuel + 1, e, ρ, p =>
    let run : SRun := xpeg P inp fuel
    match e with
    | .lit s => some (matchLit inp s p)
    | .cc lo hi => some (matchCc inp lo hi p)
    | .seq xs => specSeq run ρ xs p []
    | .choice xs => specChoice run ρ xs p
    | .star e => specStar run ρ e (inp.length + 1) p []
    | .opt e =>
      match run e ρ p with
      | none => none
      | some .fail => some (.ok .none p)
      | some r => some r
    | .ref r =>
      match P.rules[r]? with
      | none => none
      | some body => run body [] p
    | .pvar x =>
      match lookupS ρ x with
      | some (.clo e' ρ') => run e' ρ' p
      | some (.slit s) => some (matchLit inp s p)
      | _ => none
    | .py t => (evalPyS P ρ t []).map (fun v => .ok v p)
    | .let_ x e b =>
      match run e ρ p with
      | none => none
      | some .fail => some .fail
      | some (.ok v p') => run b ((x, .val v) :: ρ) p'
    | .where_ e q =>
      match run e ρ p with
      | none => none
      | some .fail => some .fail
      | some (.ok v p') =>
        match run q ρ p' with
        | none => none
        | some .fail => some .fail
        | some (.ok f p'') => if P.truthy (P.app f v) then some (.ok v p'') else some .fail
    | .apply e f =>
      match run e ρ p with
      | none => none
      | some .fail => some .fail
      | some (.ok v p') =>
        match run f ρ p' with
        | none => none
        | some .fail => some .fail
        | some (.ok fv p'') => some (.ok (P.app fv v) p'')
    | .applyL f e =>
      match run f ρ p with
      | none => none
      | some .fail => some .fail
      | some (.ok fv p') =>
        match run e ρ p' with
        | none => none
        | some .fail => some .fail
        | some (.ok v p'') => some (.ok (P.app fv v) p'')
    | .rep e t =>
      -- `len(staging) >= n`: a negative count is satisfied at once
      match evalPyS P ρ t [] with
      | some (.int i) => specRep run ρ e i.toNat p []
      | _ => none
    | .call t args =>
      match P.templates[t]? with
      | none => none
      | some T =>
        match bindArgs T.params args with
        | none => none
        | some bound =>
          match argsS P ρ bound with
          | none => none
          | some ρ' => run T.body ρ' p
    | .bseq items ctor fields => specItems run ctor fields p items ρ p

/-! ### implementation: flat locals, helper functions with captured values -/

inductive IVal where
  | val (v : Val)
  /-- `_StringLiteral` -/
  | slit (s : List Nat)
  /-- `_ParseFunction(_parse_function_N, values…)`: the helper made from `e`, whose parameters
      are `captured e`, applied to the values those names had at the call site -/
  | pf (e : XExpr) (vals : List IVal)
  deriving Inhabited

abbrev Locals := List (Name × IVal)

def lookupI (L : Locals) (x : Name) : Option IVal :=
  match L with
  | [] => none
  | (y, v) :: rest => if x = y then some v else lookupI rest x

/-- assignment `x = v`: the one slot of `x` is overwritten -/
def assign (L : Locals) (x : Name) (v : IVal) : Locals :=
  match L with
  | [] => [(x, v)]
  | (y, w) :: rest => if x = y then (y, v) :: rest else (y, w) :: assign rest x v

def IVal.data : IVal → Option Val
  | .val v => some v
  | .slit s => some (.str s)
  | .pf _ _ => none

def valuesI (L : Locals) : List Name → Option (List Val)
  | [] => some []
  | x :: xs =>
    match lookupI L x with
    | none => none
    | some iv =>
      match iv.data, valuesI L xs with
      | some v, some vs => some (v :: vs)
      | _, _ => none

def evalPyI (P : XProgram) (L : Locals) (t : PyTerm) (extra : List Val) : Option Val :=
  (valuesI L t.names).map (fun vs => P.pyf t.fn (extra ++ vs))

/-- the values of the captured names, read from the locals at the call site -/
def capture (L : Locals) : List Name → Option (List IVal)
  | [] => some []
  | x :: xs =>
    match lookupI L x, capture L xs with
    | some v, some vs => some (v :: vs)
    | _, _ => none

/-- `argumentize` -/
def argI (P : XProgram) (L : Locals) : XExpr → Option IVal
  | .py t => (evalPyI P L t []).map .val
  | .lit s => some (.slit s)
  | .pvar x => lookupI L x          -- `Ref.argumentize`: the local itself
  | e => (capture L (captured e)).map (.pf e)

def argsI (P : XProgram) (L : Locals) : List (Name × XExpr) → Option Locals
  | [] => some []
  | (x, e) :: rest =>
    match argI P L e, argsI P L rest with
    | some v, some vs => some ((x, v) :: vs)
    | _, _ => none

/-- result of a piece of straight-line generated code: the outcome and the locals afterwards -/
abbrev IRun := XExpr → Locals → Nat → Option (Res × Locals)

def implSeq (run : IRun) : List XExpr → Locals → Nat → List Val → Option (Res × Locals)
  | [], L, p, acc => some (.ok (.list acc.reverse) p, L)
  | e :: es, L, p, acc =>
    match run e L p with
    | none => none
    | some (.fail, L') => some (.fail, L')
    | some (.ok v p', L') => implSeq run es L' p' (v :: acc)

def implChoice (run : IRun) : List XExpr → Locals → Nat → Option (Res × Locals)
  | [], L, _ => some (.fail, L)
  | e :: es, L, p =>
    match run e L p with
    | none => none
    | some (.fail, L') => implChoice run es L' p        -- the locals are NOT restored
    | some r => some r

def implStar (run : IRun) (e : XExpr) : Nat → Locals → Nat → List Val → Option (Res × Locals)
  | 0, _, _, _ => none
  | fuel + 1, L, p, acc =>
    match run e L p with
    | none => none
    | some (.fail, L') => some (.ok (.list acc.reverse) p, L')
    | some (.ok v p', L') => implStar run e fuel L' p' (v :: acc)

/-- `e{n}` with a data-dependent count, as `List._compile` emits it: the count is inline Python that is
    evaluated again before every element (`if len(staging) >= n: break`) and once more after the
    loop (`if len(staging) >= n: succeed`), each time in the locals as they are then -/
def implRepDyn (P : XProgram) (run : IRun) (e : XExpr) (t : PyTerm) : Nat → Locals → Nat → List Val → Option (Res × Locals)
  | 0, _, _, _ => none
  | k + 1, L, p, acc =>
    match (valuesI L t.names).map (fun vs => P.pyf t.fn vs) with
    | some (.int i) =>
      if i.toNat ≤ acc.length then some (.ok (.list acc.reverse) p, L)      -- break, and the test after the loop holds
      else
        match run e L p with
        | none => none
        | some (.fail, L') =>
          -- break; the test after the loop, with the locals as the failed element left them
          match (valuesI L' t.names).map (fun vs => P.pyf t.fn vs) with
          | some (.int j) => if j.toNat ≤ acc.length then some (.ok (.list acc.reverse) p, L') else some (.fail, L')
          | _ => none
        | some (.ok v p', L') => implRepDyn P run e t k L' p' (v :: acc)
    | _ => none

/-- `Seq(..., names=, constructor=, constructor_args=)`: `name = _result` after each named member -/
def implItems (run : IRun) (ctor : String) (fields : List Name) (start : Nat) :
    List (Option Name × XExpr) → Locals → Nat → Option (Res × Locals)
  | [], L, p =>
    match valuesI L fields with
    | none => none
    | some vs => some (.ok (.obj ctor (fields.zip vs) (some (start, p))) p, L)
  | (k, e) :: rest, L, p =>
    match run e L p with
    | none => none
    | some (.fail, L') => some (.fail, L')
    | some (.ok v p', L') =>
      match k with
      | none => implItems run ctor fields start rest L' p'
      | some x => implItems run ctor fields start rest (assign L' x (.val v)) p'

def xgen (P : XProgram) (inp : List Nat) : Nat → XExpr → Locals → Nat → Option (Res × Locals)
  | 0, _, _, _ => none
  | fuel + 1, e, L, p =>
    let run : IRun := xgen P inp fuel
    match e with
    | .lit s => some (matchLit inp s p, L)
    | .cc lo hi => some (matchCc inp lo hi p, L)
    | .seq xs => implSeq run xs L p []
    | .choice xs => implChoice run xs L p
    | .star e => implStar run e (inp.length + 1) L p []
    | .opt e =>
      match run e L p with
      | none => none
      | some (.fail, L') => some (.ok .none p, L')
      | some r => some r
    | .ref r =>
      match P.rules[r]? with
      | none => none
      | some body =>
        -- a call: the callee has its own locals, the caller's are untouched
        (run body [] p).map (fun (r, _) => (r, L))
    | .pvar x =>
      match lookupI L x with
      | some (.pf e' vals) =>
        -- `_ParseFunction.__call__`: the helper with its parameters bound to the captured values
        if vals.length = (captured e').length then
          (run e' ((captured e').zip vals) p).map (fun (r, _) => (r, L))
        else none
      | some (.slit s) => some (matchLit inp s p, L)
      | _ => none
    | .py t => (evalPyI P L t []).map (fun v => (.ok v p, L))
    | .let_ x e b =>
      match run e L p with
      | none => none
      | some (.fail, L') => some (.fail, L')
      | some (.ok v p', L') => run b (assign L' x (.val v)) p'
    | .where_ e q =>
      match run e L p with
      | none => none
      | some (.fail, L') => some (.fail, L')
      | some (.ok v p', L') =>
        match run q L' p' with
        | none => none
        | some (.fail, L'') => some (.fail, L'')
        | some (.ok f p'', L'') => if P.truthy (P.app f v) then some (.ok v p'', L'') else some (.fail, L'')
    | .apply e f =>
      match run e L p with
      | none => none
      | some (.fail, L') => some (.fail, L')
      | some (.ok v p', L') =>
        match run f L' p' with
        | none => none
        | some (.fail, L'') => some (.fail, L'')
        | some (.ok fv p'', L'') => some (.ok (P.app fv v) p'', L'')
    | .applyL f e =>
      match run f L p with
      | none => none
      | some (.fail, L') => some (.fail, L')
      | some (.ok fv p', L') =>
        match run e L' p' with
        | none => none
        | some (.fail, L'') => some (.fail, L'')
        | some (.ok v p'', L'') => some (.ok (P.app fv v) p'', L'')
    | .rep e t =>
      -- enough turns of the loop for the count as it is now (it cannot change on well-scoped programs)
      match evalPyI P L t [] with
      | some (.int i) => implRepDyn P run e t (i.toNat + 1) L p []
      | _ => none
    | .call t args =>
      match P.templates[t]? with
      | none => none
      | some T =>
        match bindArgs T.params args with
        | none => none
        | some bound =>
          match argsI P L bound with
          | none => none
          | some L' => (run T.body L' p).map (fun (r, _) => (r, L))
    | .bseq items ctor fields => implItems run ctor fields p items L p

/-! ### textual expansion: replacing parser parameters by argument expressions -/

abbrev Subst := List (Name × XExpr)

def lookupσ (σ : Subst) (x : Name) : Option XExpr :=
  match σ with
  | [] => none
  | (y, a) :: rest => if x = y then some a else lookupσ rest x

def dropσ (x : Name) (σ : Subst) : Subst := σ.filter (fun ya => ya.1 != x)

mutual
/-- replace every free use of a parameter as a parser by the argument expression; a binder of the
    same name ends the replacement in its scope -/
def subst (σ : Subst) : XExpr → XExpr
  | .lit s => .lit s
  | .cc lo hi => .cc lo hi
  | .seq xs => .seq (substList σ xs)
  | .choice xs => .choice (substList σ xs)
  | .star e => .star (subst σ e)
  | .opt e => .opt (subst σ e)
  | .ref r => .ref r
  | .pvar x => (lookupσ σ x).getD (.pvar x)
  | .py t => .py t
  | .let_ x e b => .let_ x (subst σ e) (subst (dropσ x σ) b)
  | .where_ e q => .where_ (subst σ e) (subst σ q)
  | .apply e f => .apply (subst σ e) (subst σ f)
  | .applyL f e => .applyL (subst σ f) (subst σ e)
  | .rep e t => .rep (subst σ e) t
  | .call t args => .call t (substArgs σ args)
  | .bseq items ctor fields => .bseq (substItems σ items) ctor fields
def substList (σ : Subst) : List XExpr → List XExpr
  | [] => []
  | x :: xs => subst σ x :: substList σ xs
def substArgs (σ : Subst) : List (Option Name × XExpr) → List (Option Name × XExpr)
  | [] => []
  | (k, e) :: rest => (k, subst σ e) :: substArgs σ rest
def substItems (σ : Subst) : List (Option Name × XExpr) → List (Option Name × XExpr)
  | [] => []
  | (none, e) :: rest => (none, subst σ e) :: substItems σ rest
  | (some x, e) :: rest => (some x, subst σ e) :: substItems (dropσ x σ) rest
end

def inDom (σ : Subst) (x : Name) : Bool := (lookupσ σ x).isSome

def noneInDom (σ : Subst) (names : List Name) : Bool := names.all (fun x => !inDom σ x)

mutual
/-- inline Python does not mention a replaced parameter (a parser has no value) -/
def pyAvoids (σ : Subst) : XExpr → Bool
  | .lit _ => true
  | .cc _ _ => true
  | .seq xs => pyAvoidsList σ xs
  | .choice xs => pyAvoidsList σ xs
  | .star e => pyAvoids σ e
  | .opt e => pyAvoids σ e
  | .ref _ => true
  | .pvar _ => true
  | .py t => noneInDom σ t.names
  | .let_ x e b => pyAvoids σ e && pyAvoids (dropσ x σ) b
  | .where_ e q => pyAvoids σ e && pyAvoids σ q
  | .apply e f => pyAvoids σ e && pyAvoids σ f
  | .applyL f e => pyAvoids σ f && pyAvoids σ e
  | .rep e t => pyAvoids σ e && noneInDom σ t.names
  | .call _ args => pyAvoidsArgs σ args
  | .bseq items _ fields => pyAvoidsItems σ fields items
def pyAvoidsList (σ : Subst) : List XExpr → Bool
  | [] => true
  | x :: xs => pyAvoids σ x && pyAvoidsList σ xs
def pyAvoidsArgs (σ : Subst) : List (Option Name × XExpr) → Bool
  | [] => true
  | (_, e) :: rest => pyAvoids σ e && pyAvoidsArgs σ rest
def pyAvoidsItems (σ : Subst) (fields : List Name) : List (Option Name × XExpr) → Bool
  | [] => noneInDom σ fields
  | (none, e) :: rest => pyAvoids σ e && pyAvoidsItems σ fields rest
  | (some x, e) :: rest => pyAvoids σ e && pyAvoidsItems (dropσ x σ) fields rest
end

def XExpr.isPy : XExpr → Bool
  | .py _ => true
  | _ => false

/-- arguments that can be written in place of the parameter: closed parsing expressions
    (string literals included), not inline Python -/
def closedArgs (σ : Subst) : Bool := σ.all (fun ya => (fv ya.2).isEmpty && !ya.2.isPy)

/-! ### well-scoped programs without shadowing -/

def allIn (Γ : List Name) (names : List Name) : Bool := names.all (fun x => Γ.contains x)

mutual
/-- every name that is mentioned is in scope, and no binder binds a name that is in scope already -/
def ws (Γ : List Name) : XExpr → Bool
  | .lit _ => true
  | .cc _ _ => true
  | .seq xs => wsList Γ xs
  | .choice xs => wsList Γ xs
  | .star e => ws Γ e
  | .opt e => ws Γ e
  | .ref _ => true
  | .pvar x => Γ.contains x
  | .py t => allIn Γ t.names
  | .let_ x e b => ws Γ e && !Γ.contains x && ws (x :: Γ) b
  | .where_ e q => ws Γ e && ws Γ q
  | .apply e f => ws Γ e && ws Γ f
  | .applyL f e => ws Γ f && ws Γ e
  | .rep e t => ws Γ e && allIn Γ t.names
  | .call _ args => wsArgs Γ args
  | .bseq items _ fields => wsItems Γ fields items
def wsList (Γ : List Name) : List XExpr → Bool
  | [] => true
  | x :: xs => ws Γ x && wsList Γ xs
def wsArgs (Γ : List Name) : List (Option Name × XExpr) → Bool
  | [] => true
  | (_, e) :: rest => ws Γ e && wsArgs Γ rest
def wsItems (Γ : List Name) (fields : List Name) : List (Option Name × XExpr) → Bool
  | [] => allIn Γ fields
  | (none, e) :: rest => ws Γ e && wsItems Γ fields rest
  | (some x, e) :: rest => ws Γ e && !Γ.contains x && wsItems (x :: Γ) fields rest
end

def wsProgram (P : XProgram) : Bool :=
  P.rules.all (ws []) && P.templates.all (fun T => ws T.params T.body)

end Sourcer.X
