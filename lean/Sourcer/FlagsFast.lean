import Sourcer.Expr
/-
  A single-traversal implementation of `flagsOf` for compiled code (the driver).  `flagsOf`
  computes the aggregates `anyAs` / `anyCps` of a variadic node by separate traversals, which is
  exponential in the nesting depth when executed; the definitions are proved equal and the
  compiler is told to use this one (`@[csimp]`, no trust involved).
-/
namespace Sourcer

mutual
def flagsFast (F : FlagTable) : Expr → Flags
  | .str s _ => F.str s.isEmpty
  | .regex _ _ => F.regex
  | .byte _ _ => F.byte
  | .ref _ => F.ref
  | .seq xs => F.seq (aggFast F xs).2.2
  | .cls _ xs _ => F.cls (aggFast F xs).2.2
  | .discard a b _ => F.discard (flagsFast F a) (flagsFast F b)
  | .choice xs => let a := aggFast F xs; F.choice a.1 a.2.1
  | .opt e => F.opt (flagsFast F e)
  | .list e m _ => F.list (minClass m) (flagsFast F e)
  | .sep e s o => F.sep o (flagsFast F e) (flagsFast F s)
  | .expect e => F.expect (flagsFast F e)
  | .expectNot e => F.expectNot (flagsFast F e)
  | .skip _ => F.skip
  | .longest xs => let a := aggFast F xs; F.longest a.1 a.2.1
  | .backtrack _ => F.backtrack
  | .fail => F.fail
  | .py _ => F.py
  | .tagged e _ => F.apply (flagsFast F e) F.py
  | .optable pre operand mixfix _ _ =>
    F.optable (!pre.isEmpty)
      (match mixfix with
       | [] => flagsFast F operand
       | _ =>
         let fo := flagsFast F operand
         let a := aggFast F mixfix
         F.longest (fo.as || a.1) (fo.cps || a.2.1))
/-- `(anyAs, anyCps, allAs)` of a list in one pass -/
def aggFast (F : FlagTable) : List Expr → Bool × Bool × Bool
  | [] => (false, false, true)
  | x :: xs =>
    let f := flagsFast F x
    let r := aggFast F xs
    (f.as || r.1, f.cps || r.2.1, f.as && r.2.2)
end

mutual
theorem flagsFast_eq (F : FlagTable) : ∀ e : Expr, flagsFast F e = flagsOf F e
  | .str _ _ => by simp [flagsFast, flagsOf]
  | .regex _ _ => by simp [flagsFast, flagsOf]
  | .byte _ _ => by simp [flagsFast, flagsOf]
  | .ref _ => by simp [flagsFast, flagsOf]
  | .seq xs => by simp [flagsFast, flagsOf, aggFast_eq F xs]
  | .cls _ xs _ => by simp [flagsFast, flagsOf, aggFast_eq F xs]
  | .discard a b _ => by simp [flagsFast, flagsOf, flagsFast_eq F a, flagsFast_eq F b]
  | .choice xs => by simp [flagsFast, flagsOf, aggFast_eq F xs]
  | .opt e => by simp [flagsFast, flagsOf, flagsFast_eq F e]
  | .list e _ _ => by simp [flagsFast, flagsOf, flagsFast_eq F e]
  | .sep e s _ => by simp [flagsFast, flagsOf, flagsFast_eq F e, flagsFast_eq F s]
  | .expect e => by simp [flagsFast, flagsOf, flagsFast_eq F e]
  | .expectNot e => by simp [flagsFast, flagsOf, flagsFast_eq F e]
  | .skip _ => by simp [flagsFast, flagsOf]
  | .longest xs => by simp [flagsFast, flagsOf, aggFast_eq F xs]
  | .backtrack _ => by simp [flagsFast, flagsOf]
  | .fail => by simp [flagsFast, flagsOf]
  | .py _ => by simp [flagsFast, flagsOf]
  | .tagged e _ => by simp [flagsFast, flagsOf, flagsFast_eq F e]
  | .optable pre operand mixfix _ _ => by
    cases mixfix with
    | nil => simp [flagsFast, flagsOf, flagsFast_eq F operand]
    | cons m ms => simp [flagsFast, flagsOf, flagsFast_eq F operand, aggFast_eq F (m :: ms)]
theorem aggFast_eq (F : FlagTable) : ∀ xs : List Expr, aggFast F xs = (anyAs F xs, anyCps F xs, allAs F xs)
  | [] => by simp [aggFast, anyAs, anyCps, allAs]
  | x :: xs => by simp [aggFast, anyAs, anyCps, allAs, flagsFast_eq F x, aggFast_eq F xs]
end

@[csimp] theorem flagsOf_eq_flagsFast : @flagsOf = @flagsFast := by
  funext F e; exact (flagsFast_eq F e).symm

end Sourcer
