import Sourcer.Expr
/-
  L2: whole-grammar preparation, as done by the first half of `translator.generate_source_code`:
  choice of the start rule, the synthetic `_ignored = Skip(ignored rules…)` rule, the leading skip
  in front of the start rule's (first) expression, `skip_ignored := True` on every literal of
  every rule.
-/
namespace Sourcer

structure RuleDef where
  /-- the rule's name is `start` in any capitalisation (`name.lower() == 'start'`) -/
  isStart : Bool
  body : Expr
  ignored : Bool
  deriving Inhabited

mutual
def setSkip : Expr → Expr
  | .str s _ => .str s true
  | .regex r _ => .regex r true
  | .byte b _ => .byte b true
  | .ref k => .ref k
  | .seq xs => .seq (setSkipList xs)
  | .cls n xs keep => .cls n (setSkipList xs) keep
  | .discard a b l => .discard (setSkip a) (setSkip b) l
  | .choice xs => .choice (setSkipList xs)
  | .opt e => .opt (setSkip e)
  | .list e m x => .list (setSkip e) m x
  | .sep e s o => .sep (setSkip e) (setSkip s) o
  | .expect e => .expect (setSkip e)
  | .expectNot e => .expectNot (setSkip e)
  | .skip xs => .skip (setSkipList xs)
  | .longest xs => .longest (setSkipList xs)
  | .backtrack n => .backtrack n
  | .fail => .fail
  | .py v => .py v
  | .tagged e t => .tagged (setSkip e) t
  | .optable pre o m post inf =>
    .optable (setSkipList pre) (setSkip o) (setSkipList m) (setSkipList post) (setSkipList inf)
def setSkipList : List Expr → List Expr
  | [] => []
  | x :: xs => setSkip x :: setSkipList xs
end

/-- indices of the rules carrying the `ignore` modifier -/
def ignoredIdxs : List RuleDef → Nat → List Nat
  | [], _ => []
  | r :: rs, i => if r.ignored then i :: ignoredIdxs rs (i + 1) else ignoredIdxs rs (i + 1)

def findStart : List RuleDef → Nat → Option Nat
  | [], _ => none
  | r :: rs, i => if r.isStart then some i else findStart rs (i + 1)

/-- the first rule that does not carry the `ignore` modifier -/
def firstPlain : List RuleDef → Nat → Option Nat
  | [], _ => none
  | r :: rs, i => if r.ignored then firstPlain rs (i + 1) else some i

/-- the start rule: the rule called `start`, or else the first rule that is not ignored -/
def startOf (rules : List RuleDef) : Option Nat :=
  match findStart rules 0 with
  | some i => some i
  | none => firstPlain rules 0

/-- the leading skip: in front of a plain start rule's expression, or of the first member of a
    class start rule -/
def addLeading (k : Nat) : Expr → Expr
  | .cls n (m :: ms) keep => .cls n (.discard (.ref k) m true :: ms) keep
  | .cls n [] keep => .cls n [] keep
  | e => .discard (.ref k) e true

def mapIdx (f : Nat → Expr → Expr) : List Expr → Nat → List Expr
  | [], _ => []
  | x :: xs, i => f i x :: mapIdx f xs (i + 1)

structure Prepared where
  bodies : List Expr
  ignored : Option Nat
  /-- entry rule of the module-level `parse` -/
  start : Nat

def prepare (rules : List RuleDef) : Prepared :=
  let start := startOf rules
  let entry := start.getD 0
  let ign := ignoredIdxs rules 0
  if ign.isEmpty then ⟨rules.map (·.body), none, entry⟩
  else
    let k := rules.length
    let bodies := rules.map (·.body) ++ [.skip (ign.map .ref)]
    let bodies := mapIdx (fun i b => if start == some i then addLeading k b else b) bodies 0
    ⟨setSkipList bodies, some k, entry⟩

end Sourcer
