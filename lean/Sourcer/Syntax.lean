import Sourcer.Expr
/-
  L0/L1: the surface syntax tree that the grammar-description parser produces for an expression,
  and `elabSyn`, the model of `translator._create_parsing_expression` for the core constructs:
  operator spellings, constructor-call interception (`Opt(e)`, `List(e, min_len=…)`, `Sep(…)`, …),
  flattening of `|`, un-cooking of `{m,n}`.  `none` = the translator raises.
-/
namespace Sourcer

/-- an argument of a constructor call: positional or keyword; inline Python (`True`, `3`) is an
    option value, anything else a parsing expression -/
inductive Syn where
  | str (s : List Nat)
  | regex (rx : Nat)
  | byte (b : Nat)
  | ref (rule : Nat)
  | fail
  | pynum (n : Nat)                 -- inline Python number / repeat bound
  | pybool (b : Bool)
  | pynone
  | listLit (xs : List Syn)         -- `[a, b]`
  | postfix (e : Syn) (op : String) -- `e?`, `e*`, `e+`
  | repeat (e : Syn) (start stop : Option Syn)   -- `e{m,n}` after the `Repeat` class: stop = start for `{n}`
  | infix (l : Syn) (op : String) (r : Syn)      -- `|`, `>>`, `<<`, `//`, `/?`
  | call (f : String) (args : List Syn) (kwargs : List (String × Syn))
  deriving Inhabited

def uncookBound : Option Syn → Option (Option Nat)
  | none => some none
  | some .pynone => some none
  | some (.pynum n) => some (some n)
  | some _ => none                  -- a name or other Python: data-dependent bound (outside this model)

def mkList (e : Expr) (min : Option Nat) (max : Option Nat) : Option Expr :=
  let m := min.getD 0
  match max with
  | none => some (.list e m none)
  | some mx => if mx < m then none else some (.list e m (some (mx - m)))

def kwBool (kwargs : List (String × Syn)) (name : String) (dflt : Bool) : Option Bool :=
  match kwargs.find? (·.1 == name) with
  | none => some dflt
  | some (_, .pybool b) => some b
  | some _ => none

def kwNat (kwargs : List (String × Syn)) (name : String) : Option (Option Nat) :=
  match kwargs.find? (·.1 == name) with
  | none => some none
  | some (_, .pynum n) => some (some n)
  | some (_, .pynone) => some none
  | some _ => none

mutual
def elabSyn : Syn → Option Expr
  | .str s => some (.str s false)
  | .regex r => some (.regex r false)
  | .byte b => some (.byte b false)
  | .ref k => some (.ref k)
  | .fail => some .fail
  | .pynum n => some (.py (.int n))
  | .pybool b => some (.py (.bool b))
  | .pynone => some (.py .none)
  | .listLit xs => (elabSynList xs).map .seq
  | .postfix e op =>
    match elabSyn e with
    | none => none
    | some x =>
      if op == "?" then some (.opt x)
      else if op == "*" then some (.list x 0 none)
      else if op == "+" then some (.list x 1 none)
      else none
  | .repeat e start stop =>
    match elabSyn e, uncookBound start, uncookBound stop with
    | some x, some m, some n => mkList x m n
    | _, _, _ => none
  | .infix l op r =>
    match elabSyn l, elabSyn r with
    | some a, some b =>
      if op == "|" then
        -- `|` flattens a choice on either side
        let la := match a with | .choice xs => xs | x => [x]
        let lb := match b with | .choice xs => xs | x => [x]
        some (.choice (la ++ lb))
      else if op == ">>" then some (.discard a b true)
      else if op == "<<" then some (.discard a b false)
      else if op == "//" then some (.sep a b ⟨true, false, true, false⟩)
      else if op == "/?" then some (.sep a b ⟨true, true, true, false⟩)
      else none
    | _, _ => none
  | .call f args kwargs =>
    match elabSynList args with
    | none => none
    | some xs =>
      if f == "Opt" then match xs with | [x] => some (.opt x) | _ => none
      else if f == "Some" then match xs with | [x] => some (.list x 1 none) | _ => none
      else if f == "List" then
        match xs, kwNat kwargs "min_len", kwNat kwargs "max_len" with
        | [x], some m, some n => mkList x m n
        | _, _, _ => none
      else if f == "Right" then match xs with | [a, b] => some (.discard a b true) | _ => none
      else if f == "Left" then match xs with | [a, b] => some (.discard a b false) | _ => none
      else if f == "Choice" then some (.choice xs)
      else if f == "Seq" then some (.seq xs)
      else if f == "Sep" then
        match xs, kwBool kwargs "discard_separators" true, kwBool kwargs "allow_trailer" false,
            kwBool kwargs "allow_empty" true, kwBool kwargs "require_separator" false with
        | [a, b], some d, some t, some e, some r => if r && !t then none else some (.sep a b ⟨d, t, e, r⟩)
        | _, _, _, _, _ => none
      else if f == "Expect" then match xs with | [x] => some (.expect x) | _ => none
      else if f == "ExpectNot" then match xs with | [x] => some (.expectNot x) | _ => none
      else if f == "Skip" then some (.skip xs)
      else if f == "Longest" then some (.longest xs)
      else none
def elabSynList : List Syn → Option (List Expr)
  | [] => some []
  | x :: xs =>
    match elabSyn x, elabSynList xs with
    | some a, some rest => some (a :: rest)
    | _, _ => none
end

end Sourcer
