import Sourcer.Sexp
import Sourcer.FlagBits
import Sourcer.Regex
import Sourcer.Gen
import Sourcer.Peg
import Sourcer.Prepare
import Sourcer.Run
import Sourcer.Api
import Sourcer.Objects
import Sourcer.Walk
import Sourcer.Transform
/-
  Decoding of protocol terms into model values (driver side only).
-/
namespace Sourcer
open Sexp

partial def decodeVal : Sexp → Option Val
  | .atom "N" => some .none
  | .atom "T" => some (.bool true)
  | .atom "F" => some (.bool false)
  | .atom "E" => some .err
  | .list (.atom "i" :: [x]) => x.int?.map .int
  | .list (.atom "s" :: xs) => (nats? xs).map .str
  | .list (.atom "b" :: xs) => (nats? xs).map .bytes
  | .list (.atom "l" :: xs) => (xs.mapM decodeVal).map .list
  | .list (.atom "t" :: xs) => (xs.mapM decodeVal).map .tuple
  | _ => none

partial def decodeRx : Sexp → Option Rx
  | .atom "eps" => some .eps
  | .list [.atom "chr", c] => c.nat?.map .chr
  | .list [.atom "any", d] => d.bool?.map .any
  | .list (.atom "cls" :: neg :: rs) => do
    let n ← neg.bool?
    let rs ← rs.mapM fun r => match r with
      | .list [a, b] => do pure ((← a.nat?), (← b.nat?))
      | _ => none
    pure (.cls n rs)
  | .list (.atom "seq" :: xs) => do
    let xs ← xs.mapM decodeRx
    pure (xs.foldr (fun a b => .seq a b) .eps)
  | .list (.atom "alt" :: xs) => do
    let xs ← xs.mapM decodeRx
    match xs.reverse with
    | [] => none
    | l :: rest => pure (rest.foldl (fun b a => .alt a b) l)
  | .list [.atom "atend", st] => st.bool?.map .atEnd
  | .atom "atstart" => some .atStart
  | .list [.atom "look", neg, a] => do pure (.look (← neg.bool?) (← decodeRx a))
  | .list [.atom "rep", a, mn, mx, g] => do
    let a ← decodeRx a
    let mn ← mn.nat?
    let mx := match mx with
      | .atom "inf" => some none
      | x => x.nat?.map some
    pure (.rep a mn (← mx) (← g.bool?))
  | _ => none

partial def decodeExpr : Sexp → Option Expr
  | .list (.atom "str" :: sk :: xs) => do pure (.str (← nats? xs) (← sk.bool?))
  | .list [.atom "regex", sk, i] => do pure (.regex (← i.nat?) (← sk.bool?))
  | .list [.atom "byte", sk, b] => do pure (.byte (← b.nat?) (← sk.bool?))
  | .list [.atom "ref", k] => k.nat?.map .ref
  | .list (.atom "seq" :: xs) => (xs.mapM decodeExpr).map .seq
  | .list (.atom "cls" :: .atom name :: ms) => do
    let ms ← ms.mapM fun m => match m with
      | .list [.atom "keep", .atom f, e] => do pure (some f, ← decodeExpr e)
      | .list [.atom "drop", e] => do pure (none, ← decodeExpr e)
      | _ => none
    pure (.cls name (ms.map (·.2)) (ms.map (·.1)))
  | .list [.atom "discard", l, a, b] => do pure (.discard (← decodeExpr a) (← decodeExpr b) (← l.bool?))
  | .list (.atom "choice" :: xs) => (xs.mapM decodeExpr).map .choice
  | .list [.atom "opt", e] => (decodeExpr e).map .opt
  | .list [.atom "list", mn, mx, e] => do
    let mn ← mn.nat?
    let extra ← match mx with
      | .atom "inf" => some none
      | x => do
        let mx ← x.nat?
        if mx < mn then none else some (some (mx - mn))
    pure (.list (← decodeExpr e) mn extra)
  | .list [.atom "sep", d, t, em, rq, e, s] => do
    pure (.sep (← decodeExpr e) (← decodeExpr s) ⟨← d.bool?, ← t.bool?, ← em.bool?, ← rq.bool?⟩)
  | .list [.atom "expect", e] => (decodeExpr e).map .expect
  | .list [.atom "expectnot", e] => (decodeExpr e).map .expectNot
  | .list (.atom "skip" :: xs) => (xs.mapM decodeExpr).map .skip
  | .list (.atom "longest" :: xs) => (xs.mapM decodeExpr).map .longest
  | .list [.atom "backtrack", n] => n.nat?.map .backtrack
  | .atom "fail" => some .fail
  | .list (.atom "tagged" :: e :: tag) => do pure (.tagged (← decodeExpr e) (← tag.mapM Sexp.int?))
  | .list [.atom "optable", .list (.atom "pre" :: pre), .list [.atom "operand", o], .list (.atom "mixfix" :: m),
      .list (.atom "post" :: post), .list (.atom "inf" :: inf)] => do
    pure (.optable (← pre.mapM decodeExpr) (← decodeExpr o) (← m.mapM decodeExpr) (← post.mapM decodeExpr)
      (← inf.mapM decodeExpr))
  | .list [.atom "py", .atom "N"] => some (.py .none)
  | .list [.atom "py", .atom "T"] => some (.py (.bool true))
  | .list [.atom "py", .atom "F"] => some (.py (.bool false))
  | .list [.atom "py", .list [.atom "i", x]] => x.int?.map fun i => .py (.int i)
  | _ => none

def b01 (b : Bool) : String := if b then "1" else "0"

mutual
/-- inverse of `decodeExpr` (same concrete syntax as `harness/realrun.py` produces) -/
partial def encodeExpr : Expr → String
  | .str s sk => s!"(str {b01 sk}" ++ String.join (s.map fun c => s!" {c}") ++ ")"
  | .regex r sk => s!"(regex {b01 sk} {r})"
  | .byte b sk => s!"(byte {b01 sk} {b})"
  | .ref k => s!"(ref {k})"
  | .seq xs => "(seq" ++ encodeList xs ++ ")"
  | .cls n xs keep =>
    let ms := (xs.zip (keep ++ List.replicate xs.length none)).map fun (e, k) =>
      match k with
      | some f => s!" (keep {f} {encodeExpr e})"
      | none => s!" (drop {encodeExpr e})"
    s!"(cls {n}" ++ String.join ms ++ ")"
  | .discard a b l => s!"(discard {b01 l} {encodeExpr a} {encodeExpr b})"
  | .choice xs => "(choice" ++ encodeList xs ++ ")"
  | .opt e => s!"(opt {encodeExpr e})"
  | .list e m x =>
    let mx := match x with
      | some k => toString (m + k)
      | none => "inf"
    s!"(list {m} {mx} {encodeExpr e})"
  | .sep e s o => s!"(sep {b01 o.discard} {b01 o.trailer} {b01 o.empty} {b01 o.require} {encodeExpr e} {encodeExpr s})"
  | .expect e => s!"(expect {encodeExpr e})"
  | .expectNot e => s!"(expectnot {encodeExpr e})"
  | .skip xs => "(skip" ++ encodeList xs ++ ")"
  | .longest xs => "(longest" ++ encodeList xs ++ ")"
  | .backtrack n => s!"(backtrack {n})"
  | .fail => "fail"
  | .py c => s!"(py {c.toVal.print})"
  | .tagged e tag => s!"(tagged {encodeExpr e}" ++ String.join (tag.map fun t => s!" {t}") ++ ")"
  | .optable pre o m post inf =>
    s!"(optable (pre{encodeList pre}) (operand {encodeExpr o}) (mixfix{encodeList m}) (post{encodeList post}) (inf{encodeList inf}))"
partial def encodeList (xs : List Expr) : String :=
  String.join (xs.map fun x => " " ++ encodeExpr x)
end

def decodeRuleDef : Sexp → Option RuleDef
  | .list [.atom "rule", .atom name, ign, body] => do
    pure ⟨name.toLower == "start", ← decodeExpr body, ← ign.bool?⟩
  | _ => none

def printReg (r : Option Reg) : String :=
  match r with
  | none => "U"
  | some r => if r.status then s!"(S {r.result.print} {r.pos})" else s!"(F {r.pos})"

def printRes (r : Option Res) : String :=
  match r with
  | none => "U"
  | some (.ok v p) => s!"(S {v.print} {p})"
  | some .fail => "F"

def printOutcome : Outcome → String
  | .value v => s!"(V {v.print})"
  | .partialParse v i => s!"(P {v.print} {i})"
  | .parseError i => s!"(E {i})"
  | .indexError => "(X IndexError)"

/-- the outcome the specification dictates (C08): `none` = meaning undefined -/
def specOutcome (len : Nat) (full : Bool) : Option Res → String
  | none => "U"
  | some .fail => "(E -)"
  | some (.ok v p) => printOutcome (parseApi len full ⟨true, v, p⟩)

def printFlags (f : Flags) : String := s!"{boolIdx f.as}{boolIdx f.cps}"

end Sourcer

namespace Sourcer
open Sexp Run

/-- finite description of a rule body for the `_run` correspondence: the continuation after a
    call is a finite branching on the result id, with a default branch -/
inductive FProg where
  | ret (r : Nat)
  | call (k : Nat) (branches : List (Nat × FProg)) (dflt : FProg)
  deriving Inhabited

partial def decodeFProg : Sexp → Option FProg
  | .list [.atom "ret", r] => r.nat?.map .ret
  | .list (.atom "call" :: k :: rest) => do
    let k ← k.nat?
    let rec go (xs : List Sexp) (acc : List (Nat × FProg)) : Option FProg :=
      match xs with
      | [.list [.atom "else", d]] => do pure (.call k acc.reverse (← decodeFProg d))
      | .list [r, p] :: more => do go more ((← r.nat?, ← decodeFProg p) :: acc)
      | _ => none
    go rest []
  | _ => none

instance : Inhabited (Prog Nat Nat) := ⟨.ret 0⟩

partial def FProg.toProg : FProg → Prog Nat Nat
  | .ret r => .ret r
  | .call k bs d => .call k fun r =>
    match bs.find? (·.1 == r) with
    | some (_, p) => p.toProg
    | none => d.toProg

/-- run the machine, printing the observable events (`b k` body of k begins, `s k r` k is resumed
    with r, `r k v` k returns v) -/
def machineTrace (body : Nat → Prog Nat Nat) (k0 : Nat) (fuel : Nat) : String := Id.run do
  let mut s := init body k0
  let mut out : Array String := #[]
  for _ in [0:fuel] do
    match s.stack with
    | [] => break
    | (key, g) :: _ =>
      match g, s.pending with
      | .fresh _, _ => out := out.push s!"b {key}"
      | .waiting _, some r => out := out.push s!"s {key} {r}"
      | .waiting _, none => out := out.push s!"stuck {key}"
      match send g s.pending with
      | some (.ret r) => out := out.push s!"r {key} {r}"
      | _ => pure ()
      match step body s with
      | none => break
      | some s' => s := s'
  let fin := match s.stack, s.pending with
    | [], some r => s!"done {r}"
    | _, _ => "unfinished"
  return " ".intercalate (out.toList ++ [fin]) ++ s!" | starts {s.starts.length}"

end Sourcer

namespace Sourcer
open Sexp Obj

partial def decodePV : Sexp → Option PV
  | .atom "N" => some .none
  | .atom "T" => some (.bool true)
  | .atom "F" => some (.bool false)
  | .list [.atom "i", x] => x.int?.map .int
  | .list (.atom "s" :: xs) => (nats? xs).map .str
  | .list (.atom "l" :: xs) => (xs.mapM decodePV).map .list
  | .list (.atom "t" :: xs) => (xs.mapM decodePV).map .tuple
  | .list (.atom "d" :: kvs) => do
    let kvs ← kvs.mapM fun kv => match kv with
      | .list [k, v] => do pure ((← decodePV k), (← decodePV v))
      | _ => none
    pure (.dict kvs)
  | .list (.atom "o" :: c :: .list [.atom "pos", a, b] :: fs) => do
    pure (.obj (← c.nat?) (← fs.mapM decodePV) (some ((← a.nat?), (← b.nat?))))
  | .list (.atom "o" :: c :: fs) => do pure (.obj (← c.nat?) (← fs.mapM decodePV) none)
  | _ => none

partial def printPV : PV → String
  | .none => "N"
  | .bool true => "T"
  | .bool false => "F"
  | .int i => s!"(i {i})"
  | .str s => "(s" ++ String.join (s.map fun c => s!" {c}") ++ ")"
  | .list xs => "(l" ++ String.join (xs.map fun x => " " ++ printPV x) ++ ")"
  | .tuple xs => "(t" ++ String.join (xs.map fun x => " " ++ printPV x) ++ ")"
  | .dict kvs => "(d" ++ String.join (kvs.map fun (k, v) => s!" ({printPV k} {printPV v})") ++ ")"
  | .obj c fs pos =>
    let p := match pos with
      | some (a, b) => s!" (pos {a} {b})"
      | none => ""
    s!"(o {c}{p}" ++ String.join (fs.map fun x => " " ++ printPV x) ++ ")"

/-- concrete hash functions for the driver (any would do: only `equal ⇒ equal hash` is observable) -/
def demoHash : HashFns :=
  { hnone := 7, hnum := fun i => i * 31 + 1, hstr := fun s => List.foldl (fun (a : Int) (c : Nat) => a * 33 + Int.ofNat c) (5381 : Int) s,
    htuple := fun hs => hs.foldl (fun a x => a * 1000003 + x) 3, combine := fun a b => a + b * 2 }

end Sourcer

namespace Sourcer
open Sexp Walk

partial def decodeT : Sexp → Option T
  | .list (.atom k :: id :: cs) => do
    let kind ← match k with
      | "x" => some Kind.leaf
      | "l" => some Kind.list
      | "t" => some Kind.tuple
      | "d" => some Kind.dict
      | "o" => some Kind.obj
      | _ => none
    let cs ← cs.mapM fun c => match c with
      | .list [lab, t] => do pure ((← lab.nat?), (← decodeT t))
      | _ => none
    pure (.mk kind (← id.nat?) cs)
  | _ => none

def printEvent (e : Event) : String :=
  let o (x : Option Nat) : String := match x with
    | some n => toString n
    | none => "-"
  s!"{o e.parent}:{o e.field}:{e.child}:{if e.finished then 1 else 0}"

end Sourcer

namespace Sourcer
open Sexp Tr

partial def decodeTV : Sexp → Option V
  | .list [.atom "x", t] => t.nat?.map .leaf
  | .list (.atom "l" :: xs) => (xs.mapM decodeTV).map .list
  | .list (.atom "o" :: c :: t :: .list [.atom "pos", m] :: fs) => do
    pure (.obj (← c.nat?) (← t.nat?) (← fs.mapM decodeTV) (some (← m.nat?)))
  | .list (.atom "o" :: c :: t :: fs) => do pure (.obj (← c.nat?) (← t.nat?) (← fs.mapM decodeTV) none)
  | _ => none

partial def printTV : V → String
  | .leaf t => s!"(x {t})"
  | .list xs => "(l" ++ String.join (xs.map fun x => " " ++ printTV x) ++ ")"
  | .obj c _ fs pm =>
    let p := match pm with
      | some m => s!" (pos {m})"
      | none => ""
    s!"(o {c}{p}" ++ String.join (fs.map fun x => " " ++ printTV x) ++ ")"

/-- callbacks as data: a list of (class, action); anything else is returned as it is -/
inductive Action where
  | same
  | newObj (cls : Nat) (pos : Option Nat)     -- a different object of class `cls` with the same fields
  | toLeaf (t : Nat)
  | wrap                                      -- `[node]`
  | setField (i : Nat) (t : Nat)              -- `node._replace(field_i = t)`
  | equalCopy                                 -- a distinct but equal object without metadata
  | child (i : Nat)                           -- the node's own field `i` (an object of the tree, a list or a leaf)

def decodeAction : Sexp → Option Action
  | .atom "same" => some .same
  | .list [.atom "new", c] => c.nat?.map fun c => .newObj c none
  | .list [.atom "new", c, m] => do pure (.newObj (← c.nat?) (some (← m.nat?)))
  | .list [.atom "leaf", t] => t.nat?.map .toLeaf
  | .atom "wrap" => some .wrap
  | .list [.atom "set", i, t] => do pure (.setField (← i.nat?) (← t.nat?))
  | .atom "equalcopy" => some .equalCopy
  | .list [.atom "child", i] => i.nat?.map .child
  | _ => none

def mkCb (rules : List (Nat × Action)) : Cb := fun v =>
  match v with
  | .obj c t fs pm =>
    match rules.find? (·.1 == c) with
    | none => none
    | some (_, a) =>
      match a with
      | .same => none
      | .newObj c' m => some (.obj c' t fs m)
      | .toLeaf k => some (.leaf k)
      | .wrap => some (.list [v])
      | .setField i k => some (.obj c t (fs.set i (.leaf k)) pm)
      | .equalCopy => some (.obj c t fs none)
      | .child i => fs[i]?
  | _ => none

end Sourcer
