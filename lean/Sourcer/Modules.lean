/-
  MODEL of the `_Context` tables of a chain of grammars (C13): `levels` lists the rule names
  defined at each level, nearest (the module itself) first.  The epilogue of
  `generate_source_code` binds the module's own rules, then – ancestor by ancestor, nearest first –
  every name not bound yet to the parent context's entry, i.e. to whichever level defined it.
-/
namespace Sourcer.Modules

/-- where a name is bound: (level, index of the rule in that level) -/
abbrev Target := Nat × Nat

def levelEntries (lvl : Nat) (names : List String) : List (String × Target) :=
  names.zipIdx.map fun (n, i) => (n, (lvl, i))

/-- the table as the loop builds it: `seen` = names bound so far -/
def chainCtxFrom : Nat → List (List String) → List String → List (String × Target)
  | _, [], _ => []
  | lvl, names :: rest, seen =>
    let fresh := (levelEntries lvl names).filter fun e => !seen.contains e.1
    fresh ++ chainCtxFrom (lvl + 1) rest (seen ++ names)

def chainCtx (levels : List (List String)) : List (String × Target) := chainCtxFrom 0 levels []

def lookup (ctx : List (String × Target)) (n : String) : Option Target :=
  (ctx.find? (·.1 == n)).map (·.2)

/-- SPEC: the nearest level that defines the name (overrides are late-bound) -/
def nearest : Nat → List (List String) → String → Option Target
  | _, [], _ => none
  | lvl, names :: rest, n =>
    match names.idxOf? n with
    | some i => some (lvl, i)
    | none => nearest (lvl + 1) rest n

end Sourcer.Modules
