/-
  MODEL of the `_run` trampoline of the generated module (C07): rule bodies are deterministic
  resumptions that either finish with a result or request a call `(callee, pos)`; the machine
  keeps a stack of suspended bodies and a memo table.

      while stack:
          key, gtor = stack[-1]
          result = gtor.send(result)
          if result[0] != CALL:   stack.pop(); memo[key] = result
          elif result in memo:    result = memo[result]
          else:                   gtor = result[1](text, result[2]); stack.append((result, gtor)); result = None
-/
namespace Sourcer.Run

/-- what a rule body does next: finish with `r`, or yield a CALL request for key `k` and continue
    with whatever the trampoline sends back -/
inductive Prog (K R : Type) where
  | ret (r : R)
  | call (k : K) (cont : R → Prog K R)

/-- a generator object on the stack -/
inductive Gtor (K R : Type) where
  /-- created but not started: `send(None)` runs it up to its first yield -/
  | fresh (p : Prog K R)
  /-- suspended at a `yield (CALL, …)` -/
  | waiting (cont : R → Prog K R)

structure State (K R : Type) where
  stack : List (K × Gtor K R)
  memo : K → Option R
  /-- the variable `result`: `None`, or the triple to be sent into the generator on top -/
  pending : Option R
  /-- ghost: keys whose body has been started, most recent first -/
  starts : List K

variable {K R : Type} [DecidableEq K]

def send : Gtor K R → Option R → Option (Prog K R)
  | .fresh p, _ => some p
  | .waiting cont, some r => some (cont r)
  | .waiting _, none => none      -- unreachable: a waiting generator is always sent a result

def update (m : K → Option R) (k : K) (r : R) : K → Option R :=
  fun k' => if k' = k then some r else m k'

/-- one iteration of the `while stack:` loop; `none` when the loop has ended (or is stuck) -/
def step (body : K → Prog K R) (s : State K R) : Option (State K R) :=
  match s.stack with
  | [] => none
  | (key, g) :: rest =>
    match send g s.pending with
    | none => none
    | some (.ret r) => some { s with stack := rest, memo := update s.memo key r, pending := some r }
    | some (.call k cont) =>
      match s.memo k with
      | some r => some { s with stack := (key, .waiting cont) :: rest, pending := some r }
      | none =>
        some { stack := (k, .fresh (body k)) :: (key, .waiting cont) :: rest, memo := s.memo,
               pending := none, starts := k :: s.starts }

def init (body : K → Prog K R) (k0 : K) : State K R :=
  { stack := [(k0, .fresh (body k0))], memo := fun _ => none, pending := none, starts := [k0] }

def steps (body : K → Prog K R) : Nat → State K R → State K R
  | 0, s => s
  | n + 1, s => match step body s with
    | none => s
    | some s' => steps body n s'

/-- SPEC: direct recursive evaluation, no memo, no stack -/
def evalProg (ev : K → Option R) : Prog K R → Option R
  | .ret r => some r
  | .call k cont => match ev k with
    | none => none
    | some r => evalProg ev (cont r)

def eval (body : K → Prog K R) : Nat → K → Option R
  | 0, _ => none
  | n + 1, k => evalProg (eval body n) (body k)

end Sourcer.Run
