/-
  Minimal S-expression reader for the line protocol between the Python harness and the driver.
  Atoms are runs of non-space, non-paren characters.
-/
namespace Sourcer

inductive Sexp where
  | atom (s : String)
  | list (xs : List Sexp)
  deriving Inhabited, Repr

namespace Sexp

partial def parseAux (cs : List Char) (stack : List (List Sexp)) (cur : List Sexp) : Option Sexp :=
  match cs with
  | [] => match stack with
    | [] => match cur with
      | [x] => some x
      | _ => none
    | _ => none
  | c :: rest =>
    if c == ' ' || c == '\n' || c == '\t' || c == '\r' then parseAux rest stack cur
    else if c == '(' then parseAux rest (cur :: stack) []
    else if c == ')' then
      match stack with
      | [] => none
      | top :: stack' => parseAux rest stack' (Sexp.list cur.reverse :: top)
    else
      let tok := (c :: rest).takeWhile (fun d => !(d == ' ' || d == '(' || d == ')' || d == '\n' || d == '\t' || d == '\r'))
      parseAux ((c :: rest).drop tok.length) stack (Sexp.atom (String.ofList tok) :: cur)

def parse (s : String) : Option Sexp := parseAux s.toList [] []

def nat? : Sexp → Option Nat
  | .atom s => s.toNat?
  | _ => none

def int? : Sexp → Option Int
  | .atom s => s.toInt?
  | _ => none

def nats? (xs : List Sexp) : Option (List Nat) := xs.mapM nat?

def bool? : Sexp → Option Bool
  | .atom "1" => some true
  | .atom "0" => some false
  | _ => none

end Sexp
end Sourcer
