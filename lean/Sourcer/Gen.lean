import Sourcer.Expr
import Sourcer.FlagsFast
import Sourcer.OpTable
/-
  MODEL of the generated code.  `gen F P inp fuel e p` denotes what the Python text emitted by
  `e._compile` does to the three registers `(_status, _result, _pos)` when started with
  `_pos = p`, for an arbitrary flag table `F` (what `if_succeeds`, `if_fails`, `Choice`, `List`,
  `Skip`, … consult while generating).  A position is restored only where the generator emits
  a restore; on failure `_pos` is left where the emitted code leaves it.

  `none` = out of fuel (both this model and the specification `peg` use the same fuel
  skeleton), or an undefined rule.
-/
namespace Sourcer

structure Reg where
  status : Bool
  result : Val
  pos : Nat
  deriving Inhabited

abbrev Run := Expr → Nat → Option Reg

/-- the test the emitted code performs after running `e`: `if _status` is not emitted at all
    when `e.always_succeeds()` -/
def okF (F : FlagTable) (e : Expr) (r : Reg) : Bool :=
  (flagsOf F e).as || r.status

/-- the test that updates `farthest_pos` / `farthest_error_position`: `<=` for a `Fail` option,
    `<` otherwise -/
def farther (isFail : Bool) (a b : Nat) : Bool :=
  if isFail then decide (a ≤ b) else decide (a < b)

/-- `Seq._compile`: members in order, `break` on the first failure (registers stay as the member
    left them), result is the list of member results. -/
def genSeq (F : FlagTable) (run : Run) : List Expr → Nat → List Val → Option Reg
  | [], p, acc => some ⟨true, .list acc.reverse, p⟩
  | e :: es, p, acc =>
    match run e p with
    | none => none
    | some r => if okF F e r then genSeq F run es r.pos (r.result :: acc) else some r

/-- class body: as `Seq`, but only kept members become fields -/
def genCls (F : FlagTable) (run : Run) (name : String) (start : Nat) :
    List Expr → List (Option String) → Nat → List (String × Val) → Option Reg
  | [], _, p, acc => some ⟨true, .obj name acc.reverse (some (start, p)), p⟩
  | e :: es, ks, p, acc =>
    match run e p with
    | none => none
    | some r =>
      if okF F e r then
        let acc' := match ks.head? with
          | some (some f) => (f, r.result) :: acc
          | _ => acc
        genCls F run name start es ks.tail r.pos acc'
      else some r

/-- `Choice._compile`.  `cur` = registers before the next option (its `pos` is where the option
    starts), `bt` = the saved `backtrack`, `fp`/`fe` = `farthest_pos`/`farthest_err`. -/
def genChoice (F : FlagTable) (run : Run) (needsErr : Bool) (bt : Nat) :
    List Expr → Reg → Nat → Val → Option Reg
  | [], cur, fp, fe => some (if needsErr then ⟨cur.status, fe, fp⟩ else cur)
  | e :: es, cur, fp, fe =>
    match run e cur.pos with
    | none => none
    | some r =>
      if (flagsOf F e).as then
        -- code generation stops after an option that always succeeds
        some (if needsErr then ⟨r.status, fe, fp⟩ else r)
      else if r.status then some r
      else
        let cps := (flagsOf F e).cps
        let upd := needsErr && cps && farther e.isFail fp r.pos
        let fp' := if upd then r.pos else fp
        let fe' := if upd then r.result else fe
        let p' := if !es.isEmpty && cps then bt else r.pos
        genChoice F run needsErr bt es ⟨r.status, r.result, p'⟩ fp' fe'

/-- `List._compile`, the `while True` loop.  Returns staging (reversed) and the registers as the
    loop leaves them. -/
def genListLoop (F : FlagTable) (run : Run) (e : Expr) (max : Option Nat) :
    Nat → Nat → List Val → Option (List Val × Reg)
  | 0, _, _ => none
  | fuel + 1, p, acc =>
    match run e p with
    | none => none
    | some r =>
      if okF F e r then
        let acc' := r.result :: acc
        if max == some acc'.length then some (acc', r)
        else genListLoop F run e max fuel r.pos acc'
      else
        some (acc, ⟨r.status, r.result, if (flagsOf F e).cps then p else r.pos⟩)

def genList (F : FlagTable) (run : Run) (fuel : Nat) (e : Expr) (min : Nat) (max : Option Nat)
    (p : Nat) : Option Reg :=
  if max == some 0 then some ⟨true, .list [], p⟩
  else
    match genListLoop F run e max fuel p [] with
    | none => none
    | some (acc, r) =>
      if min = 0 then some ⟨true, .list acc.reverse, r.pos⟩
      else if min ≤ acc.length then some ⟨true, .list acc.reverse, r.pos⟩
      else some r

structure SepState where
  staging : List Val    -- reversed
  checkpoint : Nat
  saw : Bool
  reg : Reg

/-- `Sep._compile`, the `while True` loop. -/
def genSepLoop (F : FlagTable) (run : Run) (e s : Expr) (o : SepOpts) :
    Nat → Nat → List Val → Nat → Bool → Option SepState
  | 0, _, _, _, _ => none
  | fuel + 1, p, st, cp, saw =>
    match run e p with
    | none => none
    | some r =>
      if okF F e r then
        let st1 := r.result :: st
        let cp1 := r.pos
        match run s r.pos with
        | none => none
        | some q =>
          if okF F s q then
            let st2 := if o.discard then st1 else q.result :: st1
            let cp2 := if o.trailer then q.pos else cp1
            let saw2 := if o.require then true else saw
            genSepLoop F run e s o fuel q.pos st2 cp2 saw2
          else some ⟨st1, cp1, saw, q⟩
      else
        let st' := if !o.discard && !o.trailer && !st.isEmpty then st.tail else st
        some ⟨st', cp, saw, r⟩

def sepSuccess (o : SepOpts) (staging : List Val) (saw : Bool) : Bool :=
  if o.empty && o.require then staging.isEmpty || saw
  else if o.require then saw
  else if o.empty then true
  else !staging.isEmpty

def genSep (F : FlagTable) (run : Run) (fuel : Nat) (e s : Expr) (o : SepOpts) (p : Nat) :
    Option Reg :=
  match genSepLoop F run e s o fuel p [] p false with
  | none => none
  | some st =>
    if sepSuccess o st.staging st.saw then some ⟨true, .list st.staging.reverse, st.checkpoint⟩
    else some st.reg

/-- `Skip._compile`: the alternatives of one pass of the loop.  `inl p'` = `continue` (restart the
    loop at `p'`), `inr p'` = fell through all alternatives with `_pos = p'`. -/
def genSkipAlts (F : FlagTable) (run : Run) (checkpoint : Nat) :
    List Expr → Nat → Option (Nat ⊕ Nat)
  | [], cur => some (.inr cur)
  | x :: xs, cur =>
    match run x cur with
    | none => none
    | some r =>
      if (flagsOf F x).as then
        if r.pos != checkpoint then some (.inl r.pos) else genSkipAlts F run checkpoint xs r.pos
      else if r.status && r.pos != checkpoint then some (.inl r.pos)
      else genSkipAlts F run checkpoint xs (if (flagsOf F x).cps then checkpoint else r.pos)

def genSkipLoop (F : FlagTable) (run : Run) (xs : List Expr) : Nat → Nat → Option Reg
  | 0, _ => none
  | fuel + 1, p =>
    match genSkipAlts F run p xs p with
    | none => none
    | some (.inl p') => genSkipLoop F run xs fuel p'
    | some (.inr p') => some ⟨true, .none, p'⟩

structure LongestState where
  has : Bool
  fres : Val
  fpos : Nat
  ferr : Val
  ferrpos : Nat
  last : Reg

/-- `Longest._compile` for two or more options (every option starts at `bt`). -/
def genLongestOpts (F : FlagTable) (run : Run) (needsErr : Bool) (bt : Nat) :
    List Expr → LongestState → Option LongestState
  | [], st => some st
  | x :: xs, st =>
    match run x bt with
    | none => none
    | some r =>
      if okF F x r then
        if !st.has || decide (st.fpos < r.pos) then
          genLongestOpts F run needsErr bt xs { st with has := true, fres := r.result, fpos := r.pos, last := r }
        else genLongestOpts F run needsErr bt xs { st with last := r }
      else
        -- the emitted `elif` condition is a *string literal* (always true), so every failing
        -- option overwrites the remembered error: the last failing option wins
        if needsErr then
          genLongestOpts F run needsErr bt xs { st with ferr := r.result, ferrpos := r.pos, last := r }
        else genLongestOpts F run needsErr bt xs { st with last := r }

def genLongest (F : FlagTable) (run : Run) (needsErr : Bool) (xs : List Expr) (p : Nat) :
    Option Reg :=
  match xs with
  | [] => some ⟨false, .err, p⟩          -- degenerate `Longest()`: emits nothing (not modelled)
  | [x] => run x p
  | _ =>
    match genLongestOpts F run needsErr p xs ⟨false, .none, p, .err, p, ⟨false, .err, p⟩⟩ with
    | none => none
    | some st =>
      if st.has then some ⟨true, st.fres, st.fpos⟩
      else if needsErr then some ⟨st.last.status, st.ferr, st.ferrpos⟩
      else some st.last

/-- position after a successfully matched literal: `_pos = end`, or
    `_pos = (yield (CALL, _try__ignored, end))[2]` when `skip_ignored` is set -/
def genSkipTo (P : Program) (run : Run) (skip : Bool) (e : Nat) : Option Nat :=
  if skip then
    match P.ignored with
    | none => some e
    | some k =>
      match run (.ref k) e with
      | none => none
      | some r => some r.pos
  else some e

/-- the parts of a table as the emitted loop uses them -/
structure TableExprs where
  prefixes : Option Expr
  operands : Expr
  postfixes : Option Expr
  infixes : Option Expr

def tableExprs (pre : List Expr) (operand : Expr) (mixfix post inf : List Expr) : TableExprs :=
  { prefixes := combineRows pre
    operands := (combineRows (operand :: mixfix)).getD operand
    postfixes := combineRows post
    infixes := combineRows inf }

/-- `OperatorTable._compile`: the shunting-yard loop.  `last` = the registers as the most recent
    sub-parser left them (what a failing table leaves behind). -/
def genOT (F : FlagTable) (run : Run) (T : TableExprs) : Nat → Phase → OTState → Reg → Option Reg
  | 0, _, _, _ => none
  | fuel + 1, .pre, st, last =>
    match T.prefixes with
    | none => genOT F run T fuel .operand st last
    | some pe =>
      match run pe st.pos with
      | none => none
      | some r =>
        if okF F pe r then
          match decodeOp r.result with
          | none => none
          | some o => genOT F run T fuel .pre { st with ops := o :: st.ops, pos := r.pos } r
        else
          genOT F run T fuel .operand { st with pos := if (flagsOf F pe).cps then st.pos else r.pos } r
  | fuel + 1, .operand, st, _ =>
    match run T.operands st.pos with
    | none => none
    | some r =>
      if okF F T.operands r then
        genOT F run T fuel .post { st with operands := .leaf r.result :: st.operands, pos := r.pos } r
      else
        -- no operand: the expression ends after the last complete operand
        if st.operands.isEmpty then some ⟨r.status, r.result, r.pos⟩
        else
          match finishTable st.ops st.operands st.marker with
          | none => none
          | some v => some ⟨true, v.toVal, st.outerCp⟩
  | fuel + 1, .post, st, last =>
    match T.postfixes with
    | none => genOT F run T fuel .inf { st with marker := st.ops.length, outerCp := st.pos } last
    | some pe =>
      match run pe st.pos with
      | none => none
      | some r =>
        if okF F pe r then
          match decodePost r.result with
          | none => none
          | some (prec, op) =>
            match reducePost prec st.ops st.operands with
            | none => none
            | some (ops', operands') =>
              match operands' with
              | [] => none
              | x :: rest =>
                genOT F run T fuel .post { st with ops := ops', operands := .postfix x prec op :: rest, pos := r.pos } r
        else
          let p := if (flagsOf F pe).cps then st.pos else r.pos
          genOT F run T fuel .inf { st with pos := p, marker := st.ops.length, outerCp := p } r
  | fuel + 1, .inf, st, _ =>
    match T.infixes with
    | none =>
      match finishTable st.ops st.operands st.marker with
      | none => none
      | some v => some ⟨true, v.toVal, st.pos⟩
    | some ie =>
      match run ie st.pos with
      | none => none
      | some r =>
        if okF F ie r then
          match decodeOp r.result with
          | none => none
          | some o =>
            match reduceInfix o.prec st.ops st.operands with
            | none => none
            | some (.conflict ops' operands') =>
              match finishTable ops' operands' st.marker with
              | none => none
              | some v => some ⟨true, v.toVal, st.outerCp⟩
            | some (.go ops' operands') =>
              genOT F run T fuel .pre
                { st with ops := o :: ops', operands := operands', marker := ops'.length, pos := r.pos } r
        else
          match finishTable st.ops st.operands st.marker with
          | none => none
          | some v => some ⟨true, v.toVal, if (flagsOf F ie).cps then st.outerCp else r.pos⟩

def gen (F : FlagTable) (P : Program) (inp : List Nat) : Nat → Expr → Nat → Option Reg
  | 0, _, _ => none
  | fuel + 1, e, p =>
    let run : Run := gen F P inp fuel
    match e with
    | .str s skip =>
      if s.isEmpty then some ⟨true, P.lit [], p⟩
      else if matchAt inp p s then
        match genSkipTo P run skip (p + s.length) with
        | none => none
        | some p' => some ⟨true, P.lit s, p'⟩
      else some ⟨false, .err, p⟩
    | .regex rx skip =>
      match P.matcher rx inp p with
      | some e' =>
        match genSkipTo P run skip e' with
        | none => none
        | some p' => some ⟨true, P.lit ((inp.drop p).take (e' - p)), p'⟩
      | none => some ⟨false, .err, p⟩
    | .byte b skip =>
      if P.bytesMode && inp[p]? == some b then
        match genSkipTo P run skip (p + 1) with
        | none => none
        | some p' => some ⟨true, .int b, p'⟩
      else some ⟨false, .err, p⟩
    | .ref k =>
      match P.rules[k]? with
      | none => none
      | some body => run body p
    | .seq xs => genSeq F run xs p []
    | .cls name xs keep => genCls F run name p xs keep p []
    | .discard a b left =>
      match run a p with
      | none => none
      | some ra =>
        if okF F a ra then
          match run b ra.pos with
          | none => none
          | some rb =>
            if left then some rb
            else if okF F b rb then some ⟨rb.status, ra.result, rb.pos⟩ else some rb
        else some ra
    | .choice xs =>
      genChoice F run (!(flagsOf F (.choice xs)).as) p xs ⟨false, .err, p⟩ p .err
    | .opt x =>
      match run x p with
      | none => none
      | some r => if okF F x r then some r else some ⟨true, .none, p⟩
    | .list x min extra => genList F run fuel x min (maxOf min extra) p
    | .sep x s o => genSep F run fuel x s o p
    | .expect x =>
      match run x p with
      | none => none
      | some r => if okF F x r then some ⟨r.status, r.result, p⟩ else some r
    | .expectNot x =>
      match run x p with
      | none => none
      | some r => if r.status then some ⟨false, .err, p⟩ else some ⟨true, .none, p⟩
    | .skip xs => genSkipLoop F run xs fuel p
    | .longest xs => genLongest F run (!(flagsOf F (.longest xs)).as) xs p
    | .backtrack n => if n ≤ p then some ⟨true, .none, p - n⟩ else some ⟨false, .err, p⟩
    | .fail => some ⟨false, .err, p⟩
    | .py c => some ⟨true, c.toVal, p⟩
    | .tagged x tag =>
      match run x p with
      | none => none
      | some r =>
        if okF F x r then some ⟨true, .tuple (tag.map Val.int ++ [r.result]), r.pos⟩ else some r
    | .optable pre operand mixfix post inf =>
      genOT F run (tableExprs pre operand mixfix post inf) fuel .pre ⟨[], [], 0, p, p⟩ ⟨false, .err, p⟩

end Sourcer
