import Sourcer.Expr
/-
  Operator tables: the stack machinery of the shunting-yard loop that `OperatorTable._compile`
  emits (shared by the code model `gen` and the operational specification `peg`).
-/
namespace Sourcer

/-- an entry of `_operator_stack`: `(precedence, associativity id, operator value)`;
    associativity ids: 0 prefix, 1 left, 2 right, 3 infix (non-associative) -/
structure OpEntry where
  prec : Int
  assoc : Int
  op : Val
  deriving Inhabited

def decodeOp : Val → Option OpEntry
  | .tuple [.int p, .int a, op] => some ⟨p, a, op⟩
  | _ => none

def decodePost : Val → Option (Int × Val)
  | .tuple [.int p, op] => some (p, op)
  | _ => none

def mkInfix (l op r : Val) : Val := .obj "Infix" [("left", l), ("operator", op), ("right", r)] none
def mkPrefix (op r : Val) : Val := .obj "Prefix" [("operator", op), ("right", r)] none
def mkPostfix (l op : Val) : Val := .obj "Postfix" [("left", l), ("operator", op)] none

/-- the tree under construction, with the table entry of every operator kept (the Python
    objects `Infix`/`Prefix`/`Postfix` only keep the operator value: `OTree.toVal`) -/
inductive OTree where
  | leaf (v : Val)
  | infix (l : OTree) (o : OpEntry) (r : OTree)
  | prefix (o : OpEntry) (r : OTree)
  | postfix (l : OTree) (prec : Int) (op : Val)
  deriving Inhabited

def OTree.toVal : OTree → Val
  | .leaf v => v
  | .infix l o r => mkInfix l.toVal o.op r.toVal
  | .prefix o r => mkPrefix o.op r.toVal
  | .postfix l _ op => mkPostfix l.toVal op

/-- `pop_operator()`; stacks are written top first; `none` = IndexError (never reached) -/
def popOperator (ops : List OpEntry) (operands : List OTree) : Option (List OpEntry × List OTree) :=
  match ops with
  | [] => none
  | o :: ops' =>
    if o.assoc ≠ 0 then
      match operands with
      | r :: l :: rest => some (ops', .infix l o r :: rest)
      | _ => none
    else
      match operands with
      | r :: rest => some (ops', .prefix o r :: rest)
      | _ => none

/-- postfix reduction: `while ops and ops[-1][0] < prec: pop_operator()` -/
def reducePost (prec : Int) : List OpEntry → List OTree → Option (List OpEntry × List OTree)
  | [], operands => some ([], operands)
  | o :: ops, operands =>
    if o.prec < prec then
      match popOperator (o :: ops) operands with
      | none => none
      | some (_, operands') => reducePost prec ops operands'
    else some (o :: ops, operands)

/-- outcome of the infix reduction loop -/
inductive InfixStep where
  | go (ops : List OpEntry) (operands : List OTree)
  /-- a non-associative operator met one of its own row: the expression ends before it -/
  | conflict (ops : List OpEntry) (operands : List OTree)

/-- the `while operator_stack:` loop run when an infix operator of precedence `prec` arrives -/
def reduceInfix (prec : Int) : List OpEntry → List OTree → Option InfixStep
  | [], operands => some (.go [] operands)
  | o :: ops, operands =>
    if o.prec < prec ∨ (o.prec = prec ∧ o.assoc = 1) then
      match popOperator (o :: ops) operands with
      | none => none
      | some (_, operands') => reduceInfix prec ops operands'
    else if o.prec = prec ∧ o.assoc = 3 then some (.conflict (o :: ops) operands)
    else some (.go (o :: ops) operands)

/-- final pops: `while operator_stack: pop_operator()` -/
def popAll : List OpEntry → List OTree → Option (List OTree)
  | [], operands => some operands
  | o :: ops, operands =>
    match popOperator (o :: ops) operands with
    | none => none
    | some (_, operands') => popAll ops operands'

/-- the epilogue: drop the operators pushed after the last complete operand
    (`operator_stack[:marker]`), pop the rest, return `operand_stack[0]` -/
def finishTable (ops : List OpEntry) (operands : List OTree) (marker : Nat) : Option OTree :=
  match popAll (ops.drop (ops.length - marker)) operands with
  | none => none
  | some operands' => operands'.getLast?

inductive Phase where
  | pre | operand | post | inf

structure OTState where
  operands : List OTree
  ops : List OpEntry
  marker : Nat
  outerCp : Nat
  pos : Nat

end Sourcer
