import Sourcer.Run
/-
  C07: the trampoline with its memo computes the direct recursive meaning of the rule bodies
  (memo transparency), starts a body only on a memo miss, and - when no key is requested while
  it is on the stack - starts every key at most once.
-/
namespace Sourcer.Run

variable {K R : Type} [DecidableEq K]

theorem steps_add (body : K → Prog K R) (a b : Nat) (s : State K R) :
    steps body (a + b) s = steps body b (steps body a s) := by
  induction a generalizing s with
  | zero => simp [steps]
  | succ n ih =>
    rw [Nat.succ_add]
    simp only [steps]
    cases h : step body s with
    | none =>
      simp only
      clear ih
      induction b with
      | zero => rfl
      | succ m ihm => simp [steps, h]
    | some s' => exact ih s'

theorem evalProg_mono {ev ev' : K → Option R} (h : ∀ k r, ev k = some r → ev' k = some r) :
    ∀ (p : Prog K R) (r : R), evalProg ev p = some r → evalProg ev' p = some r := by
  intro p
  induction p with
  | ret r0 => intro r hr; simpa [evalProg] using hr
  | call k cont ih =>
    intro r hr
    simp only [evalProg] at hr ⊢
    cases hk : ev k with
    | none => simp [hk] at hr
    | some r1 =>
      simp only [hk] at hr
      simp only [h k r1 hk]
      exact ih r1 r hr

theorem eval_succ (body : K → Prog K R) : ∀ n k r, eval body n k = some r → eval body (n + 1) k = some r := by
  intro n
  induction n with
  | zero => intro k r h; simp [eval] at h
  | succ m ih =>
    intro k r h
    simp only [eval] at h ⊢
    exact evalProg_mono (fun k r hk => by simpa [eval] using ih k r hk) _ _ h

theorem eval_mono (body : K → Prog K R) {n m : Nat} (hnm : n ≤ m) {k : K} {r : R}
    (h : eval body n k = some r) : eval body m k = some r := by
  induction hnm with
  | refl => exact h
  | step _ ih => exact eval_succ body _ _ _ ih

theorem eval_det (body : K → Prog K R) {n m : Nat} {k : K} {r r' : R}
    (h : eval body n k = some r) (h' : eval body m k = some r') : r = r' := by
  have h1 := eval_mono body (Nat.le_max_left n m) h
  have h2 := eval_mono body (Nat.le_max_right n m) h'
  rw [h1] at h2; exact Option.some.inj h2

/-- every memo entry is the direct meaning of its key -/
def Consistent (body : K → Prog K R) (m : K → Option R) : Prop :=
  ∀ k r, m k = some r → ∃ n, eval body n k = some r

theorem consistent_update {body : K → Prog K R} {m : K → Option R} (hm : Consistent body m)
    {k : K} {r : R} (hk : ∃ n, eval body n k = some r) : Consistent body (update m k r) := by
  intro k' r' h
  unfold update at h
  split at h
  · rename_i heq; subst heq; simp at h; subst h; exact hk
  · exact hm _ _ h

/-- running the rest `p` of the body of `key`, whose sub-calls are answered with fuel `n` -/
theorem run_prog (body : K → Prog K R) (n : Nat)
    (ihEval : ∀ k r, eval body n k = some r → ∀ rest m st, Consistent body m →
      ∃ j m' st', steps body j ⟨(k, .fresh (body k)) :: rest, m, none, st⟩ = ⟨rest, m', some r, st'⟩
        ∧ Consistent body m') :
    ∀ (p : Prog K R) (r : R), evalProg (eval body n) p = some r →
    ∀ key g pend rest m st, send g pend = some p → Consistent body m →
      (∃ n', eval body n' key = some r) →
      ∃ j m' st', steps body j ⟨(key, g) :: rest, m, pend, st⟩ = ⟨rest, m', some r, st'⟩
        ∧ Consistent body m' := by
  intro p
  induction p with
  | ret r0 =>
    intro r hr key g pend rest m st hsend hm hres
    simp [evalProg] at hr; subst hr
    refine ⟨1, update m key r0, st, ?_, consistent_update hm hres⟩
    simp [steps, step, hsend]
  | call k cont ih =>
    intro r hr key g pend rest m st hsend hm hres
    simp only [evalProg] at hr
    cases hk : eval body n k with
    | none => simp [hk] at hr
    | some r1 =>
      simp only [hk] at hr
      cases hmemo : m k with
      | some r1' =>
        have : r1' = r1 := by
          obtain ⟨n', hn'⟩ := hm k r1' hmemo
          exact eval_det body hn' hk
        subst this
        obtain ⟨j, m', st', hj, hc⟩ := ih r1' r hr key (.waiting cont) (some r1') rest m st (by simp [send]) hm hres
        refine ⟨1 + j, m', st', ?_, hc⟩
        rw [steps_add]
        simp only [steps, step, hsend, hmemo]
        exact hj
      | none =>
        obtain ⟨j1, m1, st1, hj1, hc1⟩ := ihEval k r1 hk ((key, .waiting cont) :: rest) m (k :: st) hm
        obtain ⟨j2, m2, st2, hj2, hc2⟩ := ih r1 r hr key (.waiting cont) (some r1) rest m1 st1 (by simp [send]) hc1 hres
        refine ⟨1 + (j1 + j2), m2, st2, ?_, hc2⟩
        rw [steps_add, steps_add]
        simp only [steps, step, hsend, hmemo]
        rw [hj1]
        exact hj2

theorem run_key (body : K → Prog K R) :
    ∀ n k r, eval body n k = some r → ∀ rest m st, Consistent body m →
      ∃ j m' st', steps body j ⟨(k, .fresh (body k)) :: rest, m, none, st⟩ = ⟨rest, m', some r, st'⟩
        ∧ Consistent body m' := by
  intro n
  induction n with
  | zero => intro k r h; simp [eval] at h
  | succ n ih =>
    intro k r h rest m st hm
    simp only [eval] at h
    exact run_prog body n ih (body k) r h k (.fresh (body k)) none rest m st (by simp [send]) hm
      ⟨n + 1, by simpa [eval] using h⟩

/-! ### at most once -/

def keys (s : State K R) : List K := s.stack.map (·.1)

/-- the run never requests a key while that key is on the stack (run-time form of "no left
    recursion") -/
def NoReentry (body : K → Prog K R) (k0 : K) : Prop :=
  ∀ j key g rest k cont,
    (steps body j (init body k0)).stack = (key, g) :: rest →
    send g (steps body j (init body k0)).pending = some (.call k cont) →
    k ∉ keys (steps body j (init body k0))

structure Inv (s : State K R) : Prop where
  starts_nodup : s.starts.Nodup
  mem_starts : ∀ k, k ∈ s.starts ↔ (k ∈ keys s ∨ s.memo k ≠ none)
  keys_nodup : (keys s).Nodup
  keys_not_memo : ∀ k ∈ keys s, s.memo k = none

theorem inv_init (body : K → Prog K R) (k0 : K) : Inv (init body k0) := by
  refine ⟨by simp [init], ?_, by simp [init, keys], by simp [init, keys]⟩
  intro k; simp [init, keys]

theorem inv_step (body : K → Prog K R) (s s' : State K R) (hi : Inv s) (hs : step body s = some s')
    (hre : ∀ key g rest k cont, s.stack = (key, g) :: rest →
      send g s.pending = some (.call k cont) → k ∉ keys s) : Inv s' := by
  unfold step at hs
  cases hst : s.stack with
  | nil => simp [hst] at hs
  | cons top rest =>
    obtain ⟨key, g⟩ := top
    simp only [hst] at hs
    have hkeys : keys s = key :: rest.map (·.1) := by simp [keys, hst]
    have hnd := hi.keys_nodup
    rw [hkeys] at hnd
    have hkey_notin : key ∉ rest.map (·.1) := (List.nodup_cons.mp hnd).1
    cases hsend : send g s.pending with
    | none => simp [hsend] at hs
    | some p =>
      simp only [hsend] at hs
      cases p with
      | ret r =>
        simp at hs; subst hs
        refine ⟨hi.starts_nodup, ?_, ?_, ?_⟩
        · intro k
          rw [hi.mem_starts k, hkeys]
          simp only [keys, update, List.mem_cons]
          by_cases hk : k = key
          · subst hk; simp
          · simp [hk]
        · simpa [keys] using (List.nodup_cons.mp hnd).2
        · intro k hk
          simp only [keys] at hk
          have hne : k ≠ key := by intro h; subst h; exact hkey_notin hk
          simp only [update, hne, ↓reduceIte]
          exact hi.keys_not_memo k (by rw [hkeys]; exact List.mem_cons_of_mem _ hk)
      | call k cont =>
        simp only at hs
        cases hmemo : s.memo k with
        | some r =>
          simp [hmemo] at hs; subst hs
          refine ⟨hi.starts_nodup, ?_, ?_, ?_⟩
          · intro k'; rw [hi.mem_starts k', hkeys]; simp [keys]
          · simpa [keys] using hnd
          · intro k' hk'
            exact hi.keys_not_memo k' (by rw [hkeys]; simpa [keys] using hk')
        | none =>
          simp [hmemo] at hs; subst hs
          have hk_notin : k ∉ keys s := hre key g rest k cont hst hsend
          have hk_not_started : k ∉ s.starts := by
            rw [hi.mem_starts k]; simp [hk_notin, hmemo]
          refine ⟨List.nodup_cons.mpr ⟨hk_not_started, hi.starts_nodup⟩, ?_, ?_, ?_⟩
          · intro k'
            simp only [List.mem_cons, keys, List.map_cons]
            rw [hi.mem_starts k', hkeys]
            simp only [List.mem_cons, or_assoc]
          · simp only [keys, List.map_cons]
            rw [hkeys] at hk_notin
            exact List.nodup_cons.mpr ⟨hk_notin, hnd⟩
          · intro k' hk'
            simp only [keys, List.map_cons, List.mem_cons] at hk'
            rcases hk' with h | h | h
            · subst h; exact hmemo
            · subst h; exact hi.keys_not_memo _ (by rw [hkeys]; simp)
            · exact hi.keys_not_memo _ (by rw [hkeys]; exact List.mem_cons_of_mem _ h)

theorem steps_succ_right (body : K → Prog K R) (j : Nat) (s : State K R) :
    steps body (j + 1) s = steps body 1 (steps body j s) := steps_add body j 1 s

theorem inv_reachable (body : K → Prog K R) (k0 : K) (hre : NoReentry body k0) :
    ∀ j, Inv (steps body j (init body k0)) := by
  intro j
  induction j with
  | zero => exact inv_init body k0
  | succ n ih =>
    rw [steps_succ_right]
    simp only [steps]
    cases hs : step body (steps body n (init body k0)) with
    | none => exact ih
    | some s' =>
      exact inv_step body _ s' ih hs (fun key g rest k cont h1 h2 => hre n key g rest k cont h1 h2)

/-- pigeonhole: a duplicate-free list inside a universe is no longer than the universe -/
theorem nodup_length_le {α : Type} [DecidableEq α] :
    ∀ (l u : List α), l.Nodup → (∀ a ∈ l, a ∈ u) → l.length ≤ u.length := by
  intro l
  induction l with
  | nil => intro u _ _; simp
  | cons a l ih =>
    intro u hnd hsub
    have ha : a ∈ u := hsub a (by simp)
    have hnd' := List.nodup_cons.mp hnd
    have := ih (u.erase a) hnd'.2 (by
      intro b hb
      have hne : b ≠ a := by intro h; subst h; exact hnd'.1 hb
      exact (List.mem_erase_of_ne hne).mpr (hsub b (List.mem_cons_of_mem _ hb)))
    rw [List.length_erase_of_mem ha] at this
    have hpos : 0 < u.length := List.length_pos_of_mem ha
    simp only [List.length_cons]
    omega

end Sourcer.Run
