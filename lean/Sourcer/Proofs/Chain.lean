import Sourcer.Proofs.Reref
/-
  C13, semantically: what parsing through a chain of grammars (`grammar B extends A …`) means, and
  that the *flattened* single grammar - the reference the correspondence check compiles - means the
  same.

  Names are numbers `k < N`.  A level (one grammar of the chain) defines some of them; level 0 is the
  grammar the parse is entered through, level `l + 1` is the parent of level `l`.  In a body, the
  reference `k` (`k < N`) is a plain reference to the name `k`, the reference `N + k` is `super.k`.

  * `chainProg`: what the generated modules do.  Every definition `(l, k)` is a rule of its own
    (index `l * N + k`).  A plain reference goes through the context table of the ENTRY grammar
    (`_ctx._try_k`): the nearest level, from level 0 up, that defines `k` (`C13_late_binding`).
    `super.k` written at level `l` goes through the module-level parent context of the grammar that
    CONTAINS it (`_super_ctx._try_k`): the nearest level from `l + 1` up (`C13_super`).
  * `flatProg`: one grammar.  The name `k` is the rule `k` and holds the nearest definition of `k`;
    every definition `(l, k)` also exists as a private copy (index `N + l * N + k`) for the `super`
    references that reach it; plain references stay names, `super.k` at level `l` refers to the
    private copy of the nearest definition above `l`.

  A reference to a name that no level (above) defines refers to a rule that fails (`dead`); the real
  generator rejects such grammars.
-/
namespace Sourcer.Chain
open Sourcer

/-- a level: the body of each name it defines -/
abbrev Level := Nat → Option Expr

structure Chain where
  N : Nat
  levels : List Level

/-- the nearest level at or above `l` (searching `lvls`, whose head is level `l`) defining `k` -/
def nearestFrom : List Level → Nat → Nat → Option (Nat × Expr)
  | [], _, _ => none
  | lv :: rest, l, k =>
    match lv k with
    | some b => some (l, b)
    | none => nearestFrom rest (l + 1) k

def nearest (C : Chain) (l k : Nat) : Option (Nat × Expr) := nearestFrom (C.levels.drop l) l k

def Chain.L (C : Chain) : Nat := C.levels.length

/-! ### what the modules do -/

/-- index of the definition `(l, k)` -/
def code (C : Chain) (l k : Nat) : Nat := l * C.N + k

/-- index of the rule that fails (references to undefined names) -/
def deadC (C : Chain) : Nat := C.L * C.N

/-- where a reference written at level `l` leads -/
def resolveRef (C : Chain) (l j : Nat) : Nat :=
  if j < C.N then
    match nearest C 0 j with            -- `_ctx._try_j`: the entry grammar's table
    | some (l', _) => code C l' j
    | none => deadC C
  else if j < 2 * C.N then
    match nearest C (l + 1) (j - C.N) with   -- `_super_ctx._try_j` of the module at level `l`
    | some (l', _) => code C l' (j - C.N)
    | none => deadC C
  else deadC C

def slotC (C : Chain) (i : Nat) : Expr :=
  match (C.levels[i / C.N]?).bind (fun lv => lv (i % C.N)) with
  | some b => rerefExpr (resolveRef C (i / C.N)) b
  | none => .fail

def chainProg (C : Chain) (base : Program) : Program :=
  { base with rules := (List.range (C.L * C.N)).map (slotC C) ++ [.fail], ignored := none }

/-! ### the flattened grammar -/

def deadF (C : Chain) : Nat := C.N + C.L * C.N

/-- references of a body written at level `l`, in the flattened grammar -/
def conv (C : Chain) (l j : Nat) : Nat :=
  if j < C.N then
    if (nearest C 0 j).isSome then j else deadF C
  else if j < 2 * C.N then
    match nearest C (l + 1) (j - C.N) with
    | some (l', _) => C.N + code C l' (j - C.N)
    | none => deadF C
  else deadF C

def slotF (C : Chain) (i : Nat) : Expr :=
  if i < C.N then
    match nearest C 0 i with
    | some (l, b) => rerefExpr (conv C l) b
    | none => .fail
  else
    match (C.levels[(i - C.N) / C.N]?).bind (fun lv => lv ((i - C.N) % C.N)) with
    | some b => rerefExpr (conv C ((i - C.N) / C.N)) b
    | none => .fail

def flatProg (C : Chain) (base : Program) : Program :=
  { base with rules := (List.range (C.N + C.L * C.N)).map (slotF C) ++ [.fail], ignored := none }

/-- from rules of the flattened grammar to the definitions they stand for -/
def toChain (C : Chain) (i : Nat) : Nat :=
  if i < C.N then
    match nearest C 0 i with
    | some (l, _) => code C l i
    | none => deadC C
  else if i < C.N + C.L * C.N then i - C.N
  else if i = deadF C then deadC C
  else i + 1          -- beyond both tables

/-! ### re-referencing twice -/

mutual
theorem rerefExpr_comp (g f : Nat → Nat) :
    ∀ e : Expr, rerefExpr g (rerefExpr f e) = rerefExpr (fun j => g (f j)) e
  | .str _ _ => by simp [rerefExpr]
  | .regex _ _ => by simp [rerefExpr]
  | .byte _ _ => by simp [rerefExpr]
  | .ref _ => by simp [rerefExpr]
  | .seq xs => by simp [rerefExpr, rerefExprs_comp g f xs]
  | .cls _ xs _ => by simp [rerefExpr, rerefExprs_comp g f xs]
  | .discard a b _ => by simp [rerefExpr, rerefExpr_comp g f a, rerefExpr_comp g f b]
  | .choice xs => by simp [rerefExpr, rerefExprs_comp g f xs]
  | .opt e => by simp [rerefExpr, rerefExpr_comp g f e]
  | .list e _ _ => by simp [rerefExpr, rerefExpr_comp g f e]
  | .sep e s _ => by simp [rerefExpr, rerefExpr_comp g f e, rerefExpr_comp g f s]
  | .expect e => by simp [rerefExpr, rerefExpr_comp g f e]
  | .expectNot e => by simp [rerefExpr, rerefExpr_comp g f e]
  | .skip xs => by simp [rerefExpr, rerefExprs_comp g f xs]
  | .longest xs => by simp [rerefExpr, rerefExprs_comp g f xs]
  | .backtrack _ => by simp [rerefExpr]
  | .fail => by simp [rerefExpr]
  | .py _ => by simp [rerefExpr]
  | .tagged e _ => by simp [rerefExpr, rerefExpr_comp g f e]
  | .optable pre o m post inf => by
    simp [rerefExpr, rerefExprs_comp g f pre, rerefExpr_comp g f o, rerefExprs_comp g f m,
      rerefExprs_comp g f post, rerefExprs_comp g f inf]
theorem rerefExprs_comp (g f : Nat → Nat) :
    ∀ xs : List Expr, rerefExprs g (rerefExprs f xs) = rerefExprs (fun j => g (f j)) xs
  | [] => by simp [rerefExprs]
  | x :: xs => by simp [rerefExprs, rerefExpr_comp g f x, rerefExprs_comp g f xs]
end

/-! ### what `nearest` finds -/

theorem nearestFrom_some : ∀ (lvls : List Level) (a k l' : Nat) (b : Expr),
    nearestFrom lvls a k = some (l', b) →
      a ≤ l' ∧ ∃ lv, lvls[l' - a]? = some lv ∧ lv k = some b := by
  intro lvls
  induction lvls with
  | nil => intro a k l' b h; simp [nearestFrom] at h
  | cons lv rest ih =>
    intro a k l' b h
    simp only [nearestFrom] at h
    split at h
    · rename_i b' hb
      simp only [Option.some.injEq, Prod.mk.injEq] at h
      obtain ⟨rfl, rfl⟩ := h
      exact ⟨Nat.le_refl _, lv, by simp, hb⟩
    · obtain ⟨hle, lv', hget, hk⟩ := ih (a + 1) k l' b h
      refine ⟨by omega, lv', ?_, hk⟩
      have : l' - a = (l' - (a + 1)) + 1 := by omega
      rw [this, List.getElem?_cons_succ]
      exact hget

theorem nearest_some {C : Chain} {a k l' : Nat} {b : Expr} (h : nearest C a k = some (l', b)) :
    a ≤ l' ∧ l' < C.L ∧ ∃ lv, C.levels[l']? = some lv ∧ lv k = some b := by
  obtain ⟨hle, lv, hget, hk⟩ := nearestFrom_some _ _ _ _ _ h
  rw [List.getElem?_drop] at hget
  have e : a + (l' - a) = l' := by omega
  rw [e] at hget
  refine ⟨hle, ?_, lv, hget, hk⟩
  obtain ⟨hlt, _⟩ := List.getElem?_eq_some_iff.mp hget
  exact hlt

theorem code_lt {C : Chain} {l k : Nat} (hl : l < C.L) (hk : k < C.N) : code C l k < C.L * C.N := by
  unfold code
  have : (l + 1) * C.N ≤ C.L * C.N := Nat.mul_le_mul_right _ hl
  rw [Nat.add_mul, Nat.one_mul] at this
  omega

theorem code_div {C : Chain} {l k : Nat} (hk : k < C.N) : code C l k / C.N = l := by
  unfold code
  have hN : 0 < C.N := by omega
  rw [Nat.mul_comm, Nat.mul_add_div hN, Nat.div_eq_of_lt hk, Nat.add_zero]

theorem code_mod {C : Chain} {l k : Nat} (hk : k < C.N) : code C l k % C.N = k := by
  unfold code
  rw [Nat.mul_comm, Nat.mul_add_mod, Nat.mod_eq_of_lt hk]

/-- the flattened reading of a reference, mapped to the chain, is the modules' reading -/
theorem toChain_conv (C : Chain) (l j : Nat) : toChain C (conv C l j) = resolveRef C l j := by
  have hdead : toChain C (deadF C) = deadC C := by
    unfold toChain
    have h1 : ¬ deadF C < C.N := by unfold deadF; omega
    have h2 : ¬ deadF C < C.N + C.L * C.N := by unfold deadF; omega
    simp only [h1, h2, if_false, if_true]
  unfold conv resolveRef
  by_cases h1 : j < C.N
  · simp only [h1, if_true]
    cases hn : nearest C 0 j with
    | none => simpa using hdead
    | some r =>
      obtain ⟨l', b⟩ := r
      simp only [Option.isSome_some, if_true]
      unfold toChain
      simp only [h1, if_true, hn]
  · simp only [h1, if_false]
    by_cases h2 : j < 2 * C.N
    · simp only [h2, if_true]
      cases hn : nearest C (l + 1) (j - C.N) with
      | none => simpa using hdead
      | some r =>
        obtain ⟨l', b⟩ := r
        simp only
        obtain ⟨_, hl', _⟩ := nearest_some hn
        have hlt : code C l' (j - C.N) < C.L * C.N := code_lt hl' (by omega)
        unfold toChain
        have g1 : ¬ C.N + code C l' (j - C.N) < C.N := by omega
        have g2 : C.N + code C l' (j - C.N) < C.N + C.L * C.N := by omega
        simp only [g1, g2, if_false, if_true]
        omega
    · simp only [h2, if_false]
      exact hdead

theorem reref_toChain_conv (C : Chain) (l : Nat) (e : Expr) :
    rerefExpr (toChain C) (rerefExpr (conv C l) e) = rerefExpr (resolveRef C l) e := by
  rw [rerefExpr_comp]
  have : (fun j => toChain C (conv C l j)) = resolveRef C l := funext (toChain_conv C l)
  rw [this]

/-! ### the rule tables -/

theorem chain_rules_lt (C : Chain) (base : Program) {i : Nat} (h : i < C.L * C.N) :
    (chainProg C base).rules[i]? = some (slotC C i) := by
  show ((List.range (C.L * C.N)).map (slotC C) ++ [Expr.fail])[i]? = _
  rw [List.getElem?_append_left (by simpa using h)]
  simp [List.getElem?_map, List.getElem?_range h]

theorem chain_rules_dead (C : Chain) (base : Program) :
    (chainProg C base).rules[deadC C]? = some .fail := by
  show ((List.range (C.L * C.N)).map (slotC C) ++ [Expr.fail])[deadC C]? = _
  rw [List.getElem?_append_right (by simp [deadC])]
  simp [deadC]

theorem chain_rules_gt (C : Chain) (base : Program) {i : Nat} (h : C.L * C.N < i) :
    (chainProg C base).rules[i]? = none := by
  show ((List.range (C.L * C.N)).map (slotC C) ++ [Expr.fail])[i]? = _
  rw [List.getElem?_eq_none_iff]
  simp
  omega

theorem flat_rules_lt (C : Chain) (base : Program) {i : Nat} (h : i < C.N + C.L * C.N) :
    (flatProg C base).rules[i]? = some (slotF C i) := by
  show ((List.range (C.N + C.L * C.N)).map (slotF C) ++ [Expr.fail])[i]? = _
  rw [List.getElem?_append_left (by simpa using h)]
  simp [List.getElem?_map, List.getElem?_range h]

theorem flat_rules_dead (C : Chain) (base : Program) :
    (flatProg C base).rules[deadF C]? = some .fail := by
  show ((List.range (C.N + C.L * C.N)).map (slotF C) ++ [Expr.fail])[deadF C]? = _
  rw [List.getElem?_append_right (by simp [deadF])]
  simp [deadF]

theorem flat_rules_gt (C : Chain) (base : Program) {i : Nat} (h : C.N + C.L * C.N < i) :
    (flatProg C base).rules[i]? = none := by
  show ((List.range (C.N + C.L * C.N)).map (slotF C) ++ [Expr.fail])[i]? = _
  rw [List.getElem?_eq_none_iff]
  simp
  omega

/-- the chain of modules holds the rules of the flattened grammar at the places `toChain` says -/
theorem chain_ruleSim (C : Chain) (hN : 0 < C.N) (base : Program) :
    RuleSim (toChain C) (flatProg C base) (chainProg C base) where
  ignored := rfl
  matcher := rfl
  bytesMode := rfl
  rules := by
    intro k
    by_cases h1 : k < C.N
    · rw [flat_rules_lt C base (by omega)]
      simp only [Option.map_some]
      cases hn : nearest C 0 k with
      | none =>
        have ht : toChain C k = deadC C := by
          unfold toChain
          simp only [h1, if_true, hn]
        have hs : slotF C k = .fail := by
          unfold slotF
          simp only [h1, if_true, hn]
        rw [ht, hs, chain_rules_dead]
        simp [rerefExpr]
      | some r =>
        obtain ⟨l, b⟩ := r
        have ht : toChain C k = code C l k := by
          unfold toChain
          simp only [h1, if_true, hn]
        have hs : slotF C k = rerefExpr (conv C l) b := by
          unfold slotF
          simp only [h1, if_true, hn]
        obtain ⟨_, hl, lv, hlv, hb⟩ := nearest_some hn
        rw [ht, hs, chain_rules_lt C base (code_lt hl h1)]
        unfold slotC
        rw [code_div h1, code_mod h1, hlv]
        simp only [Option.bind_some, hb]
        rw [reref_toChain_conv]
    · by_cases h2 : k < C.N + C.L * C.N
      · rw [flat_rules_lt C base h2]
        simp only [Option.map_some]
        have ht : toChain C k = k - C.N := by
          unfold toChain
          simp only [h1, h2, if_false, if_true]
        rw [ht, chain_rules_lt C base (by omega)]
        unfold slotF slotC
        simp only [h1, if_false]
        cases (C.levels[(k - C.N) / C.N]?).bind (fun lv => lv ((k - C.N) % C.N)) with
        | none => simp [rerefExpr]
        | some b =>
          simp only
          rw [reref_toChain_conv]
      · by_cases h3 : k = deadF C
        · subst h3
          have ht : toChain C (deadF C) = deadC C := by
            unfold toChain
            simp only [h1, h2, if_false, if_true]
          rw [ht, chain_rules_dead, flat_rules_dead]
          simp [rerefExpr]
        · have ht : toChain C k = k + 1 := by
            unfold toChain
            simp only [h1, h2, h3, if_false]
          have hk : C.N + C.L * C.N < k := by unfold deadF at h3; omega
          rw [ht, chain_rules_gt C base (by omega), flat_rules_gt C base hk]
          rfl

/-- **C13 (flattening).**  The flattened grammar simulates the chain of modules: an expression written
    at level `l` means, with its references read as in the flattened grammar, what it means with its
    references resolved through the context tables of the modules. -/
theorem flat_means_chain (C : Chain) (hN : 0 < C.N) (base : Program) (inp : List Nat) (l : Nat) :
    ∀ (fuel : Nat) (e : Expr) (p : Nat),
      peg (flatProg C base) inp fuel (rerefExpr (conv C l) e) p
        = peg (chainProg C base) inp fuel (rerefExpr (resolveRef C l) e) p := by
  intro fuel e p
  rw [← reref_toChain_conv]
  exact (peg_reref (toChain C) _ _ (chain_ruleSim C hN base) inp fuel _ p).symm

/-- in particular for the names themselves: the rule `k` of the flattened grammar is the entry
    grammar's `k` -/
theorem flat_name_means_entry (C : Chain) (hN : 0 < C.N) (base : Program) (inp : List Nat) (k : Nat) (hk : k < C.N) :
    ∀ (fuel : Nat) (p : Nat),
      peg (flatProg C base) inp fuel (.ref k) p = peg (chainProg C base) inp fuel (.ref (resolveRef C 0 k)) p := by
  intro fuel p
  have h := peg_reref (toChain C) _ _ (chain_ruleSim C hN base) inp fuel (.ref k) p
  have ht : toChain C k = resolveRef C 0 k := by
    unfold toChain resolveRef
    simp only [hk, if_true]
  simp only [rerefExpr, ht] at h
  exact h.symm

end Sourcer.Chain
