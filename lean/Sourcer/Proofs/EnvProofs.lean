import Sourcer.Env
/-
  The flat-locals implementation `xgen` realises the lexical specification `xpeg` on every
  well-scoped program without shadowing (`ws`).
-/
namespace Sourcer.X

/-! ### the relation between implementation values and what names denote -/

/-- A captured-values closure stands for an environment closure when the helper's parameters
    cover the free names of the expression and hold related values. -/
inductive Rel : IVal → SVal → Prop where
  | val (v : Val) : Rel (.val v) (.val v)
  | slit (s : List Nat) : Rel (.slit s) (.slit s)
  | pf (e : XExpr) (vals : List IVal) (ρ : SEnv) :
      ws (captured e) e = true →
      vals.length = (captured e).length →
      (∀ x, x ∈ captured e → (lookupS ρ x).isSome) →
      (∀ x iv sv, lookupI ((captured e).zip vals) x = some iv → lookupS ρ x = some sv → Rel iv sv) →
      Rel (.pf e vals) (.clo e ρ)

def Agree (Γ : List Name) (L : Locals) (ρ : SEnv) : Prop :=
  ∀ x, x ∈ Γ → ∃ iv sv, lookupI L x = some iv ∧ lookupS ρ x = some sv ∧ Rel iv sv

theorem Rel.data {iv : IVal} {sv : SVal} (h : Rel iv sv) : iv.data = sv.data := by
  cases h <;> rfl

/-! ### lookups -/

theorem lookupI_assign_eq (L : Locals) (x : Name) (v : IVal) : lookupI (assign L x v) x = some v := by
  induction L with
  | nil => simp [assign, lookupI]
  | cons yw rest ih =>
    obtain ⟨y, w⟩ := yw
    by_cases h : x = y
    · simp [assign, lookupI, h]
    · simp [assign, lookupI, h, ih]

theorem lookupI_assign_ne (L : Locals) (x y : Name) (v : IVal) (h : y ≠ x) :
    lookupI (assign L x v) y = lookupI L y := by
  induction L with
  | nil => simp [assign, lookupI, h]
  | cons zw rest ih =>
    obtain ⟨z, w⟩ := zw
    by_cases hx : x = z
    · subst hx
      simp [assign, lookupI, h]
    · by_cases hy : y = z
      · simp [assign, lookupI, hx, hy]
      · simp [assign, lookupI, hx, hy, ih]

theorem contains_iff (Γ : List Name) (x : Name) : Γ.contains x = true ↔ x ∈ Γ := by
  simp

theorem allIn_iff (Γ names : List Name) : allIn Γ names = true ↔ ∀ x, x ∈ names → x ∈ Γ := by
  simp [allIn]

/-- binding a fresh name leaves the agreement on the names in scope alone, and extends it -/
theorem Agree.bind {Γ : List Name} {L : Locals} {ρ : SEnv} (h : Agree Γ L ρ) (x : Name) (v : Val) :
    Agree (x :: Γ) (assign L x (.val v)) ((x, .val v) :: ρ) := by
  intro y hy
  by_cases hxy : y = x
  · subst hxy
    exact ⟨.val v, .val v, lookupI_assign_eq _ _ _, by simp [lookupS], Rel.val v⟩
  · have hy' : y ∈ Γ := by
      rcases List.mem_cons.mp hy with h1 | h1
      · exact absurd h1 hxy
      · exact h1
    obtain ⟨iv, sv, h1, h2, h3⟩ := h y hy'
    exact ⟨iv, sv, by rw [lookupI_assign_ne _ _ _ _ hxy]; exact h1, by simp [lookupS, hxy, h2], h3⟩

/-- leaving the scope of a binder that did not shadow anything -/
theorem Agree.unbind {Γ : List Name} {L : Locals} {ρ : SEnv} {x : Name} {sv : SVal}
    (h : Agree (x :: Γ) L ((x, sv) :: ρ)) (hx : x ∉ Γ) : Agree Γ L ρ := by
  intro y hy
  have hxy : y ≠ x := fun e => hx (e ▸ hy)
  obtain ⟨iv, sv', h1, h2, h3⟩ := h y (List.mem_cons_of_mem _ hy)
  refine ⟨iv, sv', h1, ?_, h3⟩
  simpa [lookupS, hxy] using h2

theorem Agree.values {Γ : List Name} {L : Locals} {ρ : SEnv} (h : Agree Γ L ρ) :
    ∀ (names : List Name), (∀ x, x ∈ names → x ∈ Γ) → valuesI L names = valuesS ρ names := by
  intro names
  induction names with
  | nil => intro _; rfl
  | cons x xs ih =>
    intro hsub
    obtain ⟨iv, sv, h1, h2, h3⟩ := h x (hsub x (List.mem_cons_self))
    have ih' := ih (fun y hy => hsub y (List.mem_cons_of_mem _ hy))
    simp only [valuesI, valuesS, h1, h2, h3.data, ih']

theorem Agree.evalPy {Γ : List Name} {L : Locals} {ρ : SEnv} (h : Agree Γ L ρ) (P : XProgram)
    (t : PyTerm) (extra : List Val) (hsub : allIn Γ t.names = true) :
    evalPyI P L t extra = evalPyS P ρ t extra := by
  unfold evalPyI evalPyS
  rw [h.values t.names ((allIn_iff _ _).mp hsub)]

/-! ### free names and scopes -/

theorem mem_remove {x y : Name} {l : List Name} : y ∈ remove x l ↔ y ∈ l ∧ y ≠ x := by
  simp [remove]

theorem mem_insertSorted {x y : Name} {l : List Name} : y ∈ insertSorted x l ↔ y = x ∨ y ∈ l := by
  induction l with
  | nil => simp [insertSorted]
  | cons z zs ih =>
    unfold insertSorted
    split
    · simp
    · split
      · rename_i _ h
        subst h
        simp
      · simp [ih]
        constructor
        · rintro (h | h | h)
          · exact Or.inr (Or.inl h)
          · exact Or.inl h
          · exact Or.inr (Or.inr h)
        · rintro (h | h | h)
          · exact Or.inr (Or.inl h)
          · exact Or.inl h
          · exact Or.inr (Or.inr h)

theorem mem_sortNames {y : Name} {l : List Name} : y ∈ sortNames l ↔ y ∈ l := by
  induction l with
  | nil => simp [sortNames]
  | cons z zs ih => simp [sortNames, mem_insertSorted, ih]

theorem mem_captured {y : Name} {e : XExpr} : y ∈ captured e ↔ y ∈ fv e := mem_sortNames

mutual
theorem ws_fv (Γ : List Name) (e : XExpr) (h : ws Γ e = true) : ∀ x, x ∈ fv e → x ∈ Γ := by
  intro x hx
  cases e with
  | lit _ => simp [fv] at hx
  | cc _ _ => simp [fv] at hx
  | seq xs => exact wsList_fv Γ xs (by simpa [ws] using h) x (by simpa [fv] using hx)
  | choice xs => exact wsList_fv Γ xs (by simpa [ws] using h) x (by simpa [fv] using hx)
  | star e => exact ws_fv Γ e (by simpa [ws] using h) x (by simpa [fv] using hx)
  | opt e => exact ws_fv Γ e (by simpa [ws] using h) x (by simpa [fv] using hx)
  | ref _ => simp [fv] at hx
  | pvar y =>
    simp [fv] at hx
    subst hx
    simpa [ws] using h
  | py t =>
    simp only [fv] at hx
    exact (allIn_iff _ _).mp (by simpa [ws] using h) x hx
  | let_ y e b =>
    simp only [ws, Bool.and_eq_true, Bool.not_eq_true'] at h
    simp only [fv, List.mem_append, mem_remove] at hx
    rcases hx with hx | ⟨hx, hne⟩
    · exact ws_fv Γ e h.1.1 x hx
    · have := ws_fv (y :: Γ) b h.2 x hx
      rcases List.mem_cons.mp this with h1 | h1
      · exact absurd h1 hne
      · exact h1
  | where_ e q =>
    simp only [ws, Bool.and_eq_true] at h
    simp only [fv, List.mem_append] at hx
    rcases hx with hx | hx
    · exact ws_fv Γ e h.1 x hx
    · exact ws_fv Γ q h.2 x hx
  | apply e f =>
    simp only [ws, Bool.and_eq_true] at h
    simp only [fv, List.mem_append] at hx
    rcases hx with hx | hx
    · exact ws_fv Γ e h.1 x hx
    · exact ws_fv Γ f h.2 x hx
  | applyL f e =>
    simp only [ws, Bool.and_eq_true] at h
    simp only [fv, List.mem_append] at hx
    rcases hx with hx | hx
    · exact ws_fv Γ f h.1 x hx
    · exact ws_fv Γ e h.2 x hx
  | rep e t =>
    simp only [ws, Bool.and_eq_true] at h
    simp only [fv, List.mem_append] at hx
    rcases hx with hx | hx
    · exact ws_fv Γ e h.1 x hx
    · exact (allIn_iff _ _).mp h.2 x hx
  | call _ args => exact wsArgs_fv Γ args (by simpa [ws] using h) x (by simpa [fv] using hx)
  | bseq items _ fields => exact wsItems_fv Γ fields items (by simpa [ws] using h) x (by simpa [fv] using hx)
theorem wsList_fv (Γ : List Name) (xs : List XExpr) (h : wsList Γ xs = true) : ∀ x, x ∈ fvList xs → x ∈ Γ := by
  intro x hx
  cases xs with
  | nil => simp [fvList] at hx
  | cons e es =>
    simp only [wsList, Bool.and_eq_true] at h
    simp only [fvList, List.mem_append] at hx
    rcases hx with hx | hx
    · exact ws_fv Γ e h.1 x hx
    · exact wsList_fv Γ es h.2 x hx
theorem wsArgs_fv (Γ : List Name) (xs : List (Option Name × XExpr)) (h : wsArgs Γ xs = true) :
    ∀ x, x ∈ fvArgs xs → x ∈ Γ := by
  intro x hx
  cases xs with
  | nil => simp [fvArgs] at hx
  | cons ke es =>
    obtain ⟨k, e⟩ := ke
    simp only [wsArgs, Bool.and_eq_true] at h
    simp only [fvArgs, List.mem_append] at hx
    rcases hx with hx | hx
    · exact ws_fv Γ e h.1 x hx
    · exact wsArgs_fv Γ es h.2 x hx
theorem wsItems_fv (Γ : List Name) (fields : List Name) (xs : List (Option Name × XExpr))
    (h : wsItems Γ fields xs = true) : ∀ x, x ∈ fvItems fields xs → x ∈ Γ := by
  intro x hx
  cases xs with
  | nil =>
    simp only [fvItems] at hx
    exact (allIn_iff _ _).mp (by simpa [wsItems] using h) x hx
  | cons ke es =>
    obtain ⟨k, e⟩ := ke
    cases k with
    | none =>
      simp only [wsItems, Bool.and_eq_true] at h
      simp only [fvItems, List.mem_append] at hx
      rcases hx with hx | hx
      · exact ws_fv Γ e h.1 x hx
      · exact wsItems_fv Γ fields es h.2 x hx
    | some y =>
      simp only [wsItems, Bool.and_eq_true, Bool.not_eq_true'] at h
      simp only [fvItems, List.mem_append, mem_remove] at hx
      rcases hx with hx | ⟨hx, hne⟩
      · exact ws_fv Γ e h.1.1 x hx
      · have := wsItems_fv (y :: Γ) fields es h.2 x hx
        rcases List.mem_cons.mp this with h1 | h1
        · exact absurd h1 hne
        · exact h1
end

theorem sub_cons {Γ Γ' : List Name} (y : Name) (h : ∀ x, x ∈ Γ' → x ∈ Γ) : ∀ x, x ∈ y :: Γ' → x ∈ y :: Γ := by
  intro x hx
  rcases List.mem_cons.mp hx with h1 | h1
  · exact h1 ▸ List.mem_cons_self
  · exact List.mem_cons_of_mem _ (h x h1)

theorem fv_cons {Γ' : List Name} {l : List Name} (y : Name) (h : ∀ x, x ∈ remove y l → x ∈ Γ') :
    ∀ x, x ∈ l → x ∈ y :: Γ' := by
  intro x hx
  by_cases hxy : x = y
  · exact hxy ▸ List.mem_cons_self
  · exact List.mem_cons_of_mem _ (h x (mem_remove.mpr ⟨hx, hxy⟩))

theorem not_contains_of_sub {Γ Γ' : List Name} {y : Name} (hsub : ∀ x, x ∈ Γ' → x ∈ Γ)
    (h : Γ.contains y = false) : Γ'.contains y = false := by
  cases hc : Γ'.contains y with
  | false => rfl
  | true =>
    have := hsub y ((contains_iff _ _).mp hc)
    rw [(contains_iff _ _).mpr this] at h
    exact absurd h (by simp)

mutual
/-- a well-scoped expression stays well-scoped in any smaller scope that still covers its free names -/
theorem ws_restrict (Γ Γ' : List Name) (e : XExpr) (h : ws Γ e = true) (hsub : ∀ x, x ∈ Γ' → x ∈ Γ)
    (hfv : ∀ x, x ∈ fv e → x ∈ Γ') : ws Γ' e = true := by
  cases e with
  | lit _ => simp [ws]
  | cc _ _ => simp [ws]
  | seq xs => simpa [ws] using wsList_restrict Γ Γ' xs (by simpa [ws] using h) hsub (by simpa [fv] using hfv)
  | choice xs => simpa [ws] using wsList_restrict Γ Γ' xs (by simpa [ws] using h) hsub (by simpa [fv] using hfv)
  | star e => simpa [ws] using ws_restrict Γ Γ' e (by simpa [ws] using h) hsub (by simpa [fv] using hfv)
  | opt e => simpa [ws] using ws_restrict Γ Γ' e (by simpa [ws] using h) hsub (by simpa [fv] using hfv)
  | ref _ => simp [ws]
  | pvar y => simpa [ws] using hfv y (by simp [fv])
  | py t => simpa [ws] using (allIn_iff Γ' t.names).mpr (by simpa [fv] using hfv)
  | let_ y e b =>
    simp only [ws, Bool.and_eq_true, Bool.not_eq_true'] at h
    simp only [fv, List.mem_append] at hfv
    simp only [ws, Bool.and_eq_true, Bool.not_eq_true']
    refine ⟨⟨ws_restrict Γ Γ' e h.1.1 hsub (fun x hx => hfv x (Or.inl hx)), not_contains_of_sub hsub h.1.2⟩, ?_⟩
    exact ws_restrict (y :: Γ) (y :: Γ') b h.2 (sub_cons y hsub) (fv_cons y (fun x hx => hfv x (Or.inr hx)))
  | where_ e q =>
    simp only [ws, Bool.and_eq_true] at h
    simp only [fv, List.mem_append] at hfv
    simp only [ws, Bool.and_eq_true]
    exact ⟨ws_restrict Γ Γ' e h.1 hsub (fun x hx => hfv x (Or.inl hx)),
      ws_restrict Γ Γ' q h.2 hsub (fun x hx => hfv x (Or.inr hx))⟩
  | apply e f =>
    simp only [ws, Bool.and_eq_true] at h
    simp only [fv, List.mem_append] at hfv
    simp only [ws, Bool.and_eq_true]
    exact ⟨ws_restrict Γ Γ' e h.1 hsub (fun x hx => hfv x (Or.inl hx)),
      ws_restrict Γ Γ' f h.2 hsub (fun x hx => hfv x (Or.inr hx))⟩
  | applyL f e =>
    simp only [ws, Bool.and_eq_true] at h
    simp only [fv, List.mem_append] at hfv
    simp only [ws, Bool.and_eq_true]
    exact ⟨ws_restrict Γ Γ' f h.1 hsub (fun x hx => hfv x (Or.inl hx)),
      ws_restrict Γ Γ' e h.2 hsub (fun x hx => hfv x (Or.inr hx))⟩
  | rep e t =>
    simp only [ws, Bool.and_eq_true] at h
    simp only [fv, List.mem_append] at hfv
    simp only [ws, Bool.and_eq_true]
    exact ⟨ws_restrict Γ Γ' e h.1 hsub (fun x hx => hfv x (Or.inl hx)),
      (allIn_iff Γ' t.names).mpr (fun x hx => hfv x (Or.inr hx))⟩
  | call _ args => simpa [ws] using wsArgs_restrict Γ Γ' args (by simpa [ws] using h) hsub (by simpa [fv] using hfv)
  | bseq items _ fields =>
    simpa [ws] using wsItems_restrict Γ Γ' fields items (by simpa [ws] using h) hsub (by simpa [fv] using hfv)
theorem wsList_restrict (Γ Γ' : List Name) (xs : List XExpr) (h : wsList Γ xs = true)
    (hsub : ∀ x, x ∈ Γ' → x ∈ Γ) (hfv : ∀ x, x ∈ fvList xs → x ∈ Γ') : wsList Γ' xs = true := by
  cases xs with
  | nil => simp [wsList]
  | cons e es =>
    simp only [wsList, Bool.and_eq_true] at h
    simp only [fvList, List.mem_append] at hfv
    simp only [wsList, Bool.and_eq_true]
    exact ⟨ws_restrict Γ Γ' e h.1 hsub (fun x hx => hfv x (Or.inl hx)),
      wsList_restrict Γ Γ' es h.2 hsub (fun x hx => hfv x (Or.inr hx))⟩
theorem wsArgs_restrict (Γ Γ' : List Name) (xs : List (Option Name × XExpr)) (h : wsArgs Γ xs = true)
    (hsub : ∀ x, x ∈ Γ' → x ∈ Γ) (hfv : ∀ x, x ∈ fvArgs xs → x ∈ Γ') : wsArgs Γ' xs = true := by
  cases xs with
  | nil => simp [wsArgs]
  | cons ke es =>
    obtain ⟨k, e⟩ := ke
    simp only [wsArgs, Bool.and_eq_true] at h
    simp only [fvArgs, List.mem_append] at hfv
    simp only [wsArgs, Bool.and_eq_true]
    exact ⟨ws_restrict Γ Γ' e h.1 hsub (fun x hx => hfv x (Or.inl hx)),
      wsArgs_restrict Γ Γ' es h.2 hsub (fun x hx => hfv x (Or.inr hx))⟩
theorem wsItems_restrict (Γ Γ' : List Name) (fields : List Name) (xs : List (Option Name × XExpr))
    (h : wsItems Γ fields xs = true) (hsub : ∀ x, x ∈ Γ' → x ∈ Γ)
    (hfv : ∀ x, x ∈ fvItems fields xs → x ∈ Γ') : wsItems Γ' fields xs = true := by
  cases xs with
  | nil =>
    simp only [wsItems]
    exact (allIn_iff _ _).mpr (by simpa [fvItems] using hfv)
  | cons ke es =>
    obtain ⟨k, e⟩ := ke
    cases k with
    | none =>
      simp only [wsItems, Bool.and_eq_true] at h
      simp only [fvItems, List.mem_append] at hfv
      simp only [wsItems, Bool.and_eq_true]
      exact ⟨ws_restrict Γ Γ' e h.1 hsub (fun x hx => hfv x (Or.inl hx)),
        wsItems_restrict Γ Γ' fields es h.2 hsub (fun x hx => hfv x (Or.inr hx))⟩
    | some y =>
      simp only [wsItems, Bool.and_eq_true, Bool.not_eq_true'] at h
      simp only [fvItems, List.mem_append] at hfv
      simp only [wsItems, Bool.and_eq_true, Bool.not_eq_true']
      refine ⟨⟨ws_restrict Γ Γ' e h.1.1 hsub (fun x hx => hfv x (Or.inl hx)), not_contains_of_sub hsub h.1.2⟩, ?_⟩
      exact wsItems_restrict (y :: Γ) (y :: Γ') fields es h.2 (sub_cons y hsub)
        (fv_cons y (fun x hx => hfv x (Or.inr hx)))
end

/-- the helper function made from an argument expression is well-scoped in its own parameters -/
theorem ws_captured (Γ : List Name) (e : XExpr) (h : ws Γ e = true) : ws (captured e) e = true :=
  ws_restrict Γ (captured e) e h (fun x hx => ws_fv Γ e h x (mem_captured.mp hx)) (fun x hx => mem_captured.mpr hx)

/-! ### capturing the free names of an argument expression -/

theorem capture_some (L : Locals) : ∀ (names : List Name), (∀ x, x ∈ names → (lookupI L x).isSome) →
    ∃ vals, capture L names = some vals ∧ vals.length = names.length := by
  intro names
  induction names with
  | nil => intro _; exact ⟨[], rfl, rfl⟩
  | cons x xs ih =>
    intro h
    obtain ⟨vals, h1, h2⟩ := ih (fun y hy => h y (List.mem_cons_of_mem _ hy))
    have hx := h x List.mem_cons_self
    cases hl : lookupI L x with
    | none => simp [hl] at hx
    | some v => exact ⟨v :: vals, by simp [capture, hl, h1], by simp [h2]⟩

theorem capture_lookup (L : Locals) : ∀ (names : List Name) (vals : List IVal), capture L names = some vals →
    ∀ x iv, lookupI (names.zip vals) x = some iv → lookupI L x = some iv := by
  intro names
  induction names with
  | nil => intro vals _ x iv h; simp [lookupI] at h
  | cons y ys ih =>
    intro vals hc x iv h
    cases hl : lookupI L y with
    | none => simp [capture, hl] at hc
    | some v =>
      cases hr : capture L ys with
      | none => simp [capture, hl, hr] at hc
      | some vs =>
        simp [capture, hl, hr] at hc
        subst hc
        simp only [List.zip_cons_cons, lookupI] at h
        by_cases hxy : x = y
        · simp [hxy] at h
          subst h
          exact hxy ▸ hl
        · simp [hxy] at h
          exact ih vs hr x iv h

theorem lookup_zip_some : ∀ (names : List Name) (vals : List IVal), vals.length = names.length →
    ∀ x, x ∈ names → ∃ iv, lookupI (names.zip vals) x = some iv := by
  intro names
  induction names with
  | nil => intro _ _ x hx; simp at hx
  | cons y ys ih =>
    intro vals hlen x hx
    cases vals with
    | nil => simp at hlen
    | cons v vs =>
      simp only [List.zip_cons_cons, lookupI]
      by_cases hxy : x = y
      · exact ⟨v, by simp [hxy]⟩
      · simp [hxy]
        rcases List.mem_cons.mp hx with h1 | h1
        · exact absurd h1 hxy
        · exact ih vs (by simpa using hlen) x h1

theorem lookup_zip_mem : ∀ (names : List Name) (vals : List IVal) (x : Name) (iv : IVal),
    lookupI (names.zip vals) x = some iv → x ∈ names := by
  intro names
  induction names with
  | nil => intro vals x iv h; simp [lookupI] at h
  | cons y ys ih =>
    intro vals x iv h
    cases vals with
    | nil => simp [lookupI] at h
    | cons v vs =>
      simp only [List.zip_cons_cons, lookupI] at h
      by_cases hxy : x = y
      · exact hxy ▸ List.mem_cons_self
      · simp [hxy] at h
        exact List.mem_cons_of_mem _ (ih vs x iv h)

/-- the closure made at the call site is related to the lexical closure -/
theorem Agree.closure {Γ : List Name} {L : Locals} {ρ : SEnv} (h : Agree Γ L ρ) (e : XExpr)
    (hws : ws Γ e = true) : ∃ vals, capture L (captured e) = some vals ∧ Rel (.pf e vals) (.clo e ρ) := by
  have hin : ∀ x, x ∈ captured e → x ∈ Γ := fun x hx => ws_fv Γ e hws x (mem_captured.mp hx)
  obtain ⟨vals, hc, hlen⟩ := capture_some L (captured e) (fun x hx => by
    obtain ⟨iv, _, h1, _, _⟩ := h x (hin x hx)
    simp [h1])
  refine ⟨vals, hc, Rel.pf e vals ρ (ws_captured Γ e hws) hlen ?_ ?_⟩
  · intro x hx
    obtain ⟨_, sv, _, h2, _⟩ := h x (hin x hx)
    simp [h2]
  · intro x iv sv h1 h2
    have hx := lookup_zip_mem _ _ _ _ h1
    obtain ⟨iv', sv', h3, h4, h5⟩ := h x (hin x hx)
    have := capture_lookup L _ _ hc x iv h1
    rw [h3] at this
    rw [h4] at h2
    cases this
    cases h2
    exact h5

/-- invoking a related closure: its frame agrees with its environment on its parameters -/
theorem Rel.frame {e : XExpr} {vals : List IVal} {ρ : SEnv} (h : Rel (.pf e vals) (.clo e ρ)) :
    ws (captured e) e = true ∧ vals.length = (captured e).length ∧ Agree (captured e) ((captured e).zip vals) ρ := by
  cases h with
  | pf _ _ _ h1 h2 h3 h4 =>
    refine ⟨h1, h2, ?_⟩
    intro x hx
    obtain ⟨iv, hiv⟩ := lookup_zip_some _ _ h2 x hx
    have hs := h3 x hx
    cases hl : lookupS ρ x with
    | none => simp [hl] at hs
    | some sv => exact ⟨iv, sv, hiv, rfl, h4 x iv sv hiv hl⟩

/-! ### binding arguments to parameters -/

/-- two frames with the same names and related values -/
inductive Frames : Locals → SEnv → Prop where
  | nil : Frames [] []
  | cons (x : Name) (iv : IVal) (sv : SVal) (L : Locals) (ρ : SEnv) :
      Rel iv sv → Frames L ρ → Frames ((x, iv) :: L) ((x, sv) :: ρ)

theorem Frames.agree {L : Locals} {ρ : SEnv} (h : Frames L ρ) : Agree (ρ.map (·.1)) L ρ := by
  induction h with
  | nil => intro x hx; simp at hx
  | cons y iv sv L ρ hr _ ih =>
    intro x hx
    by_cases hxy : x = y
    · exact ⟨iv, sv, by simp [lookupI, hxy], by simp [lookupS, hxy], hr⟩
    · have : x ∈ ρ.map (·.1) := by
        simp only [List.map_cons, List.mem_cons] at hx
        rcases hx with h1 | h1
        · exact absurd h1 hxy
        · exact h1
      obtain ⟨iv', sv', h1, h2, h3⟩ := ih x this
      exact ⟨iv', sv', by simp [lookupI, hxy, h1], by simp [lookupS, hxy, h2], h3⟩

theorem bindFrom_keys {α : Type} (pos : List α) (kws : List (Name × α)) :
    ∀ (params : List Name) (i : Nat) (bound : List (Name × α)),
      bindFrom pos kws i params = some bound → bound.map (·.1) = params := by
  intro params
  induction params with
  | nil => intro i bound h; simp [bindFrom] at h; subst h; rfl
  | cons q qs ih =>
    intro i bound h
    simp only [bindFrom] at h
    split at h
    · rename_i a rest _ hr
      cases h
      simp [ih (i + 1) rest hr]
    · exact absurd h (by simp)

theorem bindArgs_keys {α : Type} (params : List Name) (args : List (Option Name × α)) (bound : List (Name × α))
    (h : bindArgs params args = some bound) : bound.map (·.1) = params := by
  unfold bindArgs at h
  split at h
  · exact bindFrom_keys _ _ _ _ _ h
  · exact absurd h (by simp)

theorem bindFrom_mem {α : Type} (pos : List α) (kws : List (Name × α)) :
    ∀ (params : List Name) (i : Nat) (bound : List (Name × α)),
      bindFrom pos kws i params = some bound → ∀ xa, xa ∈ bound → xa.2 ∈ pos ∨ ∃ kv, kv ∈ kws ∧ kv.2 = xa.2 := by
  intro params
  induction params with
  | nil => intro i bound h xa hxa; simp [bindFrom] at h; subst h; simp at hxa
  | cons q qs ih =>
    intro i bound h xa hxa
    simp only [bindFrom] at h
    split at h
    · rename_i a rest ha hr
      cases h
      rcases List.mem_cons.mp hxa with h1 | h1
      · subst h1
        simp only [argFor] at ha
        split at ha
        · rename_i a' hp
          cases ha
          exact Or.inl (List.mem_of_getElem? hp)
        · split at ha
          · rename_i kv hf
            cases ha
            have : kv ∈ kws.filter (fun kv => kv.1 = q) := by rw [hf]; simp
            exact Or.inr ⟨kv, (List.mem_filter.mp this).1, rfl⟩
          · exact absurd ha (by simp)
      · exact ih (i + 1) rest hr xa h1
    · exact absurd h (by simp)

/-- every bound argument is one of the arguments of the call -/
theorem bindArgs_mem {α : Type} (params : List Name) (args : List (Option Name × α)) (bound : List (Name × α))
    (h : bindArgs params args = some bound) : ∀ xa, xa ∈ bound → ∃ k, (k, xa.2) ∈ args := by
  unfold bindArgs at h
  split at h
  · intro xa hxa
    rcases bindFrom_mem _ _ _ _ _ h xa hxa with h1 | ⟨kv, h1, h2⟩
    · obtain ⟨ka, hka, hm⟩ := List.mem_filterMap.mp h1
      obtain ⟨k, a⟩ := ka
      cases k with
      | none => simp [posOf] at hm; exact ⟨none, hm ▸ hka⟩
      | some n => simp [posOf] at hm
    · obtain ⟨ka, hka, hm⟩ := List.mem_filterMap.mp h1
      obtain ⟨k, a⟩ := ka
      cases k with
      | none => simp [kwOf] at hm
      | some n =>
        simp [kwOf] at hm
        subst hm
        exact ⟨some n, h2 ▸ hka⟩
  · exact absurd h (by simp)

theorem wsArgs_mem (Γ : List Name) : ∀ (args : List (Option Name × XExpr)), wsArgs Γ args = true →
    ∀ k e, (k, e) ∈ args → ws Γ e = true := by
  intro args
  induction args with
  | nil => intro _ k e h; simp at h
  | cons ke rest ih =>
    obtain ⟨k', e'⟩ := ke
    intro h k e hm
    simp only [wsArgs, Bool.and_eq_true] at h
    rcases List.mem_cons.mp hm with h1 | h1
    · cases h1
      exact h.1
    · exact ih h.2 k e h1

/-! ### arguments -/

theorem Agree.arg {Γ : List Name} {L : Locals} {ρ : SEnv} (h : Agree Γ L ρ) (P : XProgram) (e : XExpr)
    (hws : ws Γ e = true) (sv : SVal) (hs : argS P ρ e = some sv) :
    ∃ iv, argI P L e = some iv ∧ Rel iv sv := by
  have closure : argS P ρ e = some (.clo e ρ) → argI P L e = (capture L (captured e)).map (.pf e) →
      ∃ iv, argI P L e = some iv ∧ Rel iv sv := by
    intro h1 h2
    rw [h1] at hs
    cases hs
    obtain ⟨vals, hc, hr⟩ := h.closure e hws
    exact ⟨.pf e vals, by rw [h2, hc]; rfl, hr⟩
  cases e with
  | py t =>
    simp only [argS] at hs
    simp only [argI]
    rw [h.evalPy P t [] (by simpa [ws] using hws)]
    cases hv : evalPyS P ρ t [] with
    | none => simp [hv] at hs
    | some v =>
      simp [hv] at hs
      subst hs
      exact ⟨.val v, rfl, Rel.val v⟩
  | lit s =>
    simp only [argS] at hs
    cases hs
    exact ⟨.slit s, rfl, Rel.slit s⟩
  | pvar x =>
    simp only [argS] at hs
    obtain ⟨iv, sv', h1, h2, h3⟩ := h x (by simpa [ws] using hws)
    rw [h2] at hs
    cases hs
    exact ⟨iv, by simp [argI, h1], h3⟩
  | cc _ _ => exact closure rfl rfl
  | seq _ => exact closure rfl rfl
  | choice _ => exact closure rfl rfl
  | star _ => exact closure rfl rfl
  | opt _ => exact closure rfl rfl
  | ref _ => exact closure rfl rfl
  | let_ _ _ _ => exact closure rfl rfl
  | where_ _ _ => exact closure rfl rfl
  | apply _ _ => exact closure rfl rfl
  | applyL _ _ => exact closure rfl rfl
  | rep _ _ => exact closure rfl rfl
  | call _ _ => exact closure rfl rfl
  | bseq _ _ _ => exact closure rfl rfl

theorem Agree.args {Γ : List Name} {L : Locals} {ρ : SEnv} (h : Agree Γ L ρ) (P : XProgram) :
    ∀ (bound : List (Name × XExpr)) (ρ' : SEnv), (∀ xa, xa ∈ bound → ws Γ xa.2 = true) →
      argsS P ρ bound = some ρ' →
      ∃ L', argsI P L bound = some L' ∧ Frames L' ρ' ∧ ρ'.map (·.1) = bound.map (·.1) := by
  intro bound
  induction bound with
  | nil =>
    intro ρ' _ hs
    simp [argsS] at hs
    subst hs
    exact ⟨[], rfl, Frames.nil, rfl⟩
  | cons xe rest ih =>
    obtain ⟨x, e⟩ := xe
    intro ρ' hws hs
    simp only [argsS] at hs
    cases ha : argS P ρ e with
    | none => simp [ha] at hs
    | some sv =>
      cases hr : argsS P ρ rest with
      | none => simp [ha, hr] at hs
      | some ρr =>
        simp [ha, hr] at hs
        subst hs
        obtain ⟨iv, h1, h2⟩ := h.arg P e (hws (x, e) List.mem_cons_self) sv ha
        obtain ⟨Lr, h3, h4, h5⟩ := ih ρr (fun xa hxa => hws xa (List.mem_cons_of_mem _ hxa)) hr
        exact ⟨(x, iv) :: Lr, by simp [argsI, h1, h3], Frames.cons x iv sv Lr ρr h2 h4, by simp [h5]⟩

/-! ### simulation -/

/-- the implementation's runner simulates the specification's runner -/
def Sim (srun : SRun) (irun : IRun) : Prop :=
  ∀ (e : XExpr) (Γ : List Name) (L : Locals) (ρ : SEnv) (p : Nat) (r : Res),
    ws Γ e = true → Agree Γ L ρ → srun e ρ p = some r →
    ∃ L', irun e L p = some (r, L') ∧ Agree Γ L' ρ

theorem sim_seq {srun : SRun} {irun : IRun} (hsim : Sim srun irun) (Γ : List Name) (ρ : SEnv) :
    ∀ (xs : List XExpr) (L : Locals) (p : Nat) (acc : List Val) (r : Res),
      wsList Γ xs = true → Agree Γ L ρ → specSeq srun ρ xs p acc = some r →
      ∃ L', implSeq irun xs L p acc = some (r, L') ∧ Agree Γ L' ρ := by
  intro xs
  induction xs with
  | nil =>
    intro L p acc r _ ha h
    simp only [specSeq] at h
    cases h
    exact ⟨L, rfl, ha⟩
  | cons e es ih =>
    intro L p acc r hws ha h
    simp only [wsList, Bool.and_eq_true] at hws
    simp only [specSeq] at h
    cases he : srun e ρ p with
    | none => simp [he] at h
    | some r1 =>
      obtain ⟨L1, h1, ha1⟩ := hsim e Γ L ρ p r1 hws.1 ha he
      cases r1 with
      | fail =>
        simp [he] at h
        subst h
        exact ⟨L1, by simp [implSeq, h1], ha1⟩
      | ok v p' =>
        simp [he] at h
        obtain ⟨L2, h2, ha2⟩ := ih L1 p' (v :: acc) r hws.2 ha1 h
        exact ⟨L2, by simp [implSeq, h1, h2], ha2⟩

theorem sim_choice {srun : SRun} {irun : IRun} (hsim : Sim srun irun) (Γ : List Name) (ρ : SEnv) :
    ∀ (xs : List XExpr) (L : Locals) (p : Nat) (r : Res),
      wsList Γ xs = true → Agree Γ L ρ → specChoice srun ρ xs p = some r →
      ∃ L', implChoice irun xs L p = some (r, L') ∧ Agree Γ L' ρ := by
  intro xs
  induction xs with
  | nil =>
    intro L p r _ ha h
    simp only [specChoice] at h
    cases h
    exact ⟨L, rfl, ha⟩
  | cons e es ih =>
    intro L p r hws ha h
    simp only [wsList, Bool.and_eq_true] at hws
    simp only [specChoice] at h
    cases he : srun e ρ p with
    | none => simp [he] at h
    | some r1 =>
      obtain ⟨L1, h1, ha1⟩ := hsim e Γ L ρ p r1 hws.1 ha he
      cases r1 with
      | fail =>
        simp [he] at h
        obtain ⟨L2, h2, ha2⟩ := ih L1 p r hws.2 ha1 h
        exact ⟨L2, by simp [implChoice, h1, h2], ha2⟩
      | ok v p' =>
        simp [he] at h
        subst h
        exact ⟨L1, by simp [implChoice, h1], ha1⟩

theorem sim_star {srun : SRun} {irun : IRun} (hsim : Sim srun irun) (Γ : List Name) (ρ : SEnv) (e : XExpr)
    (hws : ws Γ e = true) :
    ∀ (fuel : Nat) (L : Locals) (p : Nat) (acc : List Val) (r : Res),
      Agree Γ L ρ → specStar srun ρ e fuel p acc = some r →
      ∃ L', implStar irun e fuel L p acc = some (r, L') ∧ Agree Γ L' ρ := by
  intro fuel
  induction fuel with
  | zero => intro L p acc r _ h; simp [specStar] at h
  | succ n ih =>
    intro L p acc r ha h
    simp only [specStar] at h
    cases he : srun e ρ p with
    | none => simp [he] at h
    | some r1 =>
      obtain ⟨L1, h1, ha1⟩ := hsim e Γ L ρ p r1 hws ha he
      cases r1 with
      | fail =>
        simp [he] at h
        subst h
        exact ⟨L1, by simp [implStar, h1], ha1⟩
      | ok v p' =>
        simp only [he] at h
        obtain ⟨L2, h2, ha2⟩ := ih L1 p' (v :: acc) r ha1 h
        exact ⟨L2, by simp [implStar, h1, h2], ha2⟩

theorem sim_rep {srun : SRun} {irun : IRun} (hsim : Sim srun irun) (P : XProgram) (Γ : List Name) (ρ : SEnv)
    (e : XExpr) (t : PyTerm) (hws : ws Γ e = true) (ht : allIn Γ t.names = true) (i : Int)
    (hcount : evalPyS P ρ t [] = some (.int i)) :
    ∀ (n : Nat) (k : Nat) (L : Locals) (p : Nat) (acc : List Val) (r : Res),
      acc.length + n = i.toNat → n + 1 ≤ k →
      Agree Γ L ρ → specRep srun ρ e n p acc = some r →
      ∃ L', implRepDyn P irun e t k L p acc = some (r, L') ∧ Agree Γ L' ρ := by
  -- the count reads the same value in all locals that agree with ρ on Γ
  have hev : ∀ L, Agree Γ L ρ → (valuesI L t.names).map (fun vs => P.pyf t.fn vs) = some (.int i) := by
    intro L ha
    have := ha.evalPy P t [] ht
    unfold evalPyI evalPyS at this
    simp only [List.nil_append] at this
    rw [this]
    unfold evalPyS at hcount
    simpa using hcount
  intro n
  induction n with
  | zero =>
    intro k L p acc r hlen hk ha h
    simp only [specRep] at h
    cases h
    cases k with
    | zero => omega
    | succ k' =>
      have hle : i.toNat ≤ acc.length := by omega
      exact ⟨L, by simp [implRepDyn, hev L ha, hle], ha⟩
  | succ n ih =>
    intro k L p acc r hlen hk ha h
    simp only [specRep] at h
    cases k with
    | zero => omega
    | succ k' =>
      have hnle : ¬ i.toNat ≤ acc.length := by omega
      cases he : srun e ρ p with
      | none => simp [he] at h
      | some r1 =>
        obtain ⟨L1, h1, ha1⟩ := hsim e Γ L ρ p r1 hws ha he
        cases r1 with
        | fail =>
          simp [he] at h
          subst h
          exact ⟨L1, by simp [implRepDyn, hev L ha, hnle, h1, hev L1 ha1], ha1⟩
        | ok v p' =>
          simp [he] at h
          obtain ⟨L2, h2, ha2⟩ := ih k' L1 p' (v :: acc) r (by simp; omega) (by omega) ha1 h
          exact ⟨L2, by simp [implRepDyn, hev L ha, hnle, h1, h2], ha2⟩

theorem sim_items {srun : SRun} {irun : IRun} (hsim : Sim srun irun) (ctor : String) (fields : List Name)
    (start : Nat) :
    ∀ (items : List (Option Name × XExpr)) (Γ : List Name) (L : Locals) (ρ : SEnv) (p : Nat) (r : Res),
      wsItems Γ fields items = true → Agree Γ L ρ → specItems srun ctor fields start items ρ p = some r →
      ∃ L', implItems irun ctor fields start items L p = some (r, L') ∧ Agree Γ L' ρ := by
  intro items
  induction items with
  | nil =>
    intro Γ L ρ p r hws ha h
    simp only [wsItems] at hws
    simp only [specItems] at h
    simp only [implItems]
    rw [ha.values fields ((allIn_iff _ _).mp hws)]
    cases hv : valuesS ρ fields with
    | none => simp [hv] at h
    | some vs =>
      simp [hv] at h
      subst h
      exact ⟨L, rfl, ha⟩
  | cons ke rest ih =>
    obtain ⟨k, e⟩ := ke
    intro Γ L ρ p r hws ha h
    simp only [specItems] at h
    cases k with
    | none =>
      simp only [wsItems, Bool.and_eq_true] at hws
      cases he : srun e ρ p with
      | none => simp [he] at h
      | some r1 =>
        obtain ⟨L1, h1, ha1⟩ := hsim e Γ L ρ p r1 hws.1 ha he
        cases r1 with
        | fail =>
          simp [he] at h
          subst h
          exact ⟨L1, by simp [implItems, h1], ha1⟩
        | ok v p' =>
          simp [he] at h
          obtain ⟨L2, h2, ha2⟩ := ih Γ L1 ρ p' r hws.2 ha1 h
          exact ⟨L2, by simp [implItems, h1, h2], ha2⟩
    | some x =>
      simp only [wsItems, Bool.and_eq_true, Bool.not_eq_true'] at hws
      cases he : srun e ρ p with
      | none => simp [he] at h
      | some r1 =>
        obtain ⟨L1, h1, ha1⟩ := hsim e Γ L ρ p r1 hws.1.1 ha he
        cases r1 with
        | fail =>
          simp [he] at h
          subst h
          exact ⟨L1, by simp [implItems, h1], ha1⟩
        | ok v p' =>
          simp [he] at h
          obtain ⟨L2, h2, ha2⟩ := ih (x :: Γ) (assign L1 x (.val v)) ((x, .val v) :: ρ) p' r hws.2 (ha1.bind x v) h
          have hx : x ∉ Γ := by
            intro hin
            have := (contains_iff Γ x).mpr hin
            rw [this] at hws
            exact absurd hws.1.2 (by simp)
          exact ⟨L2, by simp [implItems, h1, h2], ha2.unbind hx⟩

/-- well-scoped programs: rule bodies mention no local names, template bodies only their parameters -/
def WsProgram (P : XProgram) : Prop :=
  (∀ (r : Nat) (body : XExpr), P.rules[r]? = some body → ws [] body = true) ∧
  (∀ (t : Nat) (T : Template), P.templates[t]? = some T → ws T.params T.body = true)

theorem wsProgram_iff (P : XProgram) (h : wsProgram P = true) : WsProgram P := by
  simp only [wsProgram, Bool.and_eq_true, List.all_eq_true] at h
  refine ⟨?_, ?_⟩
  · intro r body hr
    exact h.1 body (List.mem_of_getElem? hr)
  · intro t T ht
    exact h.2 T (List.mem_of_getElem? ht)

theorem agree_nil (L : Locals) (ρ : SEnv) : Agree [] L ρ := by
  intro x hx; simp at hx

/-- MAIN THEOREM of the names layer: on well-scoped programs without shadowing, wherever the
    lexical specification is defined the flat-locals implementation computes the same outcome,
    and leaves the names in scope as they were. -/
theorem xgen_sim (P : XProgram) (inp : List Nat) (hP : WsProgram P) :
    ∀ fuel, Sim (xpeg P inp fuel) (xgen P inp fuel) := by
  intro fuel
  induction fuel with
  | zero => intro e Γ L ρ p r _ _ h; simp [xpeg] at h
  | succ n ih =>
    intro e Γ L ρ p r hws ha h
    cases e with
    | lit s =>
      simp only [xpeg] at h
      cases h
      exact ⟨L, by simp [xgen], ha⟩
    | cc lo hi =>
      simp only [xpeg] at h
      cases h
      exact ⟨L, by simp [xgen], ha⟩
    | seq xs =>
      simp only [xpeg] at h
      simp only [xgen]
      exact sim_seq ih Γ ρ xs L p [] r (by simpa [ws] using hws) ha h
    | choice xs =>
      simp only [xpeg] at h
      simp only [xgen]
      exact sim_choice ih Γ ρ xs L p r (by simpa [ws] using hws) ha h
    | star e =>
      simp only [xpeg] at h
      simp only [xgen]
      exact sim_star ih Γ ρ e (by simpa [ws] using hws) _ L p [] r ha h
    | opt e =>
      simp only [xpeg] at h
      simp only [xgen]
      cases he : xpeg P inp n e ρ p with
      | none => simp [he] at h
      | some r1 =>
        obtain ⟨L1, h1, ha1⟩ := ih e Γ L ρ p r1 (by simpa [ws] using hws) ha he
        cases r1 with
        | fail =>
          simp [he] at h
          subst h
          exact ⟨L1, by simp [h1], ha1⟩
        | ok v p' =>
          simp [he] at h
          subst h
          exact ⟨L1, by simp [h1], ha1⟩
    | ref r' =>
      simp only [xpeg] at h
      simp only [xgen]
      cases hb : P.rules[r']? with
      | none => simp [hb] at h
      | some body =>
        simp only [hb] at h
        obtain ⟨L1, h1, _⟩ := ih body [] [] [] p r (hP.1 r' body hb) (agree_nil _ _) h
        exact ⟨L, by simp [h1], ha⟩
    | pvar x =>
      simp only [xpeg] at h
      simp only [xgen]
      obtain ⟨iv, sv, h1, h2, h3⟩ := ha x (by simpa [ws] using hws)
      rw [h2] at h
      rw [h1]
      cases h3 with
      | val v => simp at h
      | slit s =>
        simp at h
        subst h
        exact ⟨L, rfl, ha⟩
      | pf e' vals ρ' a b c d =>
        simp only at h
        obtain ⟨hw, hlen, hag⟩ := (Rel.pf e' vals ρ' a b c d).frame
        obtain ⟨L1, h4, _⟩ := ih e' (captured e') ((captured e').zip vals) ρ' p r hw hag h
        exact ⟨L, by simp [hlen, h4], ha⟩
    | py t =>
      simp only [xpeg] at h
      simp only [xgen]
      rw [ha.evalPy P t [] (by simpa [ws] using hws)]
      cases hv : evalPyS P ρ t [] with
      | none => simp [hv] at h
      | some v =>
        simp [hv] at h
        subst h
        exact ⟨L, rfl, ha⟩
    | let_ x e b =>
      simp only [ws, Bool.and_eq_true, Bool.not_eq_true'] at hws
      simp only [xpeg] at h
      simp only [xgen]
      cases he : xpeg P inp n e ρ p with
      | none => simp [he] at h
      | some r1 =>
        obtain ⟨L1, h1, ha1⟩ := ih e Γ L ρ p r1 hws.1.1 ha he
        cases r1 with
        | fail =>
          simp [he] at h
          subst h
          exact ⟨L1, by simp [h1], ha1⟩
        | ok v p' =>
          simp [he] at h
          obtain ⟨L2, h2, ha2⟩ := ih b (x :: Γ) (assign L1 x (.val v)) ((x, .val v) :: ρ) p' r hws.2 (ha1.bind x v) h
          have hx : x ∉ Γ := by
            intro hin
            have := (contains_iff Γ x).mpr hin
            rw [this] at hws
            exact absurd hws.1.2 (by simp)
          exact ⟨L2, by simp [h1, h2], ha2.unbind hx⟩
    | where_ e q =>
      simp only [ws, Bool.and_eq_true] at hws
      simp only [xpeg] at h
      simp only [xgen]
      cases he : xpeg P inp n e ρ p with
      | none => simp [he] at h
      | some r1 =>
        obtain ⟨L1, h1, ha1⟩ := ih e Γ L ρ p r1 hws.1 ha he
        cases r1 with
        | fail =>
          simp [he] at h
          subst h
          exact ⟨L1, by simp [h1], ha1⟩
        | ok v p' =>
          simp only [he] at h
          simp only [h1]
          cases hq : xpeg P inp n q ρ p' with
          | none => simp [hq] at h
          | some r2 =>
            obtain ⟨L2, h2, ha2⟩ := ih q Γ L1 ρ p' r2 hws.2 ha1 hq
            cases r2 with
            | fail =>
              simp [hq] at h
              subst h
              exact ⟨L2, by simp [h2], ha2⟩
            | ok w p'' =>
              simp only [hq] at h
              simp only [h2]
              by_cases hb : P.truthy (P.app w v) = true
              · simp [hb] at h
                subst h
                exact ⟨L2, by simp [hb], ha2⟩
              · simp [hb] at h
                subst h
                exact ⟨L2, by simp [hb], ha2⟩
    | apply e f =>
      simp only [ws, Bool.and_eq_true] at hws
      simp only [xpeg] at h
      simp only [xgen]
      cases he : xpeg P inp n e ρ p with
      | none => simp [he] at h
      | some r1 =>
        obtain ⟨L1, h1, ha1⟩ := ih e Γ L ρ p r1 hws.1 ha he
        cases r1 with
        | fail =>
          simp [he] at h
          subst h
          exact ⟨L1, by simp [h1], ha1⟩
        | ok v p' =>
          simp only [he] at h
          simp only [h1]
          cases hq : xpeg P inp n f ρ p' with
          | none => simp [hq] at h
          | some r2 =>
            obtain ⟨L2, h2, ha2⟩ := ih f Γ L1 ρ p' r2 hws.2 ha1 hq
            cases r2 with
            | fail =>
              simp [hq] at h
              subst h
              exact ⟨L2, by simp [h2], ha2⟩
            | ok w p'' =>
              simp only [hq] at h
              simp only [h2]
              simp at h
              subst h
              exact ⟨L2, rfl, ha2⟩
    | applyL f e =>
      simp only [ws, Bool.and_eq_true] at hws
      simp only [xpeg] at h
      simp only [xgen]
      cases he : xpeg P inp n f ρ p with
      | none => simp [he] at h
      | some r1 =>
        obtain ⟨L1, h1, ha1⟩ := ih f Γ L ρ p r1 hws.1 ha he
        cases r1 with
        | fail =>
          simp [he] at h
          subst h
          exact ⟨L1, by simp [h1], ha1⟩
        | ok v p' =>
          simp only [he] at h
          simp only [h1]
          cases hq : xpeg P inp n e ρ p' with
          | none => simp [hq] at h
          | some r2 =>
            obtain ⟨L2, h2, ha2⟩ := ih e Γ L1 ρ p' r2 hws.2 ha1 hq
            cases r2 with
            | fail =>
              simp [hq] at h
              subst h
              exact ⟨L2, by simp [h2], ha2⟩
            | ok w p'' =>
              simp only [hq] at h
              simp only [h2]
              simp at h
              subst h
              exact ⟨L2, rfl, ha2⟩
    | rep e t =>
      simp only [ws, Bool.and_eq_true] at hws
      simp only [xpeg] at h
      simp only [xgen]
      rw [ha.evalPy P t [] hws.2]
      split at h
      · rename_i k hk
        exact sim_rep ih P Γ ρ e t hws.1 hws.2 k hk k.toNat (k.toNat + 1) L p [] r (by simp) (Nat.le_refl _) ha h
      · exact absurd h (by simp)
    | call t args =>
      simp only [xpeg] at h
      simp only [xgen]
      cases hT : P.templates[t]? with
      | none => simp [hT] at h
      | some T =>
        simp only [hT] at h
        cases hb : bindArgs T.params args with
        | none => simp [hb] at h
        | some bound =>
          simp only [hb] at h
          cases hs : argsS P ρ bound with
          | none => simp [hs] at h
          | some ρ' =>
            simp only [hs] at h
            have hwsb : ∀ xa, xa ∈ bound → ws Γ xa.2 = true := by
              intro xa hxa
              obtain ⟨k, hk⟩ := bindArgs_mem _ _ _ hb xa hxa
              exact wsArgs_mem Γ args (by simpa [ws] using hws) k xa.2 hk
            obtain ⟨L', h1, h2, h3⟩ := ha.args P bound ρ' hwsb hs
            have hag : Agree T.params L' ρ' := by
              have := h2.agree
              rw [h3, bindArgs_keys _ _ _ hb] at this
              exact this
            obtain ⟨L2, h4, _⟩ := ih T.body T.params L' ρ' p r (hP.2 t T hT) hag h
            exact ⟨L, by simp [hb, h1, h4], ha⟩
    | bseq items ctor fields =>
      simp only [xpeg] at h
      simp only [xgen]
      exact sim_items ih ctor fields p items Γ L ρ p r (by simpa [ws] using hws) ha h

end Sourcer.X
