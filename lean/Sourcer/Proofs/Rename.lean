import Sourcer.Peg
/-
  Equivariance of the PEG specification `peg` under renaming of class names and field names:
  running the renamed program on the renamed expression gives the renamed result (`peg_rename`,
  an equation between `Option Res` values, so it also says that definedness is preserved).

  ALL constructs are covered, operator tables (`.optable`, `pegOT`) included: there is no
  `noTables` side condition.  The only hypothesis is `FixesApi`: the class names `Infix`,
  `Prefix`, `Postfix` and the field names `left`, `operator`, `right`, which the operator-table
  machinery itself puts into values (`mkInfix`, `mkPrefix`, `mkPostfix`), are not renamed.

  Structure as in `FuelMono.lean`: one lemma per helper function of `Peg.lean`, stated for two
  runners related by `RunRen`, then induction on the fuel.
-/
namespace Sourcer

/-! ### renaming of values -/

mutual
def renameVal (c f : String → String) : Val → Val
  | .obj cls fields span => .obj (c cls) (renameFields c f fields) span
  | .list xs => .list (renameVals c f xs)
  | .tuple xs => .tuple (renameVals c f xs)
  | .none => .none
  | .bool b => .bool b
  | .int i => .int i
  | .str s => .str s
  | .bytes s => .bytes s
  | .err => .err
def renameVals (c f : String → String) : List Val → List Val
  | [] => []
  | x :: xs => renameVal c f x :: renameVals c f xs
def renameFields (c f : String → String) : List (String × Val) → List (String × Val)
  | [] => []
  | (k, v) :: fs => (f k, renameVal c f v) :: renameFields c f fs
end

def renameRes (c f : String → String) : Res → Res
  | .ok v p => .ok (renameVal c f v) p
  | .fail => .fail

theorem renameVals_eq_map (c f : String → String) : ∀ xs : List Val,
    renameVals c f xs = xs.map (renameVal c f)
  | [] => by simp [renameVals]
  | x :: xs => by simp [renameVals, renameVals_eq_map c f xs]

theorem renameFields_eq_map (c f : String → String) : ∀ fs : List (String × Val),
    renameFields c f fs = fs.map (fun (k, v) => (f k, renameVal c f v))
  | [] => by simp [renameFields]
  | (k, v) :: fs => by simp [renameFields, renameFields_eq_map c f fs]

theorem renameVal_obj (c f : String → String) (cls : String) (fields : List (String × Val))
    (span : Option (Nat × Nat)) :
    renameVal c f (.obj cls fields span)
      = .obj (c cls) (fields.map (fun (k, v) => (f k, renameVal c f v))) span := by
  simp [renameVal, renameFields_eq_map]

/-! ### renaming of expressions and programs -/

mutual
def renameExpr (c f : String → String) : Expr → Expr
  | .str s skip => .str s skip
  | .regex rx skip => .regex rx skip
  | .byte b skip => .byte b skip
  | .ref k => .ref k
  | .seq xs => .seq (renameExprs c f xs)
  | .cls name xs keep => .cls (c name) (renameExprs c f xs) (keep.map (Option.map f))
  | .discard a b left => .discard (renameExpr c f a) (renameExpr c f b) left
  | .choice xs => .choice (renameExprs c f xs)
  | .opt e => .opt (renameExpr c f e)
  | .list e min extra => .list (renameExpr c f e) min extra
  | .sep e s o => .sep (renameExpr c f e) (renameExpr c f s) o
  | .expect e => .expect (renameExpr c f e)
  | .expectNot e => .expectNot (renameExpr c f e)
  | .skip xs => .skip (renameExprs c f xs)
  | .longest xs => .longest (renameExprs c f xs)
  | .backtrack n => .backtrack n
  | .fail => .fail
  | .py k => .py k
  | .tagged e tag => .tagged (renameExpr c f e) tag
  | .optable pre operand mixfix post inf =>
    .optable (renameExprs c f pre) (renameExpr c f operand) (renameExprs c f mixfix)
      (renameExprs c f post) (renameExprs c f inf)
def renameExprs (c f : String → String) : List Expr → List Expr
  | [] => []
  | x :: xs => renameExpr c f x :: renameExprs c f xs
end

theorem renameExprs_eq_map (c f : String → String) : ∀ xs : List Expr,
    renameExprs c f xs = xs.map (renameExpr c f)
  | [] => by simp [renameExprs]
  | x :: xs => by simp [renameExprs, renameExprs_eq_map c f xs]

def renameProg (c f : String → String) (P : Program) : Program :=
  { P with rules := P.rules.map (renameExpr c f) }

/-- the names the operator-table machinery itself uses are not renamed -/
structure FixesApi (c f : String → String) : Prop where
  infix_ : c "Infix" = "Infix"
  prefix_ : c "Prefix" = "Prefix"
  postfix_ : c "Postfix" = "Postfix"
  left : f "left" = "left"
  operator : f "operator" = "operator"
  right : f "right" = "right"

/-! ### values -/

theorem renameVals_reverse (c f : String → String) (xs : List Val) :
    renameVals c f xs.reverse = (renameVals c f xs).reverse := by
  simp [renameVals_eq_map]

theorem renameVals_length (c f : String → String) (xs : List Val) :
    (renameVals c f xs).length = xs.length := by
  simp [renameVals_eq_map]

theorem renameVals_isEmpty (c f : String → String) (xs : List Val) :
    (renameVals c f xs).isEmpty = xs.isEmpty := by
  cases xs <;> simp [renameVals]

theorem renameVals_tail (c f : String → String) (xs : List Val) :
    (renameVals c f xs).tail = renameVals c f xs.tail := by
  cases xs <;> simp [renameVals]

theorem renameFields_reverse (c f : String → String) (fs : List (String × Val)) :
    renameFields c f fs.reverse = (renameFields c f fs).reverse := by
  simp [renameFields_eq_map]

theorem renameVal_lit (c f : String → String) (P : Program) (s : List Nat) :
    renameVal c f (P.lit s) = P.lit s := by
  unfold Program.lit
  split <;> simp [renameVal]

theorem renameProg_lit (c f : String → String) (P : Program) (s : List Nat) :
    (renameProg c f P).lit s = P.lit s := rfl

theorem renameVal_pyConst (c f : String → String) (k : PyConst) :
    renameVal c f k.toVal = k.toVal := by
  cases k <;> simp [PyConst.toVal, renameVal]

theorem renameProg_rules (c f : String → String) (P : Program) (k : Nat) :
    (renameProg c f P).rules[k]? = (P.rules[k]?).map (renameExpr c f) := by
  simp [renameProg]

/-! ### the helper functions of `peg` -/

/-- `run'` on a renamed expression is `run` on the expression, followed by renaming of the result -/
def RunRen (c f : String → String) (run run' : PRun) : Prop :=
  ∀ e p, run' (renameExpr c f e) p = (run e p).map (renameRes c f)

section helpers
variable {c f : String → String} {run run' : PRun}

theorem pegSeq_rename (h : RunRen c f run run') : ∀ (xs : List Expr) (p : Nat) (acc : List Val),
    pegSeq run' (renameExprs c f xs) p (renameVals c f acc)
      = (pegSeq run xs p acc).map (renameRes c f) := by
  intro xs
  induction xs with
  | nil => intro p acc; simp [pegSeq, renameExprs, renameRes, renameVal, renameVals_reverse]
  | cons e es ih =>
    intro p acc
    simp only [renameExprs, pegSeq]
    rw [h e p]
    cases he : run e p with
    | none => simp
    | some r =>
      cases r with
      | fail => simp [renameRes]
      | ok v p' =>
        simp only [Option.map_some, renameRes]
        exact ih p' (v :: acc)

theorem pegCls_rename (h : RunRen c f run run') (name : String) (start : Nat) :
    ∀ (xs : List Expr) (ks : List (Option String)) (p : Nat) (acc : List (String × Val)),
      pegCls run' (c name) start (renameExprs c f xs) (ks.map (Option.map f)) p (renameFields c f acc)
        = (pegCls run name start xs ks p acc).map (renameRes c f) := by
  intro xs
  induction xs with
  | nil => intro ks p acc; simp [pegCls, renameExprs, renameRes, renameVal, renameFields_reverse]
  | cons e es ih =>
    intro ks p acc
    simp only [renameExprs, pegCls]
    rw [h e p]
    cases he : run e p with
    | none => simp
    | some r =>
      cases r with
      | fail => simp [renameRes]
      | ok v p' =>
        simp only [Option.map_some, renameRes]
        cases ks with
        | nil => exact ih [] p' acc
        | cons k ks' =>
          cases k with
          | none => exact ih ks' p' acc
          | some fld => exact ih ks' p' ((fld, v) :: acc)

theorem pegChoice_rename (h : RunRen c f run run') : ∀ (xs : List Expr) (p : Nat),
    pegChoice run' (renameExprs c f xs) p = (pegChoice run xs p).map (renameRes c f) := by
  intro xs
  induction xs with
  | nil => intro p; simp [pegChoice, renameExprs, renameRes]
  | cons e es ih =>
    intro p
    simp only [renameExprs, pegChoice]
    rw [h e p]
    cases he : run e p with
    | none => simp
    | some r =>
      cases r with
      | fail =>
        simp only [Option.map_some, renameRes]
        exact ih p
      | ok v p' => simp [renameRes]

theorem pegListLoop_rename (h : RunRen c f run run') (e : Expr) (max : Option Nat) :
    ∀ (fuel p : Nat) (acc : List Val),
      pegListLoop run' (renameExpr c f e) max fuel p (renameVals c f acc)
        = (pegListLoop run e max fuel p acc).map (fun out => (renameVals c f out.1, out.2)) := by
  intro fuel
  induction fuel with
  | zero => intro p acc; simp [pegListLoop]
  | succ k ih =>
    intro p acc
    simp only [pegListLoop]
    rw [h e p]
    cases he : run e p with
    | none => simp
    | some r =>
      cases r with
      | fail => simp [renameRes]
      | ok v p' =>
        simp only [Option.map_some, renameRes, List.length_cons, renameVals_length]
        by_cases hm : (max == some (acc.length + 1)) = true
        · rw [if_pos hm, if_pos hm]
          simp [renameVals]
        · rw [if_neg hm, if_neg hm]
          exact ih p' (v :: acc)

theorem pegList_rename (h : RunRen c f run run') (fuel : Nat) (e : Expr) (min : Nat) (max : Option Nat)
    (p : Nat) :
    pegList run' fuel (renameExpr c f e) min max p = (pegList run fuel e min max p).map (renameRes c f) := by
  unfold pegList
  by_cases hm : (max == some 0) = true
  · rw [if_pos hm, if_pos hm]
    simp [renameRes, renameVal, renameVals]
  · rw [if_neg hm, if_neg hm]
    have hl := pegListLoop_rename h e max fuel p []
    simp only [renameVals] at hl
    rw [hl]
    cases pegListLoop run e max fuel p [] with
    | none => simp
    | some out =>
      obtain ⟨acc, p'⟩ := out
      simp only [Option.map_some, renameVals_length]
      by_cases hmin : min ≤ acc.length
      · rw [if_pos hmin, if_pos hmin]
        simp [renameRes, renameVal, renameVals_reverse]
      · rw [if_neg hmin, if_neg hmin]
        simp [renameRes]

theorem pegSepLoop_rename (h : RunRen c f run run') (e s : Expr) (o : SepOpts) :
    ∀ (fuel p : Nat) (st : List Val) (stop : Nat) (saw : Bool),
      pegSepLoop run' (renameExpr c f e) (renameExpr c f s) o fuel p (renameVals c f st) stop saw
        = (pegSepLoop run e s o fuel p st stop saw).map
            (fun out => (renameVals c f out.1, out.2.1, out.2.2)) := by
  intro fuel
  induction fuel with
  | zero => intro p st stop saw; simp [pegSepLoop]
  | succ k ih =>
    intro p st stop saw
    simp only [pegSepLoop]
    rw [h e p]
    cases he : run e p with
    | none => simp
    | some r =>
      cases r with
      | fail =>
        simp only [Option.map_some, renameRes, renameVals_isEmpty, renameVals_tail]
        split <;> rfl
      | ok v p1 =>
        simp only [Option.map_some, renameRes]
        rw [h s p1]
        cases hs : run s p1 with
        | none => simp
        | some r2 =>
          cases r2 with
          | fail => simp [renameRes, renameVals]
          | ok w p2 =>
            simp only [Option.map_some, renameRes]
            have := ih p2 (if o.discard then v :: st else w :: v :: st)
              (if o.trailer then p2 else p1) (if o.require then true else saw)
            rw [← this]
            cases o.discard <;> simp [renameVals]

theorem sepAccepts_rename (c f : String → String) (o : SepOpts) (st : List Val) (saw : Bool) :
    sepAccepts o (renameVals c f st) saw = sepAccepts o st saw := by
  simp [sepAccepts, renameVals_isEmpty]

theorem pegSep_rename (h : RunRen c f run run') (fuel : Nat) (e s : Expr) (o : SepOpts) (p : Nat) :
    pegSep run' fuel (renameExpr c f e) (renameExpr c f s) o p
      = (pegSep run fuel e s o p).map (renameRes c f) := by
  unfold pegSep
  have hl := pegSepLoop_rename h e s o fuel p [] p false
  simp only [renameVals] at hl
  rw [hl]
  cases pegSepLoop run e s o fuel p [] p false with
  | none => simp
  | some out =>
    obtain ⟨st, stop, saw⟩ := out
    simp only [Option.map_some, sepAccepts_rename]
    by_cases ha : sepAccepts o st saw = true
    · rw [if_pos ha, if_pos ha]
      simp [renameRes, renameVal, renameVals_reverse]
    · rw [if_neg ha, if_neg ha]
      simp [renameRes]

theorem pegSkipAlts_rename (h : RunRen c f run run') (p : Nat) : ∀ (xs : List Expr),
    pegSkipAlts run' p (renameExprs c f xs) = pegSkipAlts run p xs := by
  intro xs
  induction xs with
  | nil => simp [pegSkipAlts, renameExprs]
  | cons e es ih =>
    simp only [renameExprs, pegSkipAlts]
    rw [h e p]
    cases he : run e p with
    | none => simp
    | some r =>
      cases r with
      | fail =>
        simp only [Option.map_some, renameRes]
        exact ih
      | ok v p' =>
        simp only [Option.map_some, renameRes, ih]

theorem pegSkipLoop_rename (h : RunRen c f run run') (xs : List Expr) :
    ∀ (fuel p : Nat),
      pegSkipLoop run' (renameExprs c f xs) fuel p = (pegSkipLoop run xs fuel p).map (renameRes c f) := by
  intro fuel
  induction fuel with
  | zero => intro p; simp [pegSkipLoop]
  | succ k ih =>
    intro p
    simp only [pegSkipLoop]
    rw [pegSkipAlts_rename h p xs]
    cases ha : pegSkipAlts run p xs with
    | none => simp
    | some out =>
      cases out with
      | none => simp [renameRes, renameVal]
      | some p' =>
        simp only
        exact ih p'

/-- renaming of the best alternative so far -/
def renameBest (c f : String → String) (b : Val × Nat) : Val × Nat := (renameVal c f b.1, b.2)

theorem pegLongestOpts_rename (h : RunRen c f run run') (p : Nat) :
    ∀ (xs : List Expr) (best : Option (Val × Nat)),
      pegLongestOpts run' p (renameExprs c f xs) (best.map (renameBest c f))
        = (pegLongestOpts run p xs best).map (Option.map (renameBest c f)) := by
  intro xs
  induction xs with
  | nil => intro best; simp [pegLongestOpts, renameExprs]
  | cons e es ih =>
    intro best
    simp only [renameExprs, pegLongestOpts]
    rw [h e p]
    cases he : run e p with
    | none => simp
    | some r =>
      cases r with
      | fail =>
        simp only [Option.map_some, renameRes]
        exact ih best
      | ok v p' =>
        simp only [Option.map_some, renameRes]
        cases best with
        | none => exact ih (some (v, p'))
        | some b =>
          obtain ⟨bv, bp⟩ := b
          simp only [Option.map_some, renameBest]
          by_cases hlt : bp < p'
          · rw [if_pos hlt, if_pos hlt]
            exact ih (some (v, p'))
          · rw [if_neg hlt, if_neg hlt]
            exact ih (some (bv, bp))

theorem pegSkipTo_rename (h : RunRen c f run run') (P : Program) (skip : Bool) (e : Nat) :
    pegSkipTo (renameProg c f P) run' skip e = pegSkipTo P run skip e := by
  unfold pegSkipTo
  cases skip with
  | false => simp
  | true =>
    simp only [if_true]
    have hi : (renameProg c f P).ignored = P.ignored := rfl
    rw [hi]
    cases P.ignored with
    | none => rfl
    | some k =>
      simp only
      have := h (.ref k) e
      simp only [renameExpr] at this
      rw [this]
      cases run (.ref k) e with
      | none => simp
      | some r => cases r <;> simp [renameRes]

end helpers

/-! ### operator tables -/

/-- the operator VALUE is renamed, precedence and associativity id are kept -/
def renameEntry (c f : String → String) (o : OpEntry) : OpEntry :=
  { prec := o.prec, assoc := o.assoc, op := renameVal c f o.op }

def renameTree (c f : String → String) : OTree → OTree
  | .leaf v => .leaf (renameVal c f v)
  | .infix l o r => .infix (renameTree c f l) (renameEntry c f o) (renameTree c f r)
  | .prefix o r => .prefix (renameEntry c f o) (renameTree c f r)
  | .postfix l prec op => .postfix (renameTree c f l) prec (renameVal c f op)

def renameState (c f : String → String) (st : OTState) : OTState :=
  { operands := st.operands.map (renameTree c f)
    ops := st.ops.map (renameEntry c f)
    marker := st.marker
    outerCp := st.outerCp
    pos := st.pos }

def renameStacks (c f : String → String) (x : List OpEntry × List OTree) : List OpEntry × List OTree :=
  (x.1.map (renameEntry c f), x.2.map (renameTree c f))

def renameStep (c f : String → String) : InfixStep → InfixStep
  | .go ops operands => .go (ops.map (renameEntry c f)) (operands.map (renameTree c f))
  | .conflict ops operands => .conflict (ops.map (renameEntry c f)) (operands.map (renameTree c f))

def renameTable (c f : String → String) (T : PTableExprs) : PTableExprs :=
  { prefixes := T.prefixes.map (renameExpr c f)
    operands := renameExpr c f T.operands
    postfixes := T.postfixes.map (renameExpr c f)
    infixes := T.infixes.map (renameExpr c f) }

theorem decodeOp_rename (c f : String → String) (v : Val) :
    decodeOp (renameVal c f v) = (decodeOp v).map (renameEntry c f) := by
  cases v with
  | tuple xs =>
    match xs with
    | [] => simp [decodeOp, renameVal, renameVals]
    | [a] => simp [decodeOp, renameVal, renameVals]
    | [a, b] => simp [decodeOp, renameVal, renameVals]
    | [a, b, d] => cases a <;> cases b <;> simp [decodeOp, renameVal, renameVals, renameEntry]
    | a :: b :: d :: e :: r => simp [decodeOp, renameVal, renameVals]
  | _ => simp [decodeOp, renameVal]

theorem decodePost_rename (c f : String → String) (v : Val) :
    decodePost (renameVal c f v) = (decodePost v).map (fun po => (po.1, renameVal c f po.2)) := by
  cases v with
  | tuple xs =>
    match xs with
    | [] => simp [decodePost, renameVal, renameVals]
    | [a] => simp [decodePost, renameVal, renameVals]
    | [a, b] => cases a <;> simp [decodePost, renameVal, renameVals]
    | a :: b :: d :: r => simp [decodePost, renameVal, renameVals]
  | _ => simp [decodePost, renameVal]

theorem popOperator_rename (c f : String → String) (ops : List OpEntry) (operands : List OTree) :
    popOperator (ops.map (renameEntry c f)) (operands.map (renameTree c f))
      = (popOperator ops operands).map (renameStacks c f) := by
  cases ops with
  | nil => simp [popOperator]
  | cons o ops' =>
    simp only [List.map_cons, popOperator]
    have hassoc : (renameEntry c f o).assoc = o.assoc := rfl
    rw [hassoc]
    by_cases ha : o.assoc ≠ 0
    · rw [if_pos ha, if_pos ha]
      match operands with
      | [] => simp
      | [r] => simp
      | r :: l :: rest => simp [renameStacks, renameTree]
    · rw [if_neg ha, if_neg ha]
      cases operands with
      | nil => simp
      | cons r rest => simp [renameStacks, renameTree]

theorem reducePost_rename (c f : String → String) (prec : Int) :
    ∀ (ops : List OpEntry) (operands : List OTree),
      reducePost prec (ops.map (renameEntry c f)) (operands.map (renameTree c f))
        = (reducePost prec ops operands).map (renameStacks c f) := by
  intro ops
  induction ops with
  | nil => intro operands; simp [reducePost, renameStacks]
  | cons o ops ih =>
    intro operands
    simp only [List.map_cons, reducePost]
    have hp : (renameEntry c f o).prec = o.prec := rfl
    rw [hp]
    by_cases hlt : o.prec < prec
    · rw [if_pos hlt, if_pos hlt]
      have hpop := popOperator_rename c f (o :: ops) operands
      simp only [List.map_cons] at hpop
      rw [hpop]
      cases popOperator (o :: ops) operands with
      | none => simp
      | some x =>
        obtain ⟨a, b⟩ := x
        simp only [Option.map_some, renameStacks]
        exact ih b
    · rw [if_neg hlt, if_neg hlt]
      simp [renameStacks]

theorem reduceInfix_rename (c f : String → String) (prec : Int) :
    ∀ (ops : List OpEntry) (operands : List OTree),
      reduceInfix prec (ops.map (renameEntry c f)) (operands.map (renameTree c f))
        = (reduceInfix prec ops operands).map (renameStep c f) := by
  intro ops
  induction ops with
  | nil => intro operands; simp [reduceInfix, renameStep]
  | cons o ops ih =>
    intro operands
    simp only [List.map_cons, reduceInfix]
    have hp : (renameEntry c f o).prec = o.prec := rfl
    have hassoc : (renameEntry c f o).assoc = o.assoc := rfl
    rw [hp, hassoc]
    by_cases h1 : o.prec < prec ∨ (o.prec = prec ∧ o.assoc = 1)
    · rw [if_pos h1, if_pos h1]
      have hpop := popOperator_rename c f (o :: ops) operands
      simp only [List.map_cons] at hpop
      rw [hpop]
      cases popOperator (o :: ops) operands with
      | none => simp
      | some x =>
        obtain ⟨a, b⟩ := x
        simp only [Option.map_some, renameStacks]
        exact ih b
    · rw [if_neg h1, if_neg h1]
      by_cases h2 : o.prec = prec ∧ o.assoc = 3
      · rw [if_pos h2, if_pos h2]
        simp [renameStep]
      · rw [if_neg h2, if_neg h2]
        simp [renameStep]

theorem popAll_rename (c f : String → String) :
    ∀ (ops : List OpEntry) (operands : List OTree),
      popAll (ops.map (renameEntry c f)) (operands.map (renameTree c f))
        = (popAll ops operands).map (List.map (renameTree c f)) := by
  intro ops
  induction ops with
  | nil => intro operands; simp [popAll]
  | cons o ops ih =>
    intro operands
    simp only [List.map_cons, popAll]
    have hpop := popOperator_rename c f (o :: ops) operands
    simp only [List.map_cons] at hpop
    rw [hpop]
    cases popOperator (o :: ops) operands with
    | none => simp
    | some x =>
      obtain ⟨a, b⟩ := x
      simp only [Option.map_some, renameStacks]
      exact ih b

theorem finishTable_rename (c f : String → String) (ops : List OpEntry) (operands : List OTree)
    (marker : Nat) :
    finishTable (ops.map (renameEntry c f)) (operands.map (renameTree c f)) marker
      = (finishTable ops operands marker).map (renameTree c f) := by
  unfold finishTable
  rw [List.length_map, ← List.map_drop, popAll_rename]
  cases popAll (List.drop (ops.length - marker) ops) operands with
  | none => simp
  | some operands' => simp [List.getLast?_map]

theorem toVal_rename (c f : String → String) (hapi : FixesApi c f) : ∀ t : OTree,
    OTree.toVal (renameTree c f t) = renameVal c f (OTree.toVal t) := by
  intro t
  induction t with
  | leaf v => simp [renameTree, OTree.toVal]
  | «infix» l o r ihl ihr =>
    simp [renameTree, OTree.toVal, mkInfix, renameVal, renameFields, renameEntry, ihl, ihr,
      hapi.infix_, hapi.left, hapi.operator, hapi.right]
  | «prefix» o r ihr =>
    simp [renameTree, OTree.toVal, mkPrefix, renameVal, renameFields, renameEntry, ihr,
      hapi.prefix_, hapi.operator, hapi.right]
  | «postfix» l prec op ihl =>
    simp [renameTree, OTree.toVal, mkPostfix, renameVal, renameFields, ihl,
      hapi.postfix_, hapi.left, hapi.operator]

theorem combineRows_rename (c f : String → String) (xs : List Expr) :
    combineRows (renameExprs c f xs) = (combineRows xs).map (renameExpr c f) := by
  match xs with
  | [] => simp [combineRows, renameExprs]
  | [x] => simp [combineRows, renameExprs]
  | x :: y :: zs => simp [combineRows, renameExprs, renameExpr]

theorem ptableExprs_rename (c f : String → String) (pre : List Expr) (operand : Expr)
    (mixfix post inf : List Expr) :
    ptableExprs (renameExprs c f pre) (renameExpr c f operand) (renameExprs c f mixfix)
        (renameExprs c f post) (renameExprs c f inf)
      = renameTable c f (ptableExprs pre operand mixfix post inf) := by
  have h := combineRows_rename c f (operand :: mixfix)
  simp only [renameExprs] at h
  simp only [ptableExprs, renameTable, combineRows_rename, h]
  cases combineRows (operand :: mixfix) <;> simp

theorem pegOT_rename {c f : String → String} {run run' : PRun} (hapi : FixesApi c f)
    (h : RunRen c f run run') (T : PTableExprs) :
    ∀ (fuel : Nat) (ph : Phase) (st : OTState),
      pegOT run' (renameTable c f T) fuel ph (renameState c f st)
        = (pegOT run T fuel ph st).map (renameRes c f) := by
  intro fuel
  induction fuel with
  | zero => intro ph st; simp [pegOT]
  | succ k ih =>
    intro ph st
    have hfin : ∀ (ops : List OpEntry) (operands : List OTree) (marker q : Nat),
        (match finishTable (ops.map (renameEntry c f)) (operands.map (renameTree c f)) marker with
          | none => none
          | some v => some (Res.ok v.toVal q))
        = (match finishTable ops operands marker with
          | none => none
          | some v => some (Res.ok v.toVal q)).map (renameRes c f) := by
      intro ops operands marker q
      rw [finishTable_rename]
      cases finishTable ops operands marker with
      | none => simp
      | some v => simp [renameRes, toVal_rename c f hapi]
    cases ph with
    | pre =>
      simp only [pegOT]
      have hT : (renameTable c f T).prefixes = T.prefixes.map (renameExpr c f) := rfl
      rw [hT]
      cases hp : T.prefixes with
      | none =>
        simp only [Option.map_none]
        exact ih .operand st
      | some pe =>
        simp only [Option.map_some]
        have hpos : (renameState c f st).pos = st.pos := rfl
        rw [hpos, h pe st.pos]
        cases he : run pe st.pos with
        | none => simp
        | some r =>
          cases r with
          | fail =>
            simp only [Option.map_some, renameRes]
            exact ih .operand st
          | ok v p' =>
            simp only [Option.map_some, renameRes]
            rw [decodeOp_rename]
            cases hd : decodeOp v with
            | none => simp
            | some o =>
              simp only [Option.map_some]
              exact ih .pre { st with ops := o :: st.ops, pos := p' }
    | operand =>
      simp only [pegOT]
      have hT : (renameTable c f T).operands = renameExpr c f T.operands := rfl
      have hpos : (renameState c f st).pos = st.pos := rfl
      rw [hT, hpos, h T.operands st.pos]
      cases he : run T.operands st.pos with
      | none => simp
      | some r =>
        cases r with
        | fail =>
          simp only [Option.map_some, renameRes]
          have hemp : (renameState c f st).operands.isEmpty = st.operands.isEmpty := by
            simp [renameState]
          rw [hemp]
          by_cases hE : st.operands.isEmpty = true
          · rw [if_pos hE, if_pos hE]
            simp [renameRes]
          · rw [if_neg hE, if_neg hE]
            exact hfin st.ops st.operands st.marker st.outerCp
        | ok v p' =>
          simp only [Option.map_some, renameRes]
          exact ih .post { st with operands := .leaf v :: st.operands, pos := p' }
    | post =>
      simp only [pegOT]
      have hT : (renameTable c f T).postfixes = T.postfixes.map (renameExpr c f) := rfl
      rw [hT]
      cases hp : T.postfixes with
      | none =>
        simp only [Option.map_none]
        have := ih .inf { st with marker := st.ops.length, outerCp := st.pos }
        simpa [renameState] using this
      | some pe =>
        simp only [Option.map_some]
        have hpos : (renameState c f st).pos = st.pos := rfl
        rw [hpos, h pe st.pos]
        cases he : run pe st.pos with
        | none => simp
        | some r =>
          cases r with
          | fail =>
            simp only [Option.map_some, renameRes]
            have := ih .inf { st with marker := st.ops.length, outerCp := st.pos }
            simpa [renameState] using this
          | ok v p' =>
            simp only [Option.map_some, renameRes]
            rw [decodePost_rename]
            cases hd : decodePost v with
            | none => simp
            | some po =>
              obtain ⟨prec, op⟩ := po
              simp only [Option.map_some]
              have hred := reducePost_rename c f prec st.ops st.operands
              have hops : (renameState c f st).ops = st.ops.map (renameEntry c f) := rfl
              have hopd : (renameState c f st).operands = st.operands.map (renameTree c f) := rfl
              rw [hops, hopd, hred]
              cases hrp : reducePost prec st.ops st.operands with
              | none => simp
              | some oo =>
                obtain ⟨ops', operands'⟩ := oo
                simp only [Option.map_some, renameStacks]
                cases operands' with
                | nil => simp
                | cons x rest =>
                  simp only [List.map_cons]
                  exact ih .post { st with ops := ops', operands := .postfix x prec op :: rest, pos := p' }
    | inf =>
      simp only [pegOT]
      have hT : (renameTable c f T).infixes = T.infixes.map (renameExpr c f) := rfl
      have hpos : (renameState c f st).pos = st.pos := rfl
      have hops : (renameState c f st).ops = st.ops.map (renameEntry c f) := rfl
      have hopd : (renameState c f st).operands = st.operands.map (renameTree c f) := rfl
      have hmk : (renameState c f st).marker = st.marker := rfl
      have hocp : (renameState c f st).outerCp = st.outerCp := rfl
      rw [hT]
      cases hp : T.infixes with
      | none =>
        simp only [Option.map_none]
        rw [hpos, hops, hopd, hmk]
        exact hfin st.ops st.operands st.marker st.pos
      | some ie =>
        simp only [Option.map_some]
        rw [hpos, h ie st.pos]
        cases he : run ie st.pos with
        | none => simp
        | some r =>
          cases r with
          | fail =>
            simp only [Option.map_some, renameRes]
            rw [hops, hopd, hmk]
            exact hfin st.ops st.operands st.marker st.pos
          | ok v p' =>
            simp only [Option.map_some, renameRes]
            rw [decodeOp_rename]
            cases hd : decodeOp v with
            | none => simp
            | some o =>
              simp only [Option.map_some]
              have hprec : (renameEntry c f o).prec = o.prec := rfl
              rw [hprec, hops, hopd, reduceInfix_rename]
              cases hri : reduceInfix o.prec st.ops st.operands with
              | none => simp
              | some step =>
                cases step with
                | conflict ops' operands' =>
                  simp only [Option.map_some, renameStep]
                  rw [hmk, hocp]
                  exact hfin ops' operands' st.marker st.outerCp
                | go ops' operands' =>
                  simp only [Option.map_some, renameStep]
                  have := ih .pre
                    { st with ops := o :: ops', operands := operands', marker := ops'.length, pos := p' }
                  simpa [renameState] using this

/-! ### the main theorem -/

/-- **Equivariance of the specification under renaming of class names and field names.** -/
theorem peg_rename (c f : String → String) (hapi : FixesApi c f) (P : Program) (inp : List Nat) :
    ∀ (fuel : Nat) (e : Expr) (p : Nat),
      peg (renameProg c f P) inp fuel (renameExpr c f e) p = (peg P inp fuel e p).map (renameRes c f) := by
  intro fuel
  induction fuel with
  | zero => intro e p; simp [peg]
  | succ k ih =>
    intro e p
    have hrun : RunRen c f (peg P inp k) (peg (renameProg c f P) inp k) := ih
    have hbm : (renameProg c f P).bytesMode = P.bytesMode := rfl
    have hmt : (renameProg c f P).matcher = P.matcher := rfl
    cases e with
    | str s skip =>
      simp only [renameExpr, peg, renameProg_lit]
      by_cases hs : s.isEmpty = true
      · rw [if_pos hs, if_pos hs]
        simp [renameRes, renameVal_lit]
      · rw [if_neg hs, if_neg hs]
        by_cases hm : matchAt inp p s = true
        · rw [if_pos hm, if_pos hm, pegSkipTo_rename hrun]
          cases pegSkipTo P (peg P inp k) skip (p + s.length) with
          | none => simp
          | some p' => simp [renameRes, renameVal_lit]
        · rw [if_neg hm, if_neg hm]
          simp [renameRes]
    | regex rx skip =>
      simp only [renameExpr, peg, renameProg_lit]
      rw [hmt]
      cases P.matcher rx inp p with
      | none => simp [renameRes]
      | some e' =>
        simp only
        rw [pegSkipTo_rename hrun]
        cases pegSkipTo P (peg P inp k) skip e' with
        | none => simp
        | some p' => simp [renameRes, renameVal_lit]
    | byte b skip =>
      simp only [renameExpr, peg]
      rw [hbm]
      by_cases hb : (P.bytesMode && inp[p]? == some b) = true
      · rw [if_pos hb, if_pos hb, pegSkipTo_rename hrun]
        cases pegSkipTo P (peg P inp k) skip (p + 1) with
        | none => simp
        | some p' => simp [renameRes, renameVal]
      · rw [if_neg hb, if_neg hb]
        simp [renameRes]
    | ref i =>
      simp only [renameExpr, peg]
      rw [renameProg_rules]
      cases P.rules[i]? with
      | none => simp
      | some body =>
        simp only [Option.map_some]
        exact hrun body p
    | seq xs =>
      simp only [renameExpr, peg]
      exact pegSeq_rename hrun xs p []
    | cls name xs keep =>
      simp only [renameExpr, peg]
      exact pegCls_rename hrun name p xs keep p []
    | discard a b left =>
      simp only [renameExpr, peg]
      rw [hrun a p]
      cases peg P inp k a p with
      | none => simp
      | some r1 =>
        cases r1 with
        | fail => simp [renameRes]
        | ok va pa =>
          simp only [Option.map_some, renameRes]
          rw [hrun b pa]
          cases peg P inp k b pa with
          | none => simp
          | some r2 =>
            cases r2 with
            | fail => simp [renameRes]
            | ok vb pb => cases left <;> simp [renameRes]
    | choice xs =>
      simp only [renameExpr, peg]
      exact pegChoice_rename hrun xs p
    | opt x =>
      simp only [renameExpr, peg]
      rw [hrun x p]
      cases peg P inp k x p with
      | none => simp
      | some r1 => cases r1 <;> simp [renameRes, renameVal]
    | list x min extra =>
      simp only [renameExpr, peg]
      exact pegList_rename hrun k x min _ p
    | sep x s o =>
      simp only [renameExpr, peg]
      exact pegSep_rename hrun k x s o p
    | expect x =>
      simp only [renameExpr, peg]
      rw [hrun x p]
      cases peg P inp k x p with
      | none => simp
      | some r1 => cases r1 <;> simp [renameRes]
    | expectNot x =>
      simp only [renameExpr, peg]
      rw [hrun x p]
      cases peg P inp k x p with
      | none => simp
      | some r1 => cases r1 <;> simp [renameRes, renameVal]
    | skip xs =>
      simp only [renameExpr, peg]
      exact pegSkipLoop_rename hrun xs k p
    | longest xs =>
      simp only [renameExpr, peg]
      have hl := pegLongestOpts_rename hrun p xs none
      simp only [Option.map_none] at hl
      rw [hl]
      cases pegLongestOpts (peg P inp k) p xs none with
      | none => simp
      | some out =>
        cases out with
        | none => simp [renameRes]
        | some b =>
          obtain ⟨v, p'⟩ := b
          simp [renameRes, renameBest]
    | backtrack n =>
      simp only [renameExpr, peg]
      by_cases hn : n ≤ p
      · rw [if_pos hn]
        simp [renameRes, renameVal]
      · rw [if_neg hn]
        simp [renameRes]
    | fail => simp [renameExpr, peg, renameRes]
    | py k' => simp [renameExpr, peg, renameRes, renameVal_pyConst]
    | tagged x tag =>
      simp only [renameExpr, peg]
      rw [hrun x p]
      cases peg P inp k x p with
      | none => simp
      | some r1 =>
        cases r1 with
        | fail => simp [renameRes]
        | ok v p' =>
          simp [renameRes, renameVal, renameVals_eq_map]
    | optable pre operand mixfix post inf =>
      simp only [renameExpr, peg]
      rw [ptableExprs_rename]
      exact pegOT_rename hapi hrun _ k .pre ⟨[], [], 0, p, p⟩

theorem peg_rename_injective_distinct (c f : String → String) (hc : ∀ a b, c a = c b → a = b)
    (a b : String) (fs gs : List (String × Val)) (sp sq : Option (Nat × Nat))
    (h : renameVal c f (.obj a fs sp) = renameVal c f (.obj b gs sq)) : a = b := by
  simp only [renameVal, Val.obj.injEq] at h
  exact hc a b h.1

end Sourcer
