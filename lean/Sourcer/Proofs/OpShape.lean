import Sourcer.Peg
/-
  Declarative correctness of operator tables (C02): the tree that the operator-precedence
  stacks build is *well shaped* for the precedences and associativities of its operators, and
  reading it in order gives back exactly the operands and operators that the sub-parsers
  accepted, consecutively, from the start of the expression to its end position.

  Precedence numbers: an earlier row has the smaller number and binds tighter.
  Associativity ids: 0 prefix, 1 left, 2 right, 3 infix (non-associative).
-/
namespace Sourcer

/-- the occurrences consumed by a table, in input order -/
inductive Tok where
  | operand (v : Val)
  | pre (o : OpEntry)
  | inf (o : OpEntry)
  | post (prec : Int) (op : Val)

def OTree.yield : OTree → List Tok
  | .leaf v => [.operand v]
  | .infix l o r => l.yield ++ [.inf o] ++ r.yield
  | .prefix o r => [.pre o] ++ r.yield
  | .postfix l p op => l.yield ++ [.post p op]

/-- an operator that is open at the left edge of a tree: its left operand starts where the tree starts -/
inductive LOpen where
  | inf (o : OpEntry)
  | post (prec : Int)

/-- operators whose right operand reaches the right edge of the tree -/
def rightOpen : OTree → List OpEntry
  | .leaf _ => []
  | .infix _ o r => o :: rightOpen r
  | .prefix o r => o :: rightOpen r
  | .postfix _ _ _ => []

/-- operators whose left operand reaches the left edge of the tree -/
def leftOpen : OTree → List LOpen
  | .leaf _ => []
  | .infix l o _ => .inf o :: leftOpen l
  | .prefix _ _ => []
  | .postfix l p _ => .post p :: leftOpen l

/-- `o'` (to the left) gives way to the infix operator `o`: it binds tighter, or equally and groups to the left -/
def GivesWay (o' o : OpEntry) : Prop := o'.prec < o.prec ∨ (o'.prec = o.prec ∧ o'.assoc = 1)

/-- the operator `x`, arriving to the right of `ob`, is taken into `ob`'s right operand:
    `ob` does not give way to it (and there is no non-associative conflict) -/
def Holds (ob : OpEntry) : LOpen → Prop
  | .inf x => ¬ GivesWay ob x ∧ ¬ (ob.prec = x.prec ∧ ob.assoc = 3)
  | .post p => ¬ ob.prec < p

/-- **Well-shaped trees.**  In `l o r` every operator open at the right edge of `l` gives way to
    `o`, and `o` holds every operator open at the left edge of `r`; a prefix operator holds the
    operators open at the left edge of its operand; every operator open at the right edge of the
    operand of a postfix operator binds tighter than the postfix operator.  (An `Infix` node carries an
    operator of an infix row, a `Prefix` node one of a prefix row.) -/
def WellShaped : OTree → Prop
  | .leaf _ => True
  | .infix l o r => o.assoc ≠ 0 ∧ WellShaped l ∧ WellShaped r ∧ (∀ o' ∈ rightOpen l, GivesWay o' o) ∧ (∀ x ∈ leftOpen r, Holds o x)
  | .prefix o r => o.assoc = 0 ∧ WellShaped r ∧ (∀ x ∈ leftOpen r, Holds o x)
  | .postfix l p _ => WellShaped l ∧ (∀ o' ∈ rightOpen l, o'.prec < p)

/-! ### the stack invariant -/

def HoldsTop : List OpEntry → LOpen → Prop
  | [], _ => True
  | ob :: _, x => Holds ob x

/-- the part of the stacks below the operand on top (or all of it while an operand is awaited):
    every stacked infix operator sits on its finished left operand -/
def SInv : List OpEntry → List OTree → Prop
  | [], rest => rest = []
  | o :: ops, rest =>
    (o.assoc ≠ 0 → ∃ l rest', rest = l :: rest' ∧
        WellShaped l ∧ (∀ o' ∈ rightOpen l, GivesWay o' o) ∧ (∀ x ∈ leftOpen l, HoldsTop ops x) ∧
        HoldsTop ops (.inf o) ∧ SInv ops rest') ∧
    (o.assoc = 0 → SInv ops rest)

/-- a complete operand `t` is on top -/
def CInv (ops : List OpEntry) (t : OTree) (rest : List OTree) : Prop :=
  WellShaped t ∧ (∀ x ∈ leftOpen t, HoldsTop ops x) ∧ SInv ops rest

/-- the tokens below the operand on top, in input order -/
def yieldBelow : List OpEntry → List OTree → List Tok
  | [], _ => []
  | o :: ops, rest =>
    if o.assoc ≠ 0 then
      match rest with
      | [] => []
      | l :: rest' => yieldBelow ops rest' ++ l.yield ++ [.inf o]
    else yieldBelow ops rest ++ [.pre o]

/-! ### one reduction -/

theorem popOperator_spec (o : OpEntry) (ops : List OpEntry) (t : OTree) (rest : List OTree)
    (h : CInv (o :: ops) t rest) :
    ∃ t' rest', popOperator (o :: ops) (t :: rest) = some (ops, t' :: rest') ∧ CInv ops t' rest' ∧
      rightOpen t' = o :: rightOpen t ∧
      yieldBelow ops rest' ++ t'.yield = yieldBelow (o :: ops) rest ++ t.yield := by
  obtain ⟨hws, hlo, hs⟩ := h
  by_cases ha : o.assoc ≠ 0
  · obtain ⟨l, rest', hrest, hl, hgw, hll, hto, hs'⟩ := hs.1 ha
    subst hrest
    refine ⟨.infix l o t, rest', by simp [popOperator, ha], ⟨⟨ha, hl, hws, hgw, ?_⟩, ?_, hs'⟩, by simp [rightOpen], ?_⟩
    · intro x hx
      exact hlo x hx
    · intro x hx
      simp only [leftOpen, List.mem_cons] at hx
      rcases hx with hx | hx
      · subst hx; exact hto
      · exact hll x hx
    · simp [yieldBelow, ha, OTree.yield, List.append_assoc]
  · have ha' : o.assoc = 0 := by
      by_cases h0 : o.assoc = 0
      · exact h0
      · exact absurd h0 ha
    have hs' := hs.2 ha'
    refine ⟨.prefix o t, rest, by simp [popOperator, ha'], ⟨⟨ha', hws, ?_⟩, ?_, hs'⟩, by simp [rightOpen], ?_⟩
    · intro x hx
      exact hlo x hx
    · intro x hx
      simp [leftOpen] at hx
    · simp [yieldBelow, ha', OTree.yield, List.append_assoc]

/-! ### final pops -/

theorem popAll_spec : ∀ (ops : List OpEntry) (t : OTree) (rest : List OTree), CInv ops t rest →
    ∃ T, popAll ops (t :: rest) = some [T] ∧ WellShaped T ∧ T.yield = yieldBelow ops rest ++ t.yield ∧
      rightOpen T = ops.reverse ++ rightOpen t := by
  intro ops
  induction ops with
  | nil =>
    intro t rest h
    have : rest = [] := h.2.2
    subst this
    exact ⟨t, by simp [popAll], h.1, by simp [yieldBelow], by simp⟩
  | cons o ops ih =>
    intro t rest h
    obtain ⟨t', rest', hp, hc, hro, hy⟩ := popOperator_spec o ops t rest h
    obtain ⟨T, hT, hw, hyT, hrT⟩ := ih t' rest' hc
    exact ⟨T, by simp only [popAll, hp]; exact hT, hw, by rw [hyT, hy],
      by rw [hrT, hro]; simp [List.reverse_cons, List.append_assoc]⟩

/-! ### the reduction loops -/

theorem reducePost_spec (p : Int) : ∀ (ops : List OpEntry) (t : OTree) (rest : List OTree),
    CInv ops t rest → (∀ o' ∈ rightOpen t, o'.prec < p) →
    ∃ ops' t' rest', reducePost p ops (t :: rest) = some (ops', t' :: rest') ∧ CInv ops' t' rest' ∧
      (∀ o' ∈ rightOpen t', o'.prec < p) ∧ HoldsTop ops' (.post p) ∧
      yieldBelow ops' rest' ++ t'.yield = yieldBelow ops rest ++ t.yield := by
  intro ops
  induction ops with
  | nil =>
    intro t rest h hr
    exact ⟨[], t, rest, by simp [reducePost], h, hr, trivial, rfl⟩
  | cons o ops ih =>
    intro t rest h hr
    by_cases hlt : o.prec < p
    · obtain ⟨t', rest', hp, hc, hro, hy⟩ := popOperator_spec o ops t rest h
      have hr' : ∀ o' ∈ rightOpen t', o'.prec < p := by
        intro o' ho'
        rw [hro] at ho'
        rcases List.mem_cons.mp ho' with h1 | h1
        · subst h1; exact hlt
        · exact hr o' h1
      obtain ⟨ops', t'', rest'', h1, h2, h3, h4, h5⟩ := ih t' rest' hc hr'
      refine ⟨ops', t'', rest'', ?_, h2, h3, h4, by rw [h5, hy]⟩
      simp only [reducePost, hlt, if_true, hp]
      exact h1
    · exact ⟨o :: ops, t, rest, by simp [reducePost, hlt], h, hr, hlt, rfl⟩

theorem reduceInfix_spec (o : OpEntry) : ∀ (ops : List OpEntry) (t : OTree) (rest : List OTree),
    CInv ops t rest → (∀ o' ∈ rightOpen t, GivesWay o' o) →
    ∃ ops' t' rest', CInv ops' t' rest' ∧ ops'.length ≤ ops.length ∧
      yieldBelow ops' rest' ++ t'.yield = yieldBelow ops rest ++ t.yield ∧
      ((reduceInfix o.prec ops (t :: rest) = some (.go ops' (t' :: rest')) ∧
          (∀ o' ∈ rightOpen t', GivesWay o' o) ∧ HoldsTop ops' (.inf o)) ∨
       (reduceInfix o.prec ops (t :: rest) = some (.conflict ops' (t' :: rest')) ∧
          ∃ ob tl, ops' = ob :: tl ∧ ob.prec = o.prec ∧ ob.assoc = 3)) := by
  intro ops
  induction ops with
  | nil =>
    intro t rest h hr
    exact ⟨[], t, rest, h, Nat.le_refl _, rfl, Or.inl ⟨by simp [reduceInfix], hr, trivial⟩⟩
  | cons ob ops ih =>
    intro t rest h hr
    by_cases hgw : ob.prec < o.prec ∨ (ob.prec = o.prec ∧ ob.assoc = 1)
    · obtain ⟨t', rest', hp, hc, hro, hy⟩ := popOperator_spec ob ops t rest h
      have hr' : ∀ o' ∈ rightOpen t', GivesWay o' o := by
        intro o' ho'
        rw [hro] at ho'
        rcases List.mem_cons.mp ho' with h1 | h1
        · subst h1; exact hgw
        · exact hr o' h1
      obtain ⟨ops', t'', rest'', h1, hlen, h2, h3⟩ := ih t' rest' hc hr'
      refine ⟨ops', t'', rest'', h1, Nat.le_succ_of_le hlen, by rw [h2, hy], ?_⟩
      rcases h3 with ⟨h3, h4, h5⟩ | h3
      · left
        refine ⟨?_, h4, h5⟩
        simp only [reduceInfix, hgw, if_true, hp]
        exact h3
      · right
        refine ⟨?_, h3.2⟩
        simp only [reduceInfix, hgw, if_true, hp]
        exact h3.1
    · by_cases hcf : ob.prec = o.prec ∧ ob.assoc = 3
      · exact ⟨ob :: ops, t, rest, h, Nat.le_refl _, rfl, Or.inr ⟨by simp [reduceInfix, hgw, hcf], ob, ops, rfl, hcf.1, hcf.2⟩⟩
      · exact ⟨ob :: ops, t, rest, h, Nat.le_refl _, rfl, Or.inl ⟨by simp [reduceInfix, hgw, hcf], hr, ⟨hgw, hcf⟩⟩⟩

/-! ### the whole table -/

/-- the sub-parsers accept the tokens `ts` consecutively from `p` to `q` -/
inductive Trace (run : PRun) (T : PTableExprs) : Nat → List Tok → Nat → Prop where
  | nil (p : Nat) : Trace run T p [] p
  | pre {p q q' : Nat} {ts : List Tok} {pe : Expr} {v : Val} {o : OpEntry} :
      Trace run T p ts q → T.prefixes = some pe → run pe q = some (.ok v q') → decodeOp v = some o →
      Trace run T p (ts ++ [.pre o]) q'
  | operand {p q q' : Nat} {ts : List Tok} {v : Val} :
      Trace run T p ts q → run T.operands q = some (.ok v q') → Trace run T p (ts ++ [.operand v]) q'
  | post {p q q' : Nat} {ts : List Tok} {pe : Expr} {v : Val} {prec : Int} {op : Val} :
      Trace run T p ts q → T.postfixes = some pe → run pe q = some (.ok v q') → decodePost v = some (prec, op) →
      Trace run T p (ts ++ [.post prec op]) q'
  | inf {p q q' : Nat} {ts : List Tok} {ie : Expr} {v : Val} {o : OpEntry} :
      Trace run T p ts q → T.infixes = some ie → run ie q = some (.ok v q') → decodeOp v = some o →
      Trace run T p (ts ++ [.inf o]) q'

/-- the rows are tagged as `OperatorTable.create` tags them: prefix rows with associativity id 0,
    infix rows with 1, 2 or 3 -/
structure Tagged (run : PRun) (T : PTableExprs) : Prop where
  pre : ∀ pe q v q' o, T.prefixes = some pe → run pe q = some (.ok v q') → decodeOp v = some o → o.assoc = 0
  inf : ∀ ie q v q' o, T.infixes = some ie → run ie q = some (.ok v q') → decodeOp v = some o → o.assoc ≠ 0

/-- the state at the last complete operand is kept below `marker` -/
def Marked (run : PRun) (T : PTableExprs) (p0 : Nat) (st : OTState) : Prop :=
  st.marker ≤ st.ops.length ∧
  (st.operands = [] ∨ ∃ t rest, st.operands = t :: rest ∧
    CInv (st.ops.drop (st.ops.length - st.marker)) t rest ∧
    Trace run T p0 (yieldBelow (st.ops.drop (st.ops.length - st.marker)) rest ++ t.yield) st.outerCp ∧
    -- what has been read since: the infix operator and the prefix operators that still wait for an operand
    ∃ (o : OpEntry) (pres : List OpEntry), Trace run T st.outerCp ([Tok.inf o] ++ pres.map Tok.pre) st.pos)

def PreInv (run : PRun) (T : PTableExprs) (p0 : Nat) (st : OTState) : Prop :=
  SInv st.ops st.operands ∧ Trace run T p0 (yieldBelow st.ops st.operands) st.pos ∧ Marked run T p0 st

def PostInv (run : PRun) (T : PTableExprs) (p0 : Nat) (st : OTState) : Prop :=
  ∃ t rest, st.operands = t :: rest ∧ CInv st.ops t rest ∧ rightOpen t = [] ∧
    Trace run T p0 (yieldBelow st.ops rest ++ t.yield) st.pos

def PhaseInv (run : PRun) (T : PTableExprs) (p0 : Nat) : Phase → OTState → Prop
  | .pre, st => PreInv run T p0 st
  | .operand, st => PreInv run T p0 st
  | .post, st => PostInv run T p0 st
  | .inf, st => PostInv run T p0 st ∧ st.marker = st.ops.length ∧ st.outerCp = st.pos

/-- why the expression ends at `pe`: no infix operator can be read there; or one can, but after it
    (and any prefix operators) no operand follows - the dangling operator is left unconsumed; or the
    infix operator read there is non-associative and one of its own row is open at the right edge -/
def Stops (run : PRun) (T : PTableExprs) (tree : OTree) (pe : Nat) : Prop :=
  T.infixes = none ∨
  (∃ ie, T.infixes = some ie ∧ run ie pe = some .fail) ∨
  (∃ (o : OpEntry) (pres : List OpEntry) (q : Nat), Trace run T pe ([Tok.inf o] ++ pres.map Tok.pre) q ∧
    run T.operands q = some .fail) ∨
  (∃ ie v q o ob, T.infixes = some ie ∧ run ie pe = some (.ok v q) ∧ decodeOp v = some o ∧
    ob ∈ rightOpen tree ∧ ob.prec = o.prec ∧ ob.assoc = 3)

/-- what is claimed of a result -/
def Shaped (run : PRun) (T : PTableExprs) (p0 : Nat) (v : Val) (pe : Nat) : Prop :=
  ∃ tree : OTree, v = tree.toVal ∧ WellShaped tree ∧ Trace run T p0 tree.yield pe ∧ Stops run T tree pe

theorem finishTable_spec (ops : List OpEntry) (t : OTree) (rest : List OTree) (marker : Nat)
    (h : CInv (ops.drop (ops.length - marker)) t rest) :
    ∃ T, finishTable ops (t :: rest) marker = some T ∧ WellShaped T ∧
      T.yield = yieldBelow (ops.drop (ops.length - marker)) rest ++ t.yield ∧
      rightOpen T = (ops.drop (ops.length - marker)).reverse ++ rightOpen t := by
  obtain ⟨T, h1, h2, h3, h4⟩ := popAll_spec _ t rest h
  exact ⟨T, by simp [finishTable, h1], h2, h3, h4⟩

theorem pegOT_shaped (run : PRun) (T : PTableExprs) (hT : Tagged run T) (p0 : Nat) :
    ∀ (fuel : Nat) (ph : Phase) (st : OTState) (v : Val) (pe : Nat),
      PhaseInv run T p0 ph st → pegOT run T fuel ph st = some (.ok v pe) → Shaped run T p0 v pe := by
  intro fuel
  induction fuel with
  | zero => intro ph st v pe _ h; simp [pegOT] at h
  | succ n ih =>
    intro ph st v pe hinv h
    cases ph with
    | pre =>
      simp only [pegOT] at h
      cases hp : T.prefixes with
      | none =>
        simp only [hp] at h
        exact ih .operand st v pe hinv h
      | some pex =>
        simp only [hp] at h
        cases hr : run pex st.pos with
        | none => simp [hr] at h
        | some r =>
          cases r with
          | fail =>
            simp only [hr] at h
            exact ih .operand st v pe hinv h
          | ok w p' =>
            simp only [hr] at h
            cases hd : decodeOp w with
            | none => simp [hd] at h
            | some o =>
              simp only [hd] at h
              have ha : o.assoc = 0 := hT.pre pex st.pos w p' o hp hr hd
              obtain ⟨hs, htr, hm, hmk⟩ := hinv
              refine ih .pre _ v pe ⟨?_, ?_, ?_, ?_⟩ h
              · exact ⟨fun hne => absurd ha hne, fun _ => hs⟩
              · have : yieldBelow (o :: st.ops) st.operands = yieldBelow st.ops st.operands ++ [.pre o] := by
                  simp [yieldBelow, ha]
                show Trace run T p0 (yieldBelow (o :: st.ops) st.operands) p'
                rw [this]
                exact Trace.pre htr hp hr hd
              · show st.marker ≤ (o :: st.ops).length
                simp only [List.length_cons]
                exact Nat.le_succ_of_le hm
              · have hdrop : (o :: st.ops).drop ((o :: st.ops).length - st.marker) = st.ops.drop (st.ops.length - st.marker) := by
                  have : (o :: st.ops).length - st.marker = (st.ops.length - st.marker) + 1 := by
                    simp only [List.length_cons]; omega
                  rw [this]
                  rfl
                show _ ∨ ∃ t rest, st.operands = t :: rest ∧
                  CInv ((o :: st.ops).drop ((o :: st.ops).length - st.marker)) t rest ∧
                  Trace run T p0 (yieldBelow ((o :: st.ops).drop ((o :: st.ops).length - st.marker)) rest ++ t.yield) st.outerCp ∧
                  ∃ (oi : OpEntry) (pres : List OpEntry), Trace run T st.outerCp ([Tok.inf oi] ++ pres.map Tok.pre) p'
                rw [hdrop]
                rcases hmk with hmk | ⟨t, rest, hop, hc, htr', oi, pres, hdang⟩
                · exact Or.inl hmk
                · refine Or.inr ⟨t, rest, hop, hc, htr', oi, pres ++ [o], ?_⟩
                  have : [Tok.inf oi] ++ (pres ++ [o]).map Tok.pre = ([Tok.inf oi] ++ pres.map Tok.pre) ++ [Tok.pre o] := by
                    simp [List.map_append, List.append_assoc]
                  rw [this]
                  exact Trace.pre hdang hp hr hd
    | operand =>
      simp only [pegOT] at h
      obtain ⟨hs, htr, hm, hmk⟩ := hinv
      cases hr : run T.operands st.pos with
      | none => simp [hr] at h
      | some r =>
        cases r with
        | fail =>
          simp only [hr] at h
          rcases hmk with hmk | ⟨t, rest, hop, hc, htr', oi, pres, hdang⟩
          · simp [hmk] at h
          · simp only [hop, List.isEmpty_cons] at h
            obtain ⟨Tr, h1, h2, h3, _⟩ := finishTable_spec st.ops t rest st.marker hc
            simp [h1] at h
            obtain ⟨hv, hpe⟩ := h
            refine ⟨Tr, hv.symm, h2, by rw [h3, ← hpe]; exact htr', ?_⟩
            -- the dangling operator: read, but no operand follows
            right; right; left
            exact ⟨oi, pres, st.pos, by rw [← hpe]; exact hdang, hr⟩
        | ok w p' =>
          simp only [hr] at h
          refine ih .post { st with operands := .leaf w :: st.operands, pos := p' } v pe ⟨.leaf w, st.operands, rfl, ⟨trivial, ?_, hs⟩, rfl, ?_⟩ h
          · intro x hx; simp [leftOpen] at hx
          · exact Trace.operand htr hr
    | post =>
      simp only [pegOT] at h
      obtain ⟨t, rest, hop, hc, hro, htr⟩ := hinv
      have toInf : PhaseInv run T p0 .inf { st with marker := st.ops.length, outerCp := st.pos } :=
        ⟨⟨t, rest, hop, hc, hro, htr⟩, rfl, rfl⟩
      cases hp : T.postfixes with
      | none =>
        simp only [hp] at h
        exact ih .inf _ v pe toInf h
      | some pex =>
        simp only [hp] at h
        cases hr : run pex st.pos with
        | none => simp [hr] at h
        | some r =>
          cases r with
          | fail =>
            simp only [hr] at h
            exact ih .inf _ v pe toInf h
          | ok w p' =>
            simp only [hr] at h
            cases hd : decodePost w with
            | none => simp [hd] at h
            | some po =>
              obtain ⟨prec, op⟩ := po
              simp only [hd, hop] at h
              obtain ⟨ops', t', rest', h1, h2, h3, h4, h5⟩ := reducePost_spec prec st.ops t rest hc (by rw [hro]; intro o' ho'; simp at ho')
              simp only [h1] at h
              refine ih .post _ v pe ⟨.postfix t' prec op, rest', rfl, ⟨⟨h2.1, h3⟩, ?_, h2.2.2⟩, rfl, ?_⟩ h
              · intro x hx
                simp only [leftOpen, List.mem_cons] at hx
                rcases hx with hx | hx
                · subst hx; exact h4
                · exact h2.2.1 x hx
              · show Trace run T p0 (yieldBelow ops' rest' ++ (OTree.postfix t' prec op).yield) p'
                have : yieldBelow ops' rest' ++ (OTree.postfix t' prec op).yield
                    = (yieldBelow st.ops rest ++ t.yield) ++ [.post prec op] := by
                  rw [← h5]; simp [OTree.yield, List.append_assoc]
                rw [this]
                exact Trace.post htr hp hr hd
    | inf =>
      simp only [pegOT] at h
      obtain ⟨⟨t, rest, hop, hc, hro, htr⟩, hmark, hcp⟩ := hinv
      have finish : ∀ w, (T.infixes = none ∨ ∃ ie, T.infixes = some ie ∧ run ie st.pos = some .fail) →
          (match finishTable st.ops st.operands st.marker with
            | none => none
            | some x => some (Res.ok x.toVal st.pos)) = some (.ok w pe) → Shaped run T p0 w pe := by
        intro w hwhy hw
        have hc' : CInv (st.ops.drop (st.ops.length - st.marker)) t rest := by
          rw [hmark]; simpa using hc
        obtain ⟨Tr, h1, h2, h3, _⟩ := finishTable_spec st.ops t rest st.marker hc'
        rw [hop, h1] at hw
        simp at hw
        obtain ⟨hv, hpe⟩ := hw
        refine ⟨Tr, hv.symm, h2, ?_, ?_⟩
        · rw [h3, ← hpe, hmark]
          simpa using htr
        · rcases hwhy with h0 | ⟨ie, h0, h1'⟩
          · exact Or.inl h0
          · exact Or.inr (Or.inl ⟨ie, h0, by rw [← hpe]; exact h1'⟩)
      cases hp : T.infixes with
      | none =>
        simp only [hp] at h
        exact finish v (Or.inl hp) h
      | some iex =>
        simp only [hp] at h
        cases hr : run iex st.pos with
        | none => simp [hr] at h
        | some r =>
          cases r with
          | fail =>
            simp only [hr] at h
            exact finish v (Or.inr ⟨iex, hp, hr⟩) h
          | ok w p' =>
            simp only [hr] at h
            cases hd : decodeOp w with
            | none => simp [hd] at h
            | some o =>
              simp only [hd, hop] at h
              have ha : o.assoc ≠ 0 := hT.inf iex st.pos w p' o hp hr hd
              obtain ⟨ops', t', rest', h1, hlen, h2, h3⟩ := reduceInfix_spec o st.ops t rest hc (by rw [hro]; intro o' ho'; simp at ho')
              rcases h3 with ⟨h3, h4, h5⟩ | h3
              · simp only [h3] at h
                refine ih .pre _ v pe ⟨?_, ?_, ?_, ?_⟩ h
                · exact ⟨fun _ => ⟨t', rest', rfl, h1.1, h4, h1.2.1, h5, h1.2.2⟩, fun h0 => absurd h0 ha⟩
                · show Trace run T p0 (yieldBelow (o :: ops') (t' :: rest')) p'
                  have : yieldBelow (o :: ops') (t' :: rest') = (yieldBelow st.ops rest ++ t.yield) ++ [.inf o] := by
                    rw [← h2]; simp [yieldBelow, ha, List.append_assoc]
                  rw [this]
                  exact Trace.inf htr hp hr hd
                · show ops'.length ≤ (o :: ops').length
                  simp
                · right
                  refine ⟨t', rest', rfl, ?_, ?_⟩
                  · show CInv ((o :: ops').drop ((o :: ops').length - ops'.length)) t' rest'
                    have : (o :: ops').length - ops'.length = 1 := by simp
                    rw [this]
                    exact h1
                  · show Trace run T p0 (yieldBelow ((o :: ops').drop ((o :: ops').length - ops'.length)) rest' ++ t'.yield) st.outerCp ∧
                      ∃ (oi : OpEntry) (pres : List OpEntry), Trace run T st.outerCp ([Tok.inf oi] ++ pres.map Tok.pre) p'
                    have : (o :: ops').length - ops'.length = 1 := by simp
                    rw [this, hcp]
                    refine ⟨?_, o, [], ?_⟩
                    · show Trace run T p0 (yieldBelow ops' rest' ++ t'.yield) st.pos
                      rw [h2]
                      exact htr
                    · have := Trace.inf (Trace.nil (run := run) (T := T) st.pos) hp hr hd
                      simpa using this
              · obtain ⟨h3, ob, tl, hops, hprec, hassoc⟩ := h3
                simp only [h3] at h
                have hz : ops'.length - st.marker = 0 := by rw [hmark]; omega
                have hc' : CInv (ops'.drop (ops'.length - st.marker)) t' rest' := by
                  rw [hz]; simpa using h1
                obtain ⟨Tr, g1, g2, g3, g4⟩ := finishTable_spec ops' t' rest' st.marker hc'
                simp [g1] at h
                obtain ⟨hv, hpe⟩ := h
                refine ⟨Tr, hv.symm, g2, ?_, ?_⟩
                · rw [g3, hz, ← hpe, hcp]
                  simp only [List.drop_zero]
                  rw [h2]
                  exact htr
                · -- a non-associative operator of the same row is open at the right edge
                  right; right; right
                  refine ⟨iex, w, p', o, ob, hp, by rw [← hpe, hcp]; exact hr, hd, ?_, hprec, hassoc⟩
                  rw [g4, hz, hops]
                  simp

/-- **C02, declarative.**  Whatever an operator table returns is the value of a well-shaped tree
    whose in-order reading is a sequence of operands and operators that the sub-parsers accept
    consecutively from the start position to the end position of the result. -/
theorem pegOT_result_shaped (run : PRun) (T : PTableExprs) (hT : Tagged run T) (fuel p : Nat) (v : Val) (pe : Nat)
    (h : pegOT run T fuel .pre ⟨[], [], 0, p, p⟩ = some (.ok v pe)) : Shaped run T p v pe := by
  exact pegOT_shaped run T hT p fuel .pre ⟨[], [], 0, p, p⟩ v pe ⟨rfl, Trace.nil p, Nat.le_refl _, Or.inl rfl⟩ h

/-! ### tables as `OperatorTable.create` builds them are tagged -/

theorem pegLongestOpts_mem (run : PRun) (p : Nat) : ∀ (xs : List Expr) (best : Option (Val × Nat)) (v : Val) (p' : Nat),
    pegLongestOpts run p xs best = some (some (v, p')) →
    best = some (v, p') ∨ ∃ x, x ∈ xs ∧ run x p = some (.ok v p') := by
  intro xs
  induction xs with
  | nil =>
    intro best v p' h
    simp only [pegLongestOpts] at h
    cases h
    exact Or.inl rfl
  | cons x xs ih =>
    intro best v p' h
    simp only [pegLongestOpts] at h
    cases hr : run x p with
    | none => simp [hr] at h
    | some r =>
      cases r with
      | fail =>
        simp only [hr] at h
        rcases ih best v p' h with h1 | ⟨y, hy, h2⟩
        · exact Or.inl h1
        · exact Or.inr ⟨y, List.mem_cons_of_mem _ hy, h2⟩
      | ok w q =>
        simp only [hr] at h
        have lift : ∀ b, pegLongestOpts run p xs b = some (some (v, p')) → (b = some (w, q) ∨ b = best) →
            best = some (v, p') ∨ ∃ y, y ∈ x :: xs ∧ run y p = some (.ok v p') := by
          intro b hb hbb
          rcases ih b v p' hb with h1 | ⟨y, hy, h2⟩
          · rcases hbb with hbb | hbb
            · rw [hbb] at h1
              cases h1
              exact Or.inr ⟨x, List.mem_cons_self, hr⟩
            · rw [hbb] at h1
              exact Or.inl h1
          · exact Or.inr ⟨y, List.mem_cons_of_mem _ hy, h2⟩
        cases best with
        | none => exact lift _ h (Or.inl rfl)
        | some b =>
          obtain ⟨bv, bp⟩ := b
          simp only at h
          by_cases hlt : bp < q
          · simp only [hlt, if_true] at h
            exact lift _ h (Or.inl rfl)
          · simp only [hlt, if_false] at h
            exact lift _ h (Or.inr rfl)

/-- a row of operators tagged `(prec, assoc)` -/
def RowTagged (ok : Int → Prop) (r : Expr) : Prop := ∃ e p a, r = .tagged e [p, a] ∧ ok a

theorem tagged_row_result (P : Program) (inp : List Nat) (ok : Int → Prop) :
    ∀ (fuel : Nat) (r : Expr) (q : Nat) (v : Val) (q' : Nat) (o : OpEntry),
      RowTagged ok r → peg P inp fuel r q = some (.ok v q') → decodeOp v = some o → ok o.assoc := by
  intro fuel r q v q' o ⟨e, p, a, hr, hok⟩ h hd
  subst hr
  cases fuel with
  | zero => simp [peg] at h
  | succ n =>
    simp only [peg] at h
    cases he : peg P inp n e q with
    | none => simp [he] at h
    | some res =>
      cases res with
      | fail => simp [he] at h
      | ok w q'' =>
        simp [he] at h
        obtain ⟨hv, _⟩ := h
        subst hv
        simp [decodeOp] at hd
        subst hd
        exact hok

theorem tagged_rows_result (P : Program) (inp : List Nat) (ok : Int → Prop) (rows : List Expr)
    (hrows : ∀ r, r ∈ rows → RowTagged ok r) (fuel : Nat) (ce : Expr) (hc : combineRows rows = some ce)
    (q : Nat) (v : Val) (q' : Nat) (o : OpEntry)
    (h : peg P inp fuel ce q = some (.ok v q')) (hd : decodeOp v = some o) : ok o.assoc := by
  match rows, hrows, hc with
  | [], _, hc => simp [combineRows] at hc
  | [x], hrows, hc =>
    simp [combineRows] at hc
    subst hc
    exact tagged_row_result P inp ok fuel x q v q' o (hrows x List.mem_cons_self) h hd
  | x :: y :: rest, hrows, hc =>
    simp [combineRows] at hc
    subst hc
    cases fuel with
    | zero => simp [peg] at h
    | succ n =>
      simp only [peg] at h
      cases hl : pegLongestOpts (peg P inp n) q (x :: y :: rest) none with
      | none => simp [hl] at h
      | some best =>
        cases best with
        | none => simp [hl] at h
        | some vb =>
          obtain ⟨bv, bp⟩ := vb
          simp [hl] at h
          obtain ⟨hv, hp⟩ := h
          subst hv; subst hp
          rcases pegLongestOpts_mem (peg P inp n) q _ none bv bp hl with h1 | ⟨z, hz, h2⟩
          · simp at h1
          · exact tagged_row_result P inp ok n z q bv bp o (hrows z hz) h2 hd

/-- decidable form, evaluated by the driver on every table the real generator builds -/
def rowTaggedB (ok : Int → Bool) : Expr → Bool
  | .tagged _ [_, a] => ok a
  | _ => false

theorem rowTaggedB_sound (ok : Int → Bool) (r : Expr) (h : rowTaggedB ok r = true) : RowTagged (fun a => ok a = true) r := by
  unfold rowTaggedB at h
  split at h
  · rename_i e p a
    exact ⟨e, p, a, rfl, h⟩
  · exact absurd h (by simp)

def tableTaggedB (pre inf : List Expr) : Bool :=
  pre.all (rowTaggedB (· == 0)) && inf.all (rowTaggedB (· != 0))

mutual
/-- every operator table inside an expression is tagged -/
def allTablesTagged : Expr → Bool
  | .str _ _ => true
  | .regex _ _ => true
  | .byte _ _ => true
  | .ref _ => true
  | .seq xs => allTablesTaggedList xs
  | .cls _ xs _ => allTablesTaggedList xs
  | .discard a b _ => allTablesTagged a && allTablesTagged b
  | .choice xs => allTablesTaggedList xs
  | .opt e => allTablesTagged e
  | .list e _ _ => allTablesTagged e
  | .sep e s _ => allTablesTagged e && allTablesTagged s
  | .expect e => allTablesTagged e
  | .expectNot e => allTablesTagged e
  | .skip xs => allTablesTaggedList xs
  | .longest xs => allTablesTaggedList xs
  | .backtrack _ => true
  | .fail => true
  | .py _ => true
  | .tagged e _ => allTablesTagged e
  | .optable pre operand mixfix post inf =>
    tableTaggedB pre inf && allTablesTaggedList pre && allTablesTagged operand && allTablesTaggedList mixfix &&
      allTablesTaggedList post && allTablesTaggedList inf
def allTablesTaggedList : List Expr → Bool
  | [] => true
  | x :: xs => allTablesTagged x && allTablesTaggedList xs
end

/-- tables whose prefix rows are tagged with associativity id 0 and whose infix rows with a
    non-zero id (what `OperatorTable.create` builds; the harness checks it for every real table) -/
theorem tagged_of_rows (P : Program) (inp : List Nat) (fuel : Nat) (pre : List Expr) (operand : Expr)
    (mixfix post inf : List Expr)
    (hpre : ∀ r, r ∈ pre → RowTagged (· = 0) r) (hinf : ∀ r, r ∈ inf → RowTagged (· ≠ 0) r) :
    Tagged (peg P inp fuel) (ptableExprs pre operand mixfix post inf) := by
  constructor
  · intro pe q v q' o hp hr hd
    exact tagged_rows_result P inp (· = 0) pre hpre fuel pe hp q v q' o hr hd
  · intro ie q v q' o hp hr hd
    exact tagged_rows_result P inp (· ≠ 0) inf hinf fuel ie hp q v q' o hr hd

theorem tagged_of_check (P : Program) (inp : List Nat) (fuel : Nat) (pre : List Expr) (operand : Expr)
    (mixfix post inf : List Expr) (h : tableTaggedB pre inf = true) :
    Tagged (peg P inp fuel) (ptableExprs pre operand mixfix post inf) := by
  simp only [tableTaggedB, Bool.and_eq_true, List.all_eq_true] at h
  refine tagged_of_rows P inp fuel pre operand mixfix post inf ?_ ?_
  · intro r hr
    obtain ⟨e, p, a, h1, h2⟩ := rowTaggedB_sound _ r (h.1 r hr)
    exact ⟨e, p, a, h1, by simpa using h2⟩
  · intro r hr
    obtain ⟨e, p, a, h1, h2⟩ := rowTaggedB_sound _ r (h.2 r hr)
    exact ⟨e, p, a, h1, by simpa using h2⟩

/-! ### uniqueness: the well-shaped tree is determined by its reading -/

/-- prefix nodes carry a prefix entry, infix nodes an infix entry -/
def TagOK : OTree → Prop
  | .leaf _ => True
  | .infix l o r => o.assoc ≠ 0 ∧ TagOK l ∧ TagOK r
  | .prefix o r => o.assoc = 0 ∧ TagOK r
  | .postfix l _ _ => TagOK l

abbrev SYState := List OpEntry × List OTree

/-- the stack operations that one occurrence triggers (the loop of `OperatorTable._compile` with
    the parsing taken out) -/
def syStep (st : SYState) : Tok → Option SYState
  | .pre o => some (o :: st.1, st.2)
  | .operand v => some (st.1, .leaf v :: st.2)
  | .post p op =>
    match reducePost p st.1 st.2 with
    | some (ops', x :: rest) => some (ops', .postfix x p op :: rest)
    | _ => none
  | .inf o =>
    match reduceInfix o.prec st.1 st.2 with
    | some (.go ops' operands') => some (o :: ops', operands')
    | _ => none

def syRun : List Tok → SYState → Option SYState
  | [], st => some st
  | t :: ts, st =>
    match syStep st t with
    | none => none
    | some st' => syRun ts st'

/-- the tree that the stack operations build from a reading -/
def syTree (toks : List Tok) : Option OTree :=
  match syRun toks ([], []) with
  | none => none
  | some (ops, operands) =>
    match popAll ops operands with
    | none => none
    | some out => out.getLast?

theorem syRun_append : ∀ (a b : List Tok) (st : SYState),
    syRun (a ++ b) st = (syRun a st).bind (syRun b) := by
  intro a
  induction a with
  | nil => intro b st; rfl
  | cons t ts ih =>
    intro b st
    simp only [List.cons_append, syRun]
    cases syStep st t with
    | none => rfl
    | some st' => exact ih b st'

/-- a tree whose right spine is still on the stacks -/
def spine : OTree → SYState
  | .leaf v => ([], [.leaf v])
  | .infix l o r => ((spine r).1 ++ [o], (spine r).2 ++ [l])
  | .prefix o r => ((spine r).1 ++ [o], (spine r).2)
  | .postfix l p op => ([], [.postfix l p op])

theorem popAll_spine : ∀ (T : OTree), TagOK T → ∀ (ops : List OpEntry) (rest : List OTree),
    popAll ((spine T).1 ++ ops) ((spine T).2 ++ rest) = popAll ops (T :: rest) := by
  intro T
  induction T with
  | leaf v => intro _ ops rest; rfl
  | «postfix» l p op _ => intro _ ops rest; rfl
  | «infix» l o r _ ihr =>
    intro ht ops rest
    obtain ⟨ha, _, hr⟩ := ht
    simp only [spine, List.append_assoc, List.singleton_append]
    rw [ihr hr (o :: ops) (l :: rest)]
    simp [popAll, popOperator, ha]
  | «prefix» o r ihr =>
    intro ht ops rest
    obtain ⟨ha, hr⟩ := ht
    simp only [spine, List.append_assoc, List.singleton_append]
    rw [ihr hr (o :: ops) rest]
    simp [popAll, popOperator, ha]

theorem reducePost_spine (p : Int) : ∀ (T : OTree), TagOK T → (∀ o' ∈ rightOpen T, o'.prec < p) →
    ∀ (ops : List OpEntry) (rest : List OTree),
      reducePost p ((spine T).1 ++ ops) ((spine T).2 ++ rest) = reducePost p ops (T :: rest) := by
  intro T
  induction T with
  | leaf v => intro _ _ ops rest; rfl
  | «postfix» l q op _ => intro _ _ ops rest; rfl
  | «infix» l o r _ ihr =>
    intro ht hro ops rest
    obtain ⟨ha, _, hr⟩ := ht
    simp only [spine, List.append_assoc, List.singleton_append]
    rw [ihr hr (fun o' ho' => hro o' (by simp [rightOpen, ho'])) (o :: ops) (l :: rest)]
    have : o.prec < p := hro o (by simp [rightOpen])
    simp [reducePost, this, popOperator, ha]
  | «prefix» o r ihr =>
    intro ht hro ops rest
    obtain ⟨ha, hr⟩ := ht
    simp only [spine, List.append_assoc, List.singleton_append]
    rw [ihr hr (fun o' ho' => hro o' (by simp [rightOpen, ho'])) (o :: ops) rest]
    have : o.prec < p := hro o (by simp [rightOpen])
    simp [reducePost, this, popOperator, ha]

theorem reduceInfix_spine (x : OpEntry) : ∀ (T : OTree), TagOK T → (∀ o' ∈ rightOpen T, GivesWay o' x) →
    ∀ (ops : List OpEntry) (rest : List OTree),
      reduceInfix x.prec ((spine T).1 ++ ops) ((spine T).2 ++ rest) = reduceInfix x.prec ops (T :: rest) := by
  intro T
  induction T with
  | leaf v => intro _ _ ops rest; rfl
  | «postfix» l q op _ => intro _ _ ops rest; rfl
  | «infix» l o r _ ihr =>
    intro ht hro ops rest
    obtain ⟨ha, _, hr⟩ := ht
    simp only [spine, List.append_assoc, List.singleton_append]
    rw [ihr hr (fun o' ho' => hro o' (by simp [rightOpen, ho'])) (o :: ops) (l :: rest)]
    have hg : o.prec < x.prec ∨ (o.prec = x.prec ∧ o.assoc = 1) := hro o (by simp [rightOpen])
    simp [reduceInfix, hg, popOperator, ha]
  | «prefix» o r ihr =>
    intro ht hro ops rest
    obtain ⟨ha, hr⟩ := ht
    simp only [spine, List.append_assoc, List.singleton_append]
    rw [ihr hr (fun o' ho' => hro o' (by simp [rightOpen, ho'])) (o :: ops) rest]
    have hg : o.prec < x.prec ∨ (o.prec = x.prec ∧ o.assoc = 1) := hro o (by simp [rightOpen])
    have hlt : o.prec < x.prec := by
      rcases hg with h1 | ⟨_, h2⟩
      · exact h1
      · rw [ha] at h2; exact absurd h2 (by decide)
    simp [reduceInfix, hlt, popOperator, ha]

theorem reducePost_stop (p : Int) (ops : List OpEntry) (operands : List OTree) (h : HoldsTop ops (.post p)) :
    reducePost p ops operands = some (ops, operands) := by
  cases ops with
  | nil => rfl
  | cons ob rest =>
    have : ¬ ob.prec < p := h
    simp [reducePost, this]

theorem reduceInfix_stop (x : OpEntry) (ops : List OpEntry) (operands : List OTree) (h : HoldsTop ops (.inf x)) :
    reduceInfix x.prec ops operands = some (.go ops operands) := by
  cases ops with
  | nil => rfl
  | cons ob rest =>
    obtain ⟨h1, h2⟩ : ¬ GivesWay ob x ∧ ¬ (ob.prec = x.prec ∧ ob.assoc = 3) := h
    have h1' : ¬ (ob.prec < x.prec ∨ (ob.prec = x.prec ∧ ob.assoc = 1)) := h1
    simp [reduceInfix, h1', h2]

/-- reading a well-shaped tree from a state whose top holds its left-open operators leaves the
    tree's right spine on the stacks -/
theorem syRun_tree : ∀ (T : OTree), WellShaped T → TagOK T → ∀ (ops : List OpEntry) (operands : List OTree),
    (∀ x ∈ leftOpen T, HoldsTop ops x) →
    syRun T.yield (ops, operands) = some ((spine T).1 ++ ops, (spine T).2 ++ operands) := by
  intro T
  induction T with
  | leaf v => intro _ _ ops operands _; rfl
  | «prefix» o r ihr =>
    intro hw ht ops operands _
    obtain ⟨_, hwr, hho⟩ := hw
    obtain ⟨_, htr⟩ := ht
    simp only [OTree.yield, List.singleton_append, syRun, syStep]
    rw [ihr hwr htr (o :: ops) operands hho]
    simp [spine, List.append_assoc]
  | «infix» l o r ihl ihr =>
    intro hw ht ops operands hlo
    obtain ⟨_, hwl, hwr, hgw, hho⟩ := hw
    obtain ⟨_, htl, htr⟩ := ht
    simp only [OTree.yield]
    rw [syRun_append, syRun_append]
    rw [ihl hwl htl ops operands (fun x hx => hlo x (by simp [leftOpen, hx]))]
    simp only [Option.bind_some, syRun, syStep]
    rw [reduceInfix_spine o l htl hgw ops operands]
    rw [reduceInfix_stop o ops (l :: operands) (hlo (.inf o) (by simp [leftOpen]))]
    simp only [Option.bind_some]
    rw [ihr hwr htr (o :: ops) (l :: operands) hho]
    simp [spine, List.append_assoc]
  | «postfix» l p op ihl =>
    intro hw ht ops operands hlo
    obtain ⟨hwl, hro⟩ := hw
    simp only [OTree.yield]
    rw [syRun_append]
    rw [ihl hwl ht ops operands (fun x hx => hlo x (by simp [leftOpen, hx]))]
    simp only [Option.bind_some, syRun, syStep]
    rw [reducePost_spine p l ht hro ops operands]
    rw [reducePost_stop p ops (l :: operands) (hlo (.post p) (by simp [leftOpen]))]
    simp [spine]

/-- the stack operations rebuild every well-shaped tree from its reading -/
theorem syTree_yield (T : OTree) (hw : WellShaped T) (ht : TagOK T) : syTree T.yield = some T := by
  unfold syTree
  rw [syRun_tree T hw ht [] [] (fun _ _ => trivial)]
  simp only [List.append_nil]
  have := popAll_spine T ht [] []
  simp only [List.append_nil] at this
  rw [this]
  simp [popAll]

theorem WellShaped.tagOK : ∀ (T : OTree), WellShaped T → TagOK T
  | .leaf _, _ => trivial
  | .infix l _ r, h => ⟨h.1, WellShaped.tagOK l h.2.1, WellShaped.tagOK r h.2.2.1⟩
  | .prefix _ r, h => ⟨h.1, WellShaped.tagOK r h.2.1⟩
  | .postfix l _ _, h => WellShaped.tagOK l h.1

/-- **Uniqueness.**  Two well-shaped trees with the same reading are the same tree. -/
theorem wellShaped_unique (t₁ t₂ : OTree) (h₁ : WellShaped t₁) (h₂ : WellShaped t₂)
    (hy : t₁.yield = t₂.yield) : t₁ = t₂ := by
  have e₁ := syTree_yield t₁ h₁ (WellShaped.tagOK t₁ h₁)
  have e₂ := syTree_yield t₂ h₂ (WellShaped.tagOK t₂ h₂)
  rw [hy, e₂] at e₁
  exact (Option.some.inj e₁).symm

end Sourcer
