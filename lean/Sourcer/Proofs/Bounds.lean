import Sourcer.Peg
/-
  Facts about the specification of bounded repetition and separated lists (C03).
-/
namespace Sourcer

variable {run : PRun}

theorem pegListLoop_spec (e : Expr) (max : Option Nat) :
    ∀ fuel p acc acc' p', pegListLoop run e max fuel p acc = some (acc', p') →
    acc.length ≤ acc'.length ∧
    (∀ M, max = some M → acc.length < M → acc'.length ≤ M) ∧
    (max = some acc'.length ∨ run e p' = some .fail) := by
  intro fuel
  induction fuel with
  | zero => intro p acc acc' p' h; simp [pegListLoop] at h
  | succ n ih =>
    intro p acc acc' p' h
    unfold pegListLoop at h
    split at h
    · simp at h
    · rename_i he
      simp at h; obtain ⟨h1, h2⟩ := h; subst h1 h2
      exact ⟨Nat.le_refl _, fun M _ hlt => Nat.le_of_lt hlt, Or.inr he⟩
    · rename_i v p1 he
      simp only at h
      split at h
      · rename_i hmax
        simp at h; obtain ⟨h1, h2⟩ := h; subst h1 h2
        refine ⟨by simp, ?_, Or.inl (by simpa using hmax)⟩
        intro M hM hlt
        simp [hM] at hmax
        simp; omega
      · rename_i hmax
        obtain ⟨h1, h2, h3⟩ := ih _ _ _ _ h
        simp only [List.length_cons] at h1 h2
        refine ⟨by omega, ?_, h3⟩
        intro M hM hlt
        apply h2 M hM
        have : M ≠ acc.length + 1 := by
          intro heq; simp [hM, heq] at hmax
        omega

end Sourcer
