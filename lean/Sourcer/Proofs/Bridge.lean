import Sourcer.Env
/-
  The two specifications agree where they overlap.  The names layer (`X.xpeg`, lexical
  environments: C05/C06) and the core (`peg`: C01-C04, C08, C10) were written separately; on
  the fragment both can express - literals, sequences, ordered choice, options, greedy repetition,
  references to rules without parameters - they give the same outcomes.
-/
namespace Sourcer.X
open Sourcer

mutual
/-- the core expression of a name-free expression of the names layer -/
def embed : XExpr → Option Expr
  | .lit s => if s.isEmpty then none else some (.str s false)
  | .seq xs => (embedList xs).map .seq
  | .choice xs => (embedList xs).map .choice
  | .opt e => (embed e).map .opt
  | .star e => (embed e).map (fun e' => .list e' 0 none)
  | .ref r => some (.ref r)
  | _ => none
def embedList : List XExpr → Option (List Expr)
  | [] => some []
  | x :: xs =>
    match embed x, embedList xs with
    | some e, some es => some (e :: es)
    | _, _ => none
end

/-- the two programs have corresponding rules -/
def Embedded (XP : XProgram) (CP : Program) : Prop :=
  CP.bytesMode = false ∧ ∀ (r : Nat) (body : XExpr), XP.rules[r]? = some body →
    ∃ body', embed body = some body' ∧ CP.rules[r]? = some body'

theorem matchLit_eq (inp s : List Nat) (p : Nat) (hs : 0 < s.length) :
    matchLit inp s p = if matchAt inp p s then .ok (.str s) (p + s.length) else .fail := by
  unfold matchLit matchAt
  by_cases h : (inp.drop p).take s.length = s
  · have hlen : p + s.length ≤ inp.length := by
      have := congrArg List.length h
      simp only [List.length_take, List.length_drop] at this
      omega
    simp [h, hlen]
  · have : ((inp.drop p).take s.length == s) = false := by simp [h]
    simp [h, this]

/-- the statement, for a source fuel `n` and every sufficiently larger target fuel -/
def BridgeAt (XP : XProgram) (CP : Program) (inp : List Nat) (n : Nat) : Prop :=
  ∀ (m : Nat), n + inp.length + 1 ≤ m → ∀ (e : XExpr) (e' : Expr) (ρ : SEnv) (p : Nat) (r : Res),
    embed e = some e' → xpeg XP inp n e ρ p = some r → peg CP inp m e' p = some r

section helpers
variable {XP : XProgram} {CP : Program} {inp : List Nat} {n m : Nat}

theorem bridge_seq (h : ∀ (e : XExpr) (e' : Expr) (ρ : SEnv) (p : Nat) (r : Res),
      embed e = some e' → xpeg XP inp n e ρ p = some r → peg CP inp m e' p = some r) (ρ : SEnv) :
    ∀ (xs : List XExpr) (es : List Expr) (p : Nat) (acc : List Val) (r : Res), embedList xs = some es →
      specSeq (xpeg XP inp n) ρ xs p acc = some r → pegSeq (peg CP inp m) es p acc = some r := by
  intro xs
  induction xs with
  | nil =>
    intro es p acc r he hr
    simp [embedList] at he
    subst he
    simpa [specSeq, pegSeq] using hr
  | cons x xs ih =>
    intro es p acc r he hr
    simp only [embedList] at he
    cases hx : embed x with
    | none => simp [hx] at he
    | some e' =>
      cases hxs : embedList xs with
      | none => simp [hx, hxs] at he
      | some es' =>
        simp [hx, hxs] at he
        subst he
        simp only [specSeq] at hr
        simp only [pegSeq]
        cases h1 : xpeg XP inp n x ρ p with
        | none => simp [h1] at hr
        | some r1 =>
          rw [h x e' ρ p r1 hx h1]
          cases r1 with
          | fail => simpa [h1] using hr
          | ok v p' =>
            simp only [h1] at hr
            exact ih es' p' (v :: acc) r hxs hr

theorem bridge_choice (h : ∀ (e : XExpr) (e' : Expr) (ρ : SEnv) (p : Nat) (r : Res),
      embed e = some e' → xpeg XP inp n e ρ p = some r → peg CP inp m e' p = some r) (ρ : SEnv) :
    ∀ (xs : List XExpr) (es : List Expr) (p : Nat) (r : Res), embedList xs = some es →
      specChoice (xpeg XP inp n) ρ xs p = some r → pegChoice (peg CP inp m) es p = some r := by
  intro xs
  induction xs with
  | nil =>
    intro es p r he hr
    simp [embedList] at he
    subst he
    simpa [specChoice, pegChoice] using hr
  | cons x xs ih =>
    intro es p r he hr
    simp only [embedList] at he
    cases hx : embed x with
    | none => simp [hx] at he
    | some e' =>
      cases hxs : embedList xs with
      | none => simp [hx, hxs] at he
      | some es' =>
        simp [hx, hxs] at he
        subst he
        simp only [specChoice] at hr
        simp only [pegChoice]
        cases h1 : xpeg XP inp n x ρ p with
        | none => simp [h1] at hr
        | some r1 =>
          rw [h x e' ρ p r1 hx h1]
          cases r1 with
          | fail =>
            simp only [h1] at hr
            exact ih es' p r hxs hr
          | ok v p' => simpa [h1] using hr

theorem bridge_star (h : ∀ (e : XExpr) (e' : Expr) (ρ : SEnv) (p : Nat) (r : Res),
      embed e = some e' → xpeg XP inp n e ρ p = some r → peg CP inp m e' p = some r) (ρ : SEnv)
    (x : XExpr) (e' : Expr) (hx : embed x = some e') :
    ∀ (k k' : Nat), k ≤ k' → ∀ (p : Nat) (acc : List Val) (r : Res),
      specStar (xpeg XP inp n) ρ x k p acc = some r →
      ∃ out p', pegListLoop (peg CP inp m) e' none k' p acc = some (out, p') ∧ r = .ok (.list out.reverse) p' := by
  intro k
  induction k with
  | zero => intro k' _ p acc r hr; simp [specStar] at hr
  | succ j ih =>
    intro k' hk p acc r hr
    cases k' with
    | zero => omega
    | succ j' =>
      simp only [specStar] at hr
      simp only [pegListLoop]
      cases h1 : xpeg XP inp n x ρ p with
      | none => simp [h1] at hr
      | some r1 =>
        rw [h x e' ρ p r1 hx h1]
        cases r1 with
        | fail =>
          simp [h1] at hr
          exact ⟨acc, p, rfl, hr.symm⟩
        | ok v p' =>
          simp only [h1] at hr
          have : ((none : Option Nat) == some (v :: acc).length) = false := rfl
          simp only [this, Bool.false_eq_true, if_false]
          exact ih j' (by omega) p' (v :: acc) r hr

end helpers

/-- **The specifications agree on their common fragment.** -/
theorem bridge (XP : XProgram) (CP : Program) (inp : List Nat) (hE : Embedded XP CP) : ∀ n, BridgeAt XP CP inp n := by
  intro n
  induction n with
  | zero => intro m _ e e' ρ p r _ h; simp [xpeg] at h
  | succ k ih =>
    intro m hm e e' ρ p r he h
    cases m with
    | zero => omega
    | succ j =>
      have hsub : ∀ (e : XExpr) (e' : Expr) (ρ : SEnv) (p : Nat) (r : Res),
          embed e = some e' → xpeg XP inp k e ρ p = some r → peg CP inp j e' p = some r :=
        fun e e' ρ p r he h => ih j (by omega) e e' ρ p r he h
      cases e with
      | lit s =>
        simp only [embed] at he
        by_cases hs : s.isEmpty = true
        · simp [hs] at he
        · simp [hs] at he
          subst he
          simp only [xpeg] at h
          simp only [peg, hs, Bool.false_eq_true, if_false, pegSkipTo]
          have hpos : 0 < s.length := by
            cases s with
            | nil => simp at hs
            | cons c cs => simp
          rw [matchLit_eq inp s p hpos] at h
          have hl : CP.lit s = .str s := by simp [Program.lit, hE.1]
          cases hm' : matchAt inp p s with
          | false => simpa [hm'] using h
          | true =>
            simp only [hm', if_true] at h ⊢
            rw [hl]
            exact h
      | seq xs =>
        simp only [embed] at he
        cases hxs : embedList xs with
        | none => simp [hxs] at he
        | some es =>
          simp [hxs] at he
          subst he
          simp only [xpeg] at h
          simp only [peg]
          exact bridge_seq hsub ρ xs es p [] r hxs h
      | choice xs =>
        simp only [embed] at he
        cases hxs : embedList xs with
        | none => simp [hxs] at he
        | some es =>
          simp [hxs] at he
          subst he
          simp only [xpeg] at h
          simp only [peg]
          exact bridge_choice hsub ρ xs es p r hxs h
      | opt x =>
        simp only [embed] at he
        cases hx : embed x with
        | none => simp [hx] at he
        | some x' =>
          simp [hx] at he
          subst he
          simp only [xpeg] at h
          simp only [peg]
          cases h1 : xpeg XP inp k x ρ p with
          | none => simp [h1] at h
          | some r1 =>
            rw [hsub x x' ρ p r1 hx h1]
            cases r1 <;> simpa [h1] using h
      | star x =>
        simp only [embed] at he
        cases hx : embed x with
        | none => simp [hx] at he
        | some x' =>
          simp [hx] at he
          subst he
          simp only [xpeg] at h
          simp only [peg, pegList, maxOf, Option.map_none]
          have hmax : ((none : Option Nat) == some 0) = false := rfl
          simp only [hmax, Bool.false_eq_true, if_false]
          obtain ⟨out, p', h1, h2⟩ := bridge_star hsub ρ x x' hx (inp.length + 1) j (by omega) p [] r h
          rw [h1]
          simp [h2]
      | ref i =>
        simp only [embed] at he
        cases he
        simp only [xpeg] at h
        simp only [peg]
        cases hb : XP.rules[i]? with
        | none => simp [hb] at h
        | some body =>
          simp only [hb] at h
          obtain ⟨body', hb1, hb2⟩ := hE.2 i body hb
          rw [hb2]
          exact hsub body body' [] p r hb1 h
      | cc _ _ => simp [embed] at he
      | pvar _ => simp [embed] at he
      | py _ => simp [embed] at he
      | let_ _ _ _ => simp [embed] at he
      | where_ _ _ => simp [embed] at he
      | apply _ _ => simp [embed] at he
      | applyL _ _ => simp [embed] at he
      | rep _ _ => simp [embed] at he
      | call _ _ => simp [embed] at he
      | bseq _ _ _ => simp [embed] at he

end Sourcer.X
