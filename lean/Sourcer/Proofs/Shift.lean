import Sourcer.Peg
/-
  The shift law of the specification: for grammars without lookbehind (`Backtrack`), parsing
  `pre ++ inp` from `pre.length + p` is parsing `inp` from `p` with every position (result position
  and the spans of the objects in the value) moved by `pre.length`, provided the regex matcher is
  itself shift-invariant.  Operator tables are included.
-/
namespace Sourcer

/-! ### the shift of values and results -/

def shiftSpan (k : Nat) : Option (Nat × Nat) → Option (Nat × Nat)
  | some (a, b) => some (a + k, b + k)
  | none => none

mutual
def shiftVal (k : Nat) : Val → Val
  | .obj c fs sp => .obj c (shiftFields k fs) (shiftSpan k sp)
  | .list xs => .list (shiftVals k xs)
  | .tuple xs => .tuple (shiftVals k xs)
  | .none => .none
  | .bool b => .bool b
  | .int i => .int i
  | .str s => .str s
  | .bytes s => .bytes s
  | .err => .err
def shiftVals (k : Nat) : List Val → List Val
  | [] => []
  | x :: xs => shiftVal k x :: shiftVals k xs
def shiftFields (k : Nat) : List (String × Val) → List (String × Val)
  | [] => []
  | f :: fs => (f.1, shiftVal k f.2) :: shiftFields k fs
end

def shiftRes (k : Nat) : Res → Res
  | .ok v p => .ok (shiftVal k v) (p + k)
  | .fail => .fail

/-! ### grammars without lookbehind -/

mutual
def noBacktrack : Expr → Bool
  | .str _ _ => true
  | .regex _ _ => true
  | .byte _ _ => true
  | .ref _ => true
  | .seq xs => noBacktrackList xs
  | .cls _ xs _ => noBacktrackList xs
  | .discard a b _ => noBacktrack a && noBacktrack b
  | .choice xs => noBacktrackList xs
  | .opt e => noBacktrack e
  | .list e _ _ => noBacktrack e
  | .sep e s _ => noBacktrack e && noBacktrack s
  | .expect e => noBacktrack e
  | .expectNot e => noBacktrack e
  | .skip xs => noBacktrackList xs
  | .longest xs => noBacktrackList xs
  | .backtrack _ => false
  | .fail => true
  | .py _ => true
  | .tagged e _ => noBacktrack e
  | .optable pre operand mixfix post inf =>
    noBacktrackList pre && noBacktrack operand && noBacktrackList mixfix &&
      noBacktrackList post && noBacktrackList inf
def noBacktrackList : List Expr → Bool
  | [] => true
  | x :: xs => noBacktrack x && noBacktrackList xs
end

def noBacktrackProg (P : Program) : Bool := P.rules.all noBacktrack

/-- the regex matcher does not look at what precedes the position it is started at -/
def MatcherShift (P : Program) (pre inp : List Nat) : Prop :=
  ∀ rx p, P.matcher rx (pre ++ inp) (pre.length + p) = (P.matcher rx inp p).map (· + pre.length)

/-! ### small facts about the shift of values -/

theorem shiftVals_eq_map (k : Nat) : ∀ xs : List Val, shiftVals k xs = xs.map (shiftVal k) := by
  intro xs
  induction xs with
  | nil => simp [shiftVals]
  | cons x xs ih => simp [shiftVals, ih]

theorem shiftFields_eq_map (k : Nat) :
    ∀ fs : List (String × Val), shiftFields k fs = fs.map (fun f => (f.1, shiftVal k f.2)) := by
  intro fs
  induction fs with
  | nil => simp [shiftFields]
  | cons f fs ih => simp [shiftFields, ih]

theorem shiftVals_reverse (k : Nat) (xs : List Val) : shiftVals k xs.reverse = (shiftVals k xs).reverse := by
  simp [shiftVals_eq_map]

theorem shiftVals_append (k : Nat) (xs ys : List Val) :
    shiftVals k (xs ++ ys) = shiftVals k xs ++ shiftVals k ys := by
  simp [shiftVals_eq_map]

theorem shiftVals_length (k : Nat) (xs : List Val) : (shiftVals k xs).length = xs.length := by
  simp [shiftVals_eq_map]

theorem shiftVals_isEmpty (k : Nat) (xs : List Val) : (shiftVals k xs).isEmpty = xs.isEmpty := by
  cases xs <;> simp [shiftVals]

theorem shiftVals_tail (k : Nat) (xs : List Val) : (shiftVals k xs).tail = shiftVals k xs.tail := by
  cases xs <;> simp [shiftVals]

theorem shiftFields_reverse (k : Nat) (fs : List (String × Val)) :
    shiftFields k fs.reverse = (shiftFields k fs).reverse := by
  simp [shiftFields_eq_map]

theorem shiftVal_lit (k : Nat) (P : Program) (s : List Nat) : shiftVal k (P.lit s) = P.lit s := by
  unfold Program.lit
  split <;> simp [shiftVal]

theorem shiftVal_const (k : Nat) (c : PyConst) : shiftVal k c.toVal = c.toVal := by
  cases c <;> simp [PyConst.toVal, shiftVal]

theorem shiftVals_ints (k : Nat) (tag : List Int) : shiftVals k (tag.map Val.int) = tag.map Val.int := by
  induction tag with
  | nil => simp [shiftVals]
  | cons t ts ih => simp [shiftVals, shiftVal, ih]

theorem noBacktrackList_mem : ∀ (xs : List Expr), noBacktrackList xs = true → ∀ e ∈ xs, noBacktrack e = true := by
  intro xs
  induction xs with
  | nil => intro _ e he; simp at he
  | cons x xs ih =>
    intro h e he
    simp only [noBacktrackList, Bool.and_eq_true] at h
    rcases List.mem_cons.mp he with rfl | he'
    · exact h.1
    · exact ih h.2 e he'

/-! ### small facts about the text -/

theorem drop_shift (pre inp : List Nat) (p : Nat) : (pre ++ inp).drop (p + pre.length) = inp.drop p := by
  rw [Nat.add_comm]
  exact List.drop_length_add_append p

theorem matchAt_shift (pre inp : List Nat) (p : Nat) (s : List Nat) :
    matchAt (pre ++ inp) (p + pre.length) s = matchAt inp p s := by
  simp only [matchAt, drop_shift]

theorem getElem?_shift (pre inp : List Nat) (p : Nat) : (pre ++ inp)[p + pre.length]? = inp[p]? := by
  rw [List.getElem?_append_right (by omega)]
  congr 1
  omega

/-! ### the helper functions of `peg` commute with the shift -/

/-- `run'` at shifted positions is `run` with shifted outcomes (on expressions without lookbehind) -/
def ShiftRel (k : Nat) (run run' : PRun) : Prop :=
  ∀ e p, noBacktrack e = true → run' e (p + k) = (run e p).map (shiftRes k)

section helpers
variable {k : Nat} {run run' : PRun}

theorem pegSeq_shift (h : ShiftRel k run run') : ∀ (xs : List Expr) (p : Nat) (acc : List Val),
    noBacktrackList xs = true →
    pegSeq run' xs (p + k) (shiftVals k acc) = (pegSeq run xs p acc).map (shiftRes k) := by
  intro xs
  induction xs with
  | nil => intro p acc _; simp [pegSeq, shiftRes, shiftVal, shiftVals_reverse]
  | cons e es ih =>
    intro p acc hx
    simp only [noBacktrackList, Bool.and_eq_true] at hx
    simp only [pegSeq]
    rw [h e p hx.1]
    cases run e p with
    | none => rfl
    | some r =>
      cases r with
      | fail => rfl
      | ok v p' =>
        simp only [Option.map_some, shiftRes]
        exact ih p' (v :: acc) hx.2

theorem pegCls_shift (h : ShiftRel k run run') (name : String) (start : Nat) :
    ∀ (xs : List Expr) (ks : List (Option String)) (p : Nat) (acc : List (String × Val)),
    noBacktrackList xs = true →
    pegCls run' name (start + k) xs ks (p + k) (shiftFields k acc) =
      (pegCls run name start xs ks p acc).map (shiftRes k) := by
  intro xs
  induction xs with
  | nil => intro ks p acc _; simp [pegCls, shiftRes, shiftVal, shiftFields_reverse, shiftSpan]
  | cons e es ih =>
    intro ks p acc hx
    simp only [noBacktrackList, Bool.and_eq_true] at hx
    simp only [pegCls]
    rw [h e p hx.1]
    cases run e p with
    | none => rfl
    | some r =>
      cases r with
      | fail => rfl
      | ok v p' =>
        simp only [Option.map_some, shiftRes]
        cases hk : ks.head? with
        | none => exact ih ks.tail p' acc hx.2
        | some o =>
          cases o with
          | none => exact ih ks.tail p' acc hx.2
          | some f => exact ih ks.tail p' ((f, v) :: acc) hx.2

theorem pegChoice_shift (h : ShiftRel k run run') : ∀ (xs : List Expr) (p : Nat),
    noBacktrackList xs = true →
    pegChoice run' xs (p + k) = (pegChoice run xs p).map (shiftRes k) := by
  intro xs
  induction xs with
  | nil => intro p _; simp [pegChoice, shiftRes]
  | cons e es ih =>
    intro p hx
    simp only [noBacktrackList, Bool.and_eq_true] at hx
    simp only [pegChoice]
    rw [h e p hx.1]
    cases run e p with
    | none => rfl
    | some r =>
      cases r with
      | fail => exact ih p hx.2
      | ok v p' => rfl

theorem pegListLoop_shift (h : ShiftRel k run run') (e : Expr) (he : noBacktrack e = true) (max : Option Nat) :
    ∀ (fuel p : Nat) (acc : List Val),
    pegListLoop run' e max fuel (p + k) (shiftVals k acc) =
      (pegListLoop run e max fuel p acc).map (fun o => (shiftVals k o.1, o.2 + k)) := by
  intro fuel
  induction fuel with
  | zero => intro p acc; simp [pegListLoop]
  | succ n ih =>
    intro p acc
    simp only [pegListLoop]
    rw [h e p he]
    cases run e p with
    | none => rfl
    | some r =>
      cases r with
      | fail => rfl
      | ok v p' =>
        simp only [Option.map_some, shiftRes, List.length_cons, shiftVals_length]
        by_cases hm : (max == some (acc.length + 1)) = true
        · rw [if_pos hm, if_pos hm]; rfl
        · rw [if_neg hm, if_neg hm]; exact ih p' (v :: acc)

theorem pegList_shift (h : ShiftRel k run run') (fuel : Nat) (e : Expr) (he : noBacktrack e = true)
    (min : Nat) (max : Option Nat) (p : Nat) :
    pegList run' fuel e min max (p + k) = (pegList run fuel e min max p).map (shiftRes k) := by
  unfold pegList
  by_cases hm : (max == some 0) = true
  · rw [if_pos hm, if_pos hm]; simp [shiftRes, shiftVal, shiftVals]
  · rw [if_neg hm, if_neg hm]
    have hl := pegListLoop_shift h e he max fuel p []
    simp only [shiftVals] at hl
    rw [hl]
    cases pegListLoop run e max fuel p [] with
    | none => rfl
    | some o =>
      obtain ⟨acc, p'⟩ := o
      simp only [Option.map_some, shiftVals_length]
      split <;> simp [shiftRes, shiftVal, shiftVals_reverse]

theorem pegSepLoop_shift (h : ShiftRel k run run') (e s : Expr) (he : noBacktrack e = true)
    (hs : noBacktrack s = true) (o : SepOpts) :
    ∀ (fuel p : Nat) (st : List Val) (stop : Nat) (saw : Bool),
    pegSepLoop run' e s o fuel (p + k) (shiftVals k st) (stop + k) saw =
      (pegSepLoop run e s o fuel p st stop saw).map (fun out => (shiftVals k out.1, out.2.1 + k, out.2.2)) := by
  intro fuel
  induction fuel with
  | zero => intro p st stop saw; simp [pegSepLoop]
  | succ n ih =>
    intro p st stop saw
    simp only [pegSepLoop]
    rw [h e p he]
    cases run e p with
    | none => rfl
    | some r =>
      cases r with
      | fail =>
        simp only [Option.map_some, shiftRes, shiftVals_isEmpty, shiftVals_tail]
        split <;> rfl
      | ok v p1 =>
        simp only [Option.map_some, shiftRes]
        rw [h s p1 hs]
        cases run s p1 with
        | none => rfl
        | some r2 =>
          cases r2 with
          | fail => rfl
          | ok w p2 =>
            simp only [Option.map_some, shiftRes]
            have e1 : (if o.discard = true then shiftVal k v :: shiftVals k st
                else shiftVal k w :: shiftVal k v :: shiftVals k st) =
                shiftVals k (if o.discard = true then v :: st else w :: v :: st) := by
              cases o.discard <;> rfl
            have e2 : (if o.trailer = true then p2 + k else p1 + k) =
                (if o.trailer = true then p2 else p1) + k := by
              cases o.trailer <;> rfl
            rw [e1, e2]
            exact ih _ _ _ _

theorem sepAccepts_shift (k : Nat) (o : SepOpts) (st : List Val) (saw : Bool) :
    sepAccepts o (shiftVals k st) saw = sepAccepts o st saw := by
  simp [sepAccepts, shiftVals_isEmpty]

theorem pegSep_shift (h : ShiftRel k run run') (fuel : Nat) (e s : Expr) (he : noBacktrack e = true)
    (hs : noBacktrack s = true) (o : SepOpts) (p : Nat) :
    pegSep run' fuel e s o (p + k) = (pegSep run fuel e s o p).map (shiftRes k) := by
  unfold pegSep
  have hl := pegSepLoop_shift h e s he hs o fuel p [] p false
  simp only [shiftVals] at hl
  rw [hl]
  cases pegSepLoop run e s o fuel p [] p false with
  | none => rfl
  | some out =>
    obtain ⟨st, stop, saw⟩ := out
    simp only [Option.map_some, sepAccepts_shift]
    split <;> simp [shiftRes, shiftVal, shiftVals_reverse]

theorem pegSkipAlts_shift (h : ShiftRel k run run') (p : Nat) : ∀ (xs : List Expr),
    noBacktrackList xs = true →
    pegSkipAlts run' (p + k) xs = (pegSkipAlts run p xs).map (Option.map (· + k)) := by
  intro xs
  induction xs with
  | nil => intro _; simp [pegSkipAlts]
  | cons e es ih =>
    intro hx
    simp only [noBacktrackList, Bool.and_eq_true] at hx
    simp only [pegSkipAlts]
    rw [h e p hx.1]
    cases run e p with
    | none => rfl
    | some r =>
      cases r with
      | fail => exact ih hx.2
      | ok v p' =>
        simp only [Option.map_some, shiftRes]
        have hb : (p' + k != p + k) = (p' != p) := by
          rw [Bool.eq_iff_iff, bne_iff_ne, bne_iff_ne]; omega
        rw [hb]
        split
        · rfl
        · exact ih hx.2

theorem pegSkipLoop_shift (h : ShiftRel k run run') (xs : List Expr) (hx : noBacktrackList xs = true) :
    ∀ (fuel p : Nat), pegSkipLoop run' xs fuel (p + k) = (pegSkipLoop run xs fuel p).map (shiftRes k) := by
  intro fuel
  induction fuel with
  | zero => intro p; simp [pegSkipLoop]
  | succ n ih =>
    intro p
    simp only [pegSkipLoop]
    rw [pegSkipAlts_shift h p xs hx]
    cases pegSkipAlts run p xs with
    | none => rfl
    | some o =>
      cases o with
      | none => simp [shiftRes, shiftVal]
      | some p' => exact ih p'

def shiftBest (k : Nat) : Option (Val × Nat) → Option (Val × Nat) :=
  Option.map (fun b => (shiftVal k b.1, b.2 + k))

theorem pegLongestOpts_shift (h : ShiftRel k run run') (p : Nat) :
    ∀ (xs : List Expr) (best : Option (Val × Nat)), noBacktrackList xs = true →
    pegLongestOpts run' (p + k) xs (shiftBest k best) =
      (pegLongestOpts run p xs best).map (shiftBest k) := by
  intro xs
  induction xs with
  | nil => intro best _; simp [pegLongestOpts]
  | cons e es ih =>
    intro best hx
    simp only [noBacktrackList, Bool.and_eq_true] at hx
    simp only [pegLongestOpts]
    rw [h e p hx.1]
    cases run e p with
    | none => rfl
    | some r =>
      cases r with
      | fail => exact ih best hx.2
      | ok v p' =>
        simp only [Option.map_some, shiftRes]
        cases best with
        | none => exact ih (some (v, p')) hx.2
        | some b =>
          obtain ⟨bv, bp⟩ := b
          simp only [shiftBest, Option.map_some]
          by_cases hlt : bp < p'
          · have hlt' : bp + k < p' + k := by omega
            rw [if_pos hlt', if_pos hlt]
            exact ih (some (v, p')) hx.2
          · have hlt' : ¬ bp + k < p' + k := by omega
            rw [if_neg hlt', if_neg hlt]
            exact ih (some (bv, bp)) hx.2

theorem pegSkipTo_shift (h : ShiftRel k run run') (P : Program) (skip : Bool) (e : Nat) :
    pegSkipTo P run' skip (e + k) = (pegSkipTo P run skip e).map (· + k) := by
  unfold pegSkipTo
  cases skip with
  | false => simp
  | true =>
    simp only [if_true]
    cases P.ignored with
    | none => rfl
    | some i =>
      simp only
      rw [h (.ref i) e (by simp [noBacktrack])]
      cases run (.ref i) e with
      | none => rfl
      | some r => cases r <;> rfl

/-! ### operator tables: the stack machinery commutes with the shift -/

def shiftEntry (k : Nat) (o : OpEntry) : OpEntry := ⟨o.prec, o.assoc, shiftVal k o.op⟩

def shiftTree (k : Nat) : OTree → OTree
  | .leaf v => .leaf (shiftVal k v)
  | .infix l o r => .infix (shiftTree k l) (shiftEntry k o) (shiftTree k r)
  | .prefix o r => .prefix (shiftEntry k o) (shiftTree k r)
  | .postfix l prec op => .postfix (shiftTree k l) prec (shiftVal k op)

def shiftState (k : Nat) (st : OTState) : OTState :=
  { operands := st.operands.map (shiftTree k)
    ops := st.ops.map (shiftEntry k)
    marker := st.marker
    outerCp := st.outerCp + k
    pos := st.pos + k }

def shiftStacks (k : Nat) (r : List OpEntry × List OTree) : List OpEntry × List OTree :=
  (r.1.map (shiftEntry k), r.2.map (shiftTree k))

def shiftStep (k : Nat) : InfixStep → InfixStep
  | .go ops operands => .go (ops.map (shiftEntry k)) (operands.map (shiftTree k))
  | .conflict ops operands => .conflict (ops.map (shiftEntry k)) (operands.map (shiftTree k))

theorem decodeOp_shift (k : Nat) (v : Val) : decodeOp (shiftVal k v) = (decodeOp v).map (shiftEntry k) := by
  cases v with
  | tuple xs =>
    rcases xs with _ | ⟨a, _ | ⟨b, _ | ⟨c, _ | ⟨d, t⟩⟩⟩⟩
    · simp [shiftVal, shiftVals, decodeOp]
    · simp [shiftVal, shiftVals, decodeOp]
    · simp [shiftVal, shiftVals, decodeOp]
    · cases a <;> cases b <;> simp [shiftVal, shiftVals, decodeOp, shiftEntry]
    · simp [shiftVal, shiftVals, decodeOp]
  | _ => simp [shiftVal, decodeOp]

theorem decodePost_shift (k : Nat) (v : Val) :
    decodePost (shiftVal k v) = (decodePost v).map (fun r => (r.1, shiftVal k r.2)) := by
  cases v with
  | tuple xs =>
    rcases xs with _ | ⟨a, _ | ⟨b, _ | ⟨c, t⟩⟩⟩
    · simp [shiftVal, shiftVals, decodePost]
    · simp [shiftVal, shiftVals, decodePost]
    · cases a <;> simp [shiftVal, shiftVals, decodePost]
    · simp [shiftVal, shiftVals, decodePost]
  | _ => simp [shiftVal, decodePost]

theorem toVal_shift (k : Nat) : ∀ t : OTree, OTree.toVal (shiftTree k t) = shiftVal k (OTree.toVal t) := by
  intro t
  induction t with
  | leaf v => rfl
  | «infix» l o r ihl ihr =>
    simp [OTree.toVal, shiftTree, mkInfix, shiftVal, shiftFields, shiftSpan, shiftEntry, ihl, ihr]
  | «prefix» o r ihr =>
    simp [OTree.toVal, shiftTree, mkPrefix, shiftVal, shiftFields, shiftSpan, shiftEntry, ihr]
  | «postfix» l prec op ihl =>
    simp [OTree.toVal, shiftTree, mkPostfix, shiftVal, shiftFields, shiftSpan, ihl]

theorem popOperator_shift (k : Nat) (ops : List OpEntry) (operands : List OTree) :
    popOperator (ops.map (shiftEntry k)) (operands.map (shiftTree k)) =
      (popOperator ops operands).map (shiftStacks k) := by
  cases ops with
  | nil => rfl
  | cons o ops' =>
    simp only [popOperator, List.map_cons]
    have ha : (shiftEntry k o).assoc = o.assoc := rfl
    rw [ha]
    by_cases hz : o.assoc ≠ 0
    · rw [if_pos hz, if_pos hz]
      cases operands with
      | nil => rfl
      | cons r t =>
        cases t with
        | nil => rfl
        | cons l rest => rfl
    · rw [if_neg hz, if_neg hz]
      cases operands with
      | nil => rfl
      | cons r t => rfl

theorem reducePost_shift (k : Nat) (prec : Int) : ∀ (ops : List OpEntry) (operands : List OTree),
    reducePost prec (ops.map (shiftEntry k)) (operands.map (shiftTree k)) =
      (reducePost prec ops operands).map (shiftStacks k) := by
  intro ops
  induction ops with
  | nil => intro operands; rfl
  | cons o ops ih =>
    intro operands
    simp only [reducePost, List.map_cons]
    have hp : (shiftEntry k o).prec = o.prec := rfl
    rw [hp]
    by_cases hlt : o.prec < prec
    · rw [if_pos hlt, if_pos hlt, ← List.map_cons, popOperator_shift]
      cases popOperator (o :: ops) operands with
      | none => rfl
      | some r =>
        obtain ⟨a, b⟩ := r
        exact ih b
    · rw [if_neg hlt, if_neg hlt]; rfl

theorem reduceInfix_shift (k : Nat) (prec : Int) : ∀ (ops : List OpEntry) (operands : List OTree),
    reduceInfix prec (ops.map (shiftEntry k)) (operands.map (shiftTree k)) =
      (reduceInfix prec ops operands).map (shiftStep k) := by
  intro ops
  induction ops with
  | nil => intro operands; rfl
  | cons o ops ih =>
    intro operands
    simp only [reduceInfix, List.map_cons]
    have hp : (shiftEntry k o).prec = o.prec := rfl
    have ha : (shiftEntry k o).assoc = o.assoc := rfl
    rw [hp, ha]
    by_cases hlt : o.prec < prec ∨ (o.prec = prec ∧ o.assoc = 1)
    · rw [if_pos hlt, if_pos hlt, ← List.map_cons, popOperator_shift]
      cases popOperator (o :: ops) operands with
      | none => rfl
      | some r =>
        obtain ⟨a, b⟩ := r
        exact ih b
    · rw [if_neg hlt, if_neg hlt]
      by_cases hc : o.prec = prec ∧ o.assoc = 3
      · rw [if_pos hc, if_pos hc]; rfl
      · rw [if_neg hc, if_neg hc]; rfl

theorem popAll_shift (k : Nat) : ∀ (ops : List OpEntry) (operands : List OTree),
    popAll (ops.map (shiftEntry k)) (operands.map (shiftTree k)) =
      (popAll ops operands).map (List.map (shiftTree k)) := by
  intro ops
  induction ops with
  | nil => intro operands; rfl
  | cons o ops ih =>
    intro operands
    simp only [popAll, List.map_cons]
    rw [← List.map_cons, popOperator_shift]
    cases popOperator (o :: ops) operands with
    | none => rfl
    | some r =>
      obtain ⟨a, b⟩ := r
      exact ih b

theorem finishTable_shift (k : Nat) (ops : List OpEntry) (operands : List OTree) (marker : Nat) :
    finishTable (ops.map (shiftEntry k)) (operands.map (shiftTree k)) marker =
      (finishTable ops operands marker).map (shiftTree k) := by
  unfold finishTable
  rw [List.length_map, ← List.map_drop, popAll_shift]
  cases popAll (List.drop (ops.length - marker) ops) operands with
  | none => rfl
  | some operands' => simp

theorem shiftState_pos (k : Nat) (st : OTState) : (shiftState k st).pos = st.pos + k := rfl
theorem shiftState_outerCp (k : Nat) (st : OTState) : (shiftState k st).outerCp = st.outerCp + k := rfl
theorem shiftState_marker (k : Nat) (st : OTState) : (shiftState k st).marker = st.marker := rfl
theorem shiftState_ops (k : Nat) (st : OTState) : (shiftState k st).ops = st.ops.map (shiftEntry k) := rfl
theorem shiftState_operands (k : Nat) (st : OTState) :
    (shiftState k st).operands = st.operands.map (shiftTree k) := rfl

/-- the four sub-parsers of a table are free of lookbehind -/
structure NoBacktrackT (T : PTableExprs) : Prop where
  prefixes : ∀ pe, T.prefixes = some pe → noBacktrack pe = true
  operands : noBacktrack T.operands = true
  postfixes : ∀ pe, T.postfixes = some pe → noBacktrack pe = true
  infixes : ∀ pe, T.infixes = some pe → noBacktrack pe = true

theorem finish_shift (k : Nat) (ops : List OpEntry) (operands : List OTree) (marker q : Nat) :
    (match finishTable (ops.map (shiftEntry k)) (operands.map (shiftTree k)) marker with
      | none => none
      | some v => some (Res.ok v.toVal (q + k))) =
    Option.map (shiftRes k)
      (match finishTable ops operands marker with
      | none => none
      | some v => some (Res.ok v.toVal q)) := by
  rw [finishTable_shift]
  cases finishTable ops operands marker with
  | none => rfl
  | some t => simp [shiftRes, toVal_shift]

theorem pegOT_shift (h : ShiftRel k run run') (T : PTableExprs) (hT : NoBacktrackT T) :
    ∀ (fuel : Nat) (ph : Phase) (st : OTState),
    pegOT run' T fuel ph (shiftState k st) = (pegOT run T fuel ph st).map (shiftRes k) := by
  intro fuel
  induction fuel with
  | zero => intro ph st; simp [pegOT]
  | succ n ih =>
    intro ph st
    cases ph with
    | pre =>
      simp only [pegOT, shiftState_pos, shiftState_outerCp, shiftState_marker, shiftState_ops,
        shiftState_operands]
      cases hp : T.prefixes with
      | none => exact ih .operand st
      | some pe =>
        dsimp only
        rw [h pe st.pos (hT.prefixes pe hp)]
        cases run pe st.pos with
        | none => rfl
        | some r =>
          cases r with
          | fail => exact ih .operand st
          | ok v p' =>
            simp only [Option.map_some, shiftRes, decodeOp_shift]
            cases decodeOp v with
            | none => rfl
            | some o => exact ih .pre { st with ops := o :: st.ops, pos := p' }
    | operand =>
      simp only [pegOT, shiftState_pos, shiftState_outerCp, shiftState_marker, shiftState_ops,
        shiftState_operands]
      rw [h T.operands st.pos hT.operands]
      cases run T.operands st.pos with
      | none => rfl
      | some r =>
        cases r with
        | fail =>
          simp only [Option.map_some, shiftRes, List.isEmpty_map]
          by_cases he : st.operands.isEmpty = true
          · rw [if_pos he, if_pos he]; rfl
          · rw [if_neg he, if_neg he]
            exact finish_shift k _ _ _ _
        | ok v p' => exact ih .post { st with operands := .leaf v :: st.operands, pos := p' }
    | post =>
      simp only [pegOT, shiftState_pos, shiftState_outerCp, shiftState_marker, shiftState_ops,
        shiftState_operands, List.length_map]
      cases hp : T.postfixes with
      | none => exact ih .inf { st with marker := st.ops.length, outerCp := st.pos }
      | some pe =>
        dsimp only
        rw [h pe st.pos (hT.postfixes pe hp)]
        cases run pe st.pos with
        | none => rfl
        | some r =>
          cases r with
          | fail => exact ih .inf { st with marker := st.ops.length, outerCp := st.pos }
          | ok v p' =>
            simp only [Option.map_some, shiftRes, decodePost_shift]
            cases decodePost v with
            | none => rfl
            | some po =>
              obtain ⟨prec, op⟩ := po
              simp only [Option.map_some, reducePost_shift]
              cases reducePost prec st.ops st.operands with
              | none => rfl
              | some oo =>
                obtain ⟨ops', operands'⟩ := oo
                cases operands' with
                | nil => rfl
                | cons x rest =>
                  exact ih .post { st with ops := ops', operands := .postfix x prec op :: rest, pos := p' }
    | inf =>
      simp only [pegOT, shiftState_pos, shiftState_outerCp, shiftState_marker, shiftState_ops,
        shiftState_operands]
      cases hp : T.infixes with
      | none => exact finish_shift k _ _ _ _
      | some ie =>
        dsimp only
        rw [h ie st.pos (hT.infixes ie hp)]
        cases run ie st.pos with
        | none => rfl
        | some r =>
          cases r with
          | fail => exact finish_shift k _ _ _ _
          | ok v p' =>
            simp only [Option.map_some, shiftRes, decodeOp_shift]
            cases decodeOp v with
            | none => rfl
            | some o =>
              simp only [Option.map_some]
              have hpr : (shiftEntry k o).prec = o.prec := rfl
              rw [hpr, reduceInfix_shift]
              cases reduceInfix o.prec st.ops st.operands with
              | none => rfl
              | some step =>
                cases step with
                | conflict ops' operands' => exact finish_shift k _ _ _ _
                | go ops' operands' =>
                  simp only [Option.map_some, shiftStep, List.length_map]
                  exact ih .pre
                    { st with ops := o :: ops', operands := operands', marker := ops'.length, pos := p' }

end helpers

/-! ### the sub-parsers of a table -/

theorem combineRows_noBacktrack : ∀ (xs : List Expr), noBacktrackList xs = true →
    ∀ e, combineRows xs = some e → noBacktrack e = true := by
  intro xs hx e he
  cases xs with
  | nil => simp [combineRows] at he
  | cons x t =>
    cases t with
    | nil =>
      simp only [combineRows, Option.some.injEq] at he
      subst he
      simp only [noBacktrackList, Bool.and_eq_true] at hx
      exact hx.1
    | cons y t' =>
      simp only [combineRows, Option.some.injEq] at he
      subst he
      simpa only [noBacktrack] using hx

theorem noBacktrackT_ptableExprs (pre : List Expr) (operand : Expr) (mixfix post inf : List Expr)
    (h : noBacktrack (.optable pre operand mixfix post inf) = true) :
    NoBacktrackT (ptableExprs pre operand mixfix post inf) := by
  simp only [noBacktrack, Bool.and_eq_true] at h
  obtain ⟨⟨⟨⟨h1, h2⟩, h3⟩, h4⟩, h5⟩ := h
  refine ⟨combineRows_noBacktrack pre h1, ?_, combineRows_noBacktrack post h4, combineRows_noBacktrack inf h5⟩
  simp only [ptableExprs]
  cases mixfix with
  | nil => simpa [combineRows] using h2
  | cons m ms =>
    simp only [combineRows, Option.getD_some, noBacktrack, noBacktrackList, Bool.and_eq_true]
    simp only [noBacktrackList, Bool.and_eq_true] at h3
    exact ⟨h2, h3⟩

/-! ### the shift law -/

theorem peg_shiftRel (P : Program) (pre inp : List Nat) (hm : MatcherShift P pre inp)
    (hP : noBacktrackProg P = true) :
    ∀ (fuel : Nat), ShiftRel pre.length (peg P inp fuel) (peg P (pre ++ inp) fuel) := by
  intro fuel
  induction fuel with
  | zero => intro e p _; simp [peg]
  | succ n ih =>
    intro e p he
    cases e with
    | str s skip =>
      simp only [peg, matchAt_shift]
      by_cases hs : s.isEmpty = true
      · rw [if_pos hs, if_pos hs]; simp [shiftRes, shiftVal_lit]
      · rw [if_neg hs, if_neg hs]
        by_cases hma : matchAt inp p s = true
        · rw [if_pos hma, if_pos hma]
          have hpos : p + pre.length + s.length = p + s.length + pre.length := by omega
          rw [hpos, pegSkipTo_shift ih]
          cases pegSkipTo P (peg P inp n) skip (p + s.length) with
          | none => rfl
          | some p' => simp [shiftRes, shiftVal_lit]
        · rw [if_neg hma, if_neg hma]; rfl
    | regex rx skip =>
      simp only [peg]
      have hmm : P.matcher rx (pre ++ inp) (p + pre.length) = (P.matcher rx inp p).map (· + pre.length) := by
        have := hm rx p
        rwa [Nat.add_comm pre.length p] at this
      rw [hmm]
      cases P.matcher rx inp p with
      | none => rfl
      | some e' =>
        simp only [Option.map_some]
        rw [pegSkipTo_shift ih]
        cases pegSkipTo P (peg P inp n) skip e' with
        | none => rfl
        | some p' =>
          have hsub : e' + pre.length - (p + pre.length) = e' - p := by omega
          simp [shiftRes, shiftVal_lit, drop_shift, hsub]
    | byte b skip =>
      simp only [peg, getElem?_shift]
      by_cases hb : (P.bytesMode && inp[p]? == some b) = true
      · rw [if_pos hb, if_pos hb]
        have hpos : p + pre.length + 1 = p + 1 + pre.length := by omega
        rw [hpos, pegSkipTo_shift ih]
        cases pegSkipTo P (peg P inp n) skip (p + 1) with
        | none => rfl
        | some p' => simp [shiftRes, shiftVal]
      · rw [if_neg hb, if_neg hb]; rfl
    | ref i =>
      simp only [peg]
      cases hb : P.rules[i]? with
      | none => rfl
      | some body =>
        dsimp only
        have hbody : noBacktrack body = true := by
          have hmem := List.mem_of_getElem? hb
          simp only [noBacktrackProg, List.all_eq_true] at hP
          exact hP body hmem
        exact ih body p hbody
    | seq xs =>
      simp only [peg]
      simp only [noBacktrack] at he
      exact pegSeq_shift ih xs p [] he
    | cls name xs keep =>
      simp only [peg]
      simp only [noBacktrack] at he
      exact pegCls_shift ih name p xs keep p [] he
    | discard a b left =>
      simp only [peg]
      simp only [noBacktrack, Bool.and_eq_true] at he
      rw [ih a p he.1]
      cases peg P inp n a p with
      | none => rfl
      | some r =>
        cases r with
        | fail => rfl
        | ok va pa =>
          simp only [Option.map_some, shiftRes]
          rw [ih b pa he.2]
          cases peg P inp n b pa with
          | none => rfl
          | some r2 =>
            cases r2 with
            | fail => rfl
            | ok vb pb => cases left <;> rfl
    | choice xs =>
      simp only [peg]
      simp only [noBacktrack] at he
      exact pegChoice_shift ih xs p he
    | opt x =>
      simp only [peg]
      simp only [noBacktrack] at he
      rw [ih x p he]
      cases peg P inp n x p with
      | none => rfl
      | some r => cases r <;> rfl
    | list x min extra =>
      simp only [peg]
      simp only [noBacktrack] at he
      exact pegList_shift ih n x he min _ p
    | sep x s o =>
      simp only [peg]
      simp only [noBacktrack, Bool.and_eq_true] at he
      exact pegSep_shift ih n x s he.1 he.2 o p
    | expect x =>
      simp only [peg]
      simp only [noBacktrack] at he
      rw [ih x p he]
      cases peg P inp n x p with
      | none => rfl
      | some r => cases r <;> rfl
    | expectNot x =>
      simp only [peg]
      simp only [noBacktrack] at he
      rw [ih x p he]
      cases peg P inp n x p with
      | none => rfl
      | some r => cases r <;> rfl
    | skip xs =>
      simp only [peg]
      simp only [noBacktrack] at he
      exact pegSkipLoop_shift ih xs he n p
    | longest xs =>
      simp only [peg]
      simp only [noBacktrack] at he
      have hl := pegLongestOpts_shift ih p xs none he
      rw [show shiftBest pre.length none = none from rfl] at hl
      rw [hl]
      cases pegLongestOpts (peg P inp n) p xs none with
      | none => rfl
      | some o =>
        cases o with
        | none => rfl
        | some b => obtain ⟨v, p'⟩ := b; rfl
    | backtrack c => simp [noBacktrack] at he
    | fail => simp [peg, shiftRes]
    | py c => simp [peg, shiftRes, shiftVal_const]
    | tagged x tag =>
      simp only [peg]
      simp only [noBacktrack] at he
      rw [ih x p he]
      cases peg P inp n x p with
      | none => rfl
      | some r =>
        cases r with
        | fail => rfl
        | ok v p' => simp [shiftRes, shiftVal, shiftVals_append, shiftVals_ints, shiftVals]
    | optable pre' operand mixfix post inf =>
      simp only [peg]
      exact pegOT_shift ih _ (noBacktrackT_ptableExprs _ _ _ _ _ he) n .pre ⟨[], [], 0, p, p⟩

/-- **Shift law of the specification.**  Without lookbehind, and with a regex matcher that does
    not look behind either, the meaning of an expression on `pre ++ inp` from `pre.length + p` is
    its meaning on `inp` from `p`, moved by `pre.length`. -/
theorem peg_shift (P : Program) (pre inp : List Nat) (hm : MatcherShift P pre inp) (hP : noBacktrackProg P = true) :
    ∀ (fuel : Nat) (e : Expr) (p : Nat), noBacktrack e = true →
      peg P (pre ++ inp) fuel e (pre.length + p) = (peg P inp fuel e p).map (shiftRes pre.length) := by
  intro fuel e p he
  rw [Nat.add_comm pre.length p]
  exact peg_shiftRel P pre inp hm hP fuel e p he

end Sourcer
