import Sourcer.Walk
/-
  C15: the explicit-stack loops of `visit` and `traverse` compute the recursive depth-first
  specifications, for arbitrary sharing; the specification of `visit` yields every reachable
  parsed object exactly once.
-/
namespace Sourcer.Walk

theorem sizeS_append (xs ys : List T) : sizeS (xs ++ ys) = sizeS xs + sizeS ys := by
  induction xs with
  | nil => simp [sizeS]
  | cons x xs ih => simp [sizeS, ih]; omega

theorem sizeS_map (cs : List (Nat × T)) : sizeS (cs.map (·.2)) = sizeL cs := by
  induction cs with
  | nil => simp [sizeS, sizeL]
  | cons c cs ih => simp [sizeS, sizeL, ih]

theorem dfsS_children (cs : List (Nat × T)) : ∀ (rest : List T) (V : List Nat),
    dfsS (cs.map (·.2) ++ rest) V =
      ((dfsL cs V).1 ++ (dfsS rest (dfsL cs V).2).1, (dfsS rest (dfsL cs V).2).2) := by
  induction cs with
  | nil => intro rest V; simp [dfsL]
  | cons c cs ih =>
    intro rest V
    simp only [List.map_cons, List.cons_append, dfsS, dfsL]
    rw [ih]
    simp [List.append_assoc]

/-- **C15 (visit).**  The loop yields exactly what the recursive first-occurrence pre-order yields. -/
theorem visitLoop_eq_dfs : ∀ (fuel : Nat) (stack : List T) (V : List Nat), sizeS stack < fuel →
    visitLoop fuel stack V = (dfsS stack V).1 := by
  intro fuel
  induction fuel with
  | zero => intro stack V h; omega
  | succ n ih =>
    intro stack V h
    cases stack with
    | nil => simp [visitLoop, dfsS]
    | cons t rest =>
      obtain ⟨k, id, cs⟩ := t
      have hsz : sizeS (cs.map (·.2) ++ rest) < n := by
        rw [sizeS_append, sizeS_map]
        simp only [sizeS, T.size] at h
        omega
      have hrest : sizeS rest < n := by
        simp only [sizeS, T.size] at h
        omega
      cases k
      case leaf => simp only [visitLoop, dfsS, dfs]; rw [ih _ _ hrest]; simp
      case obj =>
        simp only [visitLoop, dfsS, dfs]
        by_cases hv : id ∈ V
        · simp only [hv, ↓reduceIte]; rw [ih _ _ hrest]; simp
        · simp only [hv, ↓reduceIte]
          rw [ih _ _ hsz, dfsS_children]
          simp
      -- list, tuple, dict: a container met before simply drops from the stack
      all_goals
        simp only [visitLoop, dfsS, dfs]
        by_cases hv : id ∈ V
        · simp only [hv, ↓reduceIte]; rw [ih _ _ hrest]; simp
        · simp only [hv, ↓reduceIte]
          rw [ih _ _ hsz, dfsS_children]

theorem visit_eq_dfs (t : T) : visit t = (dfs t []).1 := by
  unfold visit
  rw [visitLoop_eq_dfs _ _ _ (by simp [sizeS])]
  simp [dfsS]

/-! ### the specification yields every reachable object exactly once -/

mutual
/-- ids of the parsed objects reachable through fields, lists, tuples and dict values -/
def objIds : T → List Nat
  | .mk k id cs =>
    match k with
    | .leaf => []
    | .obj => id :: objIdsL cs
    | _ => objIdsL cs
def objIdsL : List (Nat × T) → List Nat
  | [] => []
  | c :: cs => objIds c.2 ++ objIdsL cs
end

mutual
/-- ids of all non-leaf nodes (objects, lists, tuples, dicts), in pre-order: the identities that
    `visit` remembers -/
def nodeIds : T → List Nat
  | .mk k id cs =>
    match k with
    | .leaf => []
    | _ => id :: nodeIdsL cs
def nodeIdsL : List (Nat × T) → List Nat
  | [] => []
  | c :: cs => nodeIds c.2 ++ nodeIdsL cs
end

/-- what it means for a yield list `ys` (with resulting visited set `V'`) to be right for a set
    `ids` of reachable object ids, starting from visited set `V`.  The visited set also receives
    the identities of the containers met, so it is only bounded from below here: it keeps what was
    visited before (`mono`) and contains everything yielded (`yielded`). -/
structure Good (ids ys V V' : List Nat) : Prop where
  fresh : ∀ y ∈ ys, y ∉ V
  nodup : ys.Nodup
  mono : ∀ x ∈ V, x ∈ V'
  yielded : ∀ y ∈ ys, y ∈ V'
  only : ∀ y ∈ ys, y ∈ ids

theorem Good.append {ids1 ids2 ys1 ys2 V V1 V2 : List Nat} (h1 : Good ids1 ys1 V V1)
    (h2 : Good ids2 ys2 V1 V2) : Good (ids1 ++ ids2) (ys1 ++ ys2) V V2 := by
  refine ⟨?_, ?_, ?_, ?_, ?_⟩
  · intro y hy
    rcases List.mem_append.mp hy with h | h
    · exact h1.fresh y h
    · intro hv; exact h2.fresh y h (h1.mono y hv)
  · rw [List.nodup_append]
    refine ⟨h1.nodup, h2.nodup, ?_⟩
    intro a ha b hb hab
    subst hab
    exact h2.fresh a hb (h1.yielded a ha)
  · intro x hx
    exact h2.mono x (h1.mono x hx)
  · intro y hy
    rcases List.mem_append.mp hy with h | h
    · exact h2.mono y (h1.yielded y h)
    · exact h2.yielded y h
  · intro y hy
    rcases List.mem_append.mp hy with h | h
    · exact List.mem_append.mpr (Or.inl (h1.only y h))
    · exact List.mem_append.mpr (Or.inr (h2.only y h))

theorem Good.nil (ids V : List Nat) : Good ids [] V V :=
  ⟨by simp, by simp, fun _ h => h, by simp, by simp⟩

/-- entering a container that was not met before: its identity joins the visited set, nothing is
    yielded for it -/
theorem Good.enter {ids ys V V' : List Nat} {id : Nat} (h : Good ids ys (id :: V) V') :
    Good ids ys V V' :=
  ⟨fun y hy hv => h.fresh y hy (List.mem_cons_of_mem _ hv), h.nodup,
   fun x hx => h.mono x (List.mem_cons_of_mem _ hx), h.yielded, h.only⟩

mutual
theorem dfs_good : ∀ (t : T) (V : List Nat), Good (objIds t) (dfs t V).1 V (dfs t V).2
  | .mk k id cs, V => by
    cases k
    case leaf => simpa [dfs, objIds] using Good.nil [] V
    case obj =>
      simp only [dfs, objIds]
      by_cases hv : id ∈ V
      · simp only [hv, ↓reduceIte]
        exact Good.nil _ V
      · simp only [hv, ↓reduceIte]
        have ih := dfsL_good cs (id :: V)
        refine ⟨?_, ?_, ?_, ?_, ?_⟩
        · intro y hy
          rcases List.mem_cons.mp hy with h | h
          · subst h; exact hv
          · intro hyv; exact ih.fresh y h (List.mem_cons_of_mem _ hyv)
        · refine List.nodup_cons.mpr ⟨?_, ih.nodup⟩
          intro hmem; exact ih.fresh id hmem (by simp)
        · intro x hx
          exact ih.mono x (List.mem_cons_of_mem _ hx)
        · intro y hy
          rcases List.mem_cons.mp hy with h | h
          · subst h; exact ih.mono y (by simp)
          · exact ih.yielded y h
        · intro y hy
          rcases List.mem_cons.mp hy with h | h
          · subst h; simp
          · exact List.mem_cons_of_mem _ (ih.only y h)
    -- list, tuple, dict
    all_goals
      simp only [dfs, objIds]
      by_cases hv : id ∈ V
      · simp only [hv, ↓reduceIte]
        exact Good.nil _ V
      · simp only [hv, ↓reduceIte]
        exact (dfsL_good cs (id :: V)).enter
theorem dfsL_good : ∀ (cs : List (Nat × T)) (V : List Nat), Good (objIdsL cs) (dfsL cs V).1 V (dfsL cs V).2
  | [], V => by simpa [dfsL, objIdsL] using Good.nil [] V
  | c :: cs, V => by
    simp only [dfsL, objIdsL]
    exact Good.append (dfs_good c.2 V) (dfsL_good cs _)
end

mutual
/-- the visited set grows only by identities of non-leaf nodes of the tree walked -/
theorem dfs_visited_sub : ∀ (t : T) (V : List Nat), ∀ x ∈ (dfs t V).2, x ∈ V ∨ x ∈ nodeIds t
  | .mk k id cs, V => by
    cases k
    case leaf => intro x hx; simp only [dfs] at hx; exact Or.inl hx
    all_goals
      simp only [dfs, nodeIds]
      by_cases hv : id ∈ V
      · simp only [hv, ↓reduceIte]; intro x hx; exact Or.inl hx
      · simp only [hv, ↓reduceIte]
        intro x hx
        rcases dfsL_visited_sub cs (id :: V) x hx with h | h
        · rcases List.mem_cons.mp h with h | h
          · subst h; exact Or.inr (by simp)
          · exact Or.inl h
        · exact Or.inr (List.mem_cons_of_mem _ h)
theorem dfsL_visited_sub : ∀ (cs : List (Nat × T)) (V : List Nat),
    ∀ x ∈ (dfsL cs V).2, x ∈ V ∨ x ∈ nodeIdsL cs
  | [], V => by intro x hx; simp only [dfsL] at hx; exact Or.inl hx
  | c :: cs, V => by
    simp only [dfsL, nodeIdsL]
    intro x hx
    rcases dfsL_visited_sub cs _ x hx with h | h
    · rcases dfs_visited_sub c.2 V x h with h | h
      · exact Or.inl h
      · exact Or.inr (List.mem_append.mpr (Or.inl h))
    · exact Or.inr (List.mem_append.mpr (Or.inr h))
end

mutual
/-- without sharing (no identity of an object or container occurs twice, and none was visited
    before), the pre-order is exactly the list of the reachable objects, parents before children,
    siblings left to right -/
theorem dfs_complete : ∀ (t : T) (V : List Nat), (nodeIds t).Nodup → (∀ x ∈ nodeIds t, x ∉ V) →
    (dfs t V).1 = objIds t
  | .mk k id cs, V, hnd, hdis => by
    cases k
    case leaf => simp [dfs, objIds]
    all_goals
      simp only [dfs, objIds, nodeIds] at hnd hdis ⊢
      have hv : id ∉ V := hdis id (by simp)
      simp only [hv, ↓reduceIte]
      have hnd' := List.nodup_cons.mp hnd
      rw [dfsL_complete cs (id :: V) hnd'.2 (by
        intro x hx hmem
        rcases List.mem_cons.mp hmem with h | h
        · subst h; exact hnd'.1 hx
        · exact hdis x (List.mem_cons_of_mem _ hx) h)]
theorem dfsL_complete : ∀ (cs : List (Nat × T)) (V : List Nat), (nodeIdsL cs).Nodup →
    (∀ x ∈ nodeIdsL cs, x ∉ V) → (dfsL cs V).1 = objIdsL cs
  | [], V, _, _ => by simp [dfsL, objIdsL]
  | c :: cs, V, hnd, hdis => by
    simp only [dfsL, objIdsL, nodeIdsL] at hnd hdis ⊢
    rw [List.nodup_append] at hnd
    have h1 := dfs_complete c.2 V hnd.1 (fun x hx => hdis x (List.mem_append.mpr (Or.inl hx)))
    rw [h1]
    rw [dfsL_complete cs _ hnd.2.1 (by
      intro x hx hmem
      rcases dfs_visited_sub c.2 V x hmem with h | h
      · exact hdis x (List.mem_append.mpr (Or.inr hx)) h
      · exact hnd.2.2 x h x hx rfl)]
end

/-! ### traverse -/

/-- SPEC for a whole stack of pending items -/
def walkS : List Item → List Nat → List Event × List Nat
  | [], V => ([], V)
  | it :: rest, V =>
    if it.finished then
      let r := walkS rest V
      (it.event :: r.1, r.2)
    else
      let r1 := walk it.parent it.field it.child V
      let r2 := walkS rest r1.2
      (r1.1 ++ r2.1, r2.2)

def weight : List Item → Nat
  | [] => 0
  | it :: rest => (if it.finished then 1 else 2 * it.child.size) + weight rest

theorem weight_append (xs ys : List Item) : weight (xs ++ ys) = weight xs + weight ys := by
  induction xs with
  | nil => simp [weight]
  | cons x xs ih => simp [weight, ih]; omega

theorem weight_childItems (p : Nat) (cs : List (Nat × T)) : weight (childItems p cs) = 2 * sizeL cs := by
  induction cs with
  | nil => simp [childItems, weight, sizeL]
  | cons c cs ih =>
    simp only [childItems, List.map_cons, weight, sizeL] at ih ⊢
    simp only [Bool.false_eq_true, ↓reduceIte]
    rw [ih]; omega

theorem T.size_pos (t : T) : 0 < t.size := by
  obtain ⟨k, id, cs⟩ := t; simp [T.size]; omega

theorem walkS_children (p : Nat) (cs : List (Nat × T)) : ∀ (rest : List Item) (V : List Nat),
    walkS (childItems p cs ++ rest) V =
      ((walkL p cs V).1 ++ (walkS rest (walkL p cs V).2).1, (walkS rest (walkL p cs V).2).2) := by
  induction cs with
  | nil => intro rest V; simp [childItems, walkL]
  | cons c cs ih =>
    intro rest V
    simp only [childItems, List.map_cons, List.cons_append, walkS, walkL, Bool.false_eq_true, ↓reduceIte]
    simp only [childItems] at ih
    rw [ih]
    simp [List.append_assoc]

/-- **C15 (traverse).**  The loop emits exactly the events of the recursive specification. -/
theorem traverseLoop_eq_walk : ∀ (fuel : Nat) (stack : List Item) (V : List Nat), weight stack < fuel →
    traverseLoop fuel stack V = (walkS stack V).1 := by
  intro fuel
  induction fuel with
  | zero => intro stack V h; omega
  | succ n ih =>
    intro stack V h
    cases stack with
    | nil => simp [traverseLoop, walkS]
    | cons it rest =>
      by_cases hf : it.finished = true
      · simp only [traverseLoop, walkS, hf, ↓reduceIte]
        rw [ih rest V (by simp only [weight, hf, ↓reduceIte] at h; omega)]
      · simp only [traverseLoop, walkS, hf, Bool.false_eq_true, ↓reduceIte]
        obtain ⟨par, fld, child, fin⟩ := it
        simp only at hf
        have hfalse : fin = false := by simpa using hf
        subst hfalse
        obtain ⟨k, id, cs⟩ := child
        simp only [weight, Bool.false_eq_true, ↓reduceIte, T.size] at h
        have hfinw : ∀ k', weight (({ parent := par, field := fld, child := T.mk k' id cs, finished := true } : Item) :: rest)
            = 1 + weight rest := by intro k'; simp [weight]
        simp only [walk]
        by_cases hk : k = .leaf
        · simp only [hk, ↓reduceIte]
          rw [ih _ V (by rw [hfinw]; omega)]
          simp [walkS, Item.event, T.id]
        · simp only [hk, ↓reduceIte]
          by_cases hv : id ∈ V
          · simp only [hv, ↓reduceIte]
            rw [ih _ V (by rw [hfinw]; omega)]
            simp [walkS, Item.event, T.id]
          · simp only [hv, ↓reduceIte]
            rw [ih _ _ (by rw [weight_append, weight_childItems, hfinw]; omega)]
            rw [walkS_children]
            simp [walkS, Item.event, T.id, List.append_assoc]

theorem traverse_eq_walk (t : T) : traverse t = (walk none none t []).1 := by
  unfold traverse
  rw [traverseLoop_eq_walk _ _ _ (by simp [weight])]
  simp [walkS]

end Sourcer.Walk
