import Sourcer.Expr
/-
  List facts for the lengthening clause of C04: doubling one ignorable character `w` of an input.
  `one pre w post = pre ++ [w] ++ post` is the input, `dbl pre w post = pre ++ [w, w] ++ post` the
  lengthened one, `ins pre.length` maps positions of the first to positions of the second (everything
  after the doubled character moves by one).
-/
namespace Sourcer

def ins (i : Nat) (q : Nat) : Nat := if q ≤ i then q else q + 1

def one (pre : List Nat) (w : Nat) (post : List Nat) : List Nat := pre ++ w :: post
def dbl (pre : List Nat) (w : Nat) (post : List Nat) : List Nat := pre ++ w :: w :: post

theorem ins_le {i q : Nat} (h : q ≤ i) : ins i q = q := by simp [ins, h]
theorem ins_gt {i q : Nat} (h : i < q) : ins i q = q + 1 := by
  have : ¬ q ≤ i := by omega
  simp [ins, this]

theorem ins_lt (i a b : Nat) (h : a < b) : ins i a < ins i b := by
  unfold ins
  split <;> split <;> omega

/-- the lengthened input reads, at the mapped position, what the input reads -/
theorem dbl_get (pre : List Nat) (w : Nat) (post : List Nat) (q : Nat) :
    (dbl pre w post)[ins pre.length q]? = (one pre w post)[q]? := by
  unfold dbl one
  by_cases h1 : q < pre.length
  · rw [ins_le (Nat.le_of_lt h1)]
    rw [List.getElem?_append_left h1, List.getElem?_append_left h1]
  · by_cases h2 : q = pre.length
    · subst h2
      rw [ins_le (Nat.le_refl _)]
      rw [List.getElem?_append_right (Nat.le_refl _), List.getElem?_append_right (Nat.le_refl _)]
      simp
    · have h3 : pre.length < q := by omega
      rw [ins_gt h3]
      rw [List.getElem?_append_right (by omega), List.getElem?_append_right (by omega)]
      have e1 : q + 1 - pre.length = (q - pre.length - 1) + 2 := by omega
      have e2 : q - pre.length = (q - pre.length - 1) + 1 := by omega
      rw [e1, e2]
      simp

theorem one_at (pre : List Nat) (w : Nat) (post : List Nat) : (one pre w post)[pre.length]? = some w := by
  unfold one
  rw [List.getElem?_append_right (Nat.le_refl _)]
  simp

theorem dbl_at (pre : List Nat) (w : Nat) (post : List Nat) : (dbl pre w post)[pre.length]? = some w := by
  unfold dbl
  rw [List.getElem?_append_right (Nat.le_refl _)]
  simp

/-- `text[p : p + len(s)] == s`, read character by character -/
theorem matchAt_iff (inp : List Nat) (p : Nat) (s : List Nat) :
    matchAt inp p s = true ↔ ∀ j, j < s.length → inp[p + j]? = s[j]? := by
  unfold matchAt
  rw [beq_iff_eq]
  constructor
  · intro h j hj
    have : ((inp.drop p).take s.length)[j]? = s[j]? := by rw [h]
    rw [List.getElem?_take_of_lt hj, List.getElem?_drop] at this
    exact this
  · intro h
    apply List.ext_getElem?
    intro j
    by_cases hj : j < s.length
    · rw [List.getElem?_take_of_lt hj, List.getElem?_drop]
      exact h j hj
    · have h1 : s.length ≤ j := by omega
      rw [List.getElem?_eq_none_iff.mpr h1]
      rw [List.getElem?_eq_none_iff]
      simp only [List.length_take]
      omega

/-- a literal without the doubled character matches at corresponding positions, and its end
    positions correspond -/
theorem matchAt_dbl (pre : List Nat) (w : Nat) (post : List Nat) (s : List Nat)
    (hs : ∀ c, c ∈ s → c ≠ w) (q : Nat) :
    matchAt (dbl pre w post) (ins pre.length q) s = matchAt (one pre w post) q s ∧
    (matchAt (one pre w post) q s = true → ins pre.length (q + s.length) = ins pre.length q + s.length) := by
  -- does the literal's window contain the doubled character?
  by_cases hwin : q ≤ pre.length ∧ pre.length < q + s.length
  · -- yes: it cannot match on either input
    obtain ⟨h1, h2⟩ := hwin
    have hj : pre.length - q < s.length := by omega
    have hsj : s[pre.length - q]? ≠ some w := by
      intro hc
      have hm : s[pre.length - q] ∈ s := List.getElem_mem hj
      have : s[pre.length - q] = w := by
        rw [List.getElem?_eq_getElem hj] at hc
        exact Option.some.inj hc
      exact hs _ hm this
    have f1 : matchAt (one pre w post) q s = false := by
      cases hc : matchAt (one pre w post) q s with
      | false => rfl
      | true =>
        have := (matchAt_iff _ _ _).mp hc (pre.length - q) hj
        have e : q + (pre.length - q) = pre.length := by omega
        rw [e, one_at] at this
        exact absurd this.symm hsj
    have f2 : matchAt (dbl pre w post) (ins pre.length q) s = false := by
      cases hc : matchAt (dbl pre w post) (ins pre.length q) s with
      | false => rfl
      | true =>
        have := (matchAt_iff _ _ _).mp hc (pre.length - q) hj
        rw [ins_le h1] at this
        have e : q + (pre.length - q) = pre.length := by omega
        rw [e, dbl_at] at this
        exact absurd this.symm hsj
    exact ⟨by rw [f1, f2], fun h => by rw [f1] at h; exact absurd h (by simp)⟩
  · -- no: every position of the window is on one side of the doubled character
    have hside : ∀ j, j ≤ s.length → ins pre.length (q + j) = ins pre.length q + j := by
      intro j hj
      by_cases ha : pre.length < q
      · rw [ins_gt (by omega), ins_gt ha]; omega
      · have hb : q + s.length ≤ pre.length := by omega
        rw [ins_le (by omega), ins_le (by omega)]
    refine ⟨?_, fun _ => hside s.length (Nat.le_refl _)⟩
    have : (matchAt (dbl pre w post) (ins pre.length q) s = true) ↔ (matchAt (one pre w post) q s = true) := by
      rw [matchAt_iff, matchAt_iff]
      constructor
      · intro h j hj
        have := h j hj
        rw [← hside j (Nat.le_of_lt hj), dbl_get] at this
        exact this
      · intro h j hj
        rw [← hside j (Nat.le_of_lt hj), dbl_get]
        exact h j hj
    cases ha : matchAt (dbl pre w post) (ins pre.length q) s <;> cases hb : matchAt (one pre w post) q s <;> simp_all

end Sourcer
