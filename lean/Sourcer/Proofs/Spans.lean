import Sourcer.Peg
import Sourcer.Proofs.Positions
/-
  C10: spans of class instances in the specification.  For grammars without lookahead values
  (`Expect`) and `Backtrack`, every span inside a value parsed between `p` and `p'` lies in
  `[p, p']`, and values of successive members / elements occupy successive intervals.
-/
namespace Sourcer

mutual
/-- every instance inside the value has a raw span `(s, e)` with `lo ≤ s ≤ e ≤ hi` -/
def spansIn (lo hi : Nat) : Val → Bool
  | .list xs => spansInList lo hi xs
  | .tuple xs => spansInList lo hi xs
  | .obj _ fs sp =>
    (match sp with
      | some (s, e) => decide (lo ≤ s) && decide (s ≤ e) && decide (e ≤ hi)
      | none => true) && spansInFields lo hi fs
  | _ => true
def spansInList (lo hi : Nat) : List Val → Bool
  | [] => true
  | x :: xs => spansIn lo hi x && spansInList lo hi xs
def spansInFields (lo hi : Nat) : List (String × Val) → Bool
  | [] => true
  | f :: fs => spansIn lo hi f.2 && spansInFields lo hi fs
end

mutual
theorem spansIn_mono {lo hi lo' hi' : Nat} (h1 : lo' ≤ lo) (h2 : hi ≤ hi') :
    ∀ v : Val, spansIn lo hi v = true → spansIn lo' hi' v = true
  | .none, _ => by simp [spansIn]
  | .bool _, _ => by simp [spansIn]
  | .int _, _ => by simp [spansIn]
  | .str _, _ => by simp [spansIn]
  | .bytes _, _ => by simp [spansIn]
  | .err, _ => by simp [spansIn]
  | .list xs, h => by simp only [spansIn] at h ⊢; exact spansInList_mono h1 h2 xs h
  | .tuple xs, h => by simp only [spansIn] at h ⊢; exact spansInList_mono h1 h2 xs h
  | .obj _ fs sp, h => by
    simp only [spansIn, Bool.and_eq_true] at h ⊢
    refine ⟨?_, spansInFields_mono h1 h2 fs h.2⟩
    cases sp with
    | none => rfl
    | some se =>
      obtain ⟨s, e⟩ := se
      have := h.1
      simp only [Bool.and_eq_true, decide_eq_true_eq] at this ⊢
      omega
theorem spansInList_mono {lo hi lo' hi' : Nat} (h1 : lo' ≤ lo) (h2 : hi ≤ hi') :
    ∀ xs : List Val, spansInList lo hi xs = true → spansInList lo' hi' xs = true
  | [], _ => by simp [spansInList]
  | x :: xs, h => by
    simp only [spansInList, Bool.and_eq_true] at h ⊢
    exact ⟨spansIn_mono h1 h2 x h.1, spansInList_mono h1 h2 xs h.2⟩
theorem spansInFields_mono {lo hi lo' hi' : Nat} (h1 : lo' ≤ lo) (h2 : hi ≤ hi') :
    ∀ fs : List (String × Val), spansInFields lo hi fs = true → spansInFields lo' hi' fs = true
  | [], _ => by simp [spansInFields]
  | f :: fs, h => by
    simp only [spansInFields, Bool.and_eq_true] at h ⊢
    exact ⟨spansIn_mono h1 h2 f.2 h.1, spansInFields_mono h1 h2 fs h.2⟩
end

/-- successive values occupy successive intervals of `[lo, hi]` -/
def Chain : Nat → Nat → List Val → Prop
  | lo, hi, [] => lo ≤ hi
  | lo, hi, v :: vs => ∃ q, lo ≤ q ∧ spansIn lo q v = true ∧ Chain q hi vs

theorem Chain.le : ∀ {lo hi : Nat} {vs : List Val}, Chain lo hi vs → lo ≤ hi
  | _, _, [], h => h
  | _, _, _ :: _, ⟨_, h1, _, h3⟩ => Nat.le_trans h1 (Chain.le h3)

theorem Chain.spansInList : ∀ {lo hi : Nat} {vs : List Val}, Chain lo hi vs → spansInList lo hi vs = true
  | _, _, [], _ => by simp [Sourcer.spansInList]
  | lo, hi, v :: vs, ⟨q, h1, h2, h3⟩ => by
    simp only [Sourcer.spansInList, Bool.and_eq_true]
    exact ⟨spansIn_mono (Nat.le_refl _) (Chain.le h3) v h2,
      spansInList_mono h1 (Nat.le_refl _) vs (Chain.spansInList h3)⟩

theorem Chain.append : ∀ {lo mid hi : Nat} {vs ws : List Val}, Chain lo mid vs → Chain mid hi ws →
    Chain lo hi (vs ++ ws)
  | _, _, _, [], ws, h1, h2 => by
    cases ws with
    | nil => exact Nat.le_trans h1 h2
    | cons w ws =>
      obtain ⟨q, a, b, c⟩ := h2
      exact ⟨q, Nat.le_trans h1 a, spansIn_mono h1 (Nat.le_refl _) w b, c⟩
  | _, _, _, v :: vs, ws, ⟨q, a, b, c⟩, h2 => ⟨q, a, b, Chain.append c h2⟩

theorem Chain.single {lo hi : Nat} {v : Val} (hle : lo ≤ hi) (h : spansIn lo hi v = true) :
    Chain lo hi [v] := ⟨hi, hle, h, Nat.le_refl _⟩

mutual
/-- no value-producing lookahead and no `Backtrack` -/
def NoLook : Expr → Bool
  | .str _ _ => true
  | .regex _ _ => true
  | .byte _ _ => true
  | .ref _ => true
  | .seq xs => NoLookList xs
  | .cls _ xs _ => NoLookList xs
  | .discard a b _ => NoLook a && NoLook b
  | .choice xs => NoLookList xs
  | .opt e => NoLook e
  | .list e _ _ => NoLook e
  | .sep e s _ => NoLook e && NoLook s
  | .expect _ => false
  | .expectNot e => NoLook e
  | .skip xs => NoLookList xs
  | .longest xs => NoLookList xs
  | .backtrack _ => false
  | .fail => true
  | .py _ => true
  | .tagged e _ => NoLook e
  /- operator tables are outside the fragment of the nesting theorem (their spans are covered by
     the correspondence run only) -/
  | .optable _ _ _ _ _ => false
def NoLookList : List Expr → Bool
  | [] => true
  | x :: xs => NoLook x && NoLookList xs
end

def RulesNoLook (P : Program) : Prop := ∀ (k : Nat) body, P.rules[k]? = some body → NoLook body = true

def PRunOK (run : PRun) : Prop :=
  ∀ e p v p', run e p = some (.ok v p') → NoLook e = true → p ≤ p' ∧ spansIn p p' v = true

theorem Chain.extend : ∀ {lo hi hi' : Nat} {vs : List Val}, Chain lo hi vs → hi ≤ hi' → Chain lo hi' vs
  | _, _, _, [], h, h' => Nat.le_trans h h'
  | _, _, _, _ :: _, ⟨q, a, b, c⟩, h' => ⟨q, a, b, Chain.extend c h'⟩

theorem Chain.snoc {lo mid hi : Nat} {vs : List Val} {v : Val} (h : Chain lo mid vs) (hle : mid ≤ hi)
    (hv : spansIn mid hi v = true) : Chain lo hi (vs ++ [v]) :=
  Chain.append h (Chain.single hle hv)

variable {run : PRun}

theorem scalar_spans (c : PyConst) (lo hi : Nat) : spansIn lo hi c.toVal = true := by
  cases c <;> simp [PyConst.toVal, spansIn]

theorem pegSeq_spans (hr : PRunOK run) (p0 : Nat) : ∀ xs p acc v p',
    pegSeq run xs p acc = some (.ok v p') → NoLookList xs = true → Chain p0 p acc.reverse →
    ∃ vs, v = .list vs ∧ Chain p0 p' vs := by
  intro xs
  induction xs with
  | nil => intro p acc v p' h _ hc; simp [pegSeq] at h; obtain ⟨h1, h2⟩ := h; subst h1 h2; exact ⟨_, rfl, hc⟩
  | cons e es ih =>
    intro p acc v p' h hnl hc
    simp only [NoLookList, Bool.and_eq_true] at hnl
    unfold pegSeq at h
    split at h
    · simp at h
    · simp at h
    · rename_i v1 p1 he
      have h1 := hr e p v1 p1 he hnl.1
      refine ih _ _ _ _ h hnl.2 ?_
      simp only [List.reverse_cons]
      exact Chain.snoc hc h1.1 h1.2

theorem pegCls_spans (hr : PRunOK run) (name : String) (start : Nat) : ∀ xs ks p acc v p',
    pegCls run name start xs ks p acc = some (.ok v p') → NoLookList xs = true → start ≤ p →
    spansInFields start p acc = true →
    ∃ fs, v = .obj name fs (some (start, p')) ∧ start ≤ p' ∧ spansInFields start p' fs = true := by
  intro xs
  induction xs with
  | nil =>
    intro ks p acc v p' h _ hle hf
    simp [pegCls] at h; obtain ⟨h1, h2⟩ := h; subst h1 h2
    refine ⟨_, rfl, hle, ?_⟩
    -- reversing the accumulated fields keeps them inside the span
    have : ∀ (fs acc2 : List (String × Val)), spansInFields start p fs = true →
        spansInFields start p acc2 = true → spansInFields start p (fs.reverseAux acc2) = true := by
      intro fs
      induction fs with
      | nil => intro acc2 _ h2; exact h2
      | cons f fs ih2 =>
        intro acc2 h1 h2
        simp only [spansInFields, Bool.and_eq_true] at h1
        exact ih2 (f :: acc2) h1.2 (by simp [spansInFields, h1.1, h2])
    exact this acc [] hf (by simp [spansInFields])
  | cons e es ih =>
    intro ks p acc v p' h hnl hle hf
    simp only [NoLookList, Bool.and_eq_true] at hnl
    unfold pegCls at h
    split at h
    · simp at h
    · simp at h
    · rename_i v1 p1 he
      have h1 := hr e p v1 p1 he hnl.1
      have hf' : spansInFields start p1 acc = true := spansInFields_mono (Nat.le_refl _) h1.1 acc hf
      have hv' : spansIn start p1 v1 = true := spansIn_mono hle (Nat.le_refl _) v1 h1.2
      refine ih _ _ _ _ _ h hnl.2 (Nat.le_trans hle h1.1) ?_
      split
      · simp [spansInFields, hv', hf']
      · exact hf'

theorem pegChoice_spans (hr : PRunOK run) : ∀ xs p v p',
    pegChoice run xs p = some (.ok v p') → NoLookList xs = true → p ≤ p' ∧ spansIn p p' v = true := by
  intro xs
  induction xs with
  | nil => intro p v p' h; simp [pegChoice] at h
  | cons e es ih =>
    intro p v p' h hnl
    simp only [NoLookList, Bool.and_eq_true] at hnl
    unfold pegChoice at h
    split at h
    · simp at h
    · exact ih _ _ _ h hnl.2
    · rename_i r0 hnf he
      cases r0 with
      | fail => exact absurd rfl hnf
      | ok v1 p1 => simp at h; obtain ⟨h1, h2⟩ := h; subst h1 h2; exact hr e p _ _ he hnl.1

theorem pegListLoop_spans (hr : PRunOK run) (e : Expr) (max : Option Nat) (hnl : NoLook e = true)
    (p0 : Nat) : ∀ fuel p acc acc' p', pegListLoop run e max fuel p acc = some (acc', p') →
    Chain p0 p acc.reverse → Chain p0 p' acc'.reverse := by
  intro fuel
  induction fuel with
  | zero => intro p acc acc' p' h; simp [pegListLoop] at h
  | succ n ih =>
    intro p acc acc' p' h hc
    unfold pegListLoop at h
    split at h
    · simp at h
    · simp at h; obtain ⟨h1, h2⟩ := h; subst h1 h2; exact hc
    · rename_i v p1 he
      have h1 := hr e p v p1 he hnl
      have hc' : Chain p0 p1 (v :: acc).reverse := by
        simp only [List.reverse_cons]; exact Chain.snoc hc h1.1 h1.2
      simp only at h
      split at h
      · simp at h; obtain ⟨h1, h2⟩ := h; subst h1 h2; exact hc'
      · exact ih _ _ _ _ h hc'

/-- what the separated list will return if it stops now -/
def committed (o : SepOpts) (st : List Val) : List Val :=
  if !o.discard && !o.trailer && !st.isEmpty then st.tail else st

theorem pegSepLoop_spans (hr : PRunOK run) (e s : Expr) (o : SepOpts) (hne : NoLook e = true)
    (hns : NoLook s = true) (p0 : Nat) :
    ∀ fuel p st stop saw st' stop' saw', pegSepLoop run e s o fuel p st stop saw = some (st', stop', saw') →
    Chain p0 p st.reverse → Chain p0 stop (committed o st).reverse → stop ≤ p →
    Chain p0 stop' st'.reverse := by
  intro fuel
  induction fuel with
  | zero => intro p st stop saw st' stop' saw' h; simp [pegSepLoop] at h
  | succ n ih =>
    intro p st stop saw st' stop' saw' h hc hcm hle
    unfold pegSepLoop at h
    split at h
    · simp at h
    · simp only [Option.some.injEq, Prod.mk.injEq] at h
      obtain ⟨h1, h2, _⟩ := h; subst h1 h2
      exact hcm
    · rename_i v p1 he
      have h1 := hr e p v p1 he hne
      have hc1 : Chain p0 p1 (v :: st).reverse := by
        simp only [List.reverse_cons]; exact Chain.snoc hc h1.1 h1.2
      simp only at h
      split at h
      · simp at h
      · simp at h; obtain ⟨a, b, _⟩ := h; subst a b; exact hc1
      · rename_i w p2 hs
        have h2 := hr s p1 w p2 hs hns
        refine ih _ _ _ _ _ _ _ h ?_ ?_ ?_
        · cases hd : o.discard
          · simp only [hd, Bool.false_eq_true, ↓reduceIte, List.reverse_cons]
            simp only [List.reverse_cons] at hc1
            exact Chain.snoc hc1 h2.1 h2.2
          · simp only [hd, ↓reduceIte]; exact Chain.extend hc1 h2.1
        · cases hd : o.discard <;> cases ht : o.trailer <;>
            simp only [committed, hd, ht, Bool.not_false, Bool.not_true, Bool.and_true, Bool.and_false,
              Bool.false_and, Bool.true_and, Bool.false_eq_true, ↓reduceIte, List.isEmpty_cons,
              List.tail_cons]
          · exact hc1
          · simp only [List.reverse_cons] at hc1 ⊢; exact Chain.snoc hc1 h2.1 h2.2
          · exact hc1
          · exact Chain.extend hc1 h2.1
        · cases o.trailer <;> simp [h2.1]

theorem pegSkipAlts_spans (hr : PRunOK run) (p : Nat) : ∀ xs q,
    pegSkipAlts run p xs = some (some q) → NoLookList xs = true → p ≤ q := by
  intro xs
  induction xs with
  | nil => intro q h; simp [pegSkipAlts] at h
  | cons x xs ih =>
    intro q h hnl
    simp only [NoLookList, Bool.and_eq_true] at hnl
    unfold pegSkipAlts at h
    split at h
    · simp at h
    · exact ih _ h hnl.2
    · rename_i v p' he
      split at h
      · simp at h; subst h; exact (hr x p v _ he hnl.1).1
      · exact ih _ h hnl.2

theorem pegSkipLoop_spans (hr : PRunOK run) (xs : List Expr) (hnl : NoLookList xs = true) :
    ∀ fuel p v p', pegSkipLoop run xs fuel p = some (.ok v p') → p ≤ p' ∧ v = .none := by
  intro fuel
  induction fuel with
  | zero => intro p v p' h; simp [pegSkipLoop] at h
  | succ n ih =>
    intro p v p' h
    unfold pegSkipLoop at h
    split at h
    · simp at h
    · rename_i q ha
      have := pegSkipAlts_spans hr p xs q ha hnl
      have h2 := ih _ _ _ h
      exact ⟨Nat.le_trans this h2.1, h2.2⟩
    · simp at h; obtain ⟨h1, h2⟩ := h; subst h1 h2; exact ⟨Nat.le_refl _, rfl⟩

theorem pegLongestOpts_spans (hr : PRunOK run) (p : Nat) : ∀ xs best best',
    pegLongestOpts run p xs best = some best' → NoLookList xs = true →
    (∀ v q, best = some (v, q) → p ≤ q ∧ spansIn p q v = true) →
    (∀ v q, best' = some (v, q) → p ≤ q ∧ spansIn p q v = true) := by
  intro xs
  induction xs with
  | nil => intro best best' h _ hb; simp [pegLongestOpts] at h; subst h; exact hb
  | cons x xs ih =>
    intro best best' h hnl hb
    simp only [NoLookList, Bool.and_eq_true] at hnl
    unfold pegLongestOpts at h
    split at h
    · simp at h
    · exact ih _ _ h hnl.2 hb
    · rename_i v1 p1 he
      have h1 := hr x p v1 p1 he hnl.1
      split at h
      · exact ih _ _ h hnl.2 (by intro v q hq; simp at hq; obtain ⟨a, b⟩ := hq; subst a b; exact h1)
      · rename_i bv bp
        split at h
        · exact ih _ _ h hnl.2 (by intro v q hq; simp at hq; obtain ⟨a, b⟩ := hq; subst a b; exact h1)
        · exact ih _ _ h hnl.2 hb

end Sourcer

namespace Sourcer

theorem pegSkipTo_le {P : Program} {run : PRun} (hr : PRunOK run) (skip : Bool) (e p' : Nat)
    (h : pegSkipTo P run skip e = some p') : e ≤ p' := by
  unfold pegSkipTo at h
  cases skip with
  | false => simp at h; subst h; exact Nat.le_refl _
  | true =>
    simp only [↓reduceIte] at h
    split at h
    · simp at h; subst h; exact Nat.le_refl _
    · split at h
      · simp at h
      · rename_i v q he
        simp at h; subst h
        exact (hr _ _ _ _ he (by simp [NoLook])).1
      · simp at h

theorem lit_spans (P : Program) (s : List Nat) (lo hi : Nat) : spansIn lo hi (P.lit s) = true := by
  unfold Program.lit; split <;> simp [spansIn]

/-- **C10 (nesting).**  In the specification, for programs without value-producing lookahead and
    `Backtrack`, a value parsed from `p` to `p'` has `p ≤ p'` and every span inside it lies in
    `[p, p']`. -/
theorem peg_spans (P : Program) (inp : List Nat) (hm : MatcherBounded P) (hP : RulesNoLook P) :
    ∀ fuel, PRunOK (peg P inp fuel) := by
  intro fuel
  induction fuel with
  | zero => intro e p v p' h; simp [peg] at h
  | succ n ih =>
    intro e p v p' h hnl
    cases e with
    | str s skip =>
      simp only [peg] at h
      split at h
      · simp at h; obtain ⟨h1, h2⟩ := h; subst h1 h2; exact ⟨Nat.le_refl _, lit_spans _ _ _ _⟩
      · split at h
        · split at h
          · simp at h
          · rename_i q hsk
            simp at h; obtain ⟨h1, h2⟩ := h; subst h1 h2
            have := pegSkipTo_le ih skip _ _ hsk
            exact ⟨by omega, lit_spans _ _ _ _⟩
        · simp at h
    | regex rx skip =>
      simp only [peg] at h
      split at h
      · rename_i e' hmatch
        split at h
        · simp at h
        · rename_i q hsk
          simp at h; obtain ⟨h1, h2⟩ := h; subst h1 h2
          have := pegSkipTo_le ih skip _ _ hsk
          exact ⟨Nat.le_trans (hm _ _ _ _ hmatch).1 this, lit_spans _ _ _ _⟩
      · simp at h
    | byte b skip =>
      simp only [peg] at h
      split at h
      · split at h
        · simp at h
        · rename_i q hsk
          simp at h; obtain ⟨h1, h2⟩ := h; subst h1 h2
          have := pegSkipTo_le ih skip _ _ hsk
          exact ⟨by omega, by simp [spansIn]⟩
      · simp at h
    | ref k =>
      simp only [peg] at h
      split at h
      · simp at h
      · rename_i body hb
        exact ih body p v p' h (hP k body hb)
    | seq xs =>
      simp only [peg] at h
      obtain ⟨vs, hv, hc⟩ := pegSeq_spans ih p xs p [] v p' h (by simpa [NoLook] using hnl) (Nat.le_refl _)
      subst hv
      exact ⟨hc.le, by simpa [spansIn] using hc.spansInList⟩
    | cls name xs keep =>
      simp only [peg] at h
      obtain ⟨fs, hv, hle, hf⟩ := pegCls_spans ih name p xs keep p [] v p' h (by simpa [NoLook] using hnl)
        (Nat.le_refl _) (by simp [spansInFields])
      subst hv
      exact ⟨hle, by simp [spansIn, hle, hf]⟩
    | discard a b left =>
      simp only [NoLook, Bool.and_eq_true] at hnl
      simp only [peg] at h
      split at h
      · simp at h
      · simp at h
      · rename_i va pa ha
        have h1 := ih a p va pa ha hnl.1
        split at h
        · simp at h
        · simp at h
        · rename_i vb pb hb
          have h2 := ih b pa vb pb hb hnl.2
          simp at h; obtain ⟨hv, hp⟩ := h; subst hv hp
          refine ⟨Nat.le_trans h1.1 h2.1, ?_⟩
          cases left
          · exact spansIn_mono (Nat.le_refl _) h2.1 _ h1.2
          · exact spansIn_mono h1.1 (Nat.le_refl _) _ h2.2
    | choice xs =>
      simp only [peg] at h
      exact pegChoice_spans ih xs p v p' h (by simpa [NoLook] using hnl)
    | opt x =>
      simp only [peg] at h
      split at h
      · simp at h
      · simp at h; obtain ⟨h1, h2⟩ := h; subst h1 h2; exact ⟨Nat.le_refl _, by simp [spansIn]⟩
      · rename_i r0 hnf hx
        cases r0 with
        | fail => exact absurd rfl hnf
        | ok v1 p1 => simp at h; obtain ⟨h1, h2⟩ := h; subst h1 h2; exact ih x p _ _ hx (by simpa [NoLook] using hnl)
    | list x min extra =>
      simp only [peg, pegList] at h
      split at h
      · simp at h; obtain ⟨h1, h2⟩ := h; subst h1 h2; exact ⟨Nat.le_refl _, by simp [spansIn, spansInList]⟩
      · split at h
        · simp at h
        · rename_i acc q hloop
          have hc := pegListLoop_spans ih x _ (by simpa [NoLook] using hnl) p _ _ _ _ _ hloop (Nat.le_refl _)
          split at h
          · simp at h; obtain ⟨h1, h2⟩ := h; subst h1 h2
            exact ⟨hc.le, by simpa [spansIn] using hc.spansInList⟩
          · simp at h
    | sep x s o =>
      simp only [NoLook, Bool.and_eq_true] at hnl
      simp only [peg, pegSep] at h
      split at h
      · simp at h
      · rename_i st stop saw hloop
        have hc := pegSepLoop_spans ih x s o hnl.1 hnl.2 p _ _ _ _ _ _ _ _ hloop (Nat.le_refl _)
          (by simp [committed]; exact Nat.le_refl _) (Nat.le_refl _)
        split at h
        · simp at h; obtain ⟨h1, h2⟩ := h; subst h1 h2
          exact ⟨hc.le, by simpa [spansIn] using hc.spansInList⟩
        · simp at h
    | expect x => simp [NoLook] at hnl
    | expectNot x =>
      simp only [peg] at h
      split at h
      · simp at h
      · simp at h; obtain ⟨h1, h2⟩ := h; subst h1 h2; exact ⟨Nat.le_refl _, by simp [spansIn]⟩
      · simp at h
    | skip xs =>
      simp only [peg] at h
      have := pegSkipLoop_spans ih xs (by simpa [NoLook] using hnl) _ _ _ _ h
      exact ⟨this.1, by rw [this.2]; simp [spansIn]⟩
    | longest xs =>
      simp only [peg] at h
      split at h
      · simp at h
      · simp at h
      · rename_i v1 p1 hopts
        simp at h; obtain ⟨h1, h2⟩ := h; subst h1 h2
        exact pegLongestOpts_spans ih p xs none _ hopts (by simpa [NoLook] using hnl)
          (by intro v q hq; simp at hq) _ _ rfl
    | backtrack k => simp [NoLook] at hnl
    | fail => simp [peg] at h
    | py c =>
      simp only [peg] at h
      simp at h; obtain ⟨h1, h2⟩ := h; subst h1 h2
      exact ⟨Nat.le_refl _, scalar_spans _ _ _⟩
    | tagged x tag =>
      simp only [peg] at h
      split at h
      · simp at h
      · simp at h
      · rename_i v1 p1 hx
        simp at h; obtain ⟨h1, h2⟩ := h; subst h1 h2
        have := ih x p v1 p1 hx (by simpa [NoLook] using hnl)
        refine ⟨this.1, ?_⟩
        have hints : ∀ (t : List Int), spansInList p p1 (t.map Val.int ++ [v1]) = true := by
          intro t
          induction t with
          | nil => simp [spansInList, this.2]
          | cons i t ih2 => simp [spansInList, spansIn, ih2]
        simpa [spansIn] using hints tag
    | optable pre operand mixfix post inf => simp [NoLook] at hnl

end Sourcer
