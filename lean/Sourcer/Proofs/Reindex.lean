import Sourcer.Proofs.Shift
import Sourcer.Proofs.Lengthen
/-
  The re-indexing law of the specification, a generalisation of the shift law of `Shift.lean`
  from the position map `p ↦ p + k` (between `inp` and `pre ++ inp`) to an arbitrary strictly
  monotone position map `φ` between two arbitrary inputs `inp` and `inp'`.

  If the tokens of a grammar (its literals, regexes, bytes) behave correspondingly on the two
  inputs at corresponding positions (`Stable`), and the rule that skips ignorable text does too,
  then for every expression without lookbehind whose tokens are all stable (`tokensOk`), parsing
  `inp'` from `φ q` is parsing `inp` from `q` with every position (result position and the spans of
  the objects in the value) mapped through `φ`.

  Operator tables ARE included (all five components of `.optable` are checked by `tokensOk`).
  `tokensOk` contains the no-lookbehind requirement itself (`.backtrack _ ↦ false`); the theorem
  `tokensOk_noBacktrack` at the end relates it to `noBacktrack` of `Shift.lean`.
-/
namespace Sourcer

/-! ### mapping the positions of values and results -/

def mapSpan (φ : Nat → Nat) : Option (Nat × Nat) → Option (Nat × Nat)
  | some (a, b) => some (φ a, φ b)
  | none => none

mutual
def mapVal (φ : Nat → Nat) : Val → Val
  | .obj c fs sp => .obj c (mapFields φ fs) (mapSpan φ sp)
  | .list xs => .list (mapVals φ xs)
  | .tuple xs => .tuple (mapVals φ xs)
  | .none => .none
  | .bool b => .bool b
  | .int i => .int i
  | .str s => .str s
  | .bytes s => .bytes s
  | .err => .err
def mapVals (φ : Nat → Nat) : List Val → List Val
  | [] => []
  | x :: xs => mapVal φ x :: mapVals φ xs
def mapFields (φ : Nat → Nat) : List (String × Val) → List (String × Val)
  | [] => []
  | f :: fs => (f.1, mapVal φ f.2) :: mapFields φ fs
end

def mapRes (φ : Nat → Nat) : Res → Res
  | .ok v p => .ok (mapVal φ v) (φ p)
  | .fail => .fail

/-! ### strictly monotone position maps -/

structure Mono (φ : Nat → Nat) : Prop where
  lt : ∀ a b, a < b → φ a < φ b

theorem Mono.lt_iff {φ : Nat → Nat} (h : Mono φ) {a b : Nat} : φ a < φ b ↔ a < b := by
  constructor
  · intro hlt
    rcases Nat.lt_or_ge a b with hab | hab
    · exact hab
    · rcases Nat.lt_or_eq_of_le hab with hba | hba
      · have := h.lt b a hba
        omega
      · subst hba
        exact absurd hlt (Nat.lt_irrefl _)
  · exact h.lt a b

theorem Mono.inj {φ : Nat → Nat} (h : Mono φ) {a b : Nat} (he : φ a = φ b) : a = b := by
  rcases Nat.lt_trichotomy a b with h1 | h1 | h1
  · have := h.lt a b h1
    omega
  · exact h1
  · have := h.lt b a h1
    omega

/-! ### expressions whose tokens are all stable (and that contain no lookbehind) -/

mutual
def tokensOk (okS : List Nat → Bool) (okR : Nat → Bool) (okB : Nat → Bool) : Expr → Bool
  | .str s _ => okS s
  | .regex rx _ => okR rx
  | .byte b _ => okB b
  | .ref _ => true
  | .seq xs => tokensOkList okS okR okB xs
  | .cls _ xs _ => tokensOkList okS okR okB xs
  | .discard a b _ => tokensOk okS okR okB a && tokensOk okS okR okB b
  | .choice xs => tokensOkList okS okR okB xs
  | .opt e => tokensOk okS okR okB e
  | .list e _ _ => tokensOk okS okR okB e
  | .sep e s _ => tokensOk okS okR okB e && tokensOk okS okR okB s
  | .expect e => tokensOk okS okR okB e
  | .expectNot e => tokensOk okS okR okB e
  | .skip xs => tokensOkList okS okR okB xs
  | .longest xs => tokensOkList okS okR okB xs
  | .backtrack _ => false
  | .fail => true
  | .py _ => true
  | .tagged e _ => tokensOk okS okR okB e
  | .optable pre operand mixfix post inf =>
    tokensOkList okS okR okB pre && tokensOk okS okR okB operand && tokensOkList okS okR okB mixfix &&
      tokensOkList okS okR okB post && tokensOkList okS okR okB inf
def tokensOkList (okS : List Nat → Bool) (okR : Nat → Bool) (okB : Nat → Bool) : List Expr → Bool
  | [] => true
  | x :: xs => tokensOk okS okR okB x && tokensOkList okS okR okB xs
end

/-! ### the stability hypotheses -/

/-- The two inputs `inp`, `inp'` agree, modulo the position map `φ`, on every token that `okS`,
    `okR`, `okB` accept, and the rule `ign` that skips ignorable text behaves correspondingly. -/
structure Stable (P : Program) (inp inp' : List Nat) (φ : Nat → Nat)
    (okS : List Nat → Bool) (okR okB : Nat → Bool) (ign : Nat) : Prop where
  mono : Mono φ
  str : ∀ s q, okS s = true → matchAt inp' (φ q) s = matchAt inp q s ∧
          (matchAt inp q s = true → φ (q + s.length) = φ q + s.length)
  rx : ∀ rx q, okR rx = true → P.matcher rx inp' (φ q) = (P.matcher rx inp q).map φ ∧
          (∀ e, P.matcher rx inp q = some e →
            (inp'.drop (φ q)).take (φ e - φ q) = (inp.drop q).take (e - q))
  byte : ∀ b q, okB b = true → (inp'[φ q]? == some b) = (inp[q]? == some b) ∧
          (inp[q]? = some b → φ (q + 1) = φ q + 1)
  ignored : P.ignored = none ∨ P.ignored = some ign
  /-- the rule that skips ignorable text behaves correspondingly on the two inputs, for every
      fuel and position -/
  skip : ∀ fuel q, peg P inp' fuel (.ref ign) (φ q) = (peg P inp fuel (.ref ign) q).map (mapRes φ)

/-! ### small facts about the mapping of values -/

theorem mapVals_eq_map (φ : Nat → Nat) : ∀ xs : List Val, mapVals φ xs = xs.map (mapVal φ) := by
  intro xs
  induction xs with
  | nil => simp [mapVals]
  | cons x xs ih => simp [mapVals, ih]

theorem mapFields_eq_map (φ : Nat → Nat) :
    ∀ fs : List (String × Val), mapFields φ fs = fs.map (fun f => (f.1, mapVal φ f.2)) := by
  intro fs
  induction fs with
  | nil => simp [mapFields]
  | cons f fs ih => simp [mapFields, ih]

theorem mapVals_reverse (φ : Nat → Nat) (xs : List Val) : mapVals φ xs.reverse = (mapVals φ xs).reverse := by
  simp [mapVals_eq_map]

theorem mapVals_append (φ : Nat → Nat) (xs ys : List Val) :
    mapVals φ (xs ++ ys) = mapVals φ xs ++ mapVals φ ys := by
  simp [mapVals_eq_map]

theorem mapVals_length (φ : Nat → Nat) (xs : List Val) : (mapVals φ xs).length = xs.length := by
  simp [mapVals_eq_map]

theorem mapVals_isEmpty (φ : Nat → Nat) (xs : List Val) : (mapVals φ xs).isEmpty = xs.isEmpty := by
  cases xs <;> simp [mapVals]

theorem mapVals_tail (φ : Nat → Nat) (xs : List Val) : (mapVals φ xs).tail = mapVals φ xs.tail := by
  cases xs <;> simp [mapVals]

theorem mapFields_reverse (φ : Nat → Nat) (fs : List (String × Val)) :
    mapFields φ fs.reverse = (mapFields φ fs).reverse := by
  simp [mapFields_eq_map]

theorem mapVal_lit (φ : Nat → Nat) (P : Program) (s : List Nat) : mapVal φ (P.lit s) = P.lit s := by
  unfold Program.lit
  split <;> simp [mapVal]

theorem mapVal_const (φ : Nat → Nat) (c : PyConst) : mapVal φ c.toVal = c.toVal := by
  cases c <;> simp [PyConst.toVal, mapVal]

theorem mapVals_ints (φ : Nat → Nat) (tag : List Int) : mapVals φ (tag.map Val.int) = tag.map Val.int := by
  induction tag with
  | nil => simp [mapVals]
  | cons t ts ih => simp [mapVals, mapVal, ih]

/-! ### the helper functions of `peg` commute with the position map -/

/-- `run'` at mapped positions is `run` with mapped outcomes (on expressions with stable tokens) -/
def ReRel (φ : Nat → Nat) (okS : List Nat → Bool) (okR okB : Nat → Bool) (run run' : PRun) : Prop :=
  ∀ e p, tokensOk okS okR okB e = true → run' e (φ p) = (run e p).map (mapRes φ)

section helpers
variable {φ : Nat → Nat} {okS : List Nat → Bool} {okR okB : Nat → Bool} {run run' : PRun}

theorem pegSeq_reindex (h : ReRel φ okS okR okB run run') : ∀ (xs : List Expr) (p : Nat) (acc : List Val),
    tokensOkList okS okR okB xs = true →
    pegSeq run' xs (φ p) (mapVals φ acc) = (pegSeq run xs p acc).map (mapRes φ) := by
  intro xs
  induction xs with
  | nil => intro p acc _; simp [pegSeq, mapRes, mapVal, mapVals_reverse]
  | cons e es ih =>
    intro p acc hx
    simp only [tokensOkList, Bool.and_eq_true] at hx
    simp only [pegSeq]
    rw [h e p hx.1]
    cases run e p with
    | none => rfl
    | some r =>
      cases r with
      | fail => rfl
      | ok v p' =>
        simp only [Option.map_some, mapRes]
        exact ih p' (v :: acc) hx.2

theorem pegCls_reindex (h : ReRel φ okS okR okB run run') (name : String) (start : Nat) :
    ∀ (xs : List Expr) (ks : List (Option String)) (p : Nat) (acc : List (String × Val)),
    tokensOkList okS okR okB xs = true →
    pegCls run' name (φ start) xs ks (φ p) (mapFields φ acc) =
      (pegCls run name start xs ks p acc).map (mapRes φ) := by
  intro xs
  induction xs with
  | nil => intro ks p acc _; simp [pegCls, mapRes, mapVal, mapFields_reverse, mapSpan]
  | cons e es ih =>
    intro ks p acc hx
    simp only [tokensOkList, Bool.and_eq_true] at hx
    simp only [pegCls]
    rw [h e p hx.1]
    cases run e p with
    | none => rfl
    | some r =>
      cases r with
      | fail => rfl
      | ok v p' =>
        simp only [Option.map_some, mapRes]
        cases hk : ks.head? with
        | none => exact ih ks.tail p' acc hx.2
        | some o =>
          cases o with
          | none => exact ih ks.tail p' acc hx.2
          | some f => exact ih ks.tail p' ((f, v) :: acc) hx.2

theorem pegChoice_reindex (h : ReRel φ okS okR okB run run') : ∀ (xs : List Expr) (p : Nat),
    tokensOkList okS okR okB xs = true →
    pegChoice run' xs (φ p) = (pegChoice run xs p).map (mapRes φ) := by
  intro xs
  induction xs with
  | nil => intro p _; simp [pegChoice, mapRes]
  | cons e es ih =>
    intro p hx
    simp only [tokensOkList, Bool.and_eq_true] at hx
    simp only [pegChoice]
    rw [h e p hx.1]
    cases run e p with
    | none => rfl
    | some r =>
      cases r with
      | fail => exact ih p hx.2
      | ok v p' => rfl

theorem pegListLoop_reindex (h : ReRel φ okS okR okB run run') (e : Expr)
    (he : tokensOk okS okR okB e = true) (max : Option Nat) :
    ∀ (fuel p : Nat) (acc : List Val),
    pegListLoop run' e max fuel (φ p) (mapVals φ acc) =
      (pegListLoop run e max fuel p acc).map (fun o => (mapVals φ o.1, φ o.2)) := by
  intro fuel
  induction fuel with
  | zero => intro p acc; simp [pegListLoop]
  | succ n ih =>
    intro p acc
    simp only [pegListLoop]
    rw [h e p he]
    cases run e p with
    | none => rfl
    | some r =>
      cases r with
      | fail => rfl
      | ok v p' =>
        simp only [Option.map_some, mapRes, List.length_cons, mapVals_length]
        by_cases hm : (max == some (acc.length + 1)) = true
        · rw [if_pos hm, if_pos hm]; rfl
        · rw [if_neg hm, if_neg hm]; exact ih p' (v :: acc)

theorem pegList_reindex (h : ReRel φ okS okR okB run run') (fuel : Nat) (e : Expr)
    (he : tokensOk okS okR okB e = true) (min : Nat) (max : Option Nat) (p : Nat) :
    pegList run' fuel e min max (φ p) = (pegList run fuel e min max p).map (mapRes φ) := by
  unfold pegList
  by_cases hm : (max == some 0) = true
  · rw [if_pos hm, if_pos hm]; simp [mapRes, mapVal, mapVals]
  · rw [if_neg hm, if_neg hm]
    have hl := pegListLoop_reindex h e he max fuel p []
    simp only [mapVals] at hl
    rw [hl]
    cases pegListLoop run e max fuel p [] with
    | none => rfl
    | some o =>
      obtain ⟨acc, p'⟩ := o
      simp only [Option.map_some, mapVals_length]
      split <;> simp [mapRes, mapVal, mapVals_reverse]

theorem pegSepLoop_reindex (h : ReRel φ okS okR okB run run') (e s : Expr)
    (he : tokensOk okS okR okB e = true) (hs : tokensOk okS okR okB s = true) (o : SepOpts) :
    ∀ (fuel p : Nat) (st : List Val) (stop : Nat) (saw : Bool),
    pegSepLoop run' e s o fuel (φ p) (mapVals φ st) (φ stop) saw =
      (pegSepLoop run e s o fuel p st stop saw).map (fun out => (mapVals φ out.1, φ out.2.1, out.2.2)) := by
  intro fuel
  induction fuel with
  | zero => intro p st stop saw; simp [pegSepLoop]
  | succ n ih =>
    intro p st stop saw
    simp only [pegSepLoop]
    rw [h e p he]
    cases run e p with
    | none => rfl
    | some r =>
      cases r with
      | fail =>
        simp only [Option.map_some, mapRes, mapVals_isEmpty, mapVals_tail]
        split <;> rfl
      | ok v p1 =>
        simp only [Option.map_some, mapRes]
        rw [h s p1 hs]
        cases run s p1 with
        | none => rfl
        | some r2 =>
          cases r2 with
          | fail => rfl
          | ok w p2 =>
            simp only [Option.map_some, mapRes]
            have e1 : (if o.discard = true then mapVal φ v :: mapVals φ st
                else mapVal φ w :: mapVal φ v :: mapVals φ st) =
                mapVals φ (if o.discard = true then v :: st else w :: v :: st) := by
              cases o.discard <;> rfl
            have e2 : (if o.trailer = true then φ p2 else φ p1) =
                φ (if o.trailer = true then p2 else p1) := by
              cases o.trailer <;> rfl
            rw [e1, e2]
            exact ih _ _ _ _

theorem sepAccepts_reindex (φ : Nat → Nat) (o : SepOpts) (st : List Val) (saw : Bool) :
    sepAccepts o (mapVals φ st) saw = sepAccepts o st saw := by
  simp [sepAccepts, mapVals_isEmpty]

theorem pegSep_reindex (h : ReRel φ okS okR okB run run') (fuel : Nat) (e s : Expr)
    (he : tokensOk okS okR okB e = true) (hs : tokensOk okS okR okB s = true) (o : SepOpts) (p : Nat) :
    pegSep run' fuel e s o (φ p) = (pegSep run fuel e s o p).map (mapRes φ) := by
  unfold pegSep
  have hl := pegSepLoop_reindex h e s he hs o fuel p [] p false
  simp only [mapVals] at hl
  rw [hl]
  cases pegSepLoop run e s o fuel p [] p false with
  | none => rfl
  | some out =>
    obtain ⟨st, stop, saw⟩ := out
    simp only [Option.map_some, sepAccepts_reindex]
    split <;> simp [mapRes, mapVal, mapVals_reverse]

theorem pegSkipAlts_reindex (hm : Mono φ) (h : ReRel φ okS okR okB run run') (p : Nat) :
    ∀ (xs : List Expr), tokensOkList okS okR okB xs = true →
    pegSkipAlts run' (φ p) xs = (pegSkipAlts run p xs).map (Option.map φ) := by
  intro xs
  induction xs with
  | nil => intro _; simp [pegSkipAlts]
  | cons e es ih =>
    intro hx
    simp only [tokensOkList, Bool.and_eq_true] at hx
    simp only [pegSkipAlts]
    rw [h e p hx.1]
    cases run e p with
    | none => rfl
    | some r =>
      cases r with
      | fail => exact ih hx.2
      | ok v p' =>
        simp only [Option.map_some, mapRes]
        have hb : (φ p' != φ p) = (p' != p) := by
          rw [Bool.eq_iff_iff, bne_iff_ne, bne_iff_ne]
          constructor
          · intro h1 h2; exact h1 (by rw [h2])
          · intro h1 h2; exact h1 (hm.inj h2)
        rw [hb]
        split
        · rfl
        · exact ih hx.2

theorem pegSkipLoop_reindex (hm : Mono φ) (h : ReRel φ okS okR okB run run') (xs : List Expr)
    (hx : tokensOkList okS okR okB xs = true) :
    ∀ (fuel p : Nat), pegSkipLoop run' xs fuel (φ p) = (pegSkipLoop run xs fuel p).map (mapRes φ) := by
  intro fuel
  induction fuel with
  | zero => intro p; simp [pegSkipLoop]
  | succ n ih =>
    intro p
    simp only [pegSkipLoop]
    rw [pegSkipAlts_reindex hm h p xs hx]
    cases pegSkipAlts run p xs with
    | none => rfl
    | some o =>
      cases o with
      | none => simp [mapRes, mapVal]
      | some p' => exact ih p'

def mapBest (φ : Nat → Nat) : Option (Val × Nat) → Option (Val × Nat) :=
  Option.map (fun b => (mapVal φ b.1, φ b.2))

theorem pegLongestOpts_reindex (hm : Mono φ) (h : ReRel φ okS okR okB run run') (p : Nat) :
    ∀ (xs : List Expr) (best : Option (Val × Nat)), tokensOkList okS okR okB xs = true →
    pegLongestOpts run' (φ p) xs (mapBest φ best) =
      (pegLongestOpts run p xs best).map (mapBest φ) := by
  intro xs
  induction xs with
  | nil => intro best _; simp [pegLongestOpts]
  | cons e es ih =>
    intro best hx
    simp only [tokensOkList, Bool.and_eq_true] at hx
    simp only [pegLongestOpts]
    rw [h e p hx.1]
    cases run e p with
    | none => rfl
    | some r =>
      cases r with
      | fail => exact ih best hx.2
      | ok v p' =>
        simp only [Option.map_some, mapRes]
        cases best with
        | none => exact ih (some (v, p')) hx.2
        | some b =>
          obtain ⟨bv, bp⟩ := b
          simp only [mapBest, Option.map_some]
          by_cases hlt : bp < p'
          · have hlt' : φ bp < φ p' := hm.lt _ _ hlt
            rw [if_pos hlt', if_pos hlt]
            exact ih (some (v, p')) hx.2
          · have hlt' : ¬ φ bp < φ p' := fun h' => hlt (hm.lt_iff.mp h')
            rw [if_neg hlt', if_neg hlt]
            exact ih (some (bv, bp)) hx.2

theorem pegSkipTo_reindex (h : ReRel φ okS okR okB run run') (P : Program) (skip : Bool) (e : Nat) :
    pegSkipTo P run' skip (φ e) = (pegSkipTo P run skip e).map φ := by
  unfold pegSkipTo
  cases skip with
  | false => simp
  | true =>
    simp only [if_true]
    cases P.ignored with
    | none => rfl
    | some i =>
      simp only
      rw [h (.ref i) e (by simp [tokensOk])]
      cases run (.ref i) e with
      | none => rfl
      | some r => cases r <;> rfl

/-! ### operator tables: the stack machinery commutes with the position map -/

def mapEntry (φ : Nat → Nat) (o : OpEntry) : OpEntry := ⟨o.prec, o.assoc, mapVal φ o.op⟩

def mapTree (φ : Nat → Nat) : OTree → OTree
  | .leaf v => .leaf (mapVal φ v)
  | .infix l o r => .infix (mapTree φ l) (mapEntry φ o) (mapTree φ r)
  | .prefix o r => .prefix (mapEntry φ o) (mapTree φ r)
  | .postfix l prec op => .postfix (mapTree φ l) prec (mapVal φ op)

def mapState (φ : Nat → Nat) (st : OTState) : OTState :=
  { operands := st.operands.map (mapTree φ)
    ops := st.ops.map (mapEntry φ)
    marker := st.marker
    outerCp := φ st.outerCp
    pos := φ st.pos }

def mapStacks (φ : Nat → Nat) (r : List OpEntry × List OTree) : List OpEntry × List OTree :=
  (r.1.map (mapEntry φ), r.2.map (mapTree φ))

def mapStep (φ : Nat → Nat) : InfixStep → InfixStep
  | .go ops operands => .go (ops.map (mapEntry φ)) (operands.map (mapTree φ))
  | .conflict ops operands => .conflict (ops.map (mapEntry φ)) (operands.map (mapTree φ))

theorem decodeOp_reindex (φ : Nat → Nat) (v : Val) :
    decodeOp (mapVal φ v) = (decodeOp v).map (mapEntry φ) := by
  cases v with
  | tuple xs =>
    rcases xs with _ | ⟨a, _ | ⟨b, _ | ⟨c, _ | ⟨d, t⟩⟩⟩⟩
    · simp [mapVal, mapVals, decodeOp]
    · simp [mapVal, mapVals, decodeOp]
    · simp [mapVal, mapVals, decodeOp]
    · cases a <;> cases b <;> simp [mapVal, mapVals, decodeOp, mapEntry]
    · simp [mapVal, mapVals, decodeOp]
  | _ => simp [mapVal, decodeOp]

theorem decodePost_reindex (φ : Nat → Nat) (v : Val) :
    decodePost (mapVal φ v) = (decodePost v).map (fun r => (r.1, mapVal φ r.2)) := by
  cases v with
  | tuple xs =>
    rcases xs with _ | ⟨a, _ | ⟨b, _ | ⟨c, t⟩⟩⟩
    · simp [mapVal, mapVals, decodePost]
    · simp [mapVal, mapVals, decodePost]
    · cases a <;> simp [mapVal, mapVals, decodePost]
    · simp [mapVal, mapVals, decodePost]
  | _ => simp [mapVal, decodePost]

theorem toVal_reindex (φ : Nat → Nat) : ∀ t : OTree, OTree.toVal (mapTree φ t) = mapVal φ (OTree.toVal t) := by
  intro t
  induction t with
  | leaf v => rfl
  | «infix» l o r ihl ihr =>
    simp [OTree.toVal, mapTree, mkInfix, mapVal, mapFields, mapSpan, mapEntry, ihl, ihr]
  | «prefix» o r ihr =>
    simp [OTree.toVal, mapTree, mkPrefix, mapVal, mapFields, mapSpan, mapEntry, ihr]
  | «postfix» l prec op ihl =>
    simp [OTree.toVal, mapTree, mkPostfix, mapVal, mapFields, mapSpan, ihl]

theorem popOperator_reindex (φ : Nat → Nat) (ops : List OpEntry) (operands : List OTree) :
    popOperator (ops.map (mapEntry φ)) (operands.map (mapTree φ)) =
      (popOperator ops operands).map (mapStacks φ) := by
  cases ops with
  | nil => rfl
  | cons o ops' =>
    simp only [popOperator, List.map_cons]
    have ha : (mapEntry φ o).assoc = o.assoc := rfl
    rw [ha]
    by_cases hz : o.assoc ≠ 0
    · rw [if_pos hz, if_pos hz]
      cases operands with
      | nil => rfl
      | cons r t =>
        cases t with
        | nil => rfl
        | cons l rest => rfl
    · rw [if_neg hz, if_neg hz]
      cases operands with
      | nil => rfl
      | cons r t => rfl

theorem reducePost_reindex (φ : Nat → Nat) (prec : Int) : ∀ (ops : List OpEntry) (operands : List OTree),
    reducePost prec (ops.map (mapEntry φ)) (operands.map (mapTree φ)) =
      (reducePost prec ops operands).map (mapStacks φ) := by
  intro ops
  induction ops with
  | nil => intro operands; rfl
  | cons o ops ih =>
    intro operands
    simp only [reducePost, List.map_cons]
    have hp : (mapEntry φ o).prec = o.prec := rfl
    rw [hp]
    by_cases hlt : o.prec < prec
    · rw [if_pos hlt, if_pos hlt, ← List.map_cons, popOperator_reindex]
      cases popOperator (o :: ops) operands with
      | none => rfl
      | some r =>
        obtain ⟨a, b⟩ := r
        exact ih b
    · rw [if_neg hlt, if_neg hlt]; rfl

theorem reduceInfix_reindex (φ : Nat → Nat) (prec : Int) : ∀ (ops : List OpEntry) (operands : List OTree),
    reduceInfix prec (ops.map (mapEntry φ)) (operands.map (mapTree φ)) =
      (reduceInfix prec ops operands).map (mapStep φ) := by
  intro ops
  induction ops with
  | nil => intro operands; rfl
  | cons o ops ih =>
    intro operands
    simp only [reduceInfix, List.map_cons]
    have hp : (mapEntry φ o).prec = o.prec := rfl
    have ha : (mapEntry φ o).assoc = o.assoc := rfl
    rw [hp, ha]
    by_cases hlt : o.prec < prec ∨ (o.prec = prec ∧ o.assoc = 1)
    · rw [if_pos hlt, if_pos hlt, ← List.map_cons, popOperator_reindex]
      cases popOperator (o :: ops) operands with
      | none => rfl
      | some r =>
        obtain ⟨a, b⟩ := r
        exact ih b
    · rw [if_neg hlt, if_neg hlt]
      by_cases hc : o.prec = prec ∧ o.assoc = 3
      · rw [if_pos hc, if_pos hc]; rfl
      · rw [if_neg hc, if_neg hc]; rfl

theorem popAll_reindex (φ : Nat → Nat) : ∀ (ops : List OpEntry) (operands : List OTree),
    popAll (ops.map (mapEntry φ)) (operands.map (mapTree φ)) =
      (popAll ops operands).map (List.map (mapTree φ)) := by
  intro ops
  induction ops with
  | nil => intro operands; rfl
  | cons o ops ih =>
    intro operands
    simp only [popAll, List.map_cons]
    rw [← List.map_cons, popOperator_reindex]
    cases popOperator (o :: ops) operands with
    | none => rfl
    | some r =>
      obtain ⟨a, b⟩ := r
      exact ih b

theorem finishTable_reindex (φ : Nat → Nat) (ops : List OpEntry) (operands : List OTree) (marker : Nat) :
    finishTable (ops.map (mapEntry φ)) (operands.map (mapTree φ)) marker =
      (finishTable ops operands marker).map (mapTree φ) := by
  unfold finishTable
  rw [List.length_map, ← List.map_drop, popAll_reindex]
  cases popAll (List.drop (ops.length - marker) ops) operands with
  | none => rfl
  | some operands' => simp

theorem mapState_pos (φ : Nat → Nat) (st : OTState) : (mapState φ st).pos = φ st.pos := rfl
theorem mapState_outerCp (φ : Nat → Nat) (st : OTState) : (mapState φ st).outerCp = φ st.outerCp := rfl
theorem mapState_marker (φ : Nat → Nat) (st : OTState) : (mapState φ st).marker = st.marker := rfl
theorem mapState_ops (φ : Nat → Nat) (st : OTState) : (mapState φ st).ops = st.ops.map (mapEntry φ) := rfl
theorem mapState_operands (φ : Nat → Nat) (st : OTState) :
    (mapState φ st).operands = st.operands.map (mapTree φ) := rfl

/-- the four sub-parsers of a table have stable tokens (and no lookbehind) -/
structure TokensOkT (okS : List Nat → Bool) (okR okB : Nat → Bool) (T : PTableExprs) : Prop where
  prefixes : ∀ pe, T.prefixes = some pe → tokensOk okS okR okB pe = true
  operands : tokensOk okS okR okB T.operands = true
  postfixes : ∀ pe, T.postfixes = some pe → tokensOk okS okR okB pe = true
  infixes : ∀ pe, T.infixes = some pe → tokensOk okS okR okB pe = true

theorem finish_reindex (φ : Nat → Nat) (ops : List OpEntry) (operands : List OTree) (marker q : Nat) :
    (match finishTable (ops.map (mapEntry φ)) (operands.map (mapTree φ)) marker with
      | none => none
      | some v => some (Res.ok v.toVal (φ q))) =
    Option.map (mapRes φ)
      (match finishTable ops operands marker with
      | none => none
      | some v => some (Res.ok v.toVal q)) := by
  rw [finishTable_reindex]
  cases finishTable ops operands marker with
  | none => rfl
  | some t => simp [mapRes, toVal_reindex]

theorem pegOT_reindex (h : ReRel φ okS okR okB run run') (T : PTableExprs) (hT : TokensOkT okS okR okB T) :
    ∀ (fuel : Nat) (ph : Phase) (st : OTState),
    pegOT run' T fuel ph (mapState φ st) = (pegOT run T fuel ph st).map (mapRes φ) := by
  intro fuel
  induction fuel with
  | zero => intro ph st; simp [pegOT]
  | succ n ih =>
    intro ph st
    cases ph with
    | pre =>
      simp only [pegOT, mapState_pos, mapState_outerCp, mapState_marker, mapState_ops,
        mapState_operands]
      cases hp : T.prefixes with
      | none => exact ih .operand st
      | some pe =>
        dsimp only
        rw [h pe st.pos (hT.prefixes pe hp)]
        cases run pe st.pos with
        | none => rfl
        | some r =>
          cases r with
          | fail => exact ih .operand st
          | ok v p' =>
            simp only [Option.map_some, mapRes, decodeOp_reindex]
            cases decodeOp v with
            | none => rfl
            | some o => exact ih .pre { st with ops := o :: st.ops, pos := p' }
    | operand =>
      simp only [pegOT, mapState_pos, mapState_outerCp, mapState_marker, mapState_ops,
        mapState_operands]
      rw [h T.operands st.pos hT.operands]
      cases run T.operands st.pos with
      | none => rfl
      | some r =>
        cases r with
        | fail =>
          simp only [Option.map_some, mapRes, List.isEmpty_map]
          by_cases he : st.operands.isEmpty = true
          · rw [if_pos he, if_pos he]; rfl
          · rw [if_neg he, if_neg he]
            exact finish_reindex φ _ _ _ _
        | ok v p' => exact ih .post { st with operands := .leaf v :: st.operands, pos := p' }
    | post =>
      simp only [pegOT, mapState_pos, mapState_outerCp, mapState_marker, mapState_ops,
        mapState_operands, List.length_map]
      cases hp : T.postfixes with
      | none => exact ih .inf { st with marker := st.ops.length, outerCp := st.pos }
      | some pe =>
        dsimp only
        rw [h pe st.pos (hT.postfixes pe hp)]
        cases run pe st.pos with
        | none => rfl
        | some r =>
          cases r with
          | fail => exact ih .inf { st with marker := st.ops.length, outerCp := st.pos }
          | ok v p' =>
            simp only [Option.map_some, mapRes, decodePost_reindex]
            cases decodePost v with
            | none => rfl
            | some po =>
              obtain ⟨prec, op⟩ := po
              simp only [Option.map_some, reducePost_reindex]
              cases reducePost prec st.ops st.operands with
              | none => rfl
              | some oo =>
                obtain ⟨ops', operands'⟩ := oo
                cases operands' with
                | nil => rfl
                | cons x rest =>
                  exact ih .post { st with ops := ops', operands := .postfix x prec op :: rest, pos := p' }
    | inf =>
      simp only [pegOT, mapState_pos, mapState_outerCp, mapState_marker, mapState_ops,
        mapState_operands]
      cases hp : T.infixes with
      | none => exact finish_reindex φ _ _ _ _
      | some ie =>
        dsimp only
        rw [h ie st.pos (hT.infixes ie hp)]
        cases run ie st.pos with
        | none => rfl
        | some r =>
          cases r with
          | fail => exact finish_reindex φ _ _ _ _
          | ok v p' =>
            simp only [Option.map_some, mapRes, decodeOp_reindex]
            cases decodeOp v with
            | none => rfl
            | some o =>
              simp only [Option.map_some]
              have hpr : (mapEntry φ o).prec = o.prec := rfl
              rw [hpr, reduceInfix_reindex]
              cases reduceInfix o.prec st.ops st.operands with
              | none => rfl
              | some step =>
                cases step with
                | conflict ops' operands' => exact finish_reindex φ _ _ _ _
                | go ops' operands' =>
                  simp only [Option.map_some, mapStep, List.length_map]
                  exact ih .pre
                    { st with ops := o :: ops', operands := operands', marker := ops'.length, pos := p' }

end helpers

/-! ### the sub-parsers of a table -/

theorem combineRows_tokensOk (okS : List Nat → Bool) (okR okB : Nat → Bool) :
    ∀ (xs : List Expr), tokensOkList okS okR okB xs = true →
    ∀ e, combineRows xs = some e → tokensOk okS okR okB e = true := by
  intro xs hx e he
  cases xs with
  | nil => simp [combineRows] at he
  | cons x t =>
    cases t with
    | nil =>
      simp only [combineRows, Option.some.injEq] at he
      subst he
      simp only [tokensOkList, Bool.and_eq_true] at hx
      exact hx.1
    | cons y t' =>
      simp only [combineRows, Option.some.injEq] at he
      subst he
      simpa only [tokensOk] using hx

theorem tokensOkT_ptableExprs (okS : List Nat → Bool) (okR okB : Nat → Bool)
    (pre : List Expr) (operand : Expr) (mixfix post inf : List Expr)
    (h : tokensOk okS okR okB (.optable pre operand mixfix post inf) = true) :
    TokensOkT okS okR okB (ptableExprs pre operand mixfix post inf) := by
  simp only [tokensOk, Bool.and_eq_true] at h
  obtain ⟨⟨⟨⟨h1, h2⟩, h3⟩, h4⟩, h5⟩ := h
  refine ⟨combineRows_tokensOk okS okR okB pre h1, ?_, combineRows_tokensOk okS okR okB post h4,
    combineRows_tokensOk okS okR okB inf h5⟩
  simp only [ptableExprs]
  cases mixfix with
  | nil => simpa [combineRows] using h2
  | cons m ms =>
    simp only [combineRows, Option.getD_some, tokensOk, tokensOkList, Bool.and_eq_true]
    simp only [tokensOkList, Bool.and_eq_true] at h3
    exact ⟨h2, h3⟩

/-! ### the re-indexing law -/

theorem peg_reRel (P : Program) (inp inp' : List Nat) (φ : Nat → Nat)
    (okS : List Nat → Bool) (okR okB : Nat → Bool) (ign : Nat)
    (hst : Stable P inp inp' φ okS okR okB ign)
    (hP : ∀ k body, k ≠ ign → P.rules[k]? = some body → tokensOk okS okR okB body = true) :
    ∀ (fuel : Nat), ReRel φ okS okR okB (peg P inp fuel) (peg P inp' fuel) := by
  intro fuel
  induction fuel with
  | zero => intro e p _; simp [peg]
  | succ n ih =>
    intro e p he
    cases e with
    | str s skip =>
      simp only [tokensOk] at he
      obtain ⟨h1, h2⟩ := hst.str s p he
      simp only [peg]
      rw [h1]
      by_cases hs : s.isEmpty = true
      · rw [if_pos hs, if_pos hs]; simp [mapRes, mapVal_lit]
      · rw [if_neg hs, if_neg hs]
        by_cases hma : matchAt inp p s = true
        · rw [if_pos hma, if_pos hma, ← h2 hma, pegSkipTo_reindex ih]
          cases pegSkipTo P (peg P inp n) skip (p + s.length) with
          | none => rfl
          | some p' => simp [mapRes, mapVal_lit]
        · rw [if_neg hma, if_neg hma]; rfl
    | regex rx skip =>
      simp only [tokensOk] at he
      obtain ⟨h1, h2⟩ := hst.rx rx p he
      simp only [peg]
      rw [h1]
      cases hmr : P.matcher rx inp p with
      | none => rfl
      | some e' =>
        simp only [Option.map_some]
        rw [pegSkipTo_reindex ih]
        cases pegSkipTo P (peg P inp n) skip e' with
        | none => rfl
        | some p' => simp [mapRes, mapVal_lit, h2 e' hmr]
    | byte b skip =>
      simp only [tokensOk] at he
      obtain ⟨h1, h2⟩ := hst.byte b p he
      simp only [peg]
      rw [h1]
      by_cases hb : (P.bytesMode && inp[p]? == some b) = true
      · rw [if_pos hb, if_pos hb]
        have hb2 : inp[p]? = some b := by
          simp only [Bool.and_eq_true, beq_iff_eq] at hb
          exact hb.2
        rw [← h2 hb2, pegSkipTo_reindex ih]
        cases pegSkipTo P (peg P inp n) skip (p + 1) with
        | none => rfl
        | some p' => simp [mapRes, mapVal]
      · rw [if_neg hb, if_neg hb]; rfl
    | ref i =>
      by_cases hk : i = ign
      · subst hk
        exact hst.skip (n + 1) p
      · simp only [peg]
        cases hb : P.rules[i]? with
        | none => rfl
        | some body =>
          dsimp only
          exact ih body p (hP i body hk hb)
    | seq xs =>
      simp only [peg]
      simp only [tokensOk] at he
      exact pegSeq_reindex ih xs p [] he
    | cls name xs keep =>
      simp only [peg]
      simp only [tokensOk] at he
      exact pegCls_reindex ih name p xs keep p [] he
    | discard a b left =>
      simp only [peg]
      simp only [tokensOk, Bool.and_eq_true] at he
      rw [ih a p he.1]
      cases peg P inp n a p with
      | none => rfl
      | some r =>
        cases r with
        | fail => rfl
        | ok va pa =>
          simp only [Option.map_some, mapRes]
          rw [ih b pa he.2]
          cases peg P inp n b pa with
          | none => rfl
          | some r2 =>
            cases r2 with
            | fail => rfl
            | ok vb pb => cases left <;> rfl
    | choice xs =>
      simp only [peg]
      simp only [tokensOk] at he
      exact pegChoice_reindex ih xs p he
    | opt x =>
      simp only [peg]
      simp only [tokensOk] at he
      rw [ih x p he]
      cases peg P inp n x p with
      | none => rfl
      | some r => cases r <;> rfl
    | list x min extra =>
      simp only [peg]
      simp only [tokensOk] at he
      exact pegList_reindex ih n x he min _ p
    | sep x s o =>
      simp only [peg]
      simp only [tokensOk, Bool.and_eq_true] at he
      exact pegSep_reindex ih n x s he.1 he.2 o p
    | expect x =>
      simp only [peg]
      simp only [tokensOk] at he
      rw [ih x p he]
      cases peg P inp n x p with
      | none => rfl
      | some r => cases r <;> rfl
    | expectNot x =>
      simp only [peg]
      simp only [tokensOk] at he
      rw [ih x p he]
      cases peg P inp n x p with
      | none => rfl
      | some r => cases r <;> rfl
    | skip xs =>
      simp only [peg]
      simp only [tokensOk] at he
      exact pegSkipLoop_reindex hst.mono ih xs he n p
    | longest xs =>
      simp only [peg]
      simp only [tokensOk] at he
      have hl := pegLongestOpts_reindex hst.mono ih p xs none he
      rw [show mapBest φ none = none from rfl] at hl
      rw [hl]
      cases pegLongestOpts (peg P inp n) p xs none with
      | none => rfl
      | some o =>
        cases o with
        | none => rfl
        | some b => obtain ⟨v, p'⟩ := b; rfl
    | backtrack c => simp [tokensOk] at he
    | fail => simp [peg, mapRes]
    | py c => simp [peg, mapRes, mapVal_const]
    | tagged x tag =>
      simp only [peg]
      simp only [tokensOk] at he
      rw [ih x p he]
      cases peg P inp n x p with
      | none => rfl
      | some r =>
        cases r with
        | fail => rfl
        | ok v p' => simp [mapRes, mapVal, mapVals_append, mapVals_ints, mapVals]
    | optable pre' operand mixfix post inf =>
      simp only [peg]
      exact pegOT_reindex ih _ (tokensOkT_ptableExprs okS okR okB _ _ _ _ _ he) n .pre ⟨[], [], 0, p, p⟩

/-- **Re-indexing law of the specification.**  If the stable tokens of the grammar behave
    correspondingly on `inp` and `inp'` modulo the strictly monotone position map `φ`, and the
    rule `ign` that skips ignorable text does too, then for every expression whose tokens are
    stable (and that has no lookbehind) the meaning on `inp'` from `φ q` is the meaning on `inp`
    from `q`, with all positions mapped through `φ`. -/
theorem peg_reindex (P : Program) (inp inp' : List Nat) (φ : Nat → Nat)
    (okS : List Nat → Bool) (okR okB : Nat → Bool) (ign : Nat)
    (hst : Stable P inp inp' φ okS okR okB ign)
    (hP : ∀ k body, k ≠ ign → P.rules[k]? = some body → tokensOk okS okR okB body = true) :
    ∀ (fuel : Nat) (e : Expr) (q : Nat), tokensOk okS okR okB e = true →
      peg P inp' fuel e (φ q) = (peg P inp fuel e q).map (mapRes φ) := by
  intro fuel e q he
  exact peg_reRel P inp inp' φ okS okR okB ign hst hP fuel e q he

/-! ### relation with `noBacktrack` of `Shift.lean` -/

mutual
theorem tokensOk_noBacktrack (okS : List Nat → Bool) (okR okB : Nat → Bool) :
    ∀ e : Expr, tokensOk okS okR okB e = true → noBacktrack e = true
  | .str _ _, _ => by simp [noBacktrack]
  | .regex _ _, _ => by simp [noBacktrack]
  | .byte _ _, _ => by simp [noBacktrack]
  | .ref _, _ => by simp [noBacktrack]
  | .seq xs, h => by
    simp only [tokensOk] at h
    simpa only [noBacktrack] using tokensOkList_noBacktrackList okS okR okB xs h
  | .cls _ xs _, h => by
    simp only [tokensOk] at h
    simpa only [noBacktrack] using tokensOkList_noBacktrackList okS okR okB xs h
  | .discard a b _, h => by
    simp only [tokensOk, Bool.and_eq_true] at h
    simp only [noBacktrack, Bool.and_eq_true]
    exact ⟨tokensOk_noBacktrack okS okR okB a h.1, tokensOk_noBacktrack okS okR okB b h.2⟩
  | .choice xs, h => by
    simp only [tokensOk] at h
    simpa only [noBacktrack] using tokensOkList_noBacktrackList okS okR okB xs h
  | .opt e, h => by
    simp only [tokensOk] at h
    simpa only [noBacktrack] using tokensOk_noBacktrack okS okR okB e h
  | .list e _ _, h => by
    simp only [tokensOk] at h
    simpa only [noBacktrack] using tokensOk_noBacktrack okS okR okB e h
  | .sep e s _, h => by
    simp only [tokensOk, Bool.and_eq_true] at h
    simp only [noBacktrack, Bool.and_eq_true]
    exact ⟨tokensOk_noBacktrack okS okR okB e h.1, tokensOk_noBacktrack okS okR okB s h.2⟩
  | .expect e, h => by
    simp only [tokensOk] at h
    simpa only [noBacktrack] using tokensOk_noBacktrack okS okR okB e h
  | .expectNot e, h => by
    simp only [tokensOk] at h
    simpa only [noBacktrack] using tokensOk_noBacktrack okS okR okB e h
  | .skip xs, h => by
    simp only [tokensOk] at h
    simpa only [noBacktrack] using tokensOkList_noBacktrackList okS okR okB xs h
  | .longest xs, h => by
    simp only [tokensOk] at h
    simpa only [noBacktrack] using tokensOkList_noBacktrackList okS okR okB xs h
  | .backtrack _, h => by simp [tokensOk] at h
  | .fail, _ => by simp [noBacktrack]
  | .py _, _ => by simp [noBacktrack]
  | .tagged e _, h => by
    simp only [tokensOk] at h
    simpa only [noBacktrack] using tokensOk_noBacktrack okS okR okB e h
  | .optable pre operand mixfix post inf, h => by
    simp only [tokensOk, Bool.and_eq_true] at h
    obtain ⟨⟨⟨⟨h1, h2⟩, h3⟩, h4⟩, h5⟩ := h
    simp only [noBacktrack, Bool.and_eq_true]
    exact ⟨⟨⟨⟨tokensOkList_noBacktrackList okS okR okB pre h1, tokensOk_noBacktrack okS okR okB operand h2⟩,
      tokensOkList_noBacktrackList okS okR okB mixfix h3⟩,
      tokensOkList_noBacktrackList okS okR okB post h4⟩,
      tokensOkList_noBacktrackList okS okR okB inf h5⟩
theorem tokensOkList_noBacktrackList (okS : List Nat → Bool) (okR okB : Nat → Bool) :
    ∀ xs : List Expr, tokensOkList okS okR okB xs = true → noBacktrackList xs = true
  | [], _ => by simp [noBacktrackList]
  | x :: xs, h => by
    simp only [tokensOkList, Bool.and_eq_true] at h
    simp only [noBacktrackList, Bool.and_eq_true]
    exact ⟨tokensOk_noBacktrack okS okR okB x h.1, tokensOkList_noBacktrackList okS okR okB xs h.2⟩
end

/-! ### the hypotheses are satisfiable: the position map of an insertion -/

/-- positions up to `i` stay, positions after `i` move by one (one code point inserted after `i`) -/
-- `ins` is defined in Lengthen.lean

theorem insertAt_mono (i : Nat) : Mono (ins i) := by
  constructor
  intro a b hab
  exact ins_lt i a b hab

end Sourcer
