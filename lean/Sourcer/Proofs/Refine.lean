import Sourcer.Peg
import Sourcer.Proofs.Sound
/-
  Refinement: wherever the documented PEG meaning (`peg`) is defined, the code model (`gen`,
  under any locally sound flag table) terminates with the same fuel, succeeds/fails alike, and on
  success leaves the same value in `_result` and the same position in `_pos`.
-/
namespace Sourcer

def Rel (r : Reg) : Res → Prop
  | .ok v p => r.status = true ∧ r.result = v ∧ r.pos = p
  | .fail => r.status = false

def Refines (g : Run) (s : PRun) : Prop :=
  ∀ e p res, s e p = some res → ∃ r, g e p = some r ∧ Rel r res

variable {F : FlagTable} {g : Run} {s : PRun}

theorem Refines.fail (hs : Sound F g) (hr : Refines g s) {e p} (h : s e p = some .fail) :
    ∃ r, g e p = some r ∧ r.status = false ∧ (flagsOf F e).as = false ∧ okF F e r = false := by
  obtain ⟨r, hg, hrel⟩ := hr e p _ h
  have hst : r.status = false := hrel
  have has : (flagsOf F e).as = false := by
    cases ha : (flagsOf F e).as
    · rfl
    · have := hs.as_ok hg ha; simp [this] at hst
  exact ⟨r, hg, hst, has, by simp [okF, has, hst]⟩

theorem Refines.ok (hr : Refines g s) {e p v p'} (h : s e p = some (.ok v p')) :
    ∃ r, g e p = some r ∧ r.status = true ∧ r.result = v ∧ r.pos = p' ∧ okF F e r = true := by
  obtain ⟨r, hg, hrel⟩ := hr e p _ h
  obtain ⟨h1, h2, h3⟩ : r.status = true ∧ r.result = v ∧ r.pos = p' := hrel
  exact ⟨r, hg, h1, h2, h3, by simp [okF, h1]⟩

theorem genSeq_refines (hs : Sound F g) (hr : Refines g s) :
    ∀ xs p acc res, pegSeq s xs p acc = some res →
    ∃ r, genSeq F g xs p acc = some r ∧ Rel r res := by
  intro xs
  induction xs with
  | nil => intro p acc res h; simp [pegSeq] at h; subst h; exact ⟨_, rfl, rfl, rfl, rfl⟩
  | cons e es ih =>
    intro p acc res h
    unfold pegSeq at h
    split at h
    · simp at h
    · rename_i he
      obtain ⟨r, hg, hst, _, hok⟩ := hr.fail hs he
      simp at h; subst h
      exact ⟨r, by simp [genSeq, hg, hok], hst⟩
    · rename_i v p' he
      obtain ⟨r, hg, h1, h2, h3, hok⟩ := hr.ok (F := F) he
      obtain ⟨r2, hg2, hrel2⟩ := ih _ _ _ h
      exact ⟨r2, by simp [genSeq, hg, hok, h2, h3, hg2], hrel2⟩

theorem genCls_refines (hs : Sound F g) (hr : Refines g s) (name : String) (start : Nat) :
    ∀ xs ks p acc res, pegCls s name start xs ks p acc = some res →
    ∃ r, genCls F g name start xs ks p acc = some r ∧ Rel r res := by
  intro xs
  induction xs with
  | nil => intro ks p acc res h; simp [pegCls] at h; subst h; exact ⟨_, rfl, rfl, rfl, rfl⟩
  | cons e es ih =>
    intro ks p acc res h
    unfold pegCls at h
    split at h
    · simp at h
    · rename_i he
      obtain ⟨r, hg, hst, _, hok⟩ := hr.fail hs he
      simp at h; subst h
      exact ⟨r, by simp [genCls, hg, hok], hst⟩
    · rename_i v p' he
      obtain ⟨r, hg, h1, h2, h3, hok⟩ := hr.ok (F := F) he
      obtain ⟨r2, hg2, hrel2⟩ := ih _ _ _ _ h
      refine ⟨r2, ?_, hrel2⟩
      unfold genCls
      simp only [hg, hok, ↓reduceIte, h2, h3]
      exact hg2

theorem genChoice_refines (hs : Sound F g) (hr : Refines g s) (needsErr : Bool) (bt : Nat) :
    ∀ xs cur fp fe res, (needsErr = true → anyAs F xs = false) → (xs ≠ [] → cur.pos = bt) →
    cur.status = false → pegChoice s xs bt = some res →
    ∃ r, genChoice F g needsErr bt xs cur fp fe = some r ∧ Rel r res := by
  intro xs
  induction xs with
  | nil =>
    intro cur fp fe res _ _ hst h
    simp [pegChoice] at h; subst h
    refine ⟨_, rfl, ?_⟩
    cases needsErr <;> simp [Rel, hst]
  | cons e es ih =>
    intro cur fp fe res hne hpos hst h
    have hcur : cur.pos = bt := hpos (by simp)
    unfold pegChoice at h
    split at h
    · simp at h
    · rename_i he
      obtain ⟨r, hg, hst', has, _⟩ := hr.fail hs he
      have hne' : needsErr = true → anyAs F es = false := by
        intro hn; have := hne hn; simp only [anyAs, Bool.or_eq_false_iff] at this; exact this.2
      have hp' : es ≠ [] → (if (!es.isEmpty && (flagsOf F e).cps) = true then bt else r.pos) = bt := by
        intro hes
        cases hc : (flagsOf F e).cps
        · simp [hs.fail_pos hg hc hst']
        · have : es.isEmpty = false := by cases es <;> simp_all
          simp [this]
      unfold genChoice
      simp only [hcur, hg, has, Bool.false_eq_true, ↓reduceIte, hst']
      exact ih _ _ _ res hne' hp' rfl h
    · rename_i r0 hnf he
      match r0, hnf, he, h with
      | .fail, hnf, _, _ => exact absurd rfl (hnf)
      | .ok v p', _, he, h =>
        obtain ⟨r, hg, h1, h2, h3, _⟩ := hr.ok (F := F) he
        simp at h; subst h
        refine ⟨r, ?_, h1, h2, h3⟩
        unfold genChoice
        simp only [hcur, hg]
        cases has : (flagsOf F e).as
        · simp [h1]
        · cases hn : needsErr
          · simp
          · have := hne hn; simp [anyAs, has] at this

theorem genListLoop_refines (hs : Sound F g) (hr : Refines g s) (e : Expr) (max : Option Nat) :
    ∀ fuel p acc acc' p', pegListLoop s e max fuel p acc = some (acc', p') →
    ∃ r, genListLoop F g e max fuel p acc = some (acc', r) ∧ r.pos = p' ∧
      (r.status = false ∨ max = some acc'.length) := by
  intro fuel
  induction fuel with
  | zero => intro p acc acc' p' h; simp [pegListLoop] at h
  | succ n ih =>
    intro p acc acc' p' h
    unfold pegListLoop at h
    split at h
    · simp at h
    · rename_i he
      obtain ⟨r, hg, hst, _, hok⟩ := hr.fail hs he
      simp at h; obtain ⟨h1, h2⟩ := h; subst h1 h2
      refine ⟨⟨r.status, r.result, if (flagsOf F e).cps then p else r.pos⟩,
        by simp [genListLoop, hg, hok], ?_, Or.inl hst⟩
      cases hc : (flagsOf F e).cps
      · simp [hs.fail_pos hg hc hst]
      · simp
    · rename_i v p1 he
      obtain ⟨r, hg, h1, h2, h3, hok⟩ := hr.ok (F := F) he
      simp only at h
      split at h
      · rename_i hmax
        simp at h; obtain ⟨ha, hp⟩ := h; subst ha hp
        refine ⟨r, ?_, h3, Or.inr (by simpa using hmax)⟩
        unfold genListLoop
        simp only [hg, hok, ↓reduceIte, h2]
        simp only [hmax, ↓reduceIte]
      · rename_i hmax
        obtain ⟨r2, hg2, hrel2⟩ := ih _ _ _ _ h
        refine ⟨r2, ?_, hrel2⟩
        unfold genListLoop
        simp only [hg, hok, ↓reduceIte, h2, h3]
        simp only [hmax, Bool.false_eq_true, ↓reduceIte]
        exact hg2

theorem genSepLoop_refines (hs : Sound F g) (hr : Refines g s) (e sp : Expr) (o : SepOpts) :
    ∀ fuel p st cp saw st' stop saw', pegSepLoop s e sp o fuel p st cp saw = some (st', stop, saw') →
    ∃ reg, genSepLoop F g e sp o fuel p st cp saw = some ⟨st', stop, saw', reg⟩ ∧ reg.status = false := by
  intro fuel
  induction fuel with
  | zero => intro p st cp saw st' stop saw' h; simp [pegSepLoop] at h
  | succ n ih =>
    intro p st cp saw st' stop saw' h
    unfold pegSepLoop at h
    split at h
    · simp at h
    · rename_i he
      obtain ⟨r, hg, hst, _, hok⟩ := hr.fail hs he
      simp at h; obtain ⟨h1, h2, h3⟩ := h; subst h1 h2 h3
      exact ⟨r, by simp [genSepLoop, hg, hok], hst⟩
    · rename_i v p1 he
      obtain ⟨r, hg, h1, h2, h3, hok⟩ := hr.ok (F := F) he
      simp only at h
      split at h
      · simp at h
      · rename_i hse
        obtain ⟨q, hgq, hstq, _, hokq⟩ := hr.fail hs hse
        simp at h; obtain ⟨ha, hb, hc⟩ := h; subst ha hb hc
        refine ⟨q, ?_, hstq⟩
        unfold genSepLoop
        simp only [hg, hok, ↓reduceIte, h3, hgq, hokq, Bool.false_eq_true, h2]
      · rename_i w p2 hse
        obtain ⟨q, hgq, hq1, hq2, hq3, hokq⟩ := hr.ok (F := F) hse
        obtain ⟨reg, hg2, hreg⟩ := ih _ _ _ _ _ _ _ h
        refine ⟨reg, ?_, hreg⟩
        unfold genSepLoop
        simp only [hg, hok, ↓reduceIte, h3, hgq, hokq, h2, hq2, hq3]
        exact hg2

theorem sepSuccess_eq (o : SepOpts) (st : List Val) (saw : Bool) :
    sepSuccess o st saw = sepAccepts o st saw := by
  unfold sepSuccess sepAccepts
  cases o.empty <;> cases o.require <;> cases saw <;> cases st.isEmpty <;> rfl

theorem genSkipAlts_refines (hs : Sound F g) (hr : Refines g s) (p : Nat) :
    ∀ xs o, pegSkipAlts s p xs = some o →
    genSkipAlts F g p xs p = some (match o with | some p' => .inl p' | none => .inr p) := by
  intro xs
  induction xs with
  | nil => intro o h; simp [pegSkipAlts] at h; subst h; rfl
  | cons x xs ih =>
    intro o h
    unfold pegSkipAlts at h
    split at h
    · simp at h
    · rename_i he
      obtain ⟨r, hg, hst, has, _⟩ := hr.fail hs he
      have hp : (if (flagsOf F x).cps = true then p else r.pos) = p := by
        cases hc : (flagsOf F x).cps
        · simp [hs.fail_pos hg hc hst]
        · simp
      unfold genSkipAlts
      simp only [hg, has, Bool.false_eq_true, ↓reduceIte, hst, hp, Bool.false_and]
      exact ih _ h
    · rename_i v p' he
      obtain ⟨r, hg, h1, _, h3, _⟩ := hr.ok (F := F) he
      split at h
      · rename_i hne
        simp at h; subst h
        unfold genSkipAlts
        simp only [hg, h3, hne, ↓reduceIte, h1]
        cases (flagsOf F x).as <;> simp
      · rename_i hne
        -- a match that consumed nothing: both the code and the specification move on
        have hpp : p' = p := by simpa using hne
        subst hpp
        unfold genSkipAlts
        simp only [hg, h3, h1]
        cases hxa : (flagsOf F x).as
        · simp only [Bool.false_eq_true, ↓reduceIte, bne_self_eq_false, Bool.and_false]
          have : (if (flagsOf F x).cps = true then p' else p') = p' := by split <;> rfl
          rw [this]
          exact ih _ h
        · simp only [↓reduceIte, bne_self_eq_false, Bool.false_eq_true]
          exact ih _ h

theorem genSkipLoop_refines (hs : Sound F g) (hr : Refines g s) (xs : List Expr) :
    ∀ fuel p res, pegSkipLoop s xs fuel p = some res →
    ∃ r, genSkipLoop F g xs fuel p = some r ∧ Rel r res := by
  intro fuel
  induction fuel with
  | zero => intro p res h; simp [pegSkipLoop] at h
  | succ n ih =>
    intro p res h
    unfold pegSkipLoop at h
    split at h
    · simp at h
    · rename_i p' ha
      have := genSkipAlts_refines hs hr p _ _ ha
      obtain ⟨r, hg, hrel⟩ := ih _ _ h
      exact ⟨r, by simp [genSkipLoop, this, hg], hrel⟩
    · rename_i ha
      have := genSkipAlts_refines hs hr p _ _ ha
      simp at h; subst h
      exact ⟨_, by simp [genSkipLoop, this]; rfl, rfl, rfl, rfl⟩

/-- invariant linking the registers of the `Longest` loop to the best result of the spec -/
def LongestInv (st : LongestState) (best : Option (Val × Nat)) : Prop :=
  (st.has = best.isSome) ∧ (∀ v q, best = some (v, q) → st.fres = v ∧ st.fpos = q) ∧
  (st.has = false → st.last.status = false)

theorem genLongestOpts_refines (hs : Sound F g) (hr : Refines g s) (needsErr : Bool) (bt : Nat) :
    ∀ xs st best best', LongestInv st best → pegLongestOpts s bt xs best = some best' →
    ∃ st', genLongestOpts F g needsErr bt xs st = some st' ∧ LongestInv st' best' := by
  intro xs
  induction xs with
  | nil => intro st best best' hinv h; simp [pegLongestOpts] at h; subst h; exact ⟨st, rfl, hinv⟩
  | cons x xs ih =>
    intro st best best' hinv h
    unfold pegLongestOpts at h
    split at h
    · simp at h
    · rename_i he
      obtain ⟨r, hg, hst, _, hok⟩ := hr.fail hs he
      unfold genLongestOpts
      simp only [hg, hok, Bool.false_eq_true, ↓reduceIte]
      split
      · exact ih _ _ _ ⟨hinv.1, hinv.2.1, fun _ => hst⟩ h
      · exact ih _ _ _ ⟨hinv.1, hinv.2.1, fun _ => hst⟩ h
    · rename_i v p' he
      obtain ⟨r, hg, h1, h2, h3, hok⟩ := hr.ok (F := F) he
      unfold genLongestOpts
      simp only [hg, hok, ↓reduceIte]
      match best, hinv, h with
      | none, hinv, h =>
        have hhas : st.has = false := by simpa using hinv.1
        simp only [hhas, Bool.not_false, Bool.true_or, ↓reduceIte]
        refine ih _ _ _ ⟨rfl, ?_, by simp⟩ h
        intro v' q' hb; simp at hb; simp [h2, h3, hb.1, hb.2]
      | some (bv, bp), hinv, h =>
        have hhas : st.has = true := by simpa using hinv.1
        have hb := hinv.2.1 bv bp rfl
        simp only at h
        simp only [hhas, Bool.not_true, Bool.false_or, decide_eq_true_eq, hb.2, h3]
        split at h
        · rename_i hlt
          simp only [hlt, ↓reduceIte]
          refine ih _ _ _ ⟨rfl, ?_, by simp⟩ h
          intro v' q' hb'; simp at hb'; simp [h2, hb'.1, hb'.2]
        · rename_i hlt
          simp only [hlt, ↓reduceIte]
          refine ih _ _ _ ⟨by simp [hhas], ?_, by simp [hhas]⟩ h
          intro v' q' hb'; simp at hb'; simp [hb.1, hb.2, hb'.1, hb'.2]

theorem genSkipTo_refines (hr : Refines g s) (P : Program) (skip : Bool) (e p' : Nat)
    (h : pegSkipTo P s skip e = some p') : genSkipTo P g skip e = some p' := by
  unfold pegSkipTo at h
  unfold genSkipTo
  cases skip
  · simpa using h
  · simp only [↓reduceIte] at h ⊢
    cases hi : P.ignored with
    | none => simpa [hi] using h
    | some k =>
      simp only [hi] at h ⊢
      split at h
      · simp at h
      · rename_i v q he
        obtain ⟨r, hg, hrel⟩ := hr _ _ _ he
        have h3 : r.pos = q := hrel.2.2
        simp at h; subst h
        simp [hg, h3]
      · simp at h

theorem genOT_refines (hs : Sound F g) (hr : Refines g s) (T : TableExprs) (PT : PTableExprs)
    (h1 : T.prefixes = PT.prefixes) (h2 : T.operands = PT.operands) (h3 : T.postfixes = PT.postfixes)
    (h4 : T.infixes = PT.infixes) :
    ∀ fuel ph st last res, pegOT s PT fuel ph st = some res → (ph = .inf → st.outerCp = st.pos) →
    ∃ r, genOT F g T fuel ph st last = some r ∧ Rel r res := by
  intro fuel
  induction fuel with
  | zero => intro ph st last res h; simp [pegOT] at h
  | succ n ih =>
    intro ph st last res h hinv
    cases ph with
    | pre =>
      simp only [pegOT] at h
      simp only [genOT, h1]
      split at h
      · rename_i hp; simp only [hp]; exact ih _ _ _ _ h (by simp)
      · rename_i pe hp
        simp only [hp]
        split at h
        · simp at h
        · rename_i he
          obtain ⟨r, hg, hst, _, hok⟩ := hr.fail hs he
          simp only [hg, hok, Bool.false_eq_true, ↓reduceIte]
          have hp' : (if (flagsOf F pe).cps = true then st.pos else r.pos) = st.pos := by
            cases hc : (flagsOf F pe).cps
            · simp [hs.fail_pos hg hc hst]
            · simp
          rw [hp']
          exact ih _ _ _ _ h (by simp)
        · rename_i v p' he
          obtain ⟨r, hg, _, hv, hpos, hok⟩ := hr.ok (F := F) he
          simp only [hg, hok, ↓reduceIte, hv]
          split at h
          · simp at h
          · rename_i o ho
            simp only [ho, hpos]
            exact ih _ _ _ _ h (by simp)
    | operand =>
      simp only [pegOT] at h
      simp only [genOT, h2]
      split at h
      · simp at h
      · rename_i he
        obtain ⟨r, hg, hst, _, hok⟩ := hr.fail hs he
        simp only [hg, hok, Bool.false_eq_true, ↓reduceIte]
        split at h
        · rename_i hemp
          simp at h; subst h
          simp only [hemp, ↓reduceIte]
          exact ⟨_, rfl, hst⟩
        · rename_i hemp
          simp only [hemp, Bool.false_eq_true, ↓reduceIte]
          split at h
          · simp at h
          · rename_i v hv
            simp at h; subst h
            simp only [hv]
            exact ⟨_, rfl, rfl, rfl, rfl⟩
      · rename_i v p' he
        obtain ⟨r, hg, _, hv, hpos, hok⟩ := hr.ok (F := F) he
        simp only [hg, hok, ↓reduceIte, hv, hpos]
        exact ih _ _ _ _ h (by simp)
    | post =>
      simp only [pegOT] at h
      simp only [genOT, h3]
      split at h
      · rename_i hp; simp only [hp]; exact ih _ _ _ _ h (by simp)
      · rename_i pe hp
        simp only [hp]
        split at h
        · simp at h
        · rename_i he
          obtain ⟨r, hg, hst, _, hok⟩ := hr.fail hs he
          simp only [hg, hok, Bool.false_eq_true, ↓reduceIte]
          have hp' : (if (flagsOf F pe).cps = true then st.pos else r.pos) = st.pos := by
            cases hc : (flagsOf F pe).cps
            · simp [hs.fail_pos hg hc hst]
            · simp
          rw [hp']
          exact ih _ _ _ _ h (by simp)
        · rename_i v p' he
          obtain ⟨r, hg, _, hv, hpos, hok⟩ := hr.ok (F := F) he
          simp only [hg, hok, ↓reduceIte, hv]
          split at h
          · simp at h
          · rename_i prec op hd
            simp only [hd]
            split at h
            · simp at h
            · rename_i ops' operands' hred
              simp only [hred]
              split at h
              · simp at h
              · simp only [hpos]
                exact ih _ _ _ _ h (by simp)
    | inf =>
      have hcp := hinv rfl
      simp only [pegOT] at h
      simp only [genOT, h4]
      split at h
      · rename_i hp
        simp only [hp]
        split at h
        · simp at h
        · rename_i v hv; simp at h; subst h; simp only [hv]; exact ⟨_, rfl, rfl, rfl, rfl⟩
      · rename_i ie hp
        simp only [hp]
        split at h
        · simp at h
        · rename_i he
          obtain ⟨r, hg, hst, _, hok⟩ := hr.fail hs he
          simp only [hg, hok, Bool.false_eq_true, ↓reduceIte]
          split at h
          · simp at h
          · rename_i v hv
            simp at h; subst h
            simp only [hv]
            refine ⟨_, rfl, rfl, rfl, ?_⟩
            cases hc : (flagsOf F ie).cps
            · simp [hs.fail_pos hg hc hst]
            · simp [hcp]
        · rename_i v p' he
          obtain ⟨r, hg, _, hv, hpos, hok⟩ := hr.ok (F := F) he
          simp only [hg, hok, ↓reduceIte, hv]
          split at h
          · simp at h
          · rename_i o ho
            simp only [ho]
            split at h
            · simp at h
            · rename_i ops' operands' hred
              simp only [hred]
              split at h
              · simp at h
              · rename_i tree ht; simp at h; subst h; simp only [ht]; exact ⟨_, rfl, rfl, rfl, rfl⟩
            · rename_i ops' operands' hred
              simp only [hred, hpos]
              exact ih _ _ _ _ h (by simp)

end Sourcer

namespace Sourcer

variable {F : FlagTable}

theorem gen_refines (hF : LocallySound F) (P : Program) (inp : List Nat) :
    ∀ fuel, Refines (gen F P inp fuel) (peg P inp fuel) := by
  intro fuel
  induction fuel with
  | zero => intro e p res h; simp [peg] at h
  | succ n ih =>
    have hs : Sound F (gen F P inp n) := gen_sound hF P inp n
    intro e p res h
    cases e with
    | str sv skip =>
      simp only [peg] at h
      simp only [gen]
      split at h
      · rename_i he; simp at h; subst h; simp [he, Rel]
      · rename_i he
        split at h
        · rename_i hm
          split at h
          · simp at h
          · rename_i p' hsk
            simp at h; subst h
            simp [he, hm, genSkipTo_refines ih P _ _ _ hsk, Rel]
        · rename_i hm; simp at h; subst h; simp [he, hm, Rel]
    | regex rx skip =>
      simp only [peg] at h
      simp only [gen]
      split at h
      · rename_i e' hm
        split at h
        · simp at h
        · rename_i p' hsk
          simp at h; subst h
          simp [hm, genSkipTo_refines ih P _ _ _ hsk, Rel]
      · rename_i hm; simp at h; subst h; simp [hm, Rel]
    | byte b skip =>
      simp only [peg] at h
      simp only [gen]
      split at h
      · rename_i hm
        split at h
        · simp at h
        · rename_i p' hsk
          simp at h; subst h
          simp [hm, genSkipTo_refines ih P _ _ _ hsk, Rel]
      · rename_i hm; simp at h; subst h; simp [hm, Rel]
    | ref k =>
      simp only [peg] at h
      simp only [gen]
      split at h
      · simp at h
      · rename_i body hb
        simp only [hb]
        exact ih _ _ _ h
    | seq xs => simp only [peg] at h; simp only [gen]; exact genSeq_refines hs ih _ _ _ _ h
    | cls name xs keep =>
      simp only [peg] at h; simp only [gen]; exact genCls_refines hs ih _ _ _ _ _ _ _ h
    | discard a b left =>
      simp only [peg] at h
      simp only [gen]
      split at h
      · simp at h
      · rename_i ha
        obtain ⟨r, hg, hst, _, hok⟩ := Refines.fail hs ih ha
        simp at h; subst h
        exact ⟨r, by simp [hg, hok], hst⟩
      · rename_i va pa ha
        obtain ⟨ra, hga, h1, h2, h3, hoka⟩ := Refines.ok (F := F) ih ha
        simp only [hga, hoka, ↓reduceIte, h3]
        split at h
        · simp at h
        · rename_i hb
          obtain ⟨rb, hgb, hstb, _, hokb⟩ := Refines.fail hs ih hb
          simp at h; subst h
          refine ⟨rb, ?_, hstb⟩
          cases left <;> simp [hgb, hokb]
        · rename_i vb pb hb
          obtain ⟨rb, hgb, hb1, hb2, hb3, hokb⟩ := Refines.ok (F := F) ih hb
          simp at h; subst h
          cases left
          · exact ⟨_, by simp [hgb, hokb]; rfl, by simp [Rel, hb1, h2, hb3]⟩
          · exact ⟨rb, by simp [hgb], by simp [Rel, hb1, hb2, hb3]⟩
    | choice xs =>
      simp only [peg] at h
      simp only [gen]
      refine genChoice_refines hs ih _ _ _ _ _ _ _ ?_ (fun _ => rfl) rfl h
      intro hn
      have : (flagsOf F (.choice xs)).as = anyAs F xs := by simp [flagsOf, hF.choice_as]
      rw [this] at hn; simpa using hn
    | opt x =>
      simp only [peg] at h
      simp only [gen]
      split at h
      · simp at h
      · rename_i hx
        obtain ⟨r, hg, hst, _, hok⟩ := Refines.fail hs ih hx
        simp at h; subst h
        exact ⟨_, by simp [hg, hok]; rfl, rfl, rfl, rfl⟩
      · rename_i r0 hnf hx
        match r0, hnf, hx, h with
        | .fail, hnf, _, _ => exact absurd rfl hnf
        | .ok v p', _, hx, h =>
          obtain ⟨r, hg, h1, h2, h3, hok⟩ := Refines.ok (F := F) ih hx
          simp at h; subst h
          exact ⟨r, by simp [hg, hok], h1, h2, h3⟩
    | list x min extra =>
      simp only [peg, pegList] at h
      simp only [gen, genList]
      split at h
      · rename_i hm; simp at h; subst h; simp [hm, Rel]
      · rename_i hm
        simp only [hm, Bool.false_eq_true, ↓reduceIte]
        split at h
        · simp at h
        · rename_i acc p' hloop
          obtain ⟨r, hg, hp, hex⟩ := genListLoop_refines hs ih x _ _ _ _ _ _ hloop
          simp only [hg]
          split at h
          · rename_i hlen
            simp at h; subst h
            by_cases h0 : min = 0
            · simp [h0, Rel, hp]
            · simp [h0, hlen, Rel, hp]
          · rename_i hlen
            simp at h; subst h
            have h0 : min ≠ 0 := by omega
            simp only [h0, ↓reduceIte, hlen]
            refine ⟨r, rfl, ?_⟩
            rcases hex with hex | hex
            · exact hex
            · exfalso
              cases extra with
              | none => simp [maxOf] at hex
              | some k => simp [maxOf] at hex; omega
    | sep x sp o =>
      simp only [peg, pegSep] at h
      simp only [gen, genSep]
      split at h
      · simp at h
      · rename_i st stop saw hloop
        obtain ⟨reg, hg, hreg⟩ := genSepLoop_refines hs ih x sp o _ _ _ _ _ _ _ _ hloop
        simp only [hg, sepSuccess_eq]
        split at h
        · rename_i hacc; simp at h; subst h; simp [hacc, Rel]
        · rename_i hacc; simp at h; subst h; simp [hacc, Rel, hreg]
    | expect x =>
      simp only [peg] at h
      simp only [gen]
      split at h
      · simp at h
      · rename_i hx
        obtain ⟨r, hg, hst, _, hok⟩ := Refines.fail hs ih hx
        simp at h; subst h
        exact ⟨r, by simp [hg, hok], hst⟩
      · rename_i v p' hx
        obtain ⟨r, hg, h1, h2, h3, hok⟩ := Refines.ok (F := F) ih hx
        simp at h; subst h
        exact ⟨⟨r.status, r.result, p⟩, by simp [hg, hok], h1, h2, rfl⟩
    | expectNot x =>
      simp only [peg] at h
      simp only [gen]
      split at h
      · simp at h
      · rename_i hx
        obtain ⟨r, hg, hst, _, _⟩ := Refines.fail hs ih hx
        simp at h; subst h
        exact ⟨_, by simp [hg, hst]; rfl, rfl, rfl, rfl⟩
      · rename_i v p' hx
        obtain ⟨r, hg, h1, _, _, _⟩ := Refines.ok (F := F) ih hx
        simp at h; subst h
        exact ⟨⟨false, .err, p⟩, by simp [hg, h1], rfl⟩
    | skip xs =>
      simp only [peg] at h
      simp only [gen]
      exact genSkipLoop_refines hs ih xs _ _ _ h
    | longest xs =>
      simp only [peg] at h
      simp only [gen]
      match xs, h with
      | [], h =>
        simp [pegLongestOpts] at h; subst h
        exact ⟨_, rfl, rfl⟩
      | [x], h =>
        simp only [genLongest]
        simp only [pegLongestOpts] at h
        cases hx : peg P inp n x p with
        | none => simp [hx] at h
        | some rx =>
          cases rx with
          | fail =>
            simp [hx] at h; subst h
            obtain ⟨r, hg, hst, _, _⟩ := Refines.fail hs ih hx
            exact ⟨r, hg, hst⟩
          | ok v p' =>
            simp [hx] at h; subst h
            obtain ⟨r, hg, h1, h2, h3, _⟩ := Refines.ok (F := F) ih hx
            exact ⟨r, hg, h1, h2, h3⟩
      | x :: y :: zs, h =>
        simp only [genLongest]
        split at h
        · simp at h
        · rename_i hopts
          obtain ⟨st', hg, hinv⟩ := genLongestOpts_refines hs ih
            (!(flagsOf F (.longest (x :: y :: zs))).as) p _ ⟨false, .none, p, .err, p, ⟨false, .err, p⟩⟩
            none _ ⟨rfl, by simp, by simp⟩ hopts
          simp at h; subst h
          have hhas : st'.has = false := by simpa using hinv.1
          have := hinv.2.2 hhas
          simp only [hg, hhas, Bool.false_eq_true, ↓reduceIte]
          split
          · exact ⟨_, rfl, this⟩
          · exact ⟨_, rfl, this⟩
        · rename_i v p' hopts
          obtain ⟨st', hg, hinv⟩ := genLongestOpts_refines hs ih
            (!(flagsOf F (.longest (x :: y :: zs))).as) p _ ⟨false, .none, p, .err, p, ⟨false, .err, p⟩⟩
            none _ ⟨rfl, by simp, by simp⟩ hopts
          simp at h; subst h
          have hhas : st'.has = true := by simpa using hinv.1
          have hb := hinv.2.1 _ _ rfl
          simp only [hg, hhas, ↓reduceIte]
          exact ⟨_, rfl, rfl, hb.1, hb.2⟩
    | backtrack k =>
      simp only [peg] at h
      simp only [gen]
      split at h <;> rename_i hk <;> simp at h <;> subst h <;> simp [hk, Rel]
    | fail => simp only [peg] at h; simp at h; subst h; simp [gen, Rel]
    | py v => simp only [peg] at h; simp at h; subst h; simp [gen, Rel]
    | tagged x tag =>
      simp only [peg] at h
      simp only [gen]
      split at h
      · simp at h
      · rename_i hx
        obtain ⟨r, hg, hst, _, hok⟩ := Refines.fail hs ih hx
        simp at h; subst h
        exact ⟨r, by simp [hg, hok], hst⟩
      · rename_i v p' hx
        obtain ⟨r, hg, _, h2, h3, hok⟩ := Refines.ok (F := F) ih hx
        simp at h; subst h
        exact ⟨⟨true, .tuple (tag.map Val.int ++ [r.result]), r.pos⟩, by simp [hg, hok], rfl, by simp [h2], h3⟩
    | optable pre operand mixfix post inf =>
      simp only [peg] at h
      simp only [gen]
      exact genOT_refines hs ih _ _ rfl rfl rfl rfl _ _ _ _ _ h (by simp)

end Sourcer
