import Sourcer.Gen
/-
  Positions held by the registers of the code model (success *and* failure):
    * they never exceed the length of the input (given a matcher that stays inside it);
    * without `Backtrack` they never fall below the position the expression started at.
  Used by C08 (no IndexError from the line tables), C09 (error index in [pos, len]) and C10.
-/
namespace Sourcer

mutual
def NoBt : Expr → Bool
  | .str _ _ => true
  | .regex _ _ => true
  | .byte _ _ => true
  | .ref _ => true
  | .seq xs => NoBtList xs
  | .cls _ xs _ => NoBtList xs
  | .discard a b _ => NoBt a && NoBt b
  | .choice xs => NoBtList xs
  | .opt e => NoBt e
  | .list e _ _ => NoBt e
  | .sep e s _ => NoBt e && NoBt s
  | .expect e => NoBt e
  | .expectNot e => NoBt e
  | .skip xs => NoBtList xs
  | .longest xs => NoBtList xs
  | .backtrack _ => false
  | .fail => true
  | .py _ => true
  | .tagged e _ => NoBt e
  | .optable pre o m post inf => NoBtList pre && NoBt o && NoBtList m && NoBtList post && NoBtList inf
def NoBtList : List Expr → Bool
  | [] => true
  | x :: xs => NoBt x && NoBtList xs
end

/-- the regex matcher stays inside the input and never moves backwards -/
def MatcherBounded (P : Program) : Prop :=
  ∀ rx inp p e, P.matcher rx inp p = some e → p ≤ e ∧ e ≤ inp.length

/-- no rule body uses `Backtrack` -/
def RulesNoBt (P : Program) : Prop := ∀ (k : Nat) body, P.rules[k]? = some body → NoBt body = true

def RunOK (len : Nat) (run : Run) : Prop :=
  ∀ e p r, run e p = some r → (p ≤ len → r.pos ≤ len) ∧ (NoBt e = true → p ≤ r.pos)

variable {F : FlagTable} {run : Run} {len : Nat}

theorem matchAt_le {inp : List Nat} {p : Nat} {s : List Nat} (hs : s.isEmpty = false)
    (h : matchAt inp p s = true) : p + s.length ≤ inp.length := by
  unfold matchAt at h
  have heq : (inp.drop p).take s.length = s := by simpa using h
  have hlen := congrArg List.length heq
  simp at hlen
  have : 0 < s.length := by cases s <;> simp_all
  omega

theorem genSeq_pos (hr : RunOK len run) : ∀ xs p acc r, genSeq F run xs p acc = some r →
    (p ≤ len → r.pos ≤ len) ∧ (NoBtList xs = true → p ≤ r.pos) := by
  intro xs
  induction xs with
  | nil => intro p acc r h; simp [genSeq] at h; subst h; simp
  | cons e es ih =>
    intro p acc r h
    unfold genSeq at h
    split at h
    · simp at h
    · rename_i r' hr'
      have h1 := hr e p r' hr'
      split at h
      · have h2 := ih _ _ _ h
        refine ⟨fun hp => h2.1 (h1.1 hp), fun hnb => ?_⟩
        simp only [NoBtList, Bool.and_eq_true] at hnb
        exact Nat.le_trans (h1.2 hnb.1) (h2.2 hnb.2)
      · simp at h; subst h
        refine ⟨h1.1, fun hnb => ?_⟩
        simp only [NoBtList, Bool.and_eq_true] at hnb
        exact h1.2 hnb.1

theorem genCls_pos (hr : RunOK len run) (name : String) (start : Nat) :
    ∀ xs ks p acc r, genCls F run name start xs ks p acc = some r →
    (p ≤ len → r.pos ≤ len) ∧ (NoBtList xs = true → p ≤ r.pos) := by
  intro xs
  induction xs with
  | nil => intro ks p acc r h; simp [genCls] at h; subst h; simp
  | cons e es ih =>
    intro ks p acc r h
    unfold genCls at h
    split at h
    · simp at h
    · rename_i r' hr'
      have h1 := hr e p r' hr'
      split at h
      · have h2 := ih _ _ _ _ h
        refine ⟨fun hp => h2.1 (h1.1 hp), fun hnb => ?_⟩
        simp only [NoBtList, Bool.and_eq_true] at hnb
        exact Nat.le_trans (h1.2 hnb.1) (h2.2 hnb.2)
      · simp at h; subst h
        refine ⟨h1.1, fun hnb => ?_⟩
        simp only [NoBtList, Bool.and_eq_true] at hnb
        exact h1.2 hnb.1

theorem genChoice_pos' (hr : RunOK len run) (needsErr : Bool) (bt : Nat) :
    ∀ xs cur fp fe r, genChoice F run needsErr bt xs cur fp fe = some r →
    (bt ≤ len → cur.pos ≤ len → fp ≤ len → r.pos ≤ len) ∧
    (NoBtList xs = true → bt ≤ cur.pos → bt ≤ fp → bt ≤ r.pos) := by
  intro xs
  induction xs with
  | nil =>
    intro cur fp fe r h
    simp only [genChoice, Option.some.injEq] at h
    subst h
    cases needsErr <;> simp <;> (constructor <;> intros <;> assumption)
  | cons e es ih =>
    intro cur fp fe r h
    unfold genChoice at h
    split at h
    · simp at h
    · rename_i r' hr'
      have h1 := hr e cur.pos r' hr'
      split at h
      · simp at h
        constructor
        · intro hbt hc hfp; subst h; cases needsErr <;> simp <;> first | exact hfp | exact h1.1 hc
        · intro hnb hc hfp
          simp only [NoBtList, Bool.and_eq_true] at hnb
          subst h; cases needsErr <;> simp <;> first | exact hfp | exact Nat.le_trans hc (h1.2 hnb.1)
      · split at h
        · simp at h; subst h
          refine ⟨fun _ hc _ => h1.1 hc, fun hnb hc _ => ?_⟩
          simp only [NoBtList, Bool.and_eq_true] at hnb
          exact Nat.le_trans hc (h1.2 hnb.1)
        · have h2 := ih _ _ _ _ h
          constructor
          · intro hbt hc hfp
            refine h2.1 hbt ?_ ?_
            · simp only; split <;> first | exact hbt | exact h1.1 hc
            · split <;> first | exact h1.1 hc | exact hfp
          · intro hnb hc hfp
            simp only [NoBtList, Bool.and_eq_true] at hnb
            have hge := Nat.le_trans hc (h1.2 hnb.1)
            refine h2.2 hnb.2 ?_ ?_
            · simp only; split <;> first | exact Nat.le_refl _ | exact hge
            · split <;> first | exact hge | exact hfp

theorem genListLoop_pos (hr : RunOK len run) (e : Expr) (max : Option Nat) :
    ∀ fuel p acc acc' r, genListLoop F run e max fuel p acc = some (acc', r) →
    (p ≤ len → r.pos ≤ len) ∧ (NoBt e = true → p ≤ r.pos) := by
  intro fuel
  induction fuel with
  | zero => intro p acc acc' r h; simp [genListLoop] at h
  | succ n ih =>
    intro p acc acc' r h
    unfold genListLoop at h
    split at h
    · simp at h
    · rename_i r' hr'
      have h1 := hr e p r' hr'
      split at h
      · simp only at h
        split at h
        · simp at h; obtain ⟨_, h⟩ := h; subst h; exact h1
        · have h2 := ih _ _ _ _ h
          exact ⟨fun hp => h2.1 (h1.1 hp), fun hnb => Nat.le_trans (h1.2 hnb) (h2.2 hnb)⟩
      · simp at h; obtain ⟨_, h⟩ := h; subst h
        constructor
        · intro hp; simp only; split <;> first | exact hp | exact h1.1 hp
        · intro hnb; simp only; split <;> first | exact Nat.le_refl _ | exact h1.2 hnb

theorem genSepLoop_pos (hr : RunOK len run) (e s : Expr) (o : SepOpts) :
    ∀ fuel p st cp saw res, genSepLoop F run e s o fuel p st cp saw = some res →
    (p ≤ len → cp ≤ len → res.checkpoint ≤ len ∧ res.reg.pos ≤ len) ∧
    (NoBt e = true → NoBt s = true → ∀ lo, lo ≤ p → lo ≤ cp → lo ≤ res.checkpoint ∧ lo ≤ res.reg.pos) := by
  intro fuel
  induction fuel with
  | zero => intro p st cp saw res h; simp [genSepLoop] at h
  | succ n ih =>
    intro p st cp saw res h
    unfold genSepLoop at h
    split at h
    · simp at h
    · rename_i r hr1
      have h1 := hr e p r hr1
      split at h
      · split at h
        · simp at h
        · rename_i q hq
          have h2 := hr s r.pos q hq
          split at h
          · have h3 := ih _ _ _ _ _ h
            constructor
            · intro hp hcp
              refine h3.1 (h2.1 (h1.1 hp)) ?_
              split <;> first | exact h2.1 (h1.1 hp) | exact h1.1 hp
            · intro hne hns lo hlo hlc
              have hr_ge : lo ≤ r.pos := Nat.le_trans hlo (h1.2 hne)
              have hq_ge : lo ≤ q.pos := Nat.le_trans hr_ge (h2.2 hns)
              refine h3.2 hne hns lo hq_ge ?_
              split <;> first | exact hq_ge | exact hr_ge
          · simp at h; subst h
            exact ⟨fun hp _ => ⟨h1.1 hp, h2.1 (h1.1 hp)⟩,
              fun hne hns lo hlo _ => ⟨Nat.le_trans hlo (h1.2 hne), Nat.le_trans (Nat.le_trans hlo (h1.2 hne)) (h2.2 hns)⟩⟩
      · simp at h; subst h
        exact ⟨fun hp hcp => ⟨hcp, h1.1 hp⟩, fun hne _ lo hlo hlc => ⟨hlc, Nat.le_trans hlo (h1.2 hne)⟩⟩

theorem genSkipAlts_pos (hr : RunOK len run) (cp : Nat) :
    ∀ xs cur res, genSkipAlts F run cp xs cur = some res →
    (cp ≤ len → cur ≤ len → (match res with | .inl q => q | .inr q => q) ≤ len) ∧
    (NoBtList xs = true → cp ≤ cur → cp ≤ (match res with | .inl q => q | .inr q => q)) := by
  intro xs
  induction xs with
  | nil => intro cur res h; simp [genSkipAlts] at h; subst h; simp
  | cons x xs ih =>
    intro cur res h
    unfold genSkipAlts at h
    split at h
    · simp at h
    · rename_i r hr1
      have h1 := hr x cur r hr1
      split at h
      · split at h
        · simp at h; subst h
          refine ⟨fun _ hc => h1.1 hc, fun hnb hc => ?_⟩
          simp only [NoBtList, Bool.and_eq_true] at hnb
          exact Nat.le_trans hc (h1.2 hnb.1)
        · have h2 := ih _ _ h
          refine ⟨fun hcp hc => h2.1 hcp (h1.1 hc), fun hnb hc => ?_⟩
          simp only [NoBtList, Bool.and_eq_true] at hnb
          exact h2.2 hnb.2 (Nat.le_trans hc (h1.2 hnb.1))
      · split at h
        · simp at h; subst h
          refine ⟨fun _ hc => h1.1 hc, fun hnb hc => ?_⟩
          simp only [NoBtList, Bool.and_eq_true] at hnb
          exact Nat.le_trans hc (h1.2 hnb.1)
        · have h2 := ih _ _ h
          constructor
          · intro hcp hc
            refine h2.1 hcp ?_
            split <;> first | exact hcp | exact h1.1 hc
          · intro hnb hc
            simp only [NoBtList, Bool.and_eq_true] at hnb
            refine h2.2 hnb.2 ?_
            split <;> first | exact Nat.le_refl _ | exact Nat.le_trans hc (h1.2 hnb.1)

theorem genSkipLoop_pos (hr : RunOK len run) (xs : List Expr) :
    ∀ fuel p r, genSkipLoop F run xs fuel p = some r →
    (p ≤ len → r.pos ≤ len) ∧ (NoBtList xs = true → p ≤ r.pos) := by
  intro fuel
  induction fuel with
  | zero => intro p r h; simp [genSkipLoop] at h
  | succ n ih =>
    intro p r h
    unfold genSkipLoop at h
    split at h
    · simp at h
    · rename_i p' ha
      have h1 := genSkipAlts_pos (F := F) hr p xs p _ ha
      have h2 := ih _ _ h
      exact ⟨fun hp => h2.1 (h1.1 hp hp), fun hnb => Nat.le_trans (h1.2 hnb (Nat.le_refl _)) (h2.2 hnb)⟩
    · rename_i p' ha
      have h1 := genSkipAlts_pos (F := F) hr p xs p _ ha
      simp at h; subst h
      exact ⟨fun hp => h1.1 hp hp, fun hnb => h1.2 hnb (Nat.le_refl _)⟩

theorem genLongestOpts_pos' (hr : RunOK len run) (needsErr : Bool) (bt : Nat) :
    ∀ xs st st', genLongestOpts F run needsErr bt xs st = some st' →
    (bt ≤ len → st.fpos ≤ len → st.ferrpos ≤ len → st.last.pos ≤ len →
      st'.fpos ≤ len ∧ st'.ferrpos ≤ len ∧ st'.last.pos ≤ len) ∧
    (NoBtList xs = true → bt ≤ st.fpos → bt ≤ st.ferrpos → bt ≤ st.last.pos →
      bt ≤ st'.fpos ∧ bt ≤ st'.ferrpos ∧ bt ≤ st'.last.pos) := by
  intro xs
  induction xs with
  | nil =>
    intro st st' h; simp [genLongestOpts] at h; subst h
    exact ⟨fun _ a b c => ⟨a, b, c⟩, fun _ a b c => ⟨a, b, c⟩⟩
  | cons x xs ih =>
    intro st st' h
    unfold genLongestOpts at h
    split at h
    · simp at h
    · rename_i r hr1
      have h1 := hr x bt r hr1
      split at h
      · split at h
        · have h2 := ih _ _ h
          exact ⟨fun hbt _ b _ => h2.1 hbt (h1.1 hbt) b (h1.1 hbt),
            fun hnb _ b _ => by
              simp only [NoBtList, Bool.and_eq_true] at hnb
              exact h2.2 hnb.2 (h1.2 hnb.1) b (h1.2 hnb.1)⟩
        · have h2 := ih _ _ h
          exact ⟨fun hbt a b _ => h2.1 hbt a b (h1.1 hbt),
            fun hnb a b _ => by
              simp only [NoBtList, Bool.and_eq_true] at hnb
              exact h2.2 hnb.2 a b (h1.2 hnb.1)⟩
      · split at h
        · have h2 := ih _ _ h
          exact ⟨fun hbt a _ _ => h2.1 hbt a (h1.1 hbt) (h1.1 hbt),
            fun hnb a _ _ => by
              simp only [NoBtList, Bool.and_eq_true] at hnb
              exact h2.2 hnb.2 a (h1.2 hnb.1) (h1.2 hnb.1)⟩
        · have h2 := ih _ _ h
          exact ⟨fun hbt a b _ => h2.1 hbt a b (h1.1 hbt),
            fun hnb a b _ => by
              simp only [NoBtList, Bool.and_eq_true] at hnb
              exact h2.2 hnb.2 a b (h1.2 hnb.1)⟩

theorem NoBt_combineRows {xs : List Expr} {e : Expr} (h : combineRows xs = some e)
    (hnb : NoBtList xs = true) : NoBt e = true := by
  match xs, h with
  | [x], h => simp [combineRows] at h; subst h; simpa [NoBtList] using hnb
  | x :: y :: zs, h => simp [combineRows] at h; subst h; simpa [NoBt] using hnb

theorem genOT_pos (hr : RunOK len run) (T : TableExprs) :
    ∀ fuel ph st last r, genOT F run T fuel ph st last = some r →
    (st.pos ≤ len → st.outerCp ≤ len → r.pos ≤ len) ∧
    ((∀ e, T.prefixes = some e → NoBt e = true) → NoBt T.operands = true →
      (∀ e, T.postfixes = some e → NoBt e = true) → (∀ e, T.infixes = some e → NoBt e = true) →
      ∀ lo, lo ≤ st.pos → lo ≤ st.outerCp → lo ≤ r.pos) := by
  intro fuel
  induction fuel with
  | zero => intro ph st last r h; simp [genOT] at h
  | succ n ih =>
    intro ph st last r h
    cases ph with
    | pre =>
      simp only [genOT] at h
      split at h
      · exact ih _ _ _ _ h
      · rename_i pe hpe
        split at h
        · simp at h
        · rename_i r' hr'
          have h1 := hr pe st.pos r' hr'
          split at h
          · split at h
            · simp at h
            · have h2 := ih _ _ _ _ h
              exact ⟨fun hp hc => h2.1 (h1.1 hp) hc,
                fun a b c d lo hlo hlc => h2.2 a b c d lo (Nat.le_trans hlo (h1.2 (a pe hpe))) hlc⟩
          · have h2 := ih _ _ _ _ h
            constructor
            · intro hp hc
              refine h2.1 ?_ hc
              simp only; split <;> first | exact hp | exact h1.1 hp
            · intro a b c d lo hlo hlc
              refine h2.2 a b c d lo ?_ hlc
              simp only; split <;> first | exact hlo | exact Nat.le_trans hlo (h1.2 (a pe hpe))
    | operand =>
      simp only [genOT] at h
      split at h
      · simp at h
      · rename_i r' hr'
        have h1 := hr T.operands st.pos r' hr'
        split at h
        · have h2 := ih _ _ _ _ h
          exact ⟨fun hp hc => h2.1 (h1.1 hp) hc,
            fun a b c d lo hlo hlc => h2.2 a b c d lo (Nat.le_trans hlo (h1.2 b)) hlc⟩
        · split at h
          · simp at h; subst h
            exact ⟨fun hp _ => h1.1 hp, fun _ b _ _ lo hlo _ => Nat.le_trans hlo (h1.2 b)⟩
          · split at h
            · simp at h
            · simp at h; subst h
              exact ⟨fun _ hc => hc, fun _ _ _ _ lo _ hlc => hlc⟩
    | post =>
      simp only [genOT] at h
      split at h
      · have h2 := ih _ _ _ _ h
        exact ⟨fun hp _ => h2.1 hp hp, fun a b c d lo hlo _ => h2.2 a b c d lo hlo hlo⟩
      · rename_i pe hpe
        split at h
        · simp at h
        · rename_i r' hr'
          have h1 := hr pe st.pos r' hr'
          split at h
          · split at h
            · simp at h
            · split at h
              · simp at h
              · split at h
                · simp at h
                · have h2 := ih _ _ _ _ h
                  exact ⟨fun hp hc => h2.1 (h1.1 hp) hc,
                    fun a b c d lo hlo hlc => h2.2 a b c d lo (Nat.le_trans hlo (h1.2 (c pe hpe))) hlc⟩
          · have h2 := ih _ _ _ _ h
            constructor
            · intro hp _
              have : (if (flagsOf F pe).cps = true then st.pos else r'.pos) ≤ len := by
                split <;> first | exact hp | exact h1.1 hp
              exact h2.1 this this
            · intro a b c d lo hlo _
              have : lo ≤ (if (flagsOf F pe).cps = true then st.pos else r'.pos) := by
                split <;> first | exact hlo | exact Nat.le_trans hlo (h1.2 (c pe hpe))
              exact h2.2 a b c d lo this this
    | inf =>
      simp only [genOT] at h
      split at h
      · split at h
        · simp at h
        · simp at h; subst h; exact ⟨fun hp _ => hp, fun _ _ _ _ lo hlo _ => hlo⟩
      · rename_i ie hie
        split at h
        · simp at h
        · rename_i r' hr'
          have h1 := hr ie st.pos r' hr'
          split at h
          · split at h
            · simp at h
            · split at h
              · simp at h
              · split at h
                · simp at h
                · simp at h; subst h; exact ⟨fun _ hc => hc, fun _ _ _ _ lo _ hlc => hlc⟩
              · have h2 := ih _ _ _ _ h
                exact ⟨fun hp hc => h2.1 (h1.1 hp) hc,
                  fun a b c d lo hlo hlc => h2.2 a b c d lo (Nat.le_trans hlo (h1.2 (d ie hie))) hlc⟩
          · split at h
            · simp at h
            · simp at h; subst h
              constructor
              · intro hp hc; simp only; split <;> first | exact hc | exact h1.1 hp
              · intro _ _ _ d lo hlo hlc
                simp only; split <;> first | exact hlc | exact Nat.le_trans hlo (h1.2 (d ie hie))

end Sourcer

namespace Sourcer

variable {F : FlagTable}

theorem genSkipTo_pos {P : Program} {run : Run} {len : Nat} (hr : RunOK len run) (skip : Bool)
    (e p' : Nat) (h : genSkipTo P run skip e = some p') :
    (e ≤ len → p' ≤ len) ∧ e ≤ p' := by
  unfold genSkipTo at h
  cases skip with
  | false => simp at h; subst h; exact ⟨fun h => h, Nat.le_refl _⟩
  | true =>
    simp only [↓reduceIte] at h
    split at h
    · simp at h; subst h; exact ⟨fun h => h, Nat.le_refl _⟩
    · split at h
      · simp at h
      · rename_i r hr1
        simp at h; subst h
        have := hr _ _ _ hr1
        exact ⟨this.1, this.2 (by simp [NoBt])⟩

/-- positions of the code model: within the input, and (without `Backtrack`) never before the
    start – for successes and failures alike -/
theorem gen_pos (P : Program) (inp : List Nat) (hm : MatcherBounded P) (hP : RulesNoBt P) :
    ∀ fuel, RunOK inp.length (gen F P inp fuel) := by
  intro fuel
  induction fuel with
  | zero => intro e p r h; simp [gen] at h
  | succ n ih =>
    intro e p r h
    cases e with
    | str s skip =>
      simp only [gen] at h
      split at h
      · simp at h; subst h; exact ⟨fun h => h, fun _ => Nat.le_refl _⟩
      · rename_i hne
        split at h
        · rename_i hmatch
          split at h
          · simp at h
          · rename_i p' hsk
            simp at h; subst h
            have hb := matchAt_le (by simpa using hne) hmatch
            have := genSkipTo_pos ih skip _ _ hsk
            exact ⟨fun _ => this.1 hb, fun _ => by have := this.2; simp only; omega⟩
        · simp at h; subst h; exact ⟨fun h => h, fun _ => Nat.le_refl _⟩
    | regex rx skip =>
      simp only [gen] at h
      split at h
      · rename_i e' hmatch
        have hb := hm _ _ _ _ hmatch
        split at h
        · simp at h
        · rename_i p' hsk
          simp at h; subst h
          have := genSkipTo_pos ih skip _ _ hsk
          exact ⟨fun _ => this.1 hb.2, fun _ => Nat.le_trans hb.1 this.2⟩
      · simp at h; subst h; exact ⟨fun h => h, fun _ => Nat.le_refl _⟩
    | byte b skip =>
      simp only [gen] at h
      split at h
      · rename_i hmatch
        split at h
        · simp at h
        · rename_i p' hsk
          simp at h; subst h
          have hlt : p < inp.length := by
            simp only [Bool.and_eq_true, beq_iff_eq] at hmatch
            have := hmatch.2
            rcases Nat.lt_or_ge p inp.length with hlt | hge
            · exact hlt
            · have : inp[p]? = none := by simp; omega
              simp_all
          have := genSkipTo_pos ih skip _ _ hsk
          exact ⟨fun _ => this.1 (by omega), fun _ => by have := this.2; simp only; omega⟩
      · simp at h; subst h; exact ⟨fun h => h, fun _ => Nat.le_refl _⟩
    | ref k =>
      simp only [gen] at h
      split at h
      · simp at h
      · rename_i body hb
        have := ih body p r h
        exact ⟨this.1, fun _ => this.2 (hP k body hb)⟩
    | seq xs => simp only [gen] at h; simpa [NoBt] using genSeq_pos ih xs p [] r h
    | cls name xs keep => simp only [gen] at h; simpa [NoBt] using genCls_pos ih name p xs keep p [] r h
    | discard a b left =>
      simp only [gen] at h
      split at h
      · simp at h
      · rename_i ra hra
        have h1 := ih a p ra hra
        split at h
        · split at h
          · simp at h
          · rename_i rb hrb
            have h2 := ih b ra.pos rb hrb
            have hres : r.pos = rb.pos := by
              cases left
              · simp only [Bool.false_eq_true, ↓reduceIte] at h
                split at h <;> (simp at h; subst h; rfl)
              · simp at h; subst h; rfl
            rw [hres]
            refine ⟨fun hp => h2.1 (h1.1 hp), fun hnb => ?_⟩
            simp only [NoBt, Bool.and_eq_true] at hnb
            exact Nat.le_trans (h1.2 hnb.1) (h2.2 hnb.2)
        · simp at h; subst h
          refine ⟨h1.1, fun hnb => ?_⟩
          simp only [NoBt, Bool.and_eq_true] at hnb
          exact h1.2 hnb.1
    | choice xs =>
      simp only [gen] at h
      have := genChoice_pos' ih _ p xs _ _ _ r h
      exact ⟨fun hp => this.1 hp hp hp, fun hnb => this.2 (by simpa [NoBt] using hnb) (Nat.le_refl _) (Nat.le_refl _)⟩
    | opt x =>
      simp only [gen] at h
      split at h
      · simp at h
      · rename_i r' hr'
        have h1 := ih x p r' hr'
        split at h
        · simp at h; subst h; exact ⟨h1.1, fun hnb => h1.2 (by simpa [NoBt] using hnb)⟩
        · simp at h; subst h; exact ⟨fun h => h, fun _ => Nat.le_refl _⟩
    | list x min extra =>
      simp only [gen, genList] at h
      split at h
      · simp at h; subst h; exact ⟨fun h => h, fun _ => Nat.le_refl _⟩
      · split at h
        · simp at h
        · rename_i acc r' hloop
          have h1 := genListLoop_pos ih x _ _ _ _ _ _ hloop
          have hres : r.pos = r'.pos := by
            split at h
            · simp at h; subst h; rfl
            · split at h <;> (simp at h; subst h; rfl)
          rw [hres]
          exact ⟨h1.1, fun hnb => h1.2 (by simpa [NoBt] using hnb)⟩
    | sep x s o =>
      simp only [gen, genSep] at h
      split at h
      · simp at h
      · rename_i st hst
        have h1 := genSepLoop_pos ih x s o _ _ _ _ _ _ hst
        split at h
        · simp at h; subst h
          refine ⟨fun hp => (h1.1 hp hp).1, fun hnb => ?_⟩
          simp only [NoBt, Bool.and_eq_true] at hnb
          exact (h1.2 hnb.1 hnb.2 p (Nat.le_refl _) (Nat.le_refl _)).1
        · simp at h; subst h
          refine ⟨fun hp => (h1.1 hp hp).2, fun hnb => ?_⟩
          simp only [NoBt, Bool.and_eq_true] at hnb
          exact (h1.2 hnb.1 hnb.2 p (Nat.le_refl _) (Nat.le_refl _)).2
    | expect x =>
      simp only [gen] at h
      split at h
      · simp at h
      · rename_i r' hr'
        have h1 := ih x p r' hr'
        split at h
        · simp at h; subst h; exact ⟨fun h => h, fun _ => Nat.le_refl _⟩
        · simp at h; subst h; exact ⟨h1.1, fun hnb => h1.2 (by simpa [NoBt] using hnb)⟩
    | expectNot x =>
      simp only [gen] at h
      split at h
      · simp at h
      · split at h <;> (simp at h; subst h; exact ⟨fun h => h, fun _ => Nat.le_refl _⟩)
    | skip xs =>
      simp only [gen] at h
      simpa [NoBt] using genSkipLoop_pos ih xs _ _ _ h
    | longest xs =>
      simp only [gen] at h
      match xs, h with
      | [], h => simp [genLongest] at h; subst h; exact ⟨fun h => h, fun _ => Nat.le_refl _⟩
      | [x], h =>
        simp only [genLongest] at h
        have := ih x p r h
        exact ⟨this.1, fun hnb => this.2 (by simpa [NoBt, NoBtList] using hnb)⟩
      | x :: y :: zs, h =>
        simp only [genLongest] at h
        split at h
        · simp at h
        · rename_i st hst
          have h1 := genLongestOpts_pos' ih _ p _ _ _ hst
          have hpos : r.pos = st.fpos ∨ r.pos = st.ferrpos ∨ r.pos = st.last.pos := by
            split at h
            · simp at h; subst h; exact Or.inl rfl
            · split at h
              · simp at h; subst h; exact Or.inr (Or.inl rfl)
              · simp at h; subst h; exact Or.inr (Or.inr rfl)
          constructor
          · intro hp
            have := h1.1 hp hp hp hp
            rcases hpos with h | h | h <;> rw [h] <;> simp [this]
          · intro hnb
            have := h1.2 (by simpa [NoBt] using hnb) (Nat.le_refl _) (Nat.le_refl _) (Nat.le_refl _)
            rcases hpos with h | h | h <;> rw [h] <;> simp [this]
    | backtrack k =>
      simp only [gen] at h
      split at h
      · simp at h; subst h; exact ⟨fun hp => by simp only; omega, fun hnb => by simp [NoBt] at hnb⟩
      · simp at h; subst h; exact ⟨fun h => h, fun _ => Nat.le_refl _⟩
    | fail => simp only [gen] at h; simp at h; subst h; exact ⟨fun h => h, fun _ => Nat.le_refl _⟩
    | py v => simp only [gen] at h; simp at h; subst h; exact ⟨fun h => h, fun _ => Nat.le_refl _⟩
    | tagged x tag =>
      simp only [gen] at h
      split at h
      · simp at h
      · rename_i r' hr'
        have h1 := ih x p r' hr'
        split at h <;> (simp at h; subst h; exact ⟨h1.1, fun hnb => h1.2 (by simpa [NoBt] using hnb)⟩)
    | optable pre operand mixfix post inf =>
      simp only [gen] at h
      have h1 := genOT_pos ih (tableExprs pre operand mixfix post inf) _ _ _ _ _ h
      refine ⟨fun hp => h1.1 hp hp, fun hnb => ?_⟩
      simp only [NoBt, Bool.and_eq_true] at hnb
      obtain ⟨⟨⟨⟨n1, n2⟩, n3⟩, n4⟩, n5⟩ := hnb
      refine h1.2 ?_ ?_ ?_ ?_ p (Nat.le_refl _) (Nat.le_refl _)
      · intro e he; exact NoBt_combineRows (by simpa [tableExprs] using he) n1
      · simp only [tableExprs]
        cases mixfix with
        | nil => simpa [combineRows] using n2
        | cons m ms => simp [combineRows, NoBt, NoBtList, n2] ; simpa [NoBtList] using n3
      · intro e he; exact NoBt_combineRows (by simpa [tableExprs] using he) n4
      · intro e he; exact NoBt_combineRows (by simpa [tableExprs] using he) n5

end Sourcer
