import Sourcer.FlagBits
import Sourcer.Proofs.Sound
/-
  A boolean, finitely enumerating version of `LocallySound`, so that the obligation for the table
  regenerated from /repo is discharged by kernel evaluation (`decide`).
-/
namespace Sourcer

def allBools : List Bool := [false, true]
def allFlags : List Flags := [⟨false, false⟩, ⟨false, true⟩, ⟨true, false⟩, ⟨true, true⟩]
def allMins : List MinClass := [.zero, .one, .many]
def allSepOpts : List SepOpts :=
  allBools.flatMap fun d => allBools.flatMap fun t => allBools.flatMap fun e => allBools.map fun r =>
    ⟨d, t, e, r⟩

theorem mem_allBools (b : Bool) : b ∈ allBools := by cases b <;> simp [allBools]
theorem mem_allFlags (f : Flags) : f ∈ allFlags := by
  obtain ⟨a, c⟩ := f; cases a <;> cases c <;> simp [allFlags]
theorem mem_allMins (m : MinClass) : m ∈ allMins := by cases m <;> simp [allMins]
theorem mem_allSepOpts (o : SepOpts) : o ∈ allSepOpts := by
  obtain ⟨d, t, e, r⟩ := o
  cases d <;> cases t <;> cases e <;> cases r <;> decide

def LocallySoundB (F : FlagTable) : Bool :=
  (F.str false).as == false && F.regex.as == false && F.byte.as == false &&
  F.ref.as == false && F.ref.cps == true &&
  allBools.all (fun b => (!(F.seq b).as || b) && ((F.seq b).cps || (F.seq b).as)) &&
  allBools.all (fun b => (!(F.cls b).as || b) && ((F.cls b).cps || (F.cls b).as)) &&
  allFlags.all (fun a => allFlags.all fun b =>
    (!(F.discard a b).as || (a.as && b.as)) &&
    ((F.discard a b).cps || (F.discard a b).as || ((!a.cps || a.as) && b.as))) &&
  allBools.all (fun aa => allBools.all fun ac =>
    (F.choice aa ac).as == aa && ((F.choice aa ac).cps || aa || !ac)) &&
  allMins.all (fun m => allFlags.all fun c =>
    (!(F.list m c).as || m == .zero) && ((F.list m c).cps || m != .many)) &&
  allSepOpts.all (fun o => allFlags.all fun a => allFlags.all fun b =>
    (!(F.sep o a b).as || (o.empty && !o.require)) && ((F.sep o a b).cps || (F.sep o a b).as)) &&
  allFlags.all (fun c =>
    (!(F.expect c).as || c.as) && ((F.expect c).cps || !c.cps || c.as) &&
    (F.expectNot c).as == false) &&
  allBools.all (fun aa => allBools.all fun ac =>
    (F.longest aa ac).as == aa && ((F.longest aa ac).cps || aa || !ac)) &&
  F.backtrack.as == false && F.fail.as == false &&
  allFlags.all (fun a => allFlags.all fun b =>
    (!(F.apply a b).as || (a.as && b.as)) &&
    ((F.apply a b).cps || (F.apply a b).as || ((!a.cps || a.as) && b.as))) &&
  F.py.as == true &&
  allBools.all (fun hp => allFlags.all fun c =>
    (!(F.optable hp c).as || c.as) &&
    ((F.optable hp c).cps || (F.optable hp c).as || (!hp && (!c.cps || c.as))))

theorem locallySound_of_check {F : FlagTable} (h : LocallySoundB F = true) : LocallySound F := by
  simp only [LocallySoundB, Bool.and_eq_true, List.all_eq_true, beq_iff_eq, Bool.or_eq_true,
    Bool.not_eq_true', bne_iff_ne, ne_eq] at h
  obtain ⟨⟨⟨⟨⟨⟨⟨⟨⟨⟨⟨⟨⟨⟨⟨⟨⟨h1, h2⟩, h3⟩, h4⟩, h5⟩, h6⟩, h7⟩, h8⟩, h9⟩, h10⟩, h11⟩, h12⟩, h13⟩, h14⟩, h15⟩, h16⟩, h17⟩, h18⟩ := h
  refine
    { str_ne := h1, regex := h2, byte := h3, ref_as := h4, ref_cps := h5
      seq_as := ?_, seq_cps := ?_, cls_as := ?_, cls_cps := ?_
      discard_as := ?_, discard_cps := ?_, choice_as := ?_, choice_cps := ?_
      list_as := ?_, list_cps := ?_, sep_as := ?_, sep_cps := ?_
      expect_as := ?_, expect_cps := ?_, expectNot_as := ?_
      longest_as := ?_, longest_cps := ?_, backtrack := h14, fail := h15
      apply_as := ?_, apply_cps := ?_, py_as := h17, optable_as := ?_, optable_cps := ?_ }
  · intro b hb; have := (h6 b (mem_allBools b)).1; simp_all
  · intro b; have := (h6 b (mem_allBools b)).2; exact this
  · intro b hb; have := (h7 b (mem_allBools b)).1; simp_all
  · intro b; have := (h7 b (mem_allBools b)).2; exact this
  · intro a b hab; have := (h8 a (mem_allFlags a) b (mem_allFlags b)).1; simp_all
  · intro a b hab
    have := (h8 a (mem_allFlags a) b (mem_allFlags b)).2
    rcases this with (this | this) | this
    · simp_all
    · exact Or.inl this
    · exact Or.inr this
  · intro aa ac; exact (h9 aa (mem_allBools aa) ac (mem_allBools ac)).1
  · intro aa ac hc
    have := (h9 aa (mem_allBools aa) ac (mem_allBools ac)).2
    rcases this with (this | this) | this
    · simp_all
    · exact Or.inl this
    · exact Or.inr this
  · intro m c hm; have := (h10 m (mem_allMins m) c (mem_allFlags c)).1; simp_all
  · intro m c hm; have := (h10 m (mem_allMins m) c (mem_allFlags c)).2; simp_all
  · intro o a b hs
    have := (h11 o (mem_allSepOpts o) a (mem_allFlags a) b (mem_allFlags b)).1
    simp_all
  · intro o a b; exact (h11 o (mem_allSepOpts o) a (mem_allFlags a) b (mem_allFlags b)).2
  · intro c hc; have := (h12 c (mem_allFlags c)).1.1; simp_all
  · intro c hc
    have := (h12 c (mem_allFlags c)).1.2
    rcases this with (this | this) | this
    · simp_all
    · exact Or.inl this
    · exact Or.inr this
  · intro c; exact (h12 c (mem_allFlags c)).2
  · intro aa ac; exact (h13 aa (mem_allBools aa) ac (mem_allBools ac)).1
  · intro aa ac hc
    have := (h13 aa (mem_allBools aa) ac (mem_allBools ac)).2
    rcases this with (this | this) | this
    · simp_all
    · exact Or.inl this
    · exact Or.inr this
  · intro a b hab; have := (h16 a (mem_allFlags a) b (mem_allFlags b)).1; simp_all
  · intro a b hab
    have := (h16 a (mem_allFlags a) b (mem_allFlags b)).2
    rcases this with (this | this) | this
    · simp_all
    · exact Or.inl this
    · exact Or.inr this
  · intro hp c hc; have := (h18 hp (mem_allBools hp) c (mem_allFlags c)).1; simp_all
  · intro hp c hc
    have := (h18 hp (mem_allBools hp) c (mem_allFlags c)).2
    rcases this with (this | this) | this
    · simp_all
    · exact Or.inl this
    · right; simp_all

end Sourcer
