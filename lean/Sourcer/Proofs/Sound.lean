import Sourcer.Gen
/-
  Invariants of the code model under a locally sound flag table:
    I1  `as e`   → running `e` leaves `_status = True`
    I2  `¬cps e` → if `e` fails, `_pos` is where it was
-/
namespace Sourcer

/-- Per-class conditions on a flag table under which I1/I2 are inductive and the emitted
    restores suffice.  Checked by `decide` on the table regenerated from /repo (Tie/Flags.lean). -/
structure LocallySound (F : FlagTable) : Prop where
  str_ne : (F.str false).as = false
  regex : F.regex.as = false
  byte : F.byte.as = false
  ref_as : F.ref.as = false
  ref_cps : F.ref.cps = true
  seq_as : ∀ b, (F.seq b).as = true → b = true
  seq_cps : ∀ b, (F.seq b).cps = true ∨ (F.seq b).as = true
  cls_as : ∀ b, (F.cls b).as = true → b = true
  cls_cps : ∀ b, (F.cls b).cps = true ∨ (F.cls b).as = true
  discard_as : ∀ a b, (F.discard a b).as = true → a.as = true ∧ b.as = true
  discard_cps : ∀ a b, (F.discard a b).cps = false →
    (F.discard a b).as = true ∨ ((a.cps = false ∨ a.as = true) ∧ b.as = true)
  choice_as : ∀ aa ac, (F.choice aa ac).as = aa
  choice_cps : ∀ aa ac, (F.choice aa ac).cps = false → aa = true ∨ ac = false
  list_as : ∀ m c, (F.list m c).as = true → m = .zero
  list_cps : ∀ m c, (F.list m c).cps = false → m ≠ .many
  sep_as : ∀ o a b, (F.sep o a b).as = true → o.empty = true ∧ o.require = false
  sep_cps : ∀ o a b, (F.sep o a b).cps = true ∨ (F.sep o a b).as = true
  expect_as : ∀ c, (F.expect c).as = true → c.as = true
  expect_cps : ∀ c, (F.expect c).cps = false → c.cps = false ∨ c.as = true
  expectNot_as : ∀ c, (F.expectNot c).as = false
  longest_as : ∀ aa ac, (F.longest aa ac).as = aa
  longest_cps : ∀ aa ac, (F.longest aa ac).cps = false → aa = true ∨ ac = false
  backtrack : F.backtrack.as = false
  fail : F.fail.as = false
  apply_as : ∀ a b, (F.apply a b).as = true → a.as = true ∧ b.as = true
  apply_cps : ∀ a b, (F.apply a b).cps = false →
    (F.apply a b).as = true ∨ ((a.cps = false ∨ a.as = true) ∧ b.as = true)
  py_as : F.py.as = true
  optable_as : ∀ hp c, (F.optable hp c).as = true → c.as = true
  optable_cps : ∀ hp c, (F.optable hp c).cps = false →
    (F.optable hp c).as = true ∨ (hp = false ∧ (c.cps = false ∨ c.as = true))

def Sound (F : FlagTable) (run : Run) : Prop :=
  ∀ e p r, run e p = some r →
    ((flagsOf F e).as = true → r.status = true) ∧
    ((flagsOf F e).cps = false → r.status = false → r.pos = p)

variable {F : FlagTable} {run : Run}

theorem Sound.as_ok (hs : Sound F run) {e p r} (h : run e p = some r)
    (ha : (flagsOf F e).as = true) : r.status = true := (hs e p r h).1 ha

theorem Sound.fail_pos (hs : Sound F run) {e p r} (h : run e p = some r)
    (hc : (flagsOf F e).cps = false) (hf : r.status = false) : r.pos = p := (hs e p r h).2 hc hf

/-- after the emitted success test, `_status` really is true -/
theorem Sound.okF_status (hs : Sound F run) {e p r} (h : run e p = some r)
    (hok : okF F e r = true) : r.status = true := by
  unfold okF at hok
  cases ha : (flagsOf F e).as
  · simpa [ha] using hok
  · exact hs.as_ok h ha

theorem okF_false {e : Expr} {r : Reg} (h : okF F e r = false) :
    (flagsOf F e).as = false ∧ r.status = false := by
  unfold okF at h; simpa using h

theorem genSeq_as (hs : Sound F run) : ∀ xs p acc r, genSeq F run xs p acc = some r →
    allAs F xs = true → r.status = true := by
  intro xs
  induction xs with
  | nil => intro p acc r h _; simp [genSeq] at h; subst h; rfl
  | cons e es ih =>
    intro p acc r h ha
    simp only [allAs, Bool.and_eq_true] at ha
    unfold genSeq at h
    split at h
    · simp at h
    · rename_i r' hr
      have : okF F e r' = true := by simp [okF, ha.1]
      simp only [this, ↓reduceIte] at h
      exact ih _ _ _ h ha.2

theorem genCls_as (hs : Sound F run) (name : String) (start : Nat) :
    ∀ xs ks p acc r, genCls F run name start xs ks p acc = some r →
    allAs F xs = true → r.status = true := by
  intro xs
  induction xs with
  | nil => intro ks p acc r h _; simp [genCls] at h; subst h; rfl
  | cons e es ih =>
    intro ks p acc r h ha
    simp only [allAs, Bool.and_eq_true] at ha
    unfold genCls at h
    split at h
    · simp at h
    · rename_i r' hr
      have : okF F e r' = true := by simp [okF, ha.1]
      simp only [this, ↓reduceIte] at h
      exact ih _ _ _ _ h ha.2

theorem genChoice_as (hs : Sound F run) (bt : Nat) :
    ∀ xs cur fp fe r, genChoice F run false bt xs cur fp fe = some r →
    anyAs F xs = true → r.status = true := by
  intro xs
  induction xs with
  | nil => intro cur fp fe r _ ha; simp [anyAs] at ha
  | cons e es ih =>
    intro cur fp fe r h ha
    unfold genChoice at h
    split at h
    · simp at h
    · rename_i r' hr
      by_cases hae : (flagsOf F e).as = true
      · simp only [hae, ↓reduceIte, Bool.false_eq_true, Option.some.injEq] at h
        subst h; exact hs.as_ok hr hae
      · simp only [hae, Bool.false_eq_true, ↓reduceIte] at h
        by_cases hst : r'.status = true
        · simp only [hst, ↓reduceIte, Option.some.injEq] at h; subst h; exact hst
        · simp only [hst, Bool.false_eq_true, ↓reduceIte] at h
          have : anyAs F es = true := by
            simp only [anyAs, Bool.or_eq_true] at ha
            rcases ha with ha | ha
            · exact absurd ha hae
            · exact ha
          exact ih _ _ _ _ h this

theorem genChoice_pos (hs : Sound F run) (needsErr : Bool) (bt p0 : Nat) :
    ∀ xs cur fp fe r, genChoice F run needsErr bt xs cur fp fe = some r →
    anyCps F xs = false → cur.pos = p0 → fp = p0 → r.status = false → r.pos = p0 := by
  intro xs
  induction xs with
  | nil =>
    intro cur fp fe r h _ hc hfp _
    simp only [genChoice, Option.some.injEq] at h
    subst h; cases needsErr <;> simp [hc, hfp]
  | cons e es ih =>
    intro cur fp fe r h hac hc hfp hst
    simp only [anyCps, Bool.or_eq_false_iff] at hac
    unfold genChoice at h
    split at h
    · simp at h
    · rename_i r' hr
      by_cases hae : (flagsOf F e).as = true
      · simp only [hae, ↓reduceIte, Option.some.injEq] at h
        have := hs.as_ok hr hae
        subst h; cases needsErr <;> simp_all
      · simp only [hae, Bool.false_eq_true, ↓reduceIte] at h
        by_cases hst' : r'.status = true
        · simp only [hst', ↓reduceIte, Option.some.injEq] at h; subst h; simp_all
        · simp only [hst', Bool.false_eq_true, ↓reduceIte] at h
          have hpos : r'.pos = p0 := by
            rw [hc] at hr
            exact hs.fail_pos hr hac.1 (by simpa using hst')
          simp only [hac.1, Bool.and_false, Bool.false_and, Bool.false_eq_true, ↓reduceIte] at h
          exact ih _ _ _ _ h hac.2 hpos hfp hst

theorem genListLoop_len (hs : Sound F run) (e : Expr) (max : Option Nat) :
    ∀ fuel p acc acc' r, genListLoop F run e max fuel p acc = some (acc', r) →
    acc.length ≤ acc'.length ∧ (acc'.length = acc.length → r.status = false ∧ r.pos = p) := by
  intro fuel
  induction fuel with
  | zero => intro p acc acc' r h; simp [genListLoop] at h
  | succ n ih =>
    intro p acc acc' r h
    unfold genListLoop at h
    split at h
    · simp at h
    · rename_i r' hr
      by_cases hok : okF F e r' = true
      · simp only [hok, ↓reduceIte] at h
        split at h
        · simp only [Option.some.injEq, Prod.mk.injEq] at h
          obtain ⟨h1, h2⟩ := h
          subst h1; simp
        · have := ih _ _ _ _ h
          simp only [List.length_cons] at this
          constructor
          · omega
          · intro heq; omega
      · simp only [hok, Bool.false_eq_true, ↓reduceIte, Option.some.injEq, Prod.mk.injEq] at h
        obtain ⟨h1, h2⟩ := h
        have hf := okF_false (by simpa using hok)
        subst h1 h2
        refine ⟨Nat.le_refl _, fun _ => ⟨hf.2, ?_⟩⟩
        by_cases hc : (flagsOf F e).cps = true
        · simp [hc]
        · simp only [hc, Bool.false_eq_true, ↓reduceIte]
          exact hs.fail_pos hr (by simpa using hc) hf.2

theorem genSkipLoop_status (xs : List Expr) :
    ∀ fuel p r, genSkipLoop F run xs fuel p = some r → r.status = true := by
  intro fuel
  induction fuel with
  | zero => intro p r h; simp [genSkipLoop] at h
  | succ n ih =>
    intro p r h
    unfold genSkipLoop at h
    split at h
    · simp at h
    · exact ih _ _ h
    · simp at h; subst h; rfl

theorem genLongestOpts_has (hs : Sound F run) (needsErr : Bool) (bt : Nat) :
    ∀ xs st st', genLongestOpts F run needsErr bt xs st = some st' →
    (anyAs F xs = true ∨ st.has = true) → st'.has = true := by
  intro xs
  induction xs with
  | nil => intro st st' h ha; simp [genLongestOpts] at h; subst h; simpa [anyAs] using ha
  | cons x xs ih =>
    intro st st' h ha
    unfold genLongestOpts at h
    split at h
    · simp at h
    · rename_i r hr
      by_cases hok : okF F x r = true
      · simp only [hok, ↓reduceIte] at h
        split at h
        · exact ih _ _ h (Or.inr rfl)
        · rename_i hc
          have : st.has = true := by
            simp only [Bool.or_eq_true, Bool.not_eq_eq_eq_not, Bool.not_true, decide_eq_true_eq, not_or] at hc
            simpa using hc.1
          exact ih _ _ h (Or.inr this)
      · have hf := okF_false (F := F) (by simpa using hok)
        have ha' : anyAs F xs = true ∨ st.has = true := by
          rcases ha with ha | ha
          · simp only [anyAs, hf.1, Bool.false_or] at ha; exact Or.inl ha
          · exact Or.inr ha
        simp only [hok, Bool.false_eq_true, ↓reduceIte] at h
        split at h
        · exact ih _ _ h ha'
        · exact ih _ _ h ha'

theorem genLongestOpts_pos (hs : Sound F run) (needsErr : Bool) (bt : Nat) :
    ∀ xs st st', genLongestOpts F run needsErr bt xs st = some st' →
    anyCps F xs = false → (st.has = false → st.ferrpos = bt ∧ st.last.pos = bt) →
    (st'.has = false → st'.ferrpos = bt ∧ st'.last.pos = bt ∧ st'.last.status = st'.last.status) := by
  intro xs
  induction xs with
  | nil => intro st st' h _ hinv hh; simp [genLongestOpts] at h; subst h; simp [hinv hh]
  | cons x xs ih =>
    intro st st' h hac hinv hh
    simp only [anyCps, Bool.or_eq_false_iff] at hac
    unfold genLongestOpts at h
    split at h
    · simp at h
    · rename_i r hr
      by_cases hok : okF F x r = true
      · simp only [hok, ↓reduceIte] at h
        split at h
        · have := genLongestOpts_has hs needsErr bt _ _ _ h (Or.inr rfl)
          simp [this] at hh
        · rename_i hc
          have hhas : st.has = true := by
            simp only [Bool.or_eq_true, Bool.not_eq_eq_eq_not, Bool.not_true, decide_eq_true_eq, not_or] at hc
            simpa using hc.1
          have := genLongestOpts_has hs needsErr bt _ _ _ h (Or.inr hhas)
          simp [this] at hh
      · have hf := okF_false (F := F) (by simpa using hok)
        have hpos : r.pos = bt := hs.fail_pos hr hac.1 hf.2
        simp only [hok, Bool.false_eq_true, ↓reduceIte] at h
        split at h
        · refine ih _ _ h hac.2 ?_ hh
          intro hh'; simp only at hh'; simp [hpos]
        · refine ih _ _ h hac.2 ?_ hh
          intro hh'; simp only at hh'; simp [hpos, (hinv hh').1]

end Sourcer

namespace Sourcer

variable {F : FlagTable}

/-- with operands that always succeed the table always succeeds -/
theorem genOT_as {F : FlagTable} {run : Run} (T : TableExprs) (ha : (flagsOf F T.operands).as = true) :
    ∀ fuel ph st last r, genOT F run T fuel ph st last = some r → r.status = true := by
  intro fuel
  induction fuel with
  | zero => intro ph st last r h; simp [genOT] at h
  | succ n ih =>
    intro ph st last r h
    cases ph with
    | pre =>
      simp only [genOT] at h
      split at h
      · exact ih _ _ _ _ h
      · split at h
        · simp at h
        · split at h
          · split at h
            · simp at h
            · exact ih _ _ _ _ h
          · exact ih _ _ _ _ h
    | operand =>
      simp only [genOT] at h
      split at h
      · simp at h
      · rename_i r' hr'
        have hok : okF F T.operands r' = true := by simp [okF, ha]
        simp only [hok, ↓reduceIte] at h
        exact ih _ _ _ _ h
    | post =>
      simp only [genOT] at h
      split at h
      · exact ih _ _ _ _ h
      · split at h
        · simp at h
        · split at h
          · split at h
            · simp at h
            · split at h
              · simp at h
              · split at h
                · simp at h
                · exact ih _ _ _ _ h
          · exact ih _ _ _ _ h
    | inf =>
      simp only [genOT] at h
      split at h
      · split at h
        · simp at h
        · simp at h; subst h; rfl
      · split at h
        · simp at h
        · split at h
          · split at h
            · simp at h
            · split at h
              · simp at h
              · split at h
                · simp at h
                · simp at h; subst h; rfl
              · exact ih _ _ _ _ h
          · split at h
            · simp at h
            · simp at h; subst h; rfl

theorem popOperator_nonempty {ops ops' : List OpEntry} {xs xs' : List OTree}
    (h : popOperator ops xs = some (ops', xs')) : xs' ≠ [] := by
  unfold popOperator at h
  split at h
  · simp at h
  · split at h
    · split at h
      · simp at h; obtain ⟨_, h⟩ := h; subst h; simp
      · simp at h
    · split at h
      · simp at h; obtain ⟨_, h⟩ := h; subst h; simp
      · simp at h

theorem reduceInfix_nonempty (prec : Int) : ∀ (ops : List OpEntry) (xs : List OTree) (ops' : List OpEntry)
    (xs' : List OTree), reduceInfix prec ops xs = some (.go ops' xs') → xs ≠ [] → xs' ≠ [] := by
  intro ops
  induction ops with
  | nil => intro xs ops' xs' h hx; simp [reduceInfix] at h; obtain ⟨_, h⟩ := h; subst h; exact hx
  | cons o ops ih =>
    intro xs ops' xs' h hx
    unfold reduceInfix at h
    split at h
    · split at h
      · simp at h
      · rename_i hpop
        exact ih _ _ _ h (popOperator_nonempty hpop)
    · split at h
      · simp at h
      · simp at h; obtain ⟨_, h⟩ := h; subst h; exact hx

/-- without prefix rows, a table that fails has not moved: it fails only on its first operand -/
theorem genOT_fail_pos {F : FlagTable} {run : Run} (hs : Sound F run) (T : TableExprs)
    (hpre : T.prefixes = none)
    (hop : (flagsOf F T.operands).cps = false ∨ (flagsOf F T.operands).as = true) (p0 : Nat) :
    ∀ fuel ph st last r, genOT F run T fuel ph st last = some r →
    (((ph = .post ∨ ph = .inf) → st.operands ≠ []) ∧ (st.operands = [] → st.pos = p0)) →
    r.status = false → r.pos = p0 := by
  intro fuel
  induction fuel with
  | zero => intro ph st last r h; simp [genOT] at h
  | succ n ih =>
    intro ph st last r h hinv hst
    cases ph with
    | pre =>
      simp only [genOT, hpre] at h
      exact ih _ _ _ _ h ⟨by simp, hinv.2⟩ hst
    | operand =>
      simp only [genOT] at h
      split at h
      · simp at h
      · rename_i r' hr'
        split at h
        · exact ih _ _ _ _ h ⟨by simp, by simp⟩ hst
        · rename_i hok
          have hf := okF_false (F := F) (by simpa using hok)
          split at h
          · rename_i hemp
            simp at h; subst h
            have hp := hinv.2 (by simpa using hemp)
            rcases hop with hc | ha
            · simp only; rw [← hp]; exact hs.fail_pos hr' hc hf.2
            · simp [hf.1] at ha
          · split at h
            · simp at h
            · simp at h; subst h; simp at hst
    | post =>
      have hne : st.operands ≠ [] := hinv.1 (Or.inl rfl)
      simp only [genOT] at h
      split at h
      · exact ih _ _ _ _ h ⟨fun _ => hne, fun he => absurd he hne⟩ hst
      · split at h
        · simp at h
        · split at h
          · split at h
            · simp at h
            · split at h
              · simp at h
              · split at h
                · simp at h
                · exact ih _ _ _ _ h ⟨by simp, by simp⟩ hst
          · exact ih _ _ _ _ h ⟨fun _ => hne, fun he => absurd he hne⟩ hst
    | inf =>
      have hne : st.operands ≠ [] := hinv.1 (Or.inr rfl)
      simp only [genOT] at h
      split at h
      · split at h
        · simp at h
        · simp at h; subst h; simp at hst
      · split at h
        · simp at h
        · split at h
          · split at h
            · simp at h
            · split at h
              · simp at h
              · split at h
                · simp at h
                · simp at h; subst h; simp at hst
              · rename_i ops' operands' hred
                have hne' := reduceInfix_nonempty _ _ _ _ _ hred hne
                exact ih _ _ _ _ h ⟨by simp, fun he => absurd he hne'⟩ hst
          · split at h
            · simp at h
            · simp at h; subst h; simp at hst

theorem minClass_zero {m : Nat} : minClass m = .zero ↔ m = 0 := by
  unfold minClass; split <;> simp_all; split <;> simp

theorem minClass_many {m : Nat} : minClass m = .many ↔ 2 ≤ m := by
  unfold minClass; split
  · simp_all
  · split
    · simp_all
    · simp; omega

theorem gen_sound (hF : LocallySound F) (P : Program) (inp : List Nat) :
    ∀ fuel, Sound F (gen F P inp fuel) := by
  intro fuel
  induction fuel with
  | zero => intro e p r h; simp [gen] at h
  | succ n ih =>
    intro e p r h
    cases e with
    | str s skip =>
      simp only [gen] at h
      split at h
      · simp at h; subst h; simp
      · rename_i hne
        split at h
        · split at h
          · simp at h
          · simp at h; subst h; simp
        · simp at h; subst h
          have : s.isEmpty = false := by simpa using hne
          simp [flagsOf, this, hF.str_ne]
    | regex rx skip =>
      simp only [gen] at h
      split at h
      · split at h
        · simp at h
        · simp at h; subst h; simp
      · simp at h; subst h; simp [flagsOf, hF.regex]
    | byte b skip =>
      simp only [gen] at h
      split at h
      · split at h
        · simp at h
        · simp at h; subst h; simp
      · simp at h; subst h; simp [flagsOf, hF.byte]
    | ref k => simp [flagsOf, hF.ref_as, hF.ref_cps]
    | seq xs =>
      simp only [gen] at h
      have h1 : (flagsOf F (.seq xs)).as = true → r.status = true := by
        intro ha
        exact genSeq_as ih _ _ _ _ h (hF.seq_as _ (by simpa [flagsOf] using ha))
      refine ⟨h1, fun hc hf => ?_⟩
      rcases hF.seq_cps (allAs F xs) with h2 | h2
      · simp [flagsOf, h2] at hc
      · have := h1 (by simpa [flagsOf] using h2); simp [this] at hf
    | cls name xs keep =>
      simp only [gen] at h
      have h1 : (flagsOf F (.cls name xs keep)).as = true → r.status = true := by
        intro ha
        exact genCls_as ih _ _ _ _ _ _ _ h (hF.cls_as _ (by simpa [flagsOf] using ha))
      refine ⟨h1, fun hc hf => ?_⟩
      rcases hF.cls_cps (allAs F xs) with h2 | h2
      · simp [flagsOf, h2] at hc
      · have := h1 (by simpa [flagsOf] using h2); simp [this] at hf
    | discard a b left =>
      simp only [gen] at h
      split at h
      · simp at h
      · rename_i ra hra
        have h1 : (flagsOf F (.discard a b left)).as = true → r.status = true := by
          intro ha
          have hab := hF.discard_as _ _ (by simpa [flagsOf] using ha)
          have hoka : okF F a ra = true := by simp [okF, hab.1]
          simp only [hoka, ↓reduceIte] at h
          split at h
          · simp at h
          · rename_i rb hrb
            have hsb := ih.as_ok hrb hab.2
            have hokb : okF F b rb = true := by simp [okF, hab.2]
            cases left <;> simp [hokb] at h <;> subst h <;> simp [hsb]
        refine ⟨h1, fun hc hf => ?_⟩
        rcases hF.discard_cps _ _ (by simpa [flagsOf] using hc) with h2 | ⟨h2, h3⟩
        · have := h1 (by simpa [flagsOf] using h2); simp [this] at hf
        · by_cases hoka : okF F a ra = true
          · simp only [hoka, ↓reduceIte] at h
            split at h
            · simp at h
            · rename_i rb hrb
              have hsb := ih.as_ok hrb h3
              have hokb : okF F b rb = true := by simp [okF, h3]
              cases left <;> simp [hokb] at h <;> subst h <;> simp [hsb] at hf
          · simp only [hoka, Bool.false_eq_true, ↓reduceIte, Option.some.injEq] at h
            subst h
            have hfa := okF_false (F := F) (by simpa using hoka)
            rcases h2 with h2 | h2
            · exact ih.fail_pos hra h2 hf
            · simp [hfa.1] at h2
    | choice xs =>
      simp only [gen] at h
      have hflag : (flagsOf F (.choice xs)).as = anyAs F xs := by simp [flagsOf, hF.choice_as]
      have h1 : (flagsOf F (.choice xs)).as = true → r.status = true := by
        intro ha
        rw [ha] at h
        exact genChoice_as ih _ _ _ _ _ _ h (by rw [← hflag]; exact ha)
      refine ⟨h1, fun hc hf => ?_⟩
      rcases hF.choice_cps _ _ (by simpa [flagsOf] using hc) with h2 | h2
      · have := h1 (by rw [hflag]; exact h2); simp [this] at hf
      · exact genChoice_pos ih _ _ p _ _ _ _ _ h h2 rfl rfl hf
    | opt x =>
      simp only [gen] at h
      have hst : r.status = true := by
        split at h
        · simp at h
        · rename_i r' hr
          by_cases hok : okF F x r' = true
          · simp only [hok, ↓reduceIte, Option.some.injEq] at h; subst h; exact ih.okF_status hr hok
          · simp only [hok, Bool.false_eq_true, ↓reduceIte, Option.some.injEq] at h; subst h; rfl
      exact ⟨fun _ => hst, fun _ hf => by simp [hst] at hf⟩
    | list x min max =>
      simp only [gen, genList] at h
      split at h
      · simp at h; subst h; simp
      · split at h
        · simp at h
        · rename_i acc r' hloop
          have hlen := genListLoop_len ih x _ _ _ _ _ _ hloop
          constructor
          · intro ha
            have := minClass_zero.mp (hF.list_as _ _ (by simpa [flagsOf] using ha))
            simp [this] at h; subst h; rfl
          · intro hc hf
            have hm := hF.list_cps _ _ (by simpa [flagsOf] using hc)
            have hm2 : ¬ 2 ≤ min := fun h2 => hm (minClass_many.mpr h2)
            split at h
            · simp at h; subst h; simp at hf
            · split at h
              · simp at h; subst h; simp at hf
              · rename_i hm0 hml
                simp at h; subst h
                have : acc.length = 0 := by omega
                exact (hlen.2 (by simpa using this)).2
    | sep x s o =>
      simp only [gen, genSep] at h
      split at h
      · simp at h
      · rename_i st hst
        have h1 : (flagsOf F (.sep x s o)).as = true → r.status = true := by
          intro ha
          have ho := hF.sep_as _ _ _ (by simpa [flagsOf] using ha)
          have : sepSuccess o st.staging st.saw = true := by simp [sepSuccess, ho.1, ho.2]
          simp [this] at h; subst h; rfl
        refine ⟨h1, fun hc hf => ?_⟩
        rcases hF.sep_cps o (flagsOf F x) (flagsOf F s) with h2 | h2
        · simp [flagsOf, h2] at hc
        · have := h1 (by simpa [flagsOf] using h2); simp [this] at hf
    | expect x =>
      simp only [gen] at h
      split at h
      · simp at h
      · rename_i r' hr
        constructor
        · intro ha
          have hax := hF.expect_as _ (by simpa [flagsOf] using ha)
          have hok : okF F x r' = true := by simp [okF, hax]
          have hsx := ih.as_ok hr hax
          simp [hok] at h; subst h; exact hsx
        · intro hc hf
          by_cases hok : okF F x r' = true
          · simp [hok] at h; subst h; simp
          · simp [hok] at h; subst h
            have hfx := okF_false (F := F) (by simpa using hok)
            rcases hF.expect_cps _ (by simpa [flagsOf] using hc) with h2 | h2
            · exact ih.fail_pos hr h2 hf
            · simp [hfx.1] at h2
    | expectNot x =>
      simp only [gen] at h
      split at h
      · simp at h
      · split at h <;> simp at h <;> subst h <;> simp [flagsOf, hF.expectNot_as]
    | skip xs =>
      simp only [gen] at h
      have := genSkipLoop_status xs _ _ _ h
      exact ⟨fun _ => this, fun _ hf => by simp [this] at hf⟩
    | longest xs =>
      simp only [gen] at h
      have hflag : (flagsOf F (.longest xs)).as = anyAs F xs := by simp [flagsOf, hF.longest_as]
      match xs, h, hflag with
      | [], h, hflag =>
        simp [genLongest] at h; subst h
        simp [flagsOf, hF.longest_as, anyAs]
      | [x], h, hflag =>
        simp only [genLongest] at h
        have hx := ih x p r h
        constructor
        · intro ha; rw [hflag] at ha; simp [anyAs] at ha; exact hx.1 ha
        · intro hc hf
          rcases hF.longest_cps _ _ (by simpa [flagsOf] using hc) with h2 | h2
          · simp [anyAs] at h2; have := hx.1 h2; simp [this] at hf
          · simp [anyCps] at h2; exact hx.2 h2 hf
      | x :: y :: zs, h, hflag =>
        simp only [genLongest] at h
        split at h
        · simp at h
        · rename_i st hst
          have h1 : (flagsOf F (.longest (x :: y :: zs))).as = true → r.status = true := by
            intro ha
            have hhas := genLongestOpts_has ih _ _ _ _ _ hst (Or.inl (by rw [← hflag]; exact ha))
            simp [hhas] at h; subst h; rfl
          refine ⟨h1, fun hc hf => ?_⟩
          rcases hF.longest_cps _ _ (by simpa [flagsOf] using hc) with h2 | h2
          · have := h1 (by rw [hflag]; exact h2); simp [this] at hf
          · have hinv := genLongestOpts_pos ih _ _ _ _ _ hst h2 (by simp)
            split at h
            · simp at h; subst h; simp at hf
            · rename_i hhas
              have := hinv (by simpa using hhas)
              split at h <;> simp at h <;> subst h <;> simp [this]
    | backtrack k =>
      simp only [gen] at h
      split at h <;> simp at h <;> subst h <;> simp [flagsOf, hF.backtrack]
    | fail => simp only [gen] at h; simp at h; subst h; simp [flagsOf, hF.fail]
    | py v => simp only [gen] at h; simp at h; subst h; simp
    | tagged x tag =>
      simp only [gen] at h
      split at h
      · simp at h
      · rename_i r' hr'
        constructor
        · intro ha
          have hax := (hF.apply_as _ _ (by simpa [flagsOf] using ha)).1
          have hok : okF F x r' = true := by simp [okF, hax]
          simp [hok] at h; subst h; rfl
        · intro hc hf
          by_cases hok : okF F x r' = true
          · simp [hok] at h; subst h; simp at hf
          · simp [hok] at h; subst h
            have hfx := okF_false (F := F) (by simpa using hok)
            rcases hF.apply_cps _ _ (by simpa [flagsOf] using hc) with h2 | ⟨h2, _⟩
            · have := (hF.apply_as _ _ h2).1; simp [hfx.1] at this
            · rcases h2 with h2 | h2
              · exact ih.fail_pos hr' h2 hf
              · simp [hfx.1] at h2
    | optable pre operand mixfix post inf =>
      simp only [gen] at h
      have hflag : flagsOf F (.optable pre operand mixfix post inf) =
          F.optable (!pre.isEmpty) (flagsOf F (tableExprs pre operand mixfix post inf).operands) := by
        simp only [flagsOf, tableExprs]
        cases mixfix with
        | nil => simp [combineRows]
        | cons m ms => simp [combineRows, flagsOf, anyAs, anyCps]
      have h1 : (flagsOf F (.optable pre operand mixfix post inf)).as = true → r.status = true := by
        intro ha
        rw [hflag] at ha
        exact genOT_as _ (hF.optable_as _ _ ha) _ _ _ _ _ h
      refine ⟨h1, fun hc hf => ?_⟩
      rw [hflag] at hc
      rcases hF.optable_cps _ _ hc with h2 | ⟨h2, h3⟩
      · have := h1 (by rw [hflag]; exact h2); simp [this] at hf
      · have hpre : (tableExprs pre operand mixfix post inf).prefixes = none := by
          have : pre = [] := by cases pre <;> simp_all
          simp [tableExprs, this, combineRows]
        exact genOT_fail_pos ih _ hpre h3 p _ _ _ _ _ h ⟨by simp, fun _ => rfl⟩ hf

end Sourcer
