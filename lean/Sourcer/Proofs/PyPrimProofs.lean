import Sourcer.PyPrim
/-
  Lemmas about the Python primitives (slices inside the sequence, newline search).
-/
namespace Sourcer.Py

theorem sliceIdx_nat (len n : Nat) (h : n ≤ len) : sliceIdx len (n : Int) = n := by
  unfold sliceIdx
  have : ¬ ((n : Int) < 0) := by omega
  simp [this]; omega

/-- a slice whose bounds lie inside the sequence -/
theorem slice_nat (xs : Str) (a b : Nat) (hab : a ≤ b) (hb : b ≤ xs.length) :
    slice xs (a : Int) (b : Int) = (xs.drop a).take (b - a) := by
  unfold slice
  simp only [sliceIdx_nat xs.length a (by omega), sliceIdx_nat xs.length b hb]

theorem slice_nat_length (xs : Str) (a b : Nat) (hab : a ≤ b) (hb : b ≤ xs.length) :
    (slice xs (a : Int) (b : Int)).length = b - a := by
  rw [slice_nat xs a b hab hb]; simp; omega

theorem slice_nat_get (xs : Str) (a b k : Nat) (hab : a ≤ b) (hb : b ≤ xs.length) (hk : k < b - a) :
    (slice xs (a : Int) (b : Int))[k]? = xs[a + k]? := by
  rw [slice_nat xs a b hab hb]
  simp [List.getElem?_take, hk]

theorem slice_nat_no_nl (xs : Str) (a b : Nat) (hab : a ≤ b) (hb : b ≤ xs.length)
    (h : ∀ j, a ≤ j → j < b → xs[j]? ≠ some 10) : 10 ∉ slice xs (a : Int) (b : Int) := by
  intro hmem
  obtain ⟨k, hk, hget⟩ := List.mem_iff_getElem.mp hmem
  have hlen := slice_nat_length xs a b hab hb
  have hk' : k < b - a := by omega
  have := slice_nat_get xs a b k hab hb hk'
  rw [List.getElem?_eq_getElem hk, hget] at this
  exact h (a + k) (by omega) (by omega) this.symm

theorem firstNl_spec : ∀ (xs : Str) (base : Nat),
    (∃ e, firstNl xs base = some e ∧ base ≤ e ∧ e < base + xs.length ∧ xs[e - base]? = some 10 ∧
      ∀ j : Nat, j < e - base → xs[j]? ≠ some 10) ∨
    (firstNl xs base = none ∧ ∀ j : Nat, xs[j]? ≠ some 10) := by
  intro xs
  induction xs with
  | nil => intro base; right; simp [firstNl]
  | cons c cs ih =>
    intro base
    by_cases hc : c = 10
    · left
      refine ⟨base, by simp [firstNl, hc], by omega, by simp, by simp [hc], ?_⟩
      intro j hj; omega
    · rcases ih (base + 1) with ⟨e, h1, h2, h3, h4, h5⟩ | ⟨h1, h2⟩
      · left
        refine ⟨e, by simp [firstNl, hc, h1], by omega, by simp; omega, ?_, ?_⟩
        · have : e - base = (e - (base + 1)) + 1 := by omega
          rw [this]; simpa using h4
        · intro j hj
          cases j with
          | zero => simp [hc]
          | succ n => simpa using h5 n (by omega)
      · right
        refine ⟨by simp [firstNl, hc, h1], ?_⟩
        intro j
        cases j with
        | zero => simp [hc]
        | succ n => simpa using h2 n

/-- the end of the line that contains index `i`: the next newline after `i`, or the end of the text -/
theorem searchNl_spec (text : Str) (i : Nat) (hi : i < text.length) :
    ∃ e : Nat, (searchNl text ((i : Int) + 1) = some (e : Int) ∨
        (searchNl text ((i : Int) + 1) = none ∧ e = text.length)) ∧
      i + 1 ≤ e ∧ e ≤ text.length ∧ ∀ j, i + 1 ≤ j → j < e → text[j]? ≠ some 10 := by
  unfold searchNl
  have hk : sliceIdx text.length ((i : Int) + 1) = i + 1 := by
    have := sliceIdx_nat text.length (i + 1) (by omega)
    simpa using this
  simp only [hk]
  rcases firstNl_spec (text.drop (i + 1)) (i + 1) with ⟨e, h1, h2, h3, _, h5⟩ | ⟨h1, h2⟩
  · refine ⟨e, Or.inl (by simp [h1]), h2, ?_, ?_⟩
    · simp at h3; omega
    · intro j hj1 hj2
      have := h5 (j - (i + 1)) (by omega)
      rw [List.getElem?_drop] at this
      have hidx : i + 1 + (j - (i + 1)) = j := by omega
      rwa [hidx] at this
  · refine ⟨text.length, Or.inr ⟨by simp [h1], rfl⟩, by omega, Nat.le_refl _, ?_⟩
    intro j hj1 _
    have := h2 (j - (i + 1))
    rw [List.getElem?_drop] at this
    have hidx : i + 1 + (j - (i + 1)) = j := by omega
    rwa [hidx] at this

theorem strMul_space (n : Nat) : strMul [32] (n : Int) = List.replicate n 32 := by
  unfold strMul
  simp

end Sourcer.Py
