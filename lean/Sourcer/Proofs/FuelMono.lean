import Sourcer.Peg
/-
  The specification does not depend on the amount of fuel: once `peg` is defined (`some`), it is
  defined with the same outcome for every larger amount.  So "the documented meaning of e on this
  input at p" is a partial function of (program, input, e, p) alone, and every theorem of the
  form "wherever peg is defined with fuel n …" speaks about that one meaning.
-/
namespace Sourcer

/-- `run'` is defined wherever `run` is, with the same outcome -/
def RunLe (run run' : PRun) : Prop := ∀ e p r, run e p = some r → run' e p = some r

section helpers
variable {run run' : PRun}

theorem pegSeq_mono (h : RunLe run run') : ∀ (xs : List Expr) (p : Nat) (acc : List Val) (r : Res),
    pegSeq run xs p acc = some r → pegSeq run' xs p acc = some r := by
  intro xs
  induction xs with
  | nil => intro p acc r hr; simpa [pegSeq] using hr
  | cons e es ih =>
    intro p acc r hr
    simp only [pegSeq] at hr ⊢
    cases he : run e p with
    | none => simp [he] at hr
    | some r1 =>
      rw [h e p r1 he]
      cases r1 with
      | fail => simpa [he] using hr
      | ok v p' =>
        simp only [he] at hr
        exact ih p' (v :: acc) r hr

theorem pegCls_mono (h : RunLe run run') (name : String) (start : Nat) :
    ∀ (xs : List Expr) (ks : List (Option String)) (p : Nat) (acc : List (String × Val)) (r : Res),
      pegCls run name start xs ks p acc = some r → pegCls run' name start xs ks p acc = some r := by
  intro xs
  induction xs with
  | nil => intro ks p acc r hr; simpa [pegCls] using hr
  | cons e es ih =>
    intro ks p acc r hr
    simp only [pegCls] at hr ⊢
    cases he : run e p with
    | none => simp [he] at hr
    | some r1 =>
      rw [h e p r1 he]
      cases r1 with
      | fail => simpa [he] using hr
      | ok v p' =>
        simp only [he] at hr
        exact ih _ p' _ r hr

theorem pegChoice_mono (h : RunLe run run') : ∀ (xs : List Expr) (p : Nat) (r : Res),
    pegChoice run xs p = some r → pegChoice run' xs p = some r := by
  intro xs
  induction xs with
  | nil => intro p r hr; simpa [pegChoice] using hr
  | cons e es ih =>
    intro p r hr
    simp only [pegChoice] at hr ⊢
    cases he : run e p with
    | none => simp [he] at hr
    | some r1 =>
      rw [h e p r1 he]
      cases r1 with
      | fail =>
        simp only [he] at hr
        exact ih p r hr
      | ok v p' => simpa [he] using hr

theorem pegListLoop_mono (h : RunLe run run') (e : Expr) (max : Option Nat) :
    ∀ (fuel fuel' : Nat), fuel ≤ fuel' → ∀ (p : Nat) (acc : List Val) (out : List Val × Nat),
      pegListLoop run e max fuel p acc = some out → pegListLoop run' e max fuel' p acc = some out := by
  intro fuel
  induction fuel with
  | zero => intro fuel' _ p acc out hr; simp [pegListLoop] at hr
  | succ k ih =>
    intro fuel' hle p acc out hr
    cases fuel' with
    | zero => omega
    | succ k' =>
      simp only [pegListLoop] at hr ⊢
      cases he : run e p with
      | none => simp [he] at hr
      | some r1 =>
        rw [h e p r1 he]
        cases r1 with
        | fail => simpa [he] using hr
        | ok v p' =>
          simp only [he] at hr ⊢
          by_cases hm : (max == some (v :: acc).length) = true
          · rw [if_pos hm] at hr ⊢
            exact hr
          · rw [if_neg hm] at hr ⊢
            exact ih k' (by omega) p' (v :: acc) out hr

theorem pegList_mono (h : RunLe run run') (fuel fuel' : Nat) (hle : fuel ≤ fuel') (e : Expr) (min : Nat)
    (max : Option Nat) (p : Nat) (r : Res) (hr : pegList run fuel e min max p = some r) :
    pegList run' fuel' e min max p = some r := by
  unfold pegList at hr ⊢
  split
  · rename_i hm
    simpa [hm] using hr
  · rename_i hm
    simp only [hm] at hr
    cases hl : pegListLoop run e max fuel p [] with
    | none => simp [hl] at hr
    | some out =>
      rw [pegListLoop_mono h e max fuel fuel' hle p [] out hl]
      simpa [hl] using hr

theorem pegSepLoop_mono (h : RunLe run run') (e s : Expr) (o : SepOpts) :
    ∀ (fuel fuel' : Nat), fuel ≤ fuel' → ∀ (p : Nat) (st : List Val) (stop : Nat) (saw : Bool)
      (out : List Val × Nat × Bool),
      pegSepLoop run e s o fuel p st stop saw = some out → pegSepLoop run' e s o fuel' p st stop saw = some out := by
  intro fuel
  induction fuel with
  | zero => intro fuel' _ p st stop saw out hr; simp [pegSepLoop] at hr
  | succ k ih =>
    intro fuel' hle p st stop saw out hr
    cases fuel' with
    | zero => omega
    | succ k' =>
      simp only [pegSepLoop] at hr ⊢
      cases he : run e p with
      | none => simp [he] at hr
      | some r1 =>
        rw [h e p r1 he]
        cases r1 with
        | fail => simpa [he] using hr
        | ok v p1 =>
          simp only [he] at hr ⊢
          cases hs : run s p1 with
          | none => simp [hs] at hr
          | some r2 =>
            rw [h s p1 r2 hs]
            cases r2 with
            | fail => simpa [hs] using hr
            | ok w p2 =>
              simp only [hs] at hr ⊢
              exact ih k' (by omega) _ _ _ _ out hr

theorem pegSep_mono (h : RunLe run run') (fuel fuel' : Nat) (hle : fuel ≤ fuel') (e s : Expr) (o : SepOpts)
    (p : Nat) (r : Res) (hr : pegSep run fuel e s o p = some r) : pegSep run' fuel' e s o p = some r := by
  unfold pegSep at hr ⊢
  cases hl : pegSepLoop run e s o fuel p [] p false with
  | none => simp [hl] at hr
  | some out =>
    rw [pegSepLoop_mono h e s o fuel fuel' hle p [] p false out hl]
    simpa [hl] using hr

theorem pegSkipAlts_mono (h : RunLe run run') (p : Nat) : ∀ (xs : List Expr) (out : Option Nat),
    pegSkipAlts run p xs = some out → pegSkipAlts run' p xs = some out := by
  intro xs
  induction xs with
  | nil => intro out hr; simpa [pegSkipAlts] using hr
  | cons e es ih =>
    intro out hr
    simp only [pegSkipAlts] at hr ⊢
    cases he : run e p with
    | none => simp [he] at hr
    | some r1 =>
      rw [h e p r1 he]
      cases r1 with
      | fail =>
        simp only [he] at hr
        exact ih out hr
      | ok v p' =>
        simp only [he] at hr ⊢
        split
        · rename_i hp
          simpa [hp] using hr
        · rename_i hp
          simp only [hp] at hr
          exact ih out hr

theorem pegSkipLoop_mono (h : RunLe run run') (xs : List Expr) :
    ∀ (fuel fuel' : Nat), fuel ≤ fuel' → ∀ (p : Nat) (r : Res),
      pegSkipLoop run xs fuel p = some r → pegSkipLoop run' xs fuel' p = some r := by
  intro fuel
  induction fuel with
  | zero => intro fuel' _ p r hr; simp [pegSkipLoop] at hr
  | succ k ih =>
    intro fuel' hle p r hr
    cases fuel' with
    | zero => omega
    | succ k' =>
      simp only [pegSkipLoop] at hr ⊢
      cases ha : pegSkipAlts run p xs with
      | none => simp [ha] at hr
      | some out =>
        rw [pegSkipAlts_mono h p xs out ha]
        cases out with
        | none => simpa [ha] using hr
        | some p' =>
          simp only [ha] at hr
          exact ih k' (by omega) p' r hr

theorem pegLongestOpts_mono (h : RunLe run run') (p : Nat) :
    ∀ (xs : List Expr) (best : Option (Val × Nat)) (out : Option (Val × Nat)),
      pegLongestOpts run p xs best = some out → pegLongestOpts run' p xs best = some out := by
  intro xs
  induction xs with
  | nil => intro best out hr; simpa [pegLongestOpts] using hr
  | cons e es ih =>
    intro best out hr
    simp only [pegLongestOpts] at hr ⊢
    cases he : run e p with
    | none => simp [he] at hr
    | some r1 =>
      rw [h e p r1 he]
      cases r1 with
      | fail =>
        simp only [he] at hr
        exact ih best out hr
      | ok v p' =>
        simp only [he] at hr ⊢
        cases best with
        | none => exact ih _ out hr
        | some b =>
          obtain ⟨bv, bp⟩ := b
          simp only at hr ⊢
          split
          · rename_i hlt
            simp only [hlt, if_true] at hr
            exact ih _ out hr
          · rename_i hlt
            simp only [hlt, if_false] at hr
            exact ih _ out hr

theorem pegSkipTo_mono (h : RunLe run run') (P : Program) (skip : Bool) (e : Nat) (out : Nat)
    (hr : pegSkipTo P run skip e = some out) : pegSkipTo P run' skip e = some out := by
  unfold pegSkipTo at hr ⊢
  split
  · rename_i hs
    simp only [hs, if_true] at hr
    cases hi : P.ignored with
    | none => simpa [hi] using hr
    | some k =>
      simp only [hi] at hr ⊢
      cases he : run (.ref k) e with
      | none => simp [he] at hr
      | some r1 =>
        rw [h (.ref k) e r1 he]
        simpa [he] using hr
  · rename_i hs
    simpa [hs] using hr

theorem pegOT_mono (h : RunLe run run') (T : PTableExprs) :
    ∀ (fuel fuel' : Nat), fuel ≤ fuel' → ∀ (ph : Phase) (st : OTState) (r : Res),
      pegOT run T fuel ph st = some r → pegOT run' T fuel' ph st = some r := by
  intro fuel
  induction fuel with
  | zero => intro fuel' _ ph st r hr; simp [pegOT] at hr
  | succ k ih =>
    intro fuel' hle ph st r hr
    cases fuel' with
    | zero => omega
    | succ k' =>
      have hk : k ≤ k' := by omega
      cases ph with
      | pre =>
        simp only [pegOT] at hr ⊢
        cases hp : T.prefixes with
        | none =>
          simp only [hp] at hr ⊢
          exact ih k' hk _ _ r hr
        | some pe =>
          simp only [hp] at hr ⊢
          cases he : run pe st.pos with
          | none => simp [he] at hr
          | some r1 =>
            rw [h pe st.pos r1 he]
            cases r1 with
            | fail =>
              simp only [he] at hr ⊢
              exact ih k' hk _ _ r hr
            | ok v p' =>
              simp only [he] at hr ⊢
              cases hd : decodeOp v with
              | none => simp [hd] at hr
              | some o =>
                simp only [hd] at hr ⊢
                exact ih k' hk _ _ r hr
      | operand =>
        simp only [pegOT] at hr ⊢
        cases he : run T.operands st.pos with
        | none => simp [he] at hr
        | some r1 =>
          rw [h T.operands st.pos r1 he]
          cases r1 with
          | fail => simpa [he] using hr
          | ok v p' =>
            simp only [he] at hr ⊢
            exact ih k' hk _ _ r hr
      | post =>
        simp only [pegOT] at hr ⊢
        cases hp : T.postfixes with
        | none =>
          simp only [hp] at hr ⊢
          exact ih k' hk _ _ r hr
        | some pe =>
          simp only [hp] at hr ⊢
          cases he : run pe st.pos with
          | none => simp [he] at hr
          | some r1 =>
            rw [h pe st.pos r1 he]
            cases r1 with
            | fail =>
              simp only [he] at hr ⊢
              exact ih k' hk _ _ r hr
            | ok v p' =>
              simp only [he] at hr ⊢
              cases hd : decodePost v with
              | none => simp [hd] at hr
              | some po =>
                obtain ⟨prec, op⟩ := po
                simp only [hd] at hr ⊢
                cases hrp : reducePost prec st.ops st.operands with
                | none => simp [hrp] at hr
                | some oo =>
                  obtain ⟨ops', operands'⟩ := oo
                  simp only [hrp] at hr ⊢
                  cases operands' with
                  | nil => simp at hr
                  | cons x rest =>
                    simp only at hr ⊢
                    exact ih k' hk _ _ r hr
      | inf =>
        simp only [pegOT] at hr ⊢
        cases hp : T.infixes with
        | none => simpa [hp] using hr
        | some ie =>
          simp only [hp] at hr ⊢
          cases he : run ie st.pos with
          | none => simp [he] at hr
          | some r1 =>
            rw [h ie st.pos r1 he]
            cases r1 with
            | fail => simpa [he] using hr
            | ok v p' =>
              simp only [he] at hr ⊢
              cases hd : decodeOp v with
              | none => simp [hd] at hr
              | some o =>
                simp only [hd] at hr ⊢
                cases hri : reduceInfix o.prec st.ops st.operands with
                | none => simp [hri] at hr
                | some step =>
                  cases step with
                  | conflict ops' operands' => simpa [hri] using hr
                  | go ops' operands' =>
                    simp only [hri] at hr ⊢
                    exact ih k' hk _ _ r hr

end helpers

/-- **Fuel monotonicity of the specification.** -/
theorem peg_mono (P : Program) (inp : List Nat) : ∀ (n m : Nat), n ≤ m → RunLe (peg P inp n) (peg P inp m) := by
  intro n
  induction n with
  | zero => intro m _ e p r h; simp [peg] at h
  | succ k ih =>
    intro m hle e p r h
    cases m with
    | zero => omega
    | succ j =>
      have hkj : k ≤ j := by omega
      have hrun : RunLe (peg P inp k) (peg P inp j) := ih j hkj
      cases e with
      | str s skip =>
        simp only [peg] at h ⊢
        split
        · rename_i hs
          simpa [hs] using h
        · rename_i hs
          simp only [hs] at h
          split
          · rename_i hm
            simp only [hm, if_true] at h
            cases hk : pegSkipTo P (peg P inp k) skip (p + s.length) with
            | none => simp [hk] at h
            | some p' =>
              rw [pegSkipTo_mono hrun P skip _ p' hk]
              simpa [hk] using h
          · rename_i hm
            simpa [hm] using h
      | regex rx skip =>
        simp only [peg] at h ⊢
        cases hm : P.matcher rx inp p with
        | none => simpa [hm] using h
        | some e' =>
          simp only [hm] at h ⊢
          cases hk : pegSkipTo P (peg P inp k) skip e' with
          | none => simp [hk] at h
          | some p' =>
            rw [pegSkipTo_mono hrun P skip _ p' hk]
            simpa [hk] using h
      | byte b skip =>
        simp only [peg] at h ⊢
        split
        · rename_i hb
          simp only [hb, if_true] at h
          cases hk : pegSkipTo P (peg P inp k) skip (p + 1) with
          | none => simp [hk] at h
          | some p' =>
            rw [pegSkipTo_mono hrun P skip _ p' hk]
            simpa [hk] using h
        · rename_i hb
          simpa [hb] using h
      | ref i =>
        simp only [peg] at h ⊢
        cases hb : P.rules[i]? with
        | none => simp [hb] at h
        | some body =>
          simp only [hb] at h ⊢
          exact hrun body p r h
      | seq xs =>
        simp only [peg] at h ⊢
        exact pegSeq_mono hrun xs p [] r h
      | cls name xs keep =>
        simp only [peg] at h ⊢
        exact pegCls_mono hrun name p xs keep p [] r h
      | discard a b left =>
        simp only [peg] at h ⊢
        cases ha : peg P inp k a p with
        | none => simp [ha] at h
        | some r1 =>
          rw [hrun a p r1 ha]
          cases r1 with
          | fail => simpa [ha] using h
          | ok va pa =>
            simp only [ha] at h ⊢
            cases hb : peg P inp k b pa with
            | none => simp [hb] at h
            | some r2 =>
              rw [hrun b pa r2 hb]
              simpa [hb] using h
      | choice xs =>
        simp only [peg] at h ⊢
        exact pegChoice_mono hrun xs p r h
      | opt x =>
        simp only [peg] at h ⊢
        cases hx : peg P inp k x p with
        | none => simp [hx] at h
        | some r1 =>
          rw [hrun x p r1 hx]
          simpa [hx] using h
      | list x min extra =>
        simp only [peg] at h ⊢
        exact pegList_mono hrun k j hkj x min _ p r h
      | sep x s o =>
        simp only [peg] at h ⊢
        exact pegSep_mono hrun k j hkj x s o p r h
      | expect x =>
        simp only [peg] at h ⊢
        cases hx : peg P inp k x p with
        | none => simp [hx] at h
        | some r1 =>
          rw [hrun x p r1 hx]
          simpa [hx] using h
      | expectNot x =>
        simp only [peg] at h ⊢
        cases hx : peg P inp k x p with
        | none => simp [hx] at h
        | some r1 =>
          rw [hrun x p r1 hx]
          simpa [hx] using h
      | skip xs =>
        simp only [peg] at h ⊢
        exact pegSkipLoop_mono hrun xs k j hkj p r h
      | longest xs =>
        simp only [peg] at h ⊢
        cases hl : pegLongestOpts (peg P inp k) p xs none with
        | none => simp [hl] at h
        | some out =>
          rw [pegLongestOpts_mono hrun p xs none out hl]
          simpa [hl] using h
      | backtrack c => simpa [peg] using h
      | fail => simpa [peg] using h
      | py c => simpa [peg] using h
      | tagged x tag =>
        simp only [peg] at h ⊢
        cases hx : peg P inp k x p with
        | none => simp [hx] at h
        | some r1 =>
          rw [hrun x p r1 hx]
          simpa [hx] using h
      | optable pre operand mixfix post inf =>
        simp only [peg] at h ⊢
        exact pegOT_mono hrun _ k j hkj .pre _ r h

end Sourcer
