import Sourcer.Modules
namespace Sourcer.Modules

theorem lookup_append (a b : List (String × Target)) (n : String) :
    lookup (a ++ b) n = (lookup a n).or (lookup b n) := by
  unfold lookup
  rw [List.find?_append]
  cases List.find? (fun x => x.1 == n) a <;> simp

theorem lookup_levelEntries (lvl : Nat) (names : List String) (n : String) :
    lookup (levelEntries lvl names) n = (names.idxOf? n).map fun i => (lvl, i) := by
  unfold levelEntries lookup
  have : ∀ (k : Nat), ((names.zipIdx k).map fun (x : String × Nat) => (x.1, (lvl, x.2))).find? (fun x => x.1 == n)
      = ((names.idxOf? n).map fun i => (n, (lvl, i + k))) := by
    induction names with
    | nil => intro k; simp [List.idxOf?]
    | cons a as ih =>
      intro k
      simp only [List.zipIdx_cons, List.map_cons, List.find?_cons]
      by_cases h : a = n
      · subst h; simp [List.idxOf?, List.findIdx?_cons]
      · have hne : (a == n) = false := by simpa using h
        simp only [hne]
        rw [ih (k + 1)]
        simp only [List.idxOf?, List.findIdx?_cons, hne]
        cases List.findIdx? (fun x => x == n) as <;> simp
        omega
  have h0 := this 0
  simp only [Nat.add_zero] at h0
  rw [h0]
  cases names.idxOf? n <;> simp

theorem lookup_filter_not_seen (seen : List String) (es : List (String × Target)) (n : String)
    (hn : seen.contains n = false) :
    lookup (es.filter fun e => !seen.contains e.1) n = lookup es n := by
  unfold lookup
  induction es with
  | nil => rfl
  | cons e es ih =>
    simp only [List.filter_cons]
    by_cases he : e.1 = n
    · have hc : seen.contains e.1 = false := by rw [he]; exact hn
      have heq : (e.1 == n) = true := by simpa using he
      simp only [hc, Bool.not_false, ↓reduceIte, List.find?_cons, heq]
    · have hne : (e.1 == n) = false := by simpa using he
      split
      · simp only [List.find?_cons, hne]; exact ih
      · simp only [List.find?_cons, hne]; exact ih

theorem lookup_filter_seen (seen : List String) (es : List (String × Target)) (n : String)
    (hn : seen.contains n = true) :
    lookup (es.filter fun e => !seen.contains e.1) n = none := by
  unfold lookup
  induction es with
  | nil => rfl
  | cons e es ih =>
    simp only [List.filter_cons]
    by_cases he : e.1 = n
    · have : seen.contains e.1 = true := by rw [he]; exact hn
      simp only [this, Bool.not_true, Bool.false_eq_true, ↓reduceIte]; exact ih
    · have hne : (e.1 == n) = false := by simpa using he
      split
      · simp only [List.find?_cons, hne]; exact ih
      · exact ih

/-- once a name has been bound, later levels do not rebind it -/
theorem chainCtxFrom_seen : ∀ (levels : List (List String)) (lvl : Nat) (seen : List String) (n : String),
    seen.contains n = true → lookup (chainCtxFrom lvl levels seen) n = none := by
  intro levels
  induction levels with
  | nil => intro lvl seen n _; rfl
  | cons names rest ih =>
    intro lvl seen n hn
    simp only [chainCtxFrom]
    rw [lookup_append, lookup_filter_seen seen _ n hn]
    simp only [Option.or]
    exact ih _ _ n (by simp at hn ⊢; exact Or.inl hn)

/-- **C13.**  Looking a name up in a module's context table finds the nearest level of the chain
    that defines it: the module's own definition if it has one (overrides are late-bound for
    every reference, also those inside inherited rules, because all go through this table),
    otherwise the parent's, and so on up the chain. -/
theorem chainCtxFrom_eq_nearest : ∀ (levels : List (List String)) (lvl : Nat) (seen : List String) (n : String),
    seen.contains n = false → lookup (chainCtxFrom lvl levels seen) n = nearest lvl levels n := by
  intro levels
  induction levels with
  | nil => intro lvl seen n _; rfl
  | cons names rest ih =>
    intro lvl seen n hn
    simp only [chainCtxFrom, nearest]
    rw [lookup_append, lookup_filter_not_seen seen _ n hn, lookup_levelEntries]
    cases hidx : names.idxOf? n with
    | some i => simp
    | none =>
      simp only [Option.map_none, Option.or]
      apply ih
      have : names.contains n = false := by
        simp only [List.idxOf?] at hidx
        have := List.findIdx?_eq_none_iff.mp hidx
        simp only [List.contains_eq_mem, decide_eq_false_iff_not]
        intro hmem
        have := this n hmem
        simp at this
      simp only [List.contains_eq_mem, decide_eq_false_iff_not, List.mem_append, not_or] at hn this ⊢
      exact ⟨hn, this⟩

end Sourcer.Modules
