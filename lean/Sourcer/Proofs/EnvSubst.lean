import Sourcer.Proofs.EnvProofs
/-
  C06, the textual reading: a template call means what the template's body means with every
  parameter replaced by the corresponding argument expression (`subst`).

  One step-indexed simulation proves three things at once:
    * more fuel never changes a defined outcome (σ = [], same environment),
    * the meaning of an expression depends on its environment only through what the free names
      denote, closures being compared by their behaviour (σ = []),
    * replacing parser parameters by closed argument expressions preserves the meaning.
-/
namespace Sourcer.X

/-- `sv₂` behaves like `sv₁` for `m` steps (and with any larger amount of fuel) -/
def SRef (P : XProgram) (inp : List Nat) (m : Nat) : SVal → SVal → Prop
  | .val v, .val w => v = w
  | .slit s, .slit t => s = t
  | .clo e₁ ρ₁, .clo e₂ ρ₂ =>
    ∀ k, k < m → ∀ k', k ≤ k' → ∀ p r, xpeg P inp k e₁ ρ₁ p = some r → xpeg P inp k' e₂ ρ₂ p = some r
  | _, _ => False

theorem SRef.mono {P : XProgram} {inp : List Nat} {m n : Nat} (hnm : n ≤ m) :
    ∀ {a b : SVal}, SRef P inp m a b → SRef P inp n a b := by
  intro a b h
  cases a <;> cases b <;> simp only [SRef] at h ⊢
  · exact h
  · exact h
  · intro k hk k' hk' p r hx
    exact h k (Nat.lt_of_lt_of_le hk hnm) k' hk' p r hx

theorem SRef.data {P : XProgram} {inp : List Nat} {m : Nat} : ∀ {a b : SVal}, SRef P inp m a b → a.data = b.data := by
  intro a b h
  cases a <;> cases b <;> simp only [SRef] at h <;> simp [SVal.data, h]

/-- the environments of the original and of the expansion, on the names in `S`: a replaced
    parameter denotes (the closure of) its argument on the left; every other name denotes related things -/
def ERef (P : XProgram) (inp : List Nat) (m : Nat) (σ : Subst) (S : List Name) (ρ₁ ρ₂ : SEnv) : Prop :=
  ∀ x, x ∈ S →
    (∀ a, lookupσ σ x = some a →
      ((∃ ρa, lookupS ρ₁ x = some (.clo a ρa)) ∧ ∀ s, a ≠ .lit s) ∨ (∃ s, a = .lit s ∧ lookupS ρ₁ x = some (.slit s))) ∧
    (lookupσ σ x = none → ∀ sv₁, lookupS ρ₁ x = some sv₁ → ∃ sv₂, lookupS ρ₂ x = some sv₂ ∧ SRef P inp m sv₁ sv₂)

theorem ERef.mono {P : XProgram} {inp : List Nat} {m n : Nat} {σ : Subst} {S : List Name} {ρ₁ ρ₂ : SEnv}
    (hnm : n ≤ m) (h : ERef P inp m σ S ρ₁ ρ₂) : ERef P inp n σ S ρ₁ ρ₂ := by
  intro x hx
  obtain ⟨h1, h2⟩ := h x hx
  refine ⟨h1, ?_⟩
  intro hn sv₁ hl
  obtain ⟨sv₂, h3, h4⟩ := h2 hn sv₁ hl
  exact ⟨sv₂, h3, h4.mono hnm⟩

theorem ERef.sub {P : XProgram} {inp : List Nat} {m : Nat} {σ : Subst} {S S' : List Name} {ρ₁ ρ₂ : SEnv}
    (hsub : ∀ x, x ∈ S' → x ∈ S) (h : ERef P inp m σ S ρ₁ ρ₂) : ERef P inp m σ S' ρ₁ ρ₂ :=
  fun x hx => h x (hsub x hx)

/-! ### substitutions -/

theorem lookupσ_dropσ_self (σ : Subst) (x : Name) : lookupσ (dropσ x σ) x = none := by
  induction σ with
  | nil => rfl
  | cons ya rest ih =>
    obtain ⟨y, a⟩ := ya
    by_cases h : y = x
    · simp [dropσ, h] at ih ⊢
      exact ih
    · have : ((y, a).1 != x) = true := by simp [h]
      simp only [dropσ, List.filter_cons, this, if_true, lookupσ]
      have hxy : ¬ x = y := fun e => h e.symm
      simp only [hxy, if_false]
      exact ih

theorem lookupσ_dropσ_ne (σ : Subst) (x y : Name) (h : y ≠ x) : lookupσ (dropσ x σ) y = lookupσ σ y := by
  induction σ with
  | nil => rfl
  | cons za rest ih =>
    obtain ⟨z, a⟩ := za
    by_cases hz : z = x
    · have : ((z, a).1 != x) = false := by simp [hz]
      simp only [dropσ, List.filter_cons, this, lookupσ]
      have hyz : ¬ y = z := fun e => h (e.trans hz)
      simp only [hyz, if_false]
      exact ih
    · have : ((z, a).1 != x) = true := by simp [hz]
      simp only [dropσ, List.filter_cons, this, if_true, lookupσ]
      by_cases hyz : y = z
      · simp [hyz]
      · simp only [hyz, if_false]
        exact ih

theorem lookupσ_mem (σ : Subst) (x : Name) (a : XExpr) (h : lookupσ σ x = some a) : (x, a) ∈ σ := by
  induction σ with
  | nil => simp [lookupσ] at h
  | cons yb rest ih =>
    obtain ⟨y, b⟩ := yb
    by_cases hxy : x = y
    · simp [lookupσ, hxy] at h
      subst h; subst hxy
      exact List.mem_cons_self
    · simp [lookupσ, hxy] at h
      exact List.mem_cons_of_mem _ (ih h)

theorem closedArgs_lookup (σ : Subst) (hc : closedArgs σ = true) (x : Name) (a : XExpr) (h : lookupσ σ x = some a) :
    fv a = [] ∧ a.isPy = false := by
  simp only [closedArgs, List.all_eq_true, Bool.and_eq_true] at hc
  have := hc (x, a) (lookupσ_mem σ x a h)
  simp at this
  exact ⟨this.1, this.2⟩

theorem closedArgs_dropσ (σ : Subst) (x : Name) (hc : closedArgs σ = true) : closedArgs (dropσ x σ) = true := by
  simp only [closedArgs, List.all_eq_true] at hc ⊢
  intro ya hya
  exact hc ya (List.mem_filter.mp hya).1

theorem noneInDom_nil (names : List Name) : noneInDom [] names = true := by
  simp [noneInDom, inDom, lookupσ]

mutual
theorem subst_nil : ∀ (e : XExpr), subst [] e = e
  | .lit _ => rfl
  | .cc _ _ => rfl
  | .seq xs => by simp [subst, substList_nil xs]
  | .choice xs => by simp [subst, substList_nil xs]
  | .star e => by simp [subst, subst_nil e]
  | .opt e => by simp [subst, subst_nil e]
  | .ref _ => rfl
  | .pvar _ => by simp [subst, lookupσ]
  | .py _ => rfl
  | .let_ x e b => by simp [subst, dropσ, subst_nil e, subst_nil b]
  | .where_ e q => by simp [subst, subst_nil e, subst_nil q]
  | .apply e f => by simp [subst, subst_nil e, subst_nil f]
  | .applyL f e => by simp [subst, subst_nil e, subst_nil f]
  | .rep e _ => by simp [subst, subst_nil e]
  | .call _ args => by simp [subst, substArgs_nil args]
  | .bseq items _ _ => by simp [subst, substItems_nil items]
theorem substList_nil : ∀ (xs : List XExpr), substList [] xs = xs
  | [] => rfl
  | x :: xs => by simp [substList, subst_nil x, substList_nil xs]
theorem substArgs_nil : ∀ (xs : List (Option Name × XExpr)), substArgs [] xs = xs
  | [] => rfl
  | (k, e) :: rest => by simp [substArgs, subst_nil e, substArgs_nil rest]
theorem substItems_nil : ∀ (xs : List (Option Name × XExpr)), substItems [] xs = xs
  | [] => rfl
  | (none, e) :: rest => by simp [substItems, subst_nil e, substItems_nil rest]
  | (some x, e) :: rest => by simp [substItems, dropσ, subst_nil e, substItems_nil rest]
end

mutual
theorem pyAvoids_nil : ∀ (e : XExpr), pyAvoids [] e = true
  | .lit _ => rfl
  | .cc _ _ => rfl
  | .seq xs => by simp [pyAvoids, pyAvoidsList_nil xs]
  | .choice xs => by simp [pyAvoids, pyAvoidsList_nil xs]
  | .star e => by simp [pyAvoids, pyAvoids_nil e]
  | .opt e => by simp [pyAvoids, pyAvoids_nil e]
  | .ref _ => rfl
  | .pvar _ => rfl
  | .py t => by simp [pyAvoids, noneInDom_nil]
  | .let_ x e b => by simp [pyAvoids, dropσ, pyAvoids_nil e, pyAvoids_nil b]
  | .where_ e q => by simp [pyAvoids, pyAvoids_nil e, pyAvoids_nil q]
  | .apply e f => by simp [pyAvoids, pyAvoids_nil e, pyAvoids_nil f]
  | .applyL f e => by simp [pyAvoids, pyAvoids_nil e, pyAvoids_nil f]
  | .rep e t => by simp [pyAvoids, pyAvoids_nil e, noneInDom_nil]
  | .call _ args => by simp [pyAvoids, pyAvoidsArgs_nil args]
  | .bseq items _ fields => by simp [pyAvoids, pyAvoidsItems_nil fields items]
theorem pyAvoidsList_nil : ∀ (xs : List XExpr), pyAvoidsList [] xs = true
  | [] => rfl
  | x :: xs => by simp [pyAvoidsList, pyAvoids_nil x, pyAvoidsList_nil xs]
theorem pyAvoidsArgs_nil : ∀ (xs : List (Option Name × XExpr)), pyAvoidsArgs [] xs = true
  | [] => rfl
  | (_, e) :: rest => by simp [pyAvoidsArgs, pyAvoids_nil e, pyAvoidsArgs_nil rest]
theorem pyAvoidsItems_nil (fields : List Name) : ∀ (xs : List (Option Name × XExpr)), pyAvoidsItems [] fields xs = true
  | [] => by simp [pyAvoidsItems, noneInDom_nil]
  | (none, e) :: rest => by simp [pyAvoidsItems, pyAvoids_nil e, pyAvoidsItems_nil fields rest]
  | (some x, e) :: rest => by simp [pyAvoidsItems, dropσ, pyAvoids_nil e, pyAvoidsItems_nil fields rest]
end

/-! ### values of names -/

theorem noneInDom_iff (σ : Subst) (names : List Name) :
    noneInDom σ names = true ↔ ∀ x, x ∈ names → lookupσ σ x = none := by
  simp only [noneInDom, inDom, List.all_eq_true, Bool.not_eq_true', Option.isSome_eq_false_iff, Option.isNone_iff_eq_none]

theorem ERef.values {P : XProgram} {inp : List Nat} {m : Nat} {σ : Subst} {S : List Name} {ρ₁ ρ₂ : SEnv}
    (h : ERef P inp m σ S ρ₁ ρ₂) : ∀ (names : List Name) (vs : List Val), (∀ x, x ∈ names → x ∈ S) →
      (∀ x, x ∈ names → lookupσ σ x = none) → valuesS ρ₁ names = some vs → valuesS ρ₂ names = some vs := by
  intro names
  induction names with
  | nil => intro vs _ _ hv; exact hv
  | cons x xs ih =>
    intro vs hS hσ hv
    simp only [valuesS] at hv ⊢
    cases hl : lookupS ρ₁ x with
    | none => simp [hl] at hv
    | some sv₁ =>
      obtain ⟨sv₂, h2, h3⟩ := (h x (hS x List.mem_cons_self)).2 (hσ x List.mem_cons_self) sv₁ hl
      simp only [hl] at hv
      simp only [h2, ← h3.data]
      cases hd : sv₁.data with
      | none => simp [hd] at hv
      | some v =>
        cases hr : valuesS ρ₁ xs with
        | none => simp [hd, hr] at hv
        | some ws =>
          simp [hd, hr] at hv
          rw [ih ws (fun y hy => hS y (List.mem_cons_of_mem _ hy)) (fun y hy => hσ y (List.mem_cons_of_mem _ hy)) hr]
          simp [hv]

theorem ERef.evalPy {P : XProgram} {inp : List Nat} {m : Nat} {σ : Subst} {S : List Name} {ρ₁ ρ₂ : SEnv}
    (h : ERef P inp m σ S ρ₁ ρ₂) (t : PyTerm) (extra : List Val) (v : Val)
    (hS : ∀ x, x ∈ t.names → x ∈ S) (hσ : noneInDom σ t.names = true)
    (hv : evalPyS P ρ₁ t extra = some v) : evalPyS P ρ₂ t extra = some v := by
  unfold evalPyS at hv ⊢
  cases hvs : valuesS ρ₁ t.names with
  | none => simp [hvs] at hv
  | some vs =>
    rw [h.values t.names vs hS ((noneInDom_iff σ t.names).mp hσ) hvs]
    simpa [hvs] using hv

/-- entering the scope of a binder -/
theorem ERef.bind {P : XProgram} {inp : List Nat} {m : Nat} {σ : Subst} {S : List Name} {ρ₁ ρ₂ : SEnv}
    (h : ERef P inp m σ S ρ₁ ρ₂) (x : Name) (v : Val) :
    ERef P inp m (dropσ x σ) (x :: S) ((x, .val v) :: ρ₁) ((x, .val v) :: ρ₂) := by
  intro y hy
  by_cases hyx : y = x
  · subst hyx
    refine ⟨?_, ?_⟩
    · intro a ha
      rw [lookupσ_dropσ_self] at ha
      exact absurd ha (by simp)
    · intro _ sv₁ hl
      simp [lookupS] at hl
      subst hl
      exact ⟨.val v, by simp [lookupS], rfl⟩
  · have hyS : y ∈ S := by
      rcases List.mem_cons.mp hy with h1 | h1
      · exact absurd h1 hyx
      · exact h1
    obtain ⟨h1, h2⟩ := h y hyS
    rw [lookupσ_dropσ_ne σ x y hyx]
    refine ⟨?_, ?_⟩
    · intro a ha
      rcases h1 a ha with ⟨⟨ρa, h3⟩, h4⟩ | ⟨s, h3, h4⟩
      · exact Or.inl ⟨⟨ρa, by simp [lookupS, hyx, h3]⟩, h4⟩
      · exact Or.inr ⟨s, h3, by simp [lookupS, hyx, h4]⟩
    · intro hn sv₁ hl
      have hl' : lookupS ρ₁ y = some sv₁ := by simpa [lookupS, hyx] using hl
      obtain ⟨sv₂, h3, h4⟩ := h2 hn sv₁ hl'
      exact ⟨sv₂, by simp [lookupS, hyx, h3], h4⟩

/-- frames with the same names and related values (the callee's environments) -/
inductive SFrames (P : XProgram) (inp : List Nat) (m : Nat) : SEnv → SEnv → Prop where
  | nil : SFrames P inp m [] []
  | cons (x : Name) (a b : SVal) (ρ₁ ρ₂ : SEnv) :
      SRef P inp m a b → SFrames P inp m ρ₁ ρ₂ → SFrames P inp m ((x, a) :: ρ₁) ((x, b) :: ρ₂)

theorem SFrames.eref {P : XProgram} {inp : List Nat} {m : Nat} {ρ₁ ρ₂ : SEnv} (h : SFrames P inp m ρ₁ ρ₂)
    (S : List Name) : ERef P inp m [] S ρ₁ ρ₂ := by
  induction h with
  | nil =>
    intro x _
    exact ⟨fun a ha => by simp [lookupσ] at ha, fun _ sv hl => by simp [lookupS] at hl⟩
  | cons y a b ρ₁ ρ₂ hr _ ih =>
    intro x hx
    refine ⟨fun a ha => by simp [lookupσ] at ha, ?_⟩
    intro _ sv₁ hl
    by_cases hxy : x = y
    · simp [lookupS, hxy] at hl
      subst hl
      exact ⟨b, by simp [lookupS, hxy], hr⟩
    · have hl' : lookupS ρ₁ x = some sv₁ := by simpa [lookupS, hxy] using hl
      obtain ⟨sv₂, h3, h4⟩ := (ih x hx).2 rfl sv₁ hl'
      exact ⟨sv₂, by simp [lookupS, hxy, h3], h4⟩

/-! ### the simulation -/

/-- the statement for source fuel `n` and target fuel `n'` -/
def SubSim (P : XProgram) (inp : List Nat) (n n' : Nat) : Prop :=
  ∀ (e : XExpr) (σ : Subst) (S : List Name) (ρ₁ ρ₂ : SEnv) (p : Nat) (r : Res),
    closedArgs σ = true → pyAvoids σ e = true → (∀ x, x ∈ fv e → x ∈ S) → ERef P inp n σ S ρ₁ ρ₂ →
    xpeg P inp n e ρ₁ p = some r → xpeg P inp n' (subst σ e) ρ₂ p = some r

section helpers
variable {P : XProgram} {inp : List Nat} {n n' : Nat}

theorem sub_seq (hsim : SubSim P inp n n') (σ : Subst) (S : List Name) (ρ₁ ρ₂ : SEnv)
    (hc : closedArgs σ = true) (her : ERef P inp n σ S ρ₁ ρ₂) :
    ∀ (xs : List XExpr) (p : Nat) (acc : List Val) (r : Res), pyAvoidsList σ xs = true →
      (∀ x, x ∈ fvList xs → x ∈ S) → specSeq (xpeg P inp n) ρ₁ xs p acc = some r →
      specSeq (xpeg P inp n') ρ₂ (substList σ xs) p acc = some r := by
  intro xs
  induction xs with
  | nil => intro p acc r _ _ h; simpa [substList, specSeq] using h
  | cons e es ih =>
    intro p acc r hpy hfv h
    simp only [pyAvoidsList, Bool.and_eq_true] at hpy
    simp only [fvList, List.mem_append] at hfv
    simp only [specSeq] at h
    simp only [substList, specSeq]
    cases he : xpeg P inp n e ρ₁ p with
    | none => simp [he] at h
    | some r1 =>
      rw [hsim e σ S ρ₁ ρ₂ p r1 hc hpy.1 (fun x hx => hfv x (Or.inl hx)) her he]
      cases r1 with
      | fail => simpa [he] using h
      | ok v p' =>
        simp only [he] at h
        exact ih p' (v :: acc) r hpy.2 (fun x hx => hfv x (Or.inr hx)) h

theorem sub_choice (hsim : SubSim P inp n n') (σ : Subst) (S : List Name) (ρ₁ ρ₂ : SEnv)
    (hc : closedArgs σ = true) (her : ERef P inp n σ S ρ₁ ρ₂) :
    ∀ (xs : List XExpr) (p : Nat) (r : Res), pyAvoidsList σ xs = true →
      (∀ x, x ∈ fvList xs → x ∈ S) → specChoice (xpeg P inp n) ρ₁ xs p = some r →
      specChoice (xpeg P inp n') ρ₂ (substList σ xs) p = some r := by
  intro xs
  induction xs with
  | nil => intro p r _ _ h; simpa [substList, specChoice] using h
  | cons e es ih =>
    intro p r hpy hfv h
    simp only [pyAvoidsList, Bool.and_eq_true] at hpy
    simp only [fvList, List.mem_append] at hfv
    simp only [specChoice] at h
    simp only [substList, specChoice]
    cases he : xpeg P inp n e ρ₁ p with
    | none => simp [he] at h
    | some r1 =>
      rw [hsim e σ S ρ₁ ρ₂ p r1 hc hpy.1 (fun x hx => hfv x (Or.inl hx)) her he]
      cases r1 with
      | fail =>
        simp only [he] at h
        exact ih p r hpy.2 (fun x hx => hfv x (Or.inr hx)) h
      | ok v p' => simpa [he] using h

theorem sub_star (hsim : SubSim P inp n n') (σ : Subst) (S : List Name) (ρ₁ ρ₂ : SEnv)
    (hc : closedArgs σ = true) (her : ERef P inp n σ S ρ₁ ρ₂) (e : XExpr) (hpy : pyAvoids σ e = true)
    (hfv : ∀ x, x ∈ fv e → x ∈ S) :
    ∀ (fuel p : Nat) (acc : List Val) (r : Res), specStar (xpeg P inp n) ρ₁ e fuel p acc = some r →
      specStar (xpeg P inp n') ρ₂ (subst σ e) fuel p acc = some r := by
  intro fuel
  induction fuel with
  | zero => intro p acc r h; simp [specStar] at h
  | succ k ih =>
    intro p acc r h
    simp only [specStar] at h ⊢
    cases he : xpeg P inp n e ρ₁ p with
    | none => simp [he] at h
    | some r1 =>
      rw [hsim e σ S ρ₁ ρ₂ p r1 hc hpy hfv her he]
      cases r1 with
      | fail => simpa [he] using h
      | ok v p' =>
        simp only [he] at h
        exact ih p' (v :: acc) r h

theorem sub_rep (hsim : SubSim P inp n n') (σ : Subst) (S : List Name) (ρ₁ ρ₂ : SEnv)
    (hc : closedArgs σ = true) (her : ERef P inp n σ S ρ₁ ρ₂) (e : XExpr) (hpy : pyAvoids σ e = true)
    (hfv : ∀ x, x ∈ fv e → x ∈ S) :
    ∀ (cnt p : Nat) (acc : List Val) (r : Res), specRep (xpeg P inp n) ρ₁ e cnt p acc = some r →
      specRep (xpeg P inp n') ρ₂ (subst σ e) cnt p acc = some r := by
  intro cnt
  induction cnt with
  | zero => intro p acc r h; simpa [specRep] using h
  | succ k ih =>
    intro p acc r h
    simp only [specRep] at h ⊢
    cases he : xpeg P inp n e ρ₁ p with
    | none => simp [he] at h
    | some r1 =>
      rw [hsim e σ S ρ₁ ρ₂ p r1 hc hpy hfv her he]
      cases r1 with
      | fail => simpa [he] using h
      | ok v p' =>
        simp only [he] at h
        exact ih p' (v :: acc) r h

theorem sub_items (hsim : SubSim P inp n n') (ctor : String) (fields : List Name) (start : Nat) :
    ∀ (items : List (Option Name × XExpr)) (σ : Subst) (S : List Name) (ρ₁ ρ₂ : SEnv) (p : Nat) (r : Res),
      closedArgs σ = true → ERef P inp n σ S ρ₁ ρ₂ → pyAvoidsItems σ fields items = true →
      (∀ x, x ∈ fvItems fields items → x ∈ S) →
      specItems (xpeg P inp n) ctor fields start items ρ₁ p = some r →
      specItems (xpeg P inp n') ctor fields start (substItems σ items) ρ₂ p = some r := by
  intro items
  induction items with
  | nil =>
    intro σ S ρ₁ ρ₂ p r _ her hpy hfv h
    simp only [pyAvoidsItems] at hpy
    simp only [fvItems] at hfv
    simp only [specItems] at h
    simp only [substItems, specItems]
    cases hv : valuesS ρ₁ fields with
    | none => simp [hv] at h
    | some vs =>
      rw [her.values fields vs hfv ((noneInDom_iff σ fields).mp hpy) hv]
      simpa [hv] using h
  | cons ke rest ih =>
    obtain ⟨k, e⟩ := ke
    intro σ S ρ₁ ρ₂ p r hc her hpy hfv h
    cases k with
    | none =>
      simp only [pyAvoidsItems, Bool.and_eq_true] at hpy
      simp only [fvItems, List.mem_append] at hfv
      simp only [specItems] at h
      simp only [substItems, specItems]
      cases he : xpeg P inp n e ρ₁ p with
      | none => simp [he] at h
      | some r1 =>
        rw [hsim e σ S ρ₁ ρ₂ p r1 hc hpy.1 (fun x hx => hfv x (Or.inl hx)) her he]
        cases r1 with
        | fail => simpa [he] using h
        | ok v p' =>
          simp only [he] at h
          exact ih σ S ρ₁ ρ₂ p' r hc her hpy.2 (fun x hx => hfv x (Or.inr hx)) h
    | some y =>
      simp only [pyAvoidsItems, Bool.and_eq_true] at hpy
      simp only [fvItems, List.mem_append] at hfv
      simp only [specItems] at h
      simp only [substItems, specItems]
      cases he : xpeg P inp n e ρ₁ p with
      | none => simp [he] at h
      | some r1 =>
        rw [hsim e σ S ρ₁ ρ₂ p r1 hc hpy.1 (fun x hx => hfv x (Or.inl hx)) her he]
        cases r1 with
        | fail => simpa [he] using h
        | ok v p' =>
          simp only [he] at h
          exact ih (dropσ y σ) (y :: S) _ _ p' r (closedArgs_dropσ σ y hc) (her.bind y v) hpy.2
            (fv_cons y (fun x hx => hfv x (Or.inr hx))) h

end helpers

/-! ### arguments -/

theorem substArgs_eq_map (σ : Subst) : ∀ (args : List (Option Name × XExpr)),
    substArgs σ args = args.map (fun ka => (ka.1, subst σ ka.2))
  | [] => rfl
  | (k, e) :: rest => by simp [substArgs, substArgs_eq_map σ rest]

theorem argFor_map {α β : Type} (f : α → β) (pos : List α) (kws : List (Name × α)) (i : Nat) (q : Name) :
    argFor (pos.map f) (kws.map (fun kv => (kv.1, f kv.2))) i q = (argFor pos kws i q).map f := by
  unfold argFor
  rw [List.getElem?_map]
  cases pos[i]? with
  | some a => rfl
  | none =>
    simp only [Option.map_none]
    have : (kws.map (fun kv => (kv.1, f kv.2))).filter (fun kv => kv.1 = q)
        = (kws.filter (fun kv => kv.1 = q)).map (fun kv => (kv.1, f kv.2)) := by
      rw [List.filter_map]
      rfl
    rw [this]
    generalize kws.filter (fun kv => kv.1 = q) = l
    match l with
    | [] => rfl
    | [kv] => rfl
    | _ :: _ :: _ => rfl

theorem bindFrom_map {α β : Type} (f : α → β) (pos : List α) (kws : List (Name × α)) :
    ∀ (params : List Name) (i : Nat),
      bindFrom (pos.map f) (kws.map (fun kv => (kv.1, f kv.2))) i params =
        (bindFrom pos kws i params).map (fun bound => bound.map (fun qa => (qa.1, f qa.2))) := by
  intro params
  induction params with
  | nil => intro i; rfl
  | cons q qs ih =>
    intro i
    simp only [bindFrom, argFor_map, ih]
    cases argFor pos kws i q with
    | none => rfl
    | some a =>
      cases bindFrom pos kws (i + 1) qs with
      | none => rfl
      | some rest => rfl

theorem filterMap_pos_map {α β : Type} (f : α → β) : ∀ (args : List (Option Name × α)),
    (args.map (fun ka => (ka.1, f ka.2))).filterMap posOf = (args.filterMap posOf).map f
  | [] => rfl
  | (none, a) :: rest => by simp [List.filterMap_cons, posOf, filterMap_pos_map f rest]
  | (some _, a) :: rest => by simp [List.filterMap_cons, posOf, filterMap_pos_map f rest]

theorem filterMap_kws_map {α β : Type} (f : α → β) : ∀ (args : List (Option Name × α)),
    (args.map (fun ka => (ka.1, f ka.2))).filterMap kwOf = (args.filterMap kwOf).map (fun kv => (kv.1, f kv.2))
  | [] => rfl
  | (none, a) :: rest => by simp [List.filterMap_cons, kwOf, filterMap_kws_map f rest]
  | (some _, a) :: rest => by simp [List.filterMap_cons, kwOf, filterMap_kws_map f rest]

theorem bindArgs_map {α β : Type} (f : α → β) (params : List Name) (args : List (Option Name × α)) :
    bindArgs params (args.map (fun ka => (ka.1, f ka.2))) =
      (bindArgs params args).map (fun bound => bound.map (fun qa => (qa.1, f qa.2))) := by
  unfold bindArgs
  rw [filterMap_pos_map, filterMap_kws_map]
  simp only [List.length_map, bindFrom_map]
  split
  · rfl
  · rfl

theorem pyAvoidsArgs_mem (σ : Subst) : ∀ (args : List (Option Name × XExpr)), pyAvoidsArgs σ args = true →
    ∀ k a, (k, a) ∈ args → pyAvoids σ a = true := by
  intro args
  induction args with
  | nil => intro _ k a h; simp at h
  | cons ke rest ih =>
    obtain ⟨k', e'⟩ := ke
    intro h k a hm
    simp only [pyAvoidsArgs, Bool.and_eq_true] at h
    rcases List.mem_cons.mp hm with h1 | h1
    · cases h1; exact h.1
    · exact ih h.2 k a h1

theorem fvArgs_mem : ∀ (args : List (Option Name × XExpr)) (k : Option Name) (a : XExpr), (k, a) ∈ args →
    ∀ x, x ∈ fv a → x ∈ fvArgs args := by
  intro args
  induction args with
  | nil => intro k a h; simp at h
  | cons ke rest ih =>
    obtain ⟨k', e'⟩ := ke
    intro k a hm x hx
    simp only [fvArgs, List.mem_append]
    rcases List.mem_cons.mp hm with h1 | h1
    · cases h1; exact Or.inl hx
    · exact Or.inr (ih k a h1 x hx)

/-- a closed expression that is neither inline Python nor a literal is passed as a closure -/
theorem argS_closure (P : XProgram) (ρ : SEnv) (a : XExpr) (hfv : fv a = []) (hpy : a.isPy = false)
    (hlit : ∀ s, a ≠ .lit s) : argS P ρ a = some (.clo a ρ) := by
  cases a with
  | py t => simp [XExpr.isPy] at hpy
  | lit s => exact absurd rfl (hlit s)
  | pvar x => simp [fv] at hfv
  | cc _ _ => rfl
  | seq _ => rfl
  | choice _ => rfl
  | star _ => rfl
  | opt _ => rfl
  | ref _ => rfl
  | let_ _ _ _ => rfl
  | where_ _ _ => rfl
  | apply _ _ => rfl
  | applyL _ _ => rfl
  | rep _ _ => rfl
  | call _ _ => rfl
  | bseq _ _ _ => rfl

theorem sub_arg {P : XProgram} {inp : List Nat} {n : Nat}
    (hall : ∀ k, k < n → ∀ k', k ≤ k' → SubSim P inp k k')
    (σ : Subst) (S : List Name) (ρ₁ ρ₂ : SEnv) (hc : closedArgs σ = true) (her : ERef P inp n σ S ρ₁ ρ₂)
    (a : XExpr) (hpy : pyAvoids σ a = true) (hfv : ∀ x, x ∈ fv a → x ∈ S) (sv₁ : SVal)
    (h : argS P ρ₁ a = some sv₁) : ∃ sv₂, argS P ρ₂ (subst σ a) = some sv₂ ∧ SRef P inp n sv₁ sv₂ := by
  have closure : argS P ρ₁ a = some (.clo a ρ₁) → argS P ρ₂ (subst σ a) = some (.clo (subst σ a) ρ₂) →
      ∃ sv₂, argS P ρ₂ (subst σ a) = some sv₂ ∧ SRef P inp n sv₁ sv₂ := by
    intro h1 h2
    rw [h1] at h
    cases h
    refine ⟨_, h2, ?_⟩
    intro k hk k' hk' p r hx
    exact hall k hk k' hk' a σ S ρ₁ ρ₂ p r hc hpy hfv (her.mono (Nat.le_of_lt hk)) hx
  cases a with
  | py t =>
    simp only [argS] at h
    simp only [subst, argS]
    cases hv : evalPyS P ρ₁ t [] with
    | none => simp [hv] at h
    | some v =>
      simp [hv] at h
      subst h
      rw [her.evalPy t [] v (fun x hx => hfv x (by simpa [fv] using hx)) (by simpa [pyAvoids] using hpy) hv]
      exact ⟨.val v, rfl, rfl⟩
  | lit s =>
    simp only [argS] at h
    cases h
    exact ⟨.slit s, rfl, rfl⟩
  | pvar x =>
    simp only [argS] at h
    have hxS : x ∈ S := hfv x (by simp [fv])
    obtain ⟨h1, h2⟩ := her x hxS
    cases hl : lookupσ σ x with
    | none =>
      obtain ⟨sv₂, h3, h4⟩ := h2 hl sv₁ h
      exact ⟨sv₂, by simp [subst, hl, argS, h3], h4⟩
    | some b =>
      obtain ⟨hbfv, hbpy⟩ := closedArgs_lookup σ hc x b hl
      rcases h1 b hl with ⟨⟨ρa, h3⟩, h4⟩ | ⟨s, h3, h4⟩
      · rw [h3] at h
        cases h
        refine ⟨.clo b ρ₂, by simp [subst, hl, argS_closure P ρ₂ b hbfv hbpy h4], ?_⟩
        intro k hk k' hk' p r hx
        have := hall k hk k' hk' b [] [] ρa ρ₂ p r rfl (pyAvoids_nil b) (by rw [hbfv]; intro y hy; simp at hy)
          (fun y hy => by simp at hy) hx
        rwa [subst_nil] at this
      · rw [h4] at h
        cases h
        subst h3
        exact ⟨.slit s, by simp [subst, hl, argS], rfl⟩
  | cc _ _ => exact closure rfl rfl
  | seq _ => exact closure rfl rfl
  | choice _ => exact closure rfl rfl
  | star _ => exact closure rfl rfl
  | opt _ => exact closure rfl rfl
  | ref _ => exact closure rfl rfl
  | let_ _ _ _ => exact closure rfl rfl
  | where_ _ _ => exact closure rfl rfl
  | apply _ _ => exact closure rfl rfl
  | applyL _ _ => exact closure rfl rfl
  | rep _ _ => exact closure rfl rfl
  | call _ _ => exact closure rfl rfl
  | bseq _ _ _ => exact closure rfl rfl

theorem sub_args {P : XProgram} {inp : List Nat} {n : Nat}
    (hall : ∀ k, k < n → ∀ k', k ≤ k' → SubSim P inp k k')
    (σ : Subst) (S : List Name) (ρ₁ ρ₂ : SEnv) (hc : closedArgs σ = true) (her : ERef P inp n σ S ρ₁ ρ₂) :
    ∀ (bound : List (Name × XExpr)) (ρ₁' : SEnv),
      (∀ qa, qa ∈ bound → pyAvoids σ qa.2 = true ∧ ∀ x, x ∈ fv qa.2 → x ∈ S) →
      argsS P ρ₁ bound = some ρ₁' →
      ∃ ρ₂', argsS P ρ₂ (bound.map (fun qa => (qa.1, subst σ qa.2))) = some ρ₂' ∧ SFrames P inp n ρ₁' ρ₂' := by
  intro bound
  induction bound with
  | nil =>
    intro ρ₁' _ h
    simp [argsS] at h
    subst h
    exact ⟨[], rfl, SFrames.nil⟩
  | cons qa rest ih =>
    obtain ⟨q, a⟩ := qa
    intro ρ₁' hok h
    simp only [argsS] at h
    cases ha : argS P ρ₁ a with
    | none => simp [ha] at h
    | some sv₁ =>
      cases hr : argsS P ρ₁ rest with
      | none => simp [ha, hr] at h
      | some ρr =>
        simp [ha, hr] at h
        subst h
        obtain ⟨hpy, hfv⟩ := hok (q, a) List.mem_cons_self
        obtain ⟨sv₂, h1, h2⟩ := sub_arg hall σ S ρ₁ ρ₂ hc her a hpy hfv sv₁ ha
        obtain ⟨ρ₂r, h3, h4⟩ := ih ρr (fun qa hqa => hok qa (List.mem_cons_of_mem _ hqa)) hr
        exact ⟨(q, sv₂) :: ρ₂r, by simp [argsS, h1, h3], SFrames.cons q sv₁ sv₂ ρr ρ₂r h2 h4⟩

/-! ### the main induction -/

theorem eref_nil_nil (P : XProgram) (inp : List Nat) (m : Nat) (ρ₁ ρ₂ : SEnv) : ERef P inp m [] [] ρ₁ ρ₂ := by
  intro x hx; simp at hx

theorem subsim_step (P : XProgram) (inp : List Nat) (hP : WsProgram P) (n j : Nat) (hnj : n ≤ j)
    (hall : ∀ k, k ≤ n → ∀ k', k ≤ k' → SubSim P inp k k') : SubSim P inp (n + 1) (j + 1) := by
  have hsim : SubSim P inp n j := hall n (Nat.le_refl _) j hnj
  have hlt : ∀ k, k < n → ∀ k', k ≤ k' → SubSim P inp k k' := fun k hk k' hk' => hall k (Nat.le_of_lt hk) k' hk'
  intro e σ S ρ₁ ρ₂ p r hc hpy hfv her h
  have her' : ERef P inp n σ S ρ₁ ρ₂ := her.mono (Nat.le_succ n)
  cases e with
  | lit s => simpa [subst, xpeg] using h
  | cc lo hi => simpa [subst, xpeg] using h
  | seq xs =>
    simp only [xpeg] at h
    simp only [subst, xpeg]
    exact sub_seq hsim σ S ρ₁ ρ₂ hc her' xs p [] r (by simpa [pyAvoids] using hpy) (by simpa [fv] using hfv) h
  | choice xs =>
    simp only [xpeg] at h
    simp only [subst, xpeg]
    exact sub_choice hsim σ S ρ₁ ρ₂ hc her' xs p r (by simpa [pyAvoids] using hpy) (by simpa [fv] using hfv) h
  | star e =>
    simp only [xpeg] at h
    simp only [subst, xpeg]
    exact sub_star hsim σ S ρ₁ ρ₂ hc her' e (by simpa [pyAvoids] using hpy) (by simpa [fv] using hfv) _ p [] r h
  | opt e =>
    simp only [xpeg] at h
    simp only [subst, xpeg]
    cases he : xpeg P inp n e ρ₁ p with
    | none => simp [he] at h
    | some r1 =>
      rw [hsim e σ S ρ₁ ρ₂ p r1 hc (by simpa [pyAvoids] using hpy) (by simpa [fv] using hfv) her' he]
      cases r1 <;> simpa [he] using h
  | ref k =>
    simp only [xpeg] at h
    simp only [subst, xpeg]
    cases hb : P.rules[k]? with
    | none => simp [hb] at h
    | some body =>
      simp only [hb] at h ⊢
      have := hsim body [] [] [] [] p r rfl (pyAvoids_nil body)
        (fun x hx => ws_fv [] body (hP.1 k body hb) x hx) (eref_nil_nil P inp n [] []) h
      rwa [subst_nil] at this
  | pvar x =>
    simp only [xpeg] at h
    have hxS : x ∈ S := hfv x (by simp [fv])
    obtain ⟨h1, h2⟩ := her x hxS
    cases hl : lookupσ σ x with
    | none =>
      simp only [subst, hl, Option.getD_none, xpeg]
      cases hl1 : lookupS ρ₁ x with
      | none => simp [hl1] at h
      | some sv₁ =>
        obtain ⟨sv₂, h3, h4⟩ := h2 hl sv₁ hl1
        rw [h3]
        rw [hl1] at h
        cases sv₁ <;> cases sv₂ <;> simp only [SRef] at h4
        · simp at h
        · subst h4; simpa using h
        · simp only at h ⊢
          exact h4 n (Nat.lt_succ_self n) j hnj p r h
    | some b =>
      simp only [subst, hl, Option.getD_some]
      obtain ⟨hbfv, hbpy⟩ := closedArgs_lookup σ hc x b hl
      rcases h1 b hl with ⟨⟨ρa, h3⟩, _⟩ | ⟨s, h3, h4⟩
      · rw [h3] at h
        simp only at h
        have := hall n (Nat.le_refl _) (j + 1) (Nat.le_succ_of_le hnj) b [] [] ρa ρ₂ p r rfl (pyAvoids_nil b)
          (by rw [hbfv]; intro y hy; simp at hy) (eref_nil_nil P inp n ρa ρ₂) h
        rwa [subst_nil] at this
      · rw [h4] at h
        subst h3
        simpa [xpeg] using h
  | py t =>
    simp only [xpeg] at h
    simp only [subst, xpeg]
    cases hv : evalPyS P ρ₁ t [] with
    | none => simp [hv] at h
    | some v =>
      rw [her.evalPy t [] v (by simpa [fv] using hfv) (by simpa [pyAvoids] using hpy) hv]
      simpa [hv] using h
  | let_ x e b =>
    simp only [pyAvoids, Bool.and_eq_true] at hpy
    simp only [fv, List.mem_append] at hfv
    simp only [xpeg] at h
    simp only [subst, xpeg]
    cases he : xpeg P inp n e ρ₁ p with
    | none => simp [he] at h
    | some r1 =>
      rw [hsim e σ S ρ₁ ρ₂ p r1 hc hpy.1 (fun y hy => hfv y (Or.inl hy)) her' he]
      cases r1 with
      | fail => simpa [he] using h
      | ok v p' =>
        simp only [he] at h
        exact hsim b (dropσ x σ) (x :: S) _ _ p' r (closedArgs_dropσ σ x hc) hpy.2
          (fv_cons x (fun y hy => hfv y (Or.inr hy))) (her'.bind x v) h
  | where_ e q =>
    simp only [pyAvoids, Bool.and_eq_true] at hpy
    simp only [fv, List.mem_append] at hfv
    simp only [xpeg] at h
    simp only [subst, xpeg]
    cases he : xpeg P inp n e ρ₁ p with
    | none => simp [he] at h
    | some r1 =>
      rw [hsim e σ S ρ₁ ρ₂ p r1 hc hpy.1 (fun y hy => hfv y (Or.inl hy)) her' he]
      cases r1 with
      | fail => simpa [he] using h
      | ok v p' =>
        simp only [he] at h
        dsimp only
        cases hq : xpeg P inp n q ρ₁ p' with
        | none => simp [hq] at h
        | some r2 =>
          rw [hsim q σ S ρ₁ ρ₂ p' r2 hc hpy.2 (fun y hy => hfv y (Or.inr hy)) her' hq]
          simpa [hq] using h
  | apply e q =>
    simp only [pyAvoids, Bool.and_eq_true] at hpy
    simp only [fv, List.mem_append] at hfv
    simp only [xpeg] at h
    simp only [subst, xpeg]
    cases he : xpeg P inp n e ρ₁ p with
    | none => simp [he] at h
    | some r1 =>
      rw [hsim e σ S ρ₁ ρ₂ p r1 hc hpy.1 (fun y hy => hfv y (Or.inl hy)) her' he]
      cases r1 with
      | fail => simpa [he] using h
      | ok v p' =>
        simp only [he] at h
        dsimp only
        cases hq : xpeg P inp n q ρ₁ p' with
        | none => simp [hq] at h
        | some r2 =>
          rw [hsim q σ S ρ₁ ρ₂ p' r2 hc hpy.2 (fun y hy => hfv y (Or.inr hy)) her' hq]
          simpa [hq] using h
  | applyL q e =>
    simp only [pyAvoids, Bool.and_eq_true] at hpy
    simp only [fv, List.mem_append] at hfv
    simp only [xpeg] at h
    simp only [subst, xpeg]
    cases hq : xpeg P inp n q ρ₁ p with
    | none => simp [hq] at h
    | some r1 =>
      rw [hsim q σ S ρ₁ ρ₂ p r1 hc hpy.1 (fun y hy => hfv y (Or.inl hy)) her' hq]
      cases r1 with
      | fail => simpa [hq] using h
      | ok v p' =>
        simp only [hq] at h
        dsimp only
        cases he : xpeg P inp n e ρ₁ p' with
        | none => simp [he] at h
        | some r2 =>
          rw [hsim e σ S ρ₁ ρ₂ p' r2 hc hpy.2 (fun y hy => hfv y (Or.inr hy)) her' he]
          simpa [he] using h
  | rep e t =>
    simp only [pyAvoids, Bool.and_eq_true] at hpy
    simp only [fv, List.mem_append] at hfv
    simp only [xpeg] at h
    simp only [subst, xpeg]
    cases hv : evalPyS P ρ₁ t [] with
    | none => simp [hv] at h
    | some v =>
      rw [her.evalPy t [] v (fun y hy => hfv y (Or.inr hy)) hpy.2 hv]
      rw [hv] at h
      cases v with
      | int i =>
        simp only at h ⊢
        exact sub_rep hsim σ S ρ₁ ρ₂ hc her' e hpy.1 (fun y hy => hfv y (Or.inl hy)) _ p [] r h
      | none => simp at h
      | bool _ => simp at h
      | str _ => simp at h
      | bytes _ => simp at h
      | list _ => simp at h
      | tuple _ => simp at h
      | err => simp at h
      | obj _ _ _ => simp at h
  | call t args =>
    simp only [xpeg] at h
    simp only [subst, xpeg]
    cases hT : P.templates[t]? with
    | none => simp [hT] at h
    | some T =>
      simp only [hT] at h ⊢
      rw [substArgs_eq_map, bindArgs_map]
      cases hb : bindArgs T.params args with
      | none => simp [hb] at h
      | some bound =>
        simp only [hb] at h
        simp only [Option.map_some]
        cases hs : argsS P ρ₁ bound with
        | none => simp [hs] at h
        | some ρ₁' =>
          simp only [hs] at h
          have hok : ∀ qa, qa ∈ bound → pyAvoids σ qa.2 = true ∧ ∀ x, x ∈ fv qa.2 → x ∈ S := by
            intro qa hqa
            obtain ⟨k, hk⟩ := bindArgs_mem _ _ _ hb qa hqa
            exact ⟨pyAvoidsArgs_mem σ args (by simpa [pyAvoids] using hpy) k qa.2 hk,
              fun x hx => hfv x (by simpa [fv] using fvArgs_mem args k qa.2 hk x hx)⟩
          obtain ⟨ρ₂', h1, h2⟩ := sub_args hlt σ S ρ₁ ρ₂ hc her' bound ρ₁' hok hs
          simp only [h1]
          have := hsim T.body [] T.params ρ₁' ρ₂' p r rfl (pyAvoids_nil _)
            (fun x hx => ws_fv T.params T.body (hP.2 t T hT) x hx) (h2.eref T.params) h
          rwa [subst_nil] at this
  | bseq items ctor fields =>
    simp only [xpeg] at h
    simp only [subst, xpeg]
    exact sub_items hsim ctor fields p items σ S ρ₁ ρ₂ p r hc her' (by simpa [pyAvoids] using hpy)
      (by simpa [fv] using hfv) h

/-- **The simulation**, for all amounts of fuel. -/
theorem subsim_all (P : XProgram) (inp : List Nat) (hP : WsProgram P) :
    ∀ n, ∀ k, k ≤ n → ∀ k', k ≤ k' → SubSim P inp k k' := by
  intro n
  induction n with
  | zero =>
    intro k hk k' _ e σ S ρ₁ ρ₂ p r _ _ _ _ h
    have : k = 0 := Nat.le_zero.mp hk
    subst this
    simp [xpeg] at h
  | succ n ih =>
    intro k hk k' hk'
    by_cases hkn : k ≤ n
    · exact ih k hkn k' hk'
    · have hk1 : k = n + 1 := by omega
      subst hk1
      cases k' with
      | zero => omega
      | succ j => exact subsim_step P inp hP n j (by omega) ih

/-! ### corollaries -/

/-- more fuel never changes a defined outcome -/
theorem xpeg_rule_fuel_mono (P : XProgram) (inp : List Nat) (hP : WsProgram P) (n n' : Nat) (hn : n ≤ n')
    (k p : Nat) (r : Res) (h : xpeg P inp n (.ref k) [] p = some r) : xpeg P inp n' (.ref k) [] p = some r := by
  have := subsim_all P inp hP n n (Nat.le_refl _) n' hn (.ref k) [] [] [] [] p r rfl (pyAvoids_nil _)
    (by intro x hx; simp [fv] at hx) (eref_nil_nil P inp n [] []) h
  rwa [subst_nil] at this

theorem argsS_lookup (P : XProgram) (ρ : SEnv) : ∀ (bound : List (Name × XExpr)) (ρ' : SEnv),
    argsS P ρ bound = some ρ' → ∀ x,
      (lookupσ bound x = none → lookupS ρ' x = none) ∧
      (∀ a, lookupσ bound x = some a → ∃ sv, argS P ρ a = some sv ∧ lookupS ρ' x = some sv) := by
  intro bound
  induction bound with
  | nil =>
    intro ρ' h x
    simp [argsS] at h
    subst h
    exact ⟨fun _ => rfl, fun a ha => by simp [lookupσ] at ha⟩
  | cons qa rest ih =>
    obtain ⟨q, a⟩ := qa
    intro ρ' h x
    simp only [argsS] at h
    cases ha : argS P ρ a with
    | none => simp [ha] at h
    | some sv =>
      cases hr : argsS P ρ rest with
      | none => simp [ha, hr] at h
      | some ρr =>
        simp [ha, hr] at h
        subst h
        by_cases hxq : x = q
        · subst hxq
          refine ⟨fun hn => by simp [lookupσ] at hn, ?_⟩
          intro b hb
          simp [lookupσ] at hb
          subst hb
          exact ⟨sv, ha, by simp [lookupS]⟩
        · obtain ⟨h1, h2⟩ := ih ρr hr x
          refine ⟨fun hn => ?_, fun b hb => ?_⟩
          · simp only [lookupσ, hxq, if_false] at hn
            simp [lookupS, hxq, h1 hn]
          · simp only [lookupσ, hxq, if_false] at hb
            obtain ⟨sv', h3, h4⟩ := h2 b hb
            exact ⟨sv', h3, by simp [lookupS, hxq, h4]⟩

/-- **A call means its textual expansion** (closed arguments): whatever outcome the call has, the
    template's body with every parameter replaced by the argument expression has the same outcome,
    in any environment and with any larger amount of fuel. -/
theorem call_means_expansion (P : XProgram) (inp : List Nat) (hP : WsProgram P) (t : Nat) (T : Template)
    (args : List (Option Name × XExpr)) (bound : List (Name × XExpr))
    (hT : P.templates[t]? = some T) (hb : bindArgs T.params args = some bound)
    (hclosed : closedArgs bound = true) (hpy : pyAvoids bound T.body = true)
    (n n' : Nat) (hn : n ≤ n') (ρ ρ₂ : SEnv) (p : Nat) (r : Res)
    (h : xpeg P inp n (.call t args) ρ p = some r) : xpeg P inp n' (subst bound T.body) ρ₂ p = some r := by
  cases n with
  | zero => simp [xpeg] at h
  | succ m =>
    simp only [xpeg, hT, hb] at h
    cases hs : argsS P ρ bound with
    | none => simp [hs] at h
    | some ρ' =>
      simp only [hs] at h
      refine subsim_all P inp hP m m (Nat.le_refl _) n' (by omega) T.body bound T.params ρ' ρ₂ p r hclosed hpy
        (fun x hx => ws_fv T.params T.body (hP.2 t T hT) x hx) ?_ h
      intro x _
      obtain ⟨h1, h2⟩ := argsS_lookup P ρ bound ρ' hs x
      refine ⟨?_, ?_⟩
      · intro a ha
        obtain ⟨sv, h3, h4⟩ := h2 a ha
        obtain ⟨hafv, hapy⟩ := closedArgs_lookup bound hclosed x a ha
        by_cases hlit : ∃ s, a = .lit s
        · obtain ⟨s, hs'⟩ := hlit
          subst hs'
          simp [argS] at h3
          subst h3
          exact Or.inr ⟨s, rfl, h4⟩
        · have hl : ∀ s, a ≠ .lit s := fun s e => hlit ⟨s, e⟩
          rw [argS_closure P ρ a hafv hapy hl] at h3
          cases h3
          exact Or.inl ⟨⟨ρ, h4⟩, hl⟩
      · intro hnone sv₁ hl
        rw [h1 hnone] at hl
        exact absurd hl (by simp)

end Sourcer.X
