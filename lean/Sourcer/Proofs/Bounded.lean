import Sourcer.Peg
import Sourcer.Proofs.Positions
/-
  C08 (no IndexError from the line tables): every span inside a successfully parsed value, and the
  end position, lie within `[0, len]` - for every program (lookahead and `Backtrack` included),
  given a matcher that stays inside the input.
-/
namespace Sourcer

mutual
def spansLe (len : Nat) : Val → Bool
  | .list xs => spansLeList len xs
  | .tuple xs => spansLeList len xs
  | .obj _ fs sp =>
    (match sp with
      | some (s, e) => decide (s ≤ len) && decide (e ≤ len)
      | none => true) && spansLeFields len fs
  | _ => true
def spansLeList (len : Nat) : List Val → Bool
  | [] => true
  | x :: xs => spansLe len x && spansLeList len xs
def spansLeFields (len : Nat) : List (String × Val) → Bool
  | [] => true
  | f :: fs => spansLe len f.2 && spansLeFields len fs
end

theorem spansLeList_reverse (len : Nat) : ∀ (xs acc : List Val), spansLeList len xs = true →
    spansLeList len acc = true → spansLeList len (xs.reverseAux acc) = true := by
  intro xs
  induction xs with
  | nil => intro acc _ h; exact h
  | cons x xs ih =>
    intro acc h1 h2
    simp only [spansLeList, Bool.and_eq_true] at h1
    exact ih (x :: acc) h1.2 (by simp [spansLeList, h1.1, h2])

theorem spansLeFields_reverse (len : Nat) : ∀ (xs acc : List (String × Val)), spansLeFields len xs = true →
    spansLeFields len acc = true → spansLeFields len (xs.reverseAux acc) = true := by
  intro xs
  induction xs with
  | nil => intro acc _ h; exact h
  | cons x xs ih =>
    intro acc h1 h2
    simp only [spansLeFields, Bool.and_eq_true] at h1
    exact ih (x :: acc) h1.2 (by simp [spansLeFields, h1.1, h2])

theorem spansLeList_tail {len : Nat} {xs : List Val} (h : spansLeList len xs = true) :
    spansLeList len xs.tail = true := by
  cases xs with
  | nil => simp [spansLeList]
  | cons x xs => simp only [spansLeList, Bool.and_eq_true] at h; exact h.2

def PBnd (len : Nat) (run : PRun) : Prop :=
  ∀ e p v p', run e p = some (.ok v p') → p ≤ len → p' ≤ len ∧ spansLe len v = true

variable {run : PRun} {len : Nat}

theorem pegSeq_bnd (hr : PBnd len run) : ∀ xs p acc v p',
    pegSeq run xs p acc = some (.ok v p') → p ≤ len → spansLeList len acc = true →
    p' ≤ len ∧ spansLe len v = true := by
  intro xs
  induction xs with
  | nil =>
    intro p acc v p' h hp ha
    simp [pegSeq] at h; obtain ⟨h1, h2⟩ := h; subst h1 h2
    exact ⟨hp, by simpa [spansLe] using spansLeList_reverse len acc [] ha (by simp [spansLeList])⟩
  | cons e es ih =>
    intro p acc v p' h hp ha
    unfold pegSeq at h
    split at h
    · simp at h
    · simp at h
    · rename_i v1 p1 he
      have h1 := hr e p v1 p1 he hp
      exact ih _ _ _ _ h h1.1 (by simp [spansLeList, h1.2, ha])

theorem pegCls_bnd (hr : PBnd len run) (name : String) (start : Nat) (hs : start ≤ len) : ∀ xs ks p acc v p',
    pegCls run name start xs ks p acc = some (.ok v p') → p ≤ len → spansLeFields len acc = true →
    p' ≤ len ∧ spansLe len v = true := by
  intro xs
  induction xs with
  | nil =>
    intro ks p acc v p' h hp ha
    simp [pegCls] at h; obtain ⟨h1, h2⟩ := h; subst h1 h2
    refine ⟨hp, ?_⟩
    simp only [spansLe, Bool.and_eq_true, decide_eq_true_eq]
    exact ⟨⟨hs, hp⟩, spansLeFields_reverse len acc [] ha (by simp [spansLeFields])⟩
  | cons e es ih =>
    intro ks p acc v p' h hp ha
    unfold pegCls at h
    split at h
    · simp at h
    · simp at h
    · rename_i v1 p1 he
      have h1 := hr e p v1 p1 he hp
      refine ih _ _ _ _ _ h h1.1 ?_
      split
      · simp [spansLeFields, h1.2, ha]
      · exact ha

theorem pegChoice_bnd (hr : PBnd len run) : ∀ xs p v p',
    pegChoice run xs p = some (.ok v p') → p ≤ len → p' ≤ len ∧ spansLe len v = true := by
  intro xs
  induction xs with
  | nil => intro p v p' h; simp [pegChoice] at h
  | cons e es ih =>
    intro p v p' h hp
    unfold pegChoice at h
    split at h
    · simp at h
    · exact ih _ _ _ h hp
    · rename_i r0 hnf he
      cases r0 with
      | fail => exact absurd rfl hnf
      | ok v1 p1 => simp at h; obtain ⟨h1, h2⟩ := h; subst h1 h2; exact hr e p _ _ he hp

theorem pegListLoop_bnd (hr : PBnd len run) (e : Expr) (max : Option Nat) :
    ∀ fuel p acc acc' p', pegListLoop run e max fuel p acc = some (acc', p') → p ≤ len →
    spansLeList len acc = true → p' ≤ len ∧ spansLeList len acc' = true := by
  intro fuel
  induction fuel with
  | zero => intro p acc acc' p' h; simp [pegListLoop] at h
  | succ n ih =>
    intro p acc acc' p' h hp ha
    unfold pegListLoop at h
    split at h
    · simp at h
    · simp at h; obtain ⟨h1, h2⟩ := h; subst h1 h2; exact ⟨hp, ha⟩
    · rename_i v p1 he
      have h1 := hr e p v p1 he hp
      have ha' : spansLeList len (v :: acc) = true := by simp [spansLeList, h1.2, ha]
      simp only at h
      split at h
      · simp at h; obtain ⟨h1', h2⟩ := h; subst h1' h2; exact ⟨h1.1, ha'⟩
      · exact ih _ _ _ _ h h1.1 ha'

theorem pegSepLoop_bnd (hr : PBnd len run) (e s : Expr) (o : SepOpts) :
    ∀ fuel p st stop saw st' stop' saw', pegSepLoop run e s o fuel p st stop saw = some (st', stop', saw') →
    p ≤ len → stop ≤ len → spansLeList len st = true → stop' ≤ len ∧ spansLeList len st' = true := by
  intro fuel
  induction fuel with
  | zero => intro p st stop saw st' stop' saw' h; simp [pegSepLoop] at h
  | succ n ih =>
    intro p st stop saw st' stop' saw' h hp hstop ha
    unfold pegSepLoop at h
    split at h
    · simp at h
    · simp only [Option.some.injEq, Prod.mk.injEq] at h
      obtain ⟨h1, h2, _⟩ := h; subst h1 h2
      refine ⟨hstop, ?_⟩
      split
      · exact spansLeList_tail ha
      · exact ha
    · rename_i v p1 he
      have h1 := hr e p v p1 he hp
      have ha1 : spansLeList len (v :: st) = true := by simp [spansLeList, h1.2, ha]
      simp only at h
      split at h
      · simp at h
      · simp at h; obtain ⟨a, b, _⟩ := h; subst a b; exact ⟨h1.1, ha1⟩
      · rename_i w p2 hs
        have h2 := hr s p1 w p2 hs h1.1
        refine ih _ _ _ _ _ _ _ h h2.1 ?_ ?_
        · split <;> first | exact h2.1 | exact h1.1
        · split
          · exact ha1
          · simp only [spansLeList, Bool.and_eq_true] at ha1 ⊢
            exact ⟨h2.2, ha1⟩

theorem pegSkipAlts_bnd (hr : PBnd len run) (p : Nat) (hp : p ≤ len) : ∀ xs q,
    pegSkipAlts run p xs = some (some q) → q ≤ len := by
  intro xs
  induction xs with
  | nil => intro q h; simp [pegSkipAlts] at h
  | cons x xs ih =>
    intro q h
    unfold pegSkipAlts at h
    split at h
    · simp at h
    · exact ih _ h
    · rename_i v p' he
      split at h
      · simp at h; subst h; exact (hr x p v _ he hp).1
      · exact ih _ h

theorem pegSkipLoop_bnd (hr : PBnd len run) (xs : List Expr) :
    ∀ fuel p v p', pegSkipLoop run xs fuel p = some (.ok v p') → p ≤ len → p' ≤ len ∧ v = .none := by
  intro fuel
  induction fuel with
  | zero => intro p v p' h; simp [pegSkipLoop] at h
  | succ n ih =>
    intro p v p' h hp
    unfold pegSkipLoop at h
    split at h
    · simp at h
    · rename_i q ha
      exact ih _ _ _ h (pegSkipAlts_bnd hr p hp xs q ha)
    · simp at h; obtain ⟨h1, h2⟩ := h; subst h1 h2; exact ⟨hp, rfl⟩

theorem pegLongestOpts_bnd (hr : PBnd len run) (p : Nat) (hp : p ≤ len) : ∀ xs best best',
    pegLongestOpts run p xs best = some best' →
    (∀ v q, best = some (v, q) → q ≤ len ∧ spansLe len v = true) →
    (∀ v q, best' = some (v, q) → q ≤ len ∧ spansLe len v = true) := by
  intro xs
  induction xs with
  | nil => intro best best' h hb; simp [pegLongestOpts] at h; subst h; exact hb
  | cons x xs ih =>
    intro best best' h hb
    unfold pegLongestOpts at h
    split at h
    · simp at h
    · exact ih _ _ h hb
    · rename_i v1 p1 he
      have h1 := hr x p v1 p1 he hp
      split at h
      · exact ih _ _ h (by intro v q hq; simp at hq; obtain ⟨a, b⟩ := hq; subst a b; exact h1)
      · split at h
        · exact ih _ _ h (by intro v q hq; simp at hq; obtain ⟨a, b⟩ := hq; subst a b; exact h1)
        · exact ih _ _ h hb

theorem pegSkipTo_bnd {P : Program} (hr : PBnd len run) (skip : Bool) (e p' : Nat)
    (h : pegSkipTo P run skip e = some p') (he : e ≤ len) : p' ≤ len := by
  unfold pegSkipTo at h
  cases skip with
  | false => simp at h; subst h; exact he
  | true =>
    simp only [↓reduceIte] at h
    split at h
    · simp at h; subst h; exact he
    · split at h
      · simp at h
      · rename_i v q hq
        simp at h; subst h
        exact (hr _ _ _ _ hq he).1
      · simp at h

/-! ### operator tables -/

def opsLe (len : Nat) : List OpEntry → Bool
  | [] => true
  | o :: ops => spansLe len o.op && opsLe len ops

/-- all trees on the operand stack only contain values whose spans lie inside the input -/
def treesLe (len : Nat) : List OTree → Bool
  | [] => true
  | t :: ts => spansLe len t.toVal && treesLe len ts

theorem opsLe_drop (len : Nat) : ∀ (ops : List OpEntry) (k : Nat), opsLe len ops = true →
    opsLe len (ops.drop k) = true := by
  intro ops
  induction ops with
  | nil => intro k _; simp [opsLe]
  | cons o ops ih =>
    intro k h
    cases k with
    | zero => simpa using h
    | succ k => simp only [opsLe, Bool.and_eq_true] at h; simpa using ih k h.2

theorem decodeOp_le {len : Nat} {v : Val} {o : OpEntry} (h : decodeOp v = some o)
    (hv : spansLe len v = true) : spansLe len o.op = true := by
  unfold decodeOp at h
  split at h
  · simp at h; subst h
    simp only [spansLe, spansLeList, Bool.and_eq_true] at hv
    exact hv.2.2.1
  · simp at h

theorem decodePost_le {len : Nat} {v : Val} {p : Int} {op : Val} (h : decodePost v = some (p, op))
    (hv : spansLe len v = true) : spansLe len op = true := by
  unfold decodePost at h
  split at h
  · simp at h; obtain ⟨_, h2⟩ := h; subst h2
    simp only [spansLe, spansLeList, Bool.and_eq_true] at hv
    exact hv.2.1
  · simp at h

theorem popOperator_le {len : Nat} {ops ops' : List OpEntry} {xs xs' : List OTree}
    (h : popOperator ops xs = some (ops', xs')) (ho : opsLe len ops = true)
    (hx : treesLe len xs = true) : opsLe len ops' = true ∧ treesLe len xs' = true := by
  unfold popOperator at h
  split at h
  · simp at h
  · rename_i o rest
    simp only [opsLe, Bool.and_eq_true] at ho
    split at h
    · split at h
      · simp at h; obtain ⟨h1, h2⟩ := h; subst h1 h2
        simp only [treesLe, Bool.and_eq_true] at hx
        exact ⟨ho.2, by simp [treesLe, OTree.toVal, mkInfix, spansLe, spansLeFields, hx.1, hx.2.1, hx.2.2, ho.1]⟩
      · simp at h
    · split at h
      · simp at h; obtain ⟨h1, h2⟩ := h; subst h1 h2
        simp only [treesLe, Bool.and_eq_true] at hx
        exact ⟨ho.2, by simp [treesLe, OTree.toVal, mkPrefix, spansLe, spansLeFields, hx.1, hx.2, ho.1]⟩
      · simp at h

theorem reducePost_le {len : Nat} (prec : Int) : ∀ (ops : List OpEntry) (xs : List OTree) (ops' : List OpEntry)
    (xs' : List OTree), reducePost prec ops xs = some (ops', xs') → opsLe len ops = true →
    treesLe len xs = true → opsLe len ops' = true ∧ treesLe len xs' = true := by
  intro ops
  induction ops with
  | nil => intro xs ops' xs' h ho hx; simp [reducePost] at h; obtain ⟨h1, h2⟩ := h; subst h1 h2; exact ⟨ho, hx⟩
  | cons o ops ih =>
    intro xs ops' xs' h ho hx
    unfold reducePost at h
    split at h
    · split at h
      · simp at h
      · rename_i hpop
        have := popOperator_le hpop ho hx
        simp only [opsLe, Bool.and_eq_true] at ho
        exact ih _ _ _ h ho.2 this.2
    · simp at h; obtain ⟨h1, h2⟩ := h; subst h1 h2; exact ⟨ho, hx⟩

theorem reduceInfix_le {len : Nat} (prec : Int) : ∀ (ops : List OpEntry) (xs : List OTree) (res : InfixStep),
    reduceInfix prec ops xs = some res → opsLe len ops = true → treesLe len xs = true →
    (match res with
     | .go ops' xs' => opsLe len ops' = true ∧ treesLe len xs' = true
     | .conflict ops' xs' => opsLe len ops' = true ∧ treesLe len xs' = true) := by
  intro ops
  induction ops with
  | nil => intro xs res h ho hx; simp [reduceInfix] at h; subst h; exact ⟨ho, hx⟩
  | cons o ops ih =>
    intro xs res h ho hx
    unfold reduceInfix at h
    split at h
    · split at h
      · simp at h
      · rename_i hpop
        have := popOperator_le hpop ho hx
        simp only [opsLe, Bool.and_eq_true] at ho
        exact ih _ _ h ho.2 this.2
    · split at h
      · simp at h; subst h; exact ⟨ho, hx⟩
      · simp at h; subst h; exact ⟨ho, hx⟩

theorem popAll_le {len : Nat} : ∀ (ops : List OpEntry) (xs xs' : List OTree), popAll ops xs = some xs' →
    opsLe len ops = true → treesLe len xs = true → treesLe len xs' = true := by
  intro ops
  induction ops with
  | nil => intro xs xs' h _ hx; simp [popAll] at h; subst h; exact hx
  | cons o ops ih =>
    intro xs xs' h ho hx
    unfold popAll at h
    split at h
    · simp at h
    · rename_i hpop
      have := popOperator_le hpop ho hx
      simp only [opsLe, Bool.and_eq_true] at ho
      exact ih _ _ h ho.2 this.2

theorem getLast?_le {len : Nat} : ∀ (xs : List OTree) (v : OTree), xs.getLast? = some v →
    treesLe len xs = true → spansLe len v.toVal = true := by
  intro xs
  induction xs with
  | nil => intro v h; simp at h
  | cons x xs ih =>
    intro v h hx
    simp only [treesLe, Bool.and_eq_true] at hx
    cases xs with
    | nil => simp at h; subst h; exact hx.1
    | cons y ys => exact ih v (by simpa [List.getLast?_cons_cons] using h) hx.2

theorem finishTable_le {len : Nat} {ops : List OpEntry} {xs : List OTree} {marker : Nat} {v : OTree}
    (h : finishTable ops xs marker = some v) (ho : opsLe len ops = true)
    (hx : treesLe len xs = true) : spansLe len v.toVal = true := by
  unfold finishTable at h
  split at h
  · simp at h
  · rename_i xs' hp
    exact getLast?_le _ _ h (popAll_le _ _ _ hp (opsLe_drop len ops _ ho) hx)

theorem pegOT_bnd (hr : PBnd len run) (T : PTableExprs) :
    ∀ fuel ph st v p', pegOT run T fuel ph st = some (.ok v p') → st.pos ≤ len → st.outerCp ≤ len →
    opsLe len st.ops = true → treesLe len st.operands = true → p' ≤ len ∧ spansLe len v = true := by
  intro fuel
  induction fuel with
  | zero => intro ph st v p' h; simp [pegOT] at h
  | succ n ih =>
    intro ph st v p' h hp hc ho hx
    cases ph with
    | pre =>
      simp only [pegOT] at h
      split at h
      · exact ih _ _ _ _ h hp hc ho hx
      · split at h
        · simp at h
        · exact ih _ _ _ _ h hp hc ho hx
        · rename_i v1 p1 he
          have h1 := hr _ _ _ _ he hp
          split at h
          · simp at h
          · rename_i o hd
            exact ih _ _ _ _ h h1.1 hc (by simp [opsLe, decodeOp_le hd h1.2, ho]) hx
    | operand =>
      simp only [pegOT] at h
      split at h
      · simp at h
      · split at h
        · simp at h
        · split at h
          · simp at h
          · rename_i tree ht
            simp at h; obtain ⟨a, b⟩ := h; subst a b
            exact ⟨hc, finishTable_le ht ho hx⟩
      · rename_i v1 p1 he
        have h1 := hr _ _ _ _ he hp
        exact ih _ _ _ _ h h1.1 hc ho (by simp [treesLe, OTree.toVal, h1.2, hx])
    | post =>
      simp only [pegOT] at h
      split at h
      · exact ih _ _ _ _ h hp hp ho hx
      · split at h
        · simp at h
        · exact ih _ _ _ _ h hp hp ho hx
        · rename_i v1 p1 he
          have h1 := hr _ _ _ _ he hp
          split at h
          · simp at h
          · rename_i prec op hd
            split at h
            · simp at h
            · rename_i ops' operands' hred
              have h2 := reducePost_le prec _ _ _ _ hred ho hx
              split at h
              · simp at h
              · rename_i x rest
                simp only [treesLe, Bool.and_eq_true] at h2
                exact ih _ _ _ _ h h1.1 hc h2.1
                  (by simp [treesLe, OTree.toVal, mkPostfix, spansLe, spansLeFields, h2.2.1, h2.2.2, decodePost_le hd h1.2])
    | inf =>
      simp only [pegOT] at h
      split at h
      · split at h
        · simp at h
        · rename_i tree ht
          simp at h; obtain ⟨a, b⟩ := h; subst a b
          exact ⟨hp, finishTable_le ht ho hx⟩
      · split at h
        · simp at h
        · split at h
          · simp at h
          · rename_i tree ht
            simp at h; obtain ⟨a, b⟩ := h; subst a b
            exact ⟨hp, finishTable_le ht ho hx⟩
        · rename_i v1 p1 he
          have h1 := hr _ _ _ _ he hp
          split at h
          · simp at h
          · rename_i o hd
            split at h
            · simp at h
            · rename_i ops' operands' hred
              have h2 := reduceInfix_le o.prec _ _ _ hred ho hx
              split at h
              · simp at h
              · rename_i tree ht
                simp at h; obtain ⟨a, b⟩ := h; subst a b
                exact ⟨hc, finishTable_le ht h2.1 h2.2⟩
            · rename_i ops' operands' hred
              have h2 := reduceInfix_le o.prec _ _ _ hred ho hx
              exact ih _ _ _ _ h h1.1 hc (by simp [opsLe, decodeOp_le hd h1.2, h2.1]) h2.2

theorem lit_le (P : Program) (s : List Nat) (len : Nat) : spansLe len (P.lit s) = true := by
  unfold Program.lit; split <;> simp [spansLe]

/-- every span of a successfully parsed value and its end position lie inside the input -/
theorem peg_bounded (P : Program) (inp : List Nat) (hm : MatcherBounded P) :
    ∀ fuel, PBnd inp.length (peg P inp fuel) := by
  intro fuel
  induction fuel with
  | zero => intro e p v p' h; simp [peg] at h
  | succ n ih =>
    intro e p v p' h hp
    cases e with
    | str s skip =>
      simp only [peg] at h
      split at h
      · simp at h; obtain ⟨h1, h2⟩ := h; subst h1 h2; exact ⟨hp, lit_le _ _ _⟩
      · rename_i hne
        split at h
        · rename_i hmatch
          split at h
          · simp at h
          · rename_i q hsk
            simp at h; obtain ⟨h1, h2⟩ := h; subst h1 h2
            exact ⟨pegSkipTo_bnd ih skip _ _ hsk (matchAt_le (by simpa using hne) hmatch), lit_le _ _ _⟩
        · simp at h
    | regex rx skip =>
      simp only [peg] at h
      split at h
      · rename_i e' hmatch
        split at h
        · simp at h
        · rename_i q hsk
          simp at h; obtain ⟨h1, h2⟩ := h; subst h1 h2
          exact ⟨pegSkipTo_bnd ih skip _ _ hsk (hm _ _ _ _ hmatch).2, lit_le _ _ _⟩
      · simp at h
    | byte b skip =>
      simp only [peg] at h
      split at h
      · rename_i hmatch
        split at h
        · simp at h
        · rename_i q hsk
          simp at h; obtain ⟨h1, h2⟩ := h; subst h1 h2
          have hlt : p < inp.length := by
            simp only [Bool.and_eq_true, beq_iff_eq] at hmatch
            rcases Nat.lt_or_ge p inp.length with hlt | hge
            · exact hlt
            · have : inp[p]? = none := by simp; omega
              simp_all
          exact ⟨pegSkipTo_bnd ih skip _ _ hsk (by omega), by simp [spansLe]⟩
      · simp at h
    | ref k =>
      simp only [peg] at h
      split at h
      · simp at h
      · exact ih _ p v p' h hp
    | seq xs => simp only [peg] at h; exact pegSeq_bnd ih xs p [] v p' h hp (by simp [spansLeList])
    | cls name xs keep =>
      simp only [peg] at h
      exact pegCls_bnd ih name p hp xs keep p [] v p' h hp (by simp [spansLeFields])
    | discard a b left =>
      simp only [peg] at h
      split at h
      · simp at h
      · simp at h
      · rename_i va pa ha
        have h1 := ih a p va pa ha hp
        split at h
        · simp at h
        · simp at h
        · rename_i vb pb hb
          have h2 := ih b pa vb pb hb h1.1
          simp at h; obtain ⟨hv, hpp⟩ := h; subst hv hpp
          refine ⟨h2.1, ?_⟩
          cases left
          · exact h1.2
          · exact h2.2
    | choice xs => simp only [peg] at h; exact pegChoice_bnd ih xs p v p' h hp
    | opt x =>
      simp only [peg] at h
      split at h
      · simp at h
      · simp at h; obtain ⟨h1, h2⟩ := h; subst h1 h2; exact ⟨hp, by simp [spansLe]⟩
      · rename_i r0 hnf hx
        cases r0 with
        | fail => exact absurd rfl hnf
        | ok v1 p1 => simp at h; obtain ⟨h1, h2⟩ := h; subst h1 h2; exact ih x p _ _ hx hp
    | list x min extra =>
      simp only [peg, pegList] at h
      split at h
      · simp at h; obtain ⟨h1, h2⟩ := h; subst h1 h2; exact ⟨hp, by simp [spansLe, spansLeList]⟩
      · split at h
        · simp at h
        · rename_i acc q hloop
          have hc := pegListLoop_bnd ih x _ _ _ _ _ _ hloop hp (by simp [spansLeList])
          split at h
          · simp at h; obtain ⟨h1, h2⟩ := h; subst h1 h2
            exact ⟨hc.1, by simpa [spansLe] using spansLeList_reverse _ acc [] hc.2 (by simp [spansLeList])⟩
          · simp at h
    | sep x s o =>
      simp only [peg, pegSep] at h
      split at h
      · simp at h
      · rename_i st stop saw hloop
        have hc := pegSepLoop_bnd ih x s o _ _ _ _ _ _ _ _ hloop hp hp (by simp [spansLeList])
        split at h
        · simp at h; obtain ⟨h1, h2⟩ := h; subst h1 h2
          exact ⟨hc.1, by simpa [spansLe] using spansLeList_reverse _ st [] hc.2 (by simp [spansLeList])⟩
        · simp at h
    | expect x =>
      simp only [peg] at h
      split at h
      · simp at h
      · simp at h
      · rename_i v1 p1 hx
        simp at h; obtain ⟨h1, h2⟩ := h; subst h1 h2
        exact ⟨hp, (ih x p _ _ hx hp).2⟩
    | expectNot x =>
      simp only [peg] at h
      split at h
      · simp at h
      · simp at h; obtain ⟨h1, h2⟩ := h; subst h1 h2; exact ⟨hp, by simp [spansLe]⟩
      · simp at h
    | skip xs =>
      simp only [peg] at h
      have := pegSkipLoop_bnd ih xs _ _ _ _ h hp
      exact ⟨this.1, by rw [this.2]; simp [spansLe]⟩
    | longest xs =>
      simp only [peg] at h
      split at h
      · simp at h
      · simp at h
      · rename_i v1 p1 hopts
        simp at h; obtain ⟨h1, h2⟩ := h; subst h1 h2
        exact pegLongestOpts_bnd ih p hp xs none _ hopts (by intro v q hq; simp at hq) _ _ rfl
    | backtrack k =>
      simp only [peg] at h
      split at h
      · simp at h; obtain ⟨h1, h2⟩ := h; subst h1 h2; exact ⟨by omega, by simp [spansLe]⟩
      · simp at h
    | fail => simp [peg] at h
    | py c =>
      simp only [peg] at h
      simp at h; obtain ⟨h1, h2⟩ := h; subst h1 h2
      exact ⟨hp, by cases c <;> simp [PyConst.toVal, spansLe]⟩
    | tagged x tag =>
      simp only [peg] at h
      split at h
      · simp at h
      · simp at h
      · rename_i v1 p1 hx
        simp at h; obtain ⟨h1, h2⟩ := h; subst h1 h2
        have := ih x p v1 p1 hx hp
        refine ⟨this.1, ?_⟩
        have hints : ∀ (t : List Int), spansLeList inp.length (t.map Val.int ++ [v1]) = true := by
          intro t
          induction t with
          | nil => simp [spansLeList, this.2]
          | cons i t ih2 => simp [spansLeList, spansLe, ih2]
        simpa [spansLe] using hints tag
    | optable pre operand mixfix post inf =>
      simp only [peg] at h
      exact pegOT_bnd ih _ _ _ _ _ _ h hp hp (by simp [opsLe]) (by simp [treesLe])

end Sourcer
