import Sourcer.Objects
namespace Sourcer.Obj

mutual
theorem peq_refl : ∀ a : PV, peq a a = true
  | .none => by simp [peq]
  | .bool _ => by simp [peq]
  | .int _ => by simp [peq]
  | .str _ => by simp [peq]
  | .list xs => by simp [peq, peqList_refl xs]
  | .tuple xs => by simp [peq, peqList_refl xs]
  | .dict xs => by simp [peq, peqPairs_refl xs]
  | .obj _ xs _ => by simp [peq, peqList_refl xs]
theorem peqList_refl : ∀ xs : List PV, peqList xs xs = true
  | [] => by simp [peqList]
  | x :: xs => by simp [peqList, peq_refl x, peqList_refl xs]
theorem peqPairs_refl : ∀ xs : List (PV × PV), peqPairs xs xs = true
  | [] => by simp [peqPairs]
  | x :: xs => by simp [peqPairs, peq_refl x.1, peq_refl x.2, peqPairs_refl xs]
end

mutual
theorem peq_symm : ∀ a b : PV, peq a b = true → peq b a = true
  | .none, b, h => by cases b <;> simp_all [peq]
  | .bool x, b, h => by cases b <;> simp_all [peq] <;> omega
  | .int x, b, h => by cases b <;> simp_all [peq] <;> omega
  | .str x, b, h => by cases b <;> simp_all [peq]
  | .list xs, b, h => by
    cases b <;> simp_all [peq]
    exact peqList_symm xs _ h
  | .tuple xs, b, h => by
    cases b <;> simp_all [peq]
    exact peqList_symm xs _ h
  | .dict xs, b, h => by
    cases b <;> simp_all [peq]
    exact peqPairs_symm xs _ h
  | .obj c xs _, b, h => by
    cases b <;> simp_all [peq]
    exact peqList_symm xs _ h.2
theorem peqList_symm : ∀ xs ys : List PV, peqList xs ys = true → peqList ys xs = true
  | [], ys, h => by cases ys <;> simp_all [peqList]
  | x :: xs, ys, h => by
    cases ys with
    | nil => simp [peqList] at h
    | cons y ys =>
      simp only [peqList, Bool.and_eq_true] at h ⊢
      exact ⟨peq_symm x y h.1, peqList_symm xs ys h.2⟩
theorem peqPairs_symm : ∀ xs ys : List (PV × PV), peqPairs xs ys = true → peqPairs ys xs = true
  | [], ys, h => by cases ys <;> simp_all [peqPairs]
  | x :: xs, ys, h => by
    cases ys with
    | nil => simp [peqPairs] at h
    | cons y ys =>
      simp only [peqPairs, Bool.and_eq_true] at h ⊢
      exact ⟨⟨peq_symm x.1 y.1 h.1.1, peq_symm x.2 y.2 h.1.2⟩, peqPairs_symm xs ys h.2⟩
end

mutual
theorem peq_trans : ∀ a b c : PV, peq a b = true → peq b c = true → peq a c = true
  | .none, b, c, h1, h2 => by cases b <;> cases c <;> simp_all [peq]
  | .bool x, b, c, h1, h2 => by cases b <;> cases c <;> simp_all [peq] <;> omega
  | .int x, b, c, h1, h2 => by cases b <;> cases c <;> simp_all [peq] <;> omega
  | .str x, b, c, h1, h2 => by cases b <;> cases c <;> simp_all [peq]
  | .list xs, b, c, h1, h2 => by
    cases b <;> cases c <;> simp_all [peq]
    exact peqList_trans xs _ _ h1 h2
  | .tuple xs, b, c, h1, h2 => by
    cases b <;> cases c <;> simp_all [peq]
    exact peqList_trans xs _ _ h1 h2
  | .dict xs, b, c, h1, h2 => by
    cases b <;> cases c <;> simp_all [peq]
    exact peqPairs_trans xs _ _ h1 h2
  | .obj k xs _, b, c, h1, h2 => by
    cases b with
    | obj k2 ys _ =>
      cases c with
      | obj k3 zs _ =>
        simp only [peq, Bool.and_eq_true, beq_iff_eq] at h1 h2 ⊢
        exact ⟨h1.1.trans h2.1, peqList_trans xs ys zs h1.2 h2.2⟩
      | _ => simp [peq] at h2
    | _ => simp [peq] at h1
termination_by structural a => a
theorem peqList_trans : ∀ xs ys zs : List PV, peqList xs ys = true → peqList ys zs = true →
    peqList xs zs = true
  | [], ys, zs, h1, h2 => by cases ys <;> cases zs <;> simp_all [peqList]
  | x :: xs, ys, zs, h1, h2 => by
    cases ys with
    | nil => simp [peqList] at h1
    | cons y ys =>
      cases zs with
      | nil => simp [peqList] at h2
      | cons z zs =>
        simp only [peqList, Bool.and_eq_true] at h1 h2 ⊢
        exact ⟨peq_trans x y z h1.1 h2.1, peqList_trans xs ys zs h1.2 h2.2⟩
termination_by structural xs => xs
theorem peqPairs_trans : ∀ xs ys zs : List (PV × PV), peqPairs xs ys = true → peqPairs ys zs = true →
    peqPairs xs zs = true
  | [], ys, zs, h1, h2 => by cases ys <;> cases zs <;> simp_all [peqPairs]
  | x :: xs, ys, zs, h1, h2 => by
    cases ys with
    | nil => simp [peqPairs] at h1
    | cons y ys =>
      cases zs with
      | nil => simp [peqPairs] at h2
      | cons z zs =>
        simp only [peqPairs, Bool.and_eq_true] at h1 h2 ⊢
        exact ⟨⟨peq_trans x.1 y.1 z.1 h1.1.1 h2.1.1, peq_trans x.2 y.2 z.2 h1.1.2 h2.1.2⟩,
          peqPairs_trans xs ys zs h1.2 h2.2⟩
termination_by structural xs => xs
end

mutual
/-- equal values take the same path through `_hash` -/
theorem hashable_congr : ∀ a b : PV, peq a b = true → hashable a = hashable b
  | .none, b, h => by cases b <;> simp_all [peq, hashable]
  | .bool _, b, h => by cases b <;> simp_all [peq, hashable]
  | .int _, b, h => by cases b <;> simp_all [peq, hashable]
  | .str _, b, h => by cases b <;> simp_all [peq, hashable]
  | .list _, b, h => by cases b <;> simp_all [peq, hashable]
  | .tuple xs, b, h => by
    cases b <;> simp_all [peq, hashable]
    exact hashableList_congr xs _ h
  | .dict _, b, h => by cases b <;> simp_all [peq, hashable]
  | .obj _ _ _, b, h => by cases b <;> simp_all [peq, hashable]
theorem hashableList_congr : ∀ xs ys : List PV, peqList xs ys = true → hashableList xs = hashableList ys
  | [], ys, h => by cases ys <;> simp_all [peqList, hashableList]
  | x :: xs, ys, h => by
    cases ys with
    | nil => simp [peqList] at h
    | cons y ys =>
      simp only [peqList, Bool.and_eq_true] at h
      simp only [hashableList, hashable_congr x y h.1, hashableList_congr xs ys h.2]
end

mutual
/-- **C14.**  Equal values have equal hashes, also through lists, tuples and dicts. -/
theorem H_congr (hf : HashFns) : ∀ a b : PV, peq a b = true → H hf a = H hf b
  | .none, b, h => by cases b <;> simp_all [peq, H]
  | .bool x, b, h => by
    cases b <;> simp_all [peq, H]
  | .int x, b, h => by
    cases b <;> simp_all [peq, H]
  | .str x, b, h => by cases b <;> simp_all [peq, H]
  | .list xs, b, h => by
    cases b <;> simp_all [peq, H]
    rw [HList_congr hf xs _ h]
  | .tuple xs, b, h => by
    cases b <;> simp_all [peq, H]
    rw [HList_congr hf xs _ h, hashableList_congr xs _ h]
  | .dict xs, b, h => by
    cases b <;> simp_all [peq, H]
    rw [HPairs_congr hf xs _ h]
  | .obj c xs _, b, h => by
    cases b <;> simp_all [peq, H]
    rw [HList_congr hf xs _ h.2]
theorem HList_congr (hf : HashFns) : ∀ xs ys : List PV, peqList xs ys = true → HList hf xs = HList hf ys
  | [], ys, h => by cases ys <;> simp_all [peqList, HList]
  | x :: xs, ys, h => by
    cases ys with
    | nil => simp [peqList] at h
    | cons y ys =>
      simp only [peqList, Bool.and_eq_true] at h
      simp only [HList, H_congr hf x y h.1, HList_congr hf xs ys h.2]
theorem HPairs_congr (hf : HashFns) : ∀ xs ys : List (PV × PV), peqPairs xs ys = true →
    HPairs hf xs = HPairs hf ys
  | [], ys, h => by cases ys <;> simp_all [peqPairs, HPairs]
  | x :: xs, ys, h => by
    cases ys with
    | nil => simp [peqPairs] at h
    | cons y ys =>
      simp only [peqPairs, Bool.and_eq_true] at h
      simp only [HPairs, H_congr hf x.1 y.1 h.1.1, H_congr hf x.2 y.2 h.1.2,
        hashable_congr x.1 y.1 h.1.1, hashable_congr x.2 y.2 h.1.2, HPairs_congr hf xs ys h.2]
end

theorem replaceFields_length : ∀ (fs : List PV) (i : Nat) (kw : Nat → Option PV),
    (replaceFields fs i kw).length = fs.length
  | [], _, _ => rfl
  | _ :: fs, i, kw => by simp [replaceFields, replaceFields_length fs (i + 1) kw]

theorem replaceFields_get : ∀ (fs : List PV) (i : Nat) (kw : Nat → Option PV) (j : Nat), j < fs.length →
    (replaceFields fs i kw)[j]? = (kw (i + j)).orElse (fun _ => fs[j]?)
  | [], _, _, j, h => by simp at h
  | f :: fs, i, kw, 0, _ => by
    simp only [replaceFields, List.getElem?_cons_zero, Nat.add_zero]
    cases kw i <;> rfl
  | f :: fs, i, kw, j + 1, h => by
    simp only [replaceFields, List.getElem?_cons_succ]
    rw [replaceFields_get fs (i + 1) kw j (by simpa using h)]
    have : i + 1 + j = i + (j + 1) := by omega
    rw [this]

end Sourcer.Obj
