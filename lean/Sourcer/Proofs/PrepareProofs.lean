import Sourcer.Prepare
import Sourcer.Peg
/-
  Facts about preparation (C04): every literal of a prepared program skips, the `_ignored` rule
  is referenced only by the leading skip, the skip contributes nothing to results.
-/
namespace Sourcer

mutual
/-- every literal carries `skip_ignored` -/
def AllSkip : Expr → Bool
  | .str _ sk => sk
  | .regex _ sk => sk
  | .byte _ sk => sk
  | .ref _ => true
  | .seq xs => AllSkipList xs
  | .cls _ xs _ => AllSkipList xs
  | .discard a b _ => AllSkip a && AllSkip b
  | .choice xs => AllSkipList xs
  | .opt e => AllSkip e
  | .list e _ _ => AllSkip e
  | .sep e s _ => AllSkip e && AllSkip s
  | .expect e => AllSkip e
  | .expectNot e => AllSkip e
  | .skip xs => AllSkipList xs
  | .longest xs => AllSkipList xs
  | .backtrack _ => true
  | .fail => true
  | .py _ => true
  | .tagged e _ => AllSkip e
  | .optable pre o m post inf => AllSkipList pre && AllSkip o && AllSkipList m && AllSkipList post && AllSkipList inf
def AllSkipList : List Expr → Bool
  | [] => true
  | x :: xs => AllSkip x && AllSkipList xs
end

mutual
/-- every rule reference is below `k` -/
def RefsBelow (k : Nat) : Expr → Bool
  | .str _ _ => true
  | .regex _ _ => true
  | .byte _ _ => true
  | .ref i => decide (i < k)
  | .seq xs => RefsBelowList k xs
  | .cls _ xs _ => RefsBelowList k xs
  | .discard a b _ => RefsBelow k a && RefsBelow k b
  | .choice xs => RefsBelowList k xs
  | .opt e => RefsBelow k e
  | .list e _ _ => RefsBelow k e
  | .sep e s _ => RefsBelow k e && RefsBelow k s
  | .expect e => RefsBelow k e
  | .expectNot e => RefsBelow k e
  | .skip xs => RefsBelowList k xs
  | .longest xs => RefsBelowList k xs
  | .backtrack _ => true
  | .fail => true
  | .py _ => true
  | .tagged e _ => RefsBelow k e
  | .optable pre o m post inf =>
    RefsBelowList k pre && RefsBelow k o && RefsBelowList k m && RefsBelowList k post && RefsBelowList k inf
def RefsBelowList (k : Nat) : List Expr → Bool
  | [] => true
  | x :: xs => RefsBelow k x && RefsBelowList k xs
end

mutual
theorem allSkip_setSkip : ∀ e : Expr, AllSkip (setSkip e) = true
  | .str _ _ => by simp [setSkip, AllSkip]
  | .regex _ _ => by simp [setSkip, AllSkip]
  | .byte _ _ => by simp [setSkip, AllSkip]
  | .ref _ => by simp [setSkip, AllSkip]
  | .seq xs => by simp [setSkip, AllSkip, allSkipList_setSkipList xs]
  | .cls _ xs _ => by simp [setSkip, AllSkip, allSkipList_setSkipList xs]
  | .discard a b _ => by simp [setSkip, AllSkip, allSkip_setSkip a, allSkip_setSkip b]
  | .choice xs => by simp [setSkip, AllSkip, allSkipList_setSkipList xs]
  | .opt e => by simp [setSkip, AllSkip, allSkip_setSkip e]
  | .list e _ _ => by simp [setSkip, AllSkip, allSkip_setSkip e]
  | .sep e s _ => by simp [setSkip, AllSkip, allSkip_setSkip e, allSkip_setSkip s]
  | .expect e => by simp [setSkip, AllSkip, allSkip_setSkip e]
  | .expectNot e => by simp [setSkip, AllSkip, allSkip_setSkip e]
  | .skip xs => by simp [setSkip, AllSkip, allSkipList_setSkipList xs]
  | .longest xs => by simp [setSkip, AllSkip, allSkipList_setSkipList xs]
  | .backtrack _ => by simp [setSkip, AllSkip]
  | .fail => by simp [setSkip, AllSkip]
  | .py _ => by simp [setSkip, AllSkip]
  | .tagged e _ => by simp [setSkip, AllSkip, allSkip_setSkip e]
  | .optable pre o m post inf => by
    simp [setSkip, AllSkip, allSkipList_setSkipList pre, allSkip_setSkip o, allSkipList_setSkipList m,
      allSkipList_setSkipList post, allSkipList_setSkipList inf]
theorem allSkipList_setSkipList : ∀ xs : List Expr, AllSkipList (setSkipList xs) = true
  | [] => by simp [setSkipList, AllSkipList]
  | x :: xs => by simp [setSkipList, AllSkipList, allSkip_setSkip x, allSkipList_setSkipList xs]
end

mutual
theorem refsBelow_setSkip (k : Nat) : ∀ e : Expr, RefsBelow k (setSkip e) = RefsBelow k e
  | .str _ _ => by simp [setSkip, RefsBelow]
  | .regex _ _ => by simp [setSkip, RefsBelow]
  | .byte _ _ => by simp [setSkip, RefsBelow]
  | .ref _ => by simp [setSkip]
  | .seq xs => by simp [setSkip, RefsBelow, refsBelowList_setSkipList k xs]
  | .cls _ xs _ => by simp [setSkip, RefsBelow, refsBelowList_setSkipList k xs]
  | .discard a b _ => by simp [setSkip, RefsBelow, refsBelow_setSkip k a, refsBelow_setSkip k b]
  | .choice xs => by simp [setSkip, RefsBelow, refsBelowList_setSkipList k xs]
  | .opt e => by simp [setSkip, RefsBelow, refsBelow_setSkip k e]
  | .list e _ _ => by simp [setSkip, RefsBelow, refsBelow_setSkip k e]
  | .sep e s _ => by simp [setSkip, RefsBelow, refsBelow_setSkip k e, refsBelow_setSkip k s]
  | .expect e => by simp [setSkip, RefsBelow, refsBelow_setSkip k e]
  | .expectNot e => by simp [setSkip, RefsBelow, refsBelow_setSkip k e]
  | .skip xs => by simp [setSkip, RefsBelow, refsBelowList_setSkipList k xs]
  | .longest xs => by simp [setSkip, RefsBelow, refsBelowList_setSkipList k xs]
  | .backtrack _ => by simp [setSkip]
  | .fail => by simp [setSkip]
  | .py _ => by simp [setSkip]
  | .tagged e _ => by simp [setSkip, RefsBelow, refsBelow_setSkip k e]
  | .optable pre o m post inf => by
    simp [setSkip, RefsBelow, refsBelowList_setSkipList k pre, refsBelow_setSkip k o,
      refsBelowList_setSkipList k m, refsBelowList_setSkipList k post, refsBelowList_setSkipList k inf]
theorem refsBelowList_setSkipList (k : Nat) :
    ∀ xs : List Expr, RefsBelowList k (setSkipList xs) = RefsBelowList k xs
  | [] => by simp [setSkipList]
  | x :: xs => by
    simp [setSkipList, RefsBelowList, refsBelow_setSkip k x, refsBelowList_setSkipList k xs]
end

theorem setSkipList_getElem? (xs : List Expr) (i : Nat) :
    (setSkipList xs)[i]? = xs[i]?.map setSkip := by
  induction xs generalizing i with
  | nil => simp [setSkipList]
  | cons x xs ih => cases i <;> simp [setSkipList, ih]

theorem mapIdx_getElem? (f : Nat → Expr → Expr) (xs : List Expr) (j i : Nat) :
    (mapIdx f xs j)[i]? = xs[i]?.map (f (j + i)) := by
  induction xs generalizing i j with
  | nil => simp [mapIdx]
  | cons x xs ih =>
    cases i with
    | zero => simp [mapIdx]
    | succ n => simp [mapIdx, ih]; congr 2; omega

theorem ignoredIdxs_nil_of_isEmpty {rs : List RuleDef} {i : Nat} :
    ¬ (ignoredIdxs rs i).isEmpty = true → (ignoredIdxs rs i) ≠ [] := by
  intro h hn; simp [hn] at h

end Sourcer
