import Sourcer.Peg
/-
  The PEG specification `peg` does not depend on how the rules of a program are numbered, ordered
  or duplicated: if every rule `k` of `P₁` is found, re-referenced, at index `g k` of `P₂`
  (`RuleSim`), then the re-referenced expression means in `P₂` what the expression means in `P₁`
  (`peg_reref`, an equation between `Option Res` values: definedness is preserved, too).  `g` need
  not be injective (two rules of `P₁` may share one rule of `P₂`) nor surjective.

  All constructs are covered, operator tables included.  Structure as in `Rename.lean` /
  `FuelMono.lean`: one lemma per helper function of `Peg.lean`, stated for two runners related
  pointwise, then induction on the fuel.
-/
namespace Sourcer

mutual
/-- every rule reference `k` becomes `g k` -/
def rerefExpr (g : Nat → Nat) : Expr → Expr
  | .str s skip => .str s skip
  | .regex rx skip => .regex rx skip
  | .byte b skip => .byte b skip
  | .ref k => .ref (g k)
  | .seq xs => .seq (rerefExprs g xs)
  | .cls name xs keep => .cls name (rerefExprs g xs) keep
  | .discard a b left => .discard (rerefExpr g a) (rerefExpr g b) left
  | .choice xs => .choice (rerefExprs g xs)
  | .opt e => .opt (rerefExpr g e)
  | .list e min extra => .list (rerefExpr g e) min extra
  | .sep e s o => .sep (rerefExpr g e) (rerefExpr g s) o
  | .expect e => .expect (rerefExpr g e)
  | .expectNot e => .expectNot (rerefExpr g e)
  | .skip xs => .skip (rerefExprs g xs)
  | .longest xs => .longest (rerefExprs g xs)
  | .backtrack n => .backtrack n
  | .fail => .fail
  | .py k => .py k
  | .tagged e tag => .tagged (rerefExpr g e) tag
  | .optable pre operand mixfix post inf =>
    .optable (rerefExprs g pre) (rerefExpr g operand) (rerefExprs g mixfix)
      (rerefExprs g post) (rerefExprs g inf)
def rerefExprs (g : Nat → Nat) : List Expr → List Expr
  | [] => []
  | x :: xs => rerefExpr g x :: rerefExprs g xs
end

/-- `P₂` holds the rules of `P₁`, re-referenced, at the places `g` says; the synthetic `_ignored`
    rule corresponds, the matcher and the text mode are the same -/
structure RuleSim (g : Nat → Nat) (P₁ P₂ : Program) : Prop where
  rules : ∀ k, P₂.rules[g k]? = (P₁.rules[k]?).map (rerefExpr g)
  ignored : P₂.ignored = P₁.ignored.map g
  matcher : P₂.matcher = P₁.matcher
  bytesMode : P₂.bytesMode = P₁.bytesMode

/-! ### the helper functions of `peg` -/

/-- `run'` on a re-referenced expression is `run` on the expression -/
def RunSim (g : Nat → Nat) (run run' : PRun) : Prop :=
  ∀ e p, run' (rerefExpr g e) p = run e p

section helpers
variable {g : Nat → Nat} {run run' : PRun}

theorem pegSeq_reref (h : RunSim g run run') : ∀ (xs : List Expr) (p : Nat) (acc : List Val),
    pegSeq run' (rerefExprs g xs) p acc = pegSeq run xs p acc := by
  intro xs
  induction xs with
  | nil => intro p acc; simp only [rerefExprs, pegSeq]
  | cons e es ih =>
    intro p acc
    simp only [rerefExprs, pegSeq]
    rw [h e p]
    cases run e p with
    | none => rfl
    | some r =>
      cases r with
      | fail => rfl
      | ok v p' => exact ih p' (v :: acc)

theorem pegCls_reref (h : RunSim g run run') (name : String) (start : Nat) :
    ∀ (xs : List Expr) (ks : List (Option String)) (p : Nat) (acc : List (String × Val)),
      pegCls run' name start (rerefExprs g xs) ks p acc = pegCls run name start xs ks p acc := by
  intro xs
  induction xs with
  | nil => intro ks p acc; simp only [rerefExprs, pegCls]
  | cons e es ih =>
    intro ks p acc
    simp only [rerefExprs, pegCls]
    rw [h e p]
    cases run e p with
    | none => rfl
    | some r =>
      cases r with
      | fail => rfl
      | ok v p' => exact ih _ p' _

theorem pegChoice_reref (h : RunSim g run run') : ∀ (xs : List Expr) (p : Nat),
    pegChoice run' (rerefExprs g xs) p = pegChoice run xs p := by
  intro xs
  induction xs with
  | nil => intro p; simp only [rerefExprs, pegChoice]
  | cons e es ih =>
    intro p
    simp only [rerefExprs, pegChoice]
    rw [h e p]
    cases run e p with
    | none => rfl
    | some r =>
      cases r with
      | fail => exact ih p
      | ok v p' => rfl

theorem pegListLoop_reref (h : RunSim g run run') (e : Expr) (max : Option Nat) :
    ∀ (fuel p : Nat) (acc : List Val),
      pegListLoop run' (rerefExpr g e) max fuel p acc = pegListLoop run e max fuel p acc := by
  intro fuel
  induction fuel with
  | zero => intro p acc; simp only [pegListLoop]
  | succ k ih =>
    intro p acc
    simp only [pegListLoop]
    rw [h e p]
    cases run e p with
    | none => rfl
    | some r =>
      cases r with
      | fail => rfl
      | ok v p' =>
        simp only
        rw [ih p' (v :: acc)]

theorem pegList_reref (h : RunSim g run run') (fuel : Nat) (e : Expr) (min : Nat) (max : Option Nat)
    (p : Nat) :
    pegList run' fuel (rerefExpr g e) min max p = pegList run fuel e min max p := by
  unfold pegList
  rw [pegListLoop_reref h]

theorem pegSepLoop_reref (h : RunSim g run run') (e s : Expr) (o : SepOpts) :
    ∀ (fuel p : Nat) (st : List Val) (stop : Nat) (saw : Bool),
      pegSepLoop run' (rerefExpr g e) (rerefExpr g s) o fuel p st stop saw
        = pegSepLoop run e s o fuel p st stop saw := by
  intro fuel
  induction fuel with
  | zero => intro p st stop saw; simp only [pegSepLoop]
  | succ k ih =>
    intro p st stop saw
    simp only [pegSepLoop]
    rw [h e p]
    cases run e p with
    | none => rfl
    | some r =>
      cases r with
      | fail => rfl
      | ok v p1 =>
        simp only
        rw [h s p1]
        cases run s p1 with
        | none => rfl
        | some r2 =>
          cases r2 with
          | fail => rfl
          | ok w p2 => exact ih _ _ _ _

theorem pegSep_reref (h : RunSim g run run') (fuel : Nat) (e s : Expr) (o : SepOpts) (p : Nat) :
    pegSep run' fuel (rerefExpr g e) (rerefExpr g s) o p = pegSep run fuel e s o p := by
  unfold pegSep
  rw [pegSepLoop_reref h]

theorem pegSkipAlts_reref (h : RunSim g run run') (p : Nat) : ∀ (xs : List Expr),
    pegSkipAlts run' p (rerefExprs g xs) = pegSkipAlts run p xs := by
  intro xs
  induction xs with
  | nil => simp only [rerefExprs, pegSkipAlts]
  | cons e es ih =>
    simp only [rerefExprs, pegSkipAlts]
    rw [h e p, ih]

theorem pegSkipLoop_reref (h : RunSim g run run') (xs : List Expr) :
    ∀ (fuel p : Nat),
      pegSkipLoop run' (rerefExprs g xs) fuel p = pegSkipLoop run xs fuel p := by
  intro fuel
  induction fuel with
  | zero => intro p; simp only [pegSkipLoop]
  | succ k ih =>
    intro p
    simp only [pegSkipLoop]
    rw [pegSkipAlts_reref h p xs]
    cases pegSkipAlts run p xs with
    | none => rfl
    | some out =>
      cases out with
      | none => rfl
      | some p' => exact ih p'

theorem pegLongestOpts_reref (h : RunSim g run run') (p : Nat) :
    ∀ (xs : List Expr) (best : Option (Val × Nat)),
      pegLongestOpts run' p (rerefExprs g xs) best = pegLongestOpts run p xs best := by
  intro xs
  induction xs with
  | nil => intro best; simp only [rerefExprs, pegLongestOpts]
  | cons e es ih =>
    intro best
    simp only [rerefExprs, pegLongestOpts]
    rw [h e p]
    cases run e p with
    | none => rfl
    | some r =>
      cases r with
      | fail => exact ih best
      | ok v p' =>
        simp only
        cases best with
        | none => exact ih _
        | some b =>
          obtain ⟨bv, bp⟩ := b
          simp only [ih]

theorem pegSkipTo_reref {P₁ P₂ : Program} (hP : RuleSim g P₁ P₂) (h : RunSim g run run')
    (skip : Bool) (e : Nat) :
    pegSkipTo P₂ run' skip e = pegSkipTo P₁ run skip e := by
  unfold pegSkipTo
  cases skip with
  | false => rfl
  | true =>
    simp only [if_true]
    rw [hP.ignored]
    cases P₁.ignored with
    | none => rfl
    | some k =>
      simp only [Option.map_some]
      have := h (.ref k) e
      simp only [rerefExpr] at this
      rw [this]

end helpers

/-! ### operator tables -/

def rerefTable (g : Nat → Nat) (T : PTableExprs) : PTableExprs :=
  { prefixes := T.prefixes.map (rerefExpr g)
    operands := rerefExpr g T.operands
    postfixes := T.postfixes.map (rerefExpr g)
    infixes := T.infixes.map (rerefExpr g) }

theorem combineRows_reref (g : Nat → Nat) (xs : List Expr) :
    combineRows (rerefExprs g xs) = (combineRows xs).map (rerefExpr g) := by
  match xs with
  | [] => simp [combineRows, rerefExprs]
  | [x] => simp [combineRows, rerefExprs]
  | x :: y :: zs => simp [combineRows, rerefExprs, rerefExpr]

theorem ptableExprs_reref (g : Nat → Nat) (pre : List Expr) (operand : Expr)
    (mixfix post inf : List Expr) :
    ptableExprs (rerefExprs g pre) (rerefExpr g operand) (rerefExprs g mixfix)
        (rerefExprs g post) (rerefExprs g inf)
      = rerefTable g (ptableExprs pre operand mixfix post inf) := by
  have h := combineRows_reref g (operand :: mixfix)
  simp only [rerefExprs] at h
  simp only [ptableExprs, rerefTable, combineRows_reref, h]
  cases combineRows (operand :: mixfix) <;> simp

theorem pegOT_reref {g : Nat → Nat} {run run' : PRun} (h : RunSim g run run') (T : PTableExprs) :
    ∀ (fuel : Nat) (ph : Phase) (st : OTState),
      pegOT run' (rerefTable g T) fuel ph st = pegOT run T fuel ph st := by
  intro fuel
  induction fuel with
  | zero => intro ph st; simp only [pegOT]
  | succ k ih =>
    intro ph st
    cases ph with
    | pre =>
      simp only [pegOT]
      have hT : (rerefTable g T).prefixes = T.prefixes.map (rerefExpr g) := rfl
      rw [hT]
      cases T.prefixes with
      | none => exact ih .operand st
      | some pe =>
        simp only [Option.map_some]
        rw [h pe st.pos]
        simp only [ih]
    | operand =>
      simp only [pegOT]
      have hT : (rerefTable g T).operands = rerefExpr g T.operands := rfl
      rw [hT, h T.operands st.pos]
      simp only [ih]
    | post =>
      simp only [pegOT]
      have hT : (rerefTable g T).postfixes = T.postfixes.map (rerefExpr g) := rfl
      rw [hT]
      cases T.postfixes with
      | none => exact ih .inf _
      | some pe =>
        simp only [Option.map_some]
        rw [h pe st.pos]
        simp only [ih]
    | inf =>
      simp only [pegOT]
      have hT : (rerefTable g T).infixes = T.infixes.map (rerefExpr g) := rfl
      rw [hT]
      cases T.infixes with
      | none => rfl
      | some ie =>
        simp only [Option.map_some]
        rw [h ie st.pos]
        simp only [ih]

/-! ### the main theorem -/

theorem RuleSim.lit {g : Nat → Nat} {P₁ P₂ : Program} (h : RuleSim g P₁ P₂) (s : List Nat) :
    P₂.lit s = P₁.lit s := by
  unfold Program.lit
  rw [h.bytesMode]

/-- **The meaning of an expression does not depend on the numbering of the rules.** -/
theorem peg_reref (g : Nat → Nat) (P₁ P₂ : Program) (h : RuleSim g P₁ P₂) (inp : List Nat) :
    ∀ (fuel : Nat) (e : Expr) (p : Nat),
      peg P₂ inp fuel (rerefExpr g e) p = peg P₁ inp fuel e p := by
  intro fuel
  induction fuel with
  | zero => intro e p; simp only [peg]
  | succ k ih =>
    intro e p
    have hrun : RunSim g (peg P₁ inp k) (peg P₂ inp k) := ih
    cases e with
    | str s skip =>
      simp only [rerefExpr, peg, h.lit, pegSkipTo_reref h hrun]
    | regex rx skip =>
      simp only [rerefExpr, peg, h.lit, h.matcher, pegSkipTo_reref h hrun]
    | byte b skip =>
      simp only [rerefExpr, peg, h.bytesMode, pegSkipTo_reref h hrun]
    | ref i =>
      simp only [rerefExpr, peg]
      rw [h.rules i]
      cases P₁.rules[i]? with
      | none => rfl
      | some body =>
        simp only [Option.map_some]
        exact hrun body p
    | seq xs =>
      simp only [rerefExpr, peg]
      exact pegSeq_reref hrun xs p []
    | cls name xs keep =>
      simp only [rerefExpr, peg]
      exact pegCls_reref hrun name p xs keep p []
    | discard a b left =>
      simp only [rerefExpr, peg]
      rw [hrun a p]
      cases peg P₁ inp k a p with
      | none => rfl
      | some r1 =>
        cases r1 with
        | fail => rfl
        | ok va pa =>
          simp only
          rw [hrun b pa]
    | choice xs =>
      simp only [rerefExpr, peg]
      exact pegChoice_reref hrun xs p
    | opt x =>
      simp only [rerefExpr, peg]
      rw [hrun x p]
    | list x min extra =>
      simp only [rerefExpr, peg]
      exact pegList_reref hrun k x min _ p
    | sep x s o =>
      simp only [rerefExpr, peg]
      exact pegSep_reref hrun k x s o p
    | expect x =>
      simp only [rerefExpr, peg]
      rw [hrun x p]
    | expectNot x =>
      simp only [rerefExpr, peg]
      rw [hrun x p]
    | skip xs =>
      simp only [rerefExpr, peg]
      exact pegSkipLoop_reref hrun xs k p
    | longest xs =>
      simp only [rerefExpr, peg]
      rw [pegLongestOpts_reref hrun p xs none]
    | backtrack n => simp only [rerefExpr, peg]
    | fail => simp only [rerefExpr, peg]
    | py k' => simp only [rerefExpr, peg]
    | tagged x tag =>
      simp only [rerefExpr, peg]
      rw [hrun x p]
    | optable pre operand mixfix post inf =>
      simp only [rerefExpr, peg]
      rw [ptableExprs_reref]
      exact pegOT_reref hrun _ k .pre ⟨[], [], 0, p, p⟩

end Sourcer
