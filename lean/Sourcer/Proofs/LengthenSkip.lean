import Sourcer.Proofs.Reindex
/-
  The lengthening clause of C04, assembled:

  * `skip_reindex`: for an ignore rule of the shape the generator builds, `Skip(/rx₁/, …, /rxₙ/)`
    over regular expressions whose matches on the two inputs end at corresponding positions
    (they may match more or fewer characters - that is the point), the rule behaves
    correspondingly on the two inputs for every fuel: this is the `skip` hypothesis of `Stable`.
  * `peg_lengthen`: doubling one character `w` of the input changes no parsed value - same
    definedness, same success or failure, end positions and spans moved past the doubled character -
    for programs whose string and byte literals do not contain `w`, whose token regular expressions
    neither match nor look at it (`RxStable`), and which do not look behind.
-/
namespace Sourcer

/-- only where a result ends matters to `Skip` -/
def Res.endPos : Res → Option Nat
  | .ok _ p => some p
  | .fail => none

/-- runners that agree on where the alternatives of the ignore rule end -/
def EndRel (φ : Nat → Nat) (xs : List Expr) (run run' : PRun) : Prop :=
  ∀ x, x ∈ xs → ∀ q, (run' x (φ q)).map Res.endPos = (run x q).map (fun r => r.endPos.map φ)

theorem pegSkipAlts_end {φ : Nat → Nat} (hm : Mono φ) {run run' : PRun} (p : Nat) :
    ∀ (xs : List Expr), EndRel φ xs run run' →
      pegSkipAlts run' (φ p) xs = (pegSkipAlts run p xs).map (Option.map φ) := by
  intro xs
  induction xs with
  | nil => intro _; simp [pegSkipAlts]
  | cons e es ih =>
    intro h
    have he := h e List.mem_cons_self p
    have hes : EndRel φ es run run' := fun x hx q => h x (List.mem_cons_of_mem _ hx) q
    simp only [pegSkipAlts]
    cases hr : run e p with
    | none =>
      rw [hr] at he
      cases hr' : run' e (φ p) with
      | none => rfl
      | some r' => rw [hr'] at he; simp at he
    | some r =>
      rw [hr] at he
      cases hr' : run' e (φ p) with
      | none => rw [hr'] at he; simp at he
      | some r' =>
        rw [hr'] at he
        simp only [Option.map_some, Option.some.injEq] at he
        cases r with
        | fail =>
          cases r' with
          | fail => exact ih hes
          | ok v' q' => simp [Res.endPos] at he
        | ok v q =>
          cases r' with
          | fail => simp [Res.endPos] at he
          | ok v' q' =>
            simp only [Res.endPos, Option.map_some, Option.some.injEq] at he
            subst he
            have hb : (φ q != φ p) = (q != p) := by
              rw [Bool.eq_iff_iff, bne_iff_ne, bne_iff_ne]
              constructor
              · intro h1 h2; exact h1 (by rw [h2])
              · intro h1 h2; exact h1 (hm.inj h2)
            simp only [hb]
            split
            · rfl
            · exact ih hes

theorem pegSkipLoop_end {φ : Nat → Nat} (hm : Mono φ) {run run' : PRun} (xs : List Expr) (h : EndRel φ xs run run') :
    ∀ (fuel p : Nat), pegSkipLoop run' xs fuel (φ p) = (pegSkipLoop run xs fuel p).map (mapRes φ) := by
  intro fuel
  induction fuel with
  | zero => intro p; simp [pegSkipLoop]
  | succ k ih =>
    intro p
    simp only [pegSkipLoop]
    rw [pegSkipAlts_end hm p xs h]
    cases pegSkipAlts run p xs with
    | none => rfl
    | some out =>
      cases out with
      | none => simp [mapRes, mapVal]
      | some p' =>
        simp only [Option.map_some]
        exact ih p'

/-- the ignore regular expressions: their matches end at corresponding positions -/
def EndsStable (P : Program) (inp inp' : List Nat) (φ : Nat → Nat) (rx : Nat) : Prop :=
  ∀ q, P.matcher rx inp' (φ q) = (P.matcher rx inp q).map φ

/-- every alternative of the ignore rule is such a regular expression (no trailing skip: the
    generator does not set `skip_ignored` inside the ignore rule) -/
def IgnoreAlts (P : Program) (inp inp' : List Nat) (φ : Nat → Nat) (xs : List Expr) : Prop :=
  ∀ x, x ∈ xs → ∃ rx, x = .regex rx false ∧ EndsStable P inp inp' φ rx

theorem ignoreAlts_endRel (P : Program) (inp inp' : List Nat) (φ : Nat → Nat) (xs : List Expr)
    (h : IgnoreAlts P inp inp' φ xs) (fuel : Nat) : EndRel φ xs (peg P inp fuel) (peg P inp' fuel) := by
  intro x hx q
  obtain ⟨rx, hx', hrx⟩ := h x hx
  subst hx'
  cases fuel with
  | zero => simp [peg]
  | succ n =>
    simp only [peg, pegSkipTo]
    rw [hrx q]
    cases P.matcher rx inp q with
    | none => simp [Res.endPos]
    | some e => simp [Res.endPos]

/-- **the `skip` hypothesis of `Stable`** for an ignore rule `Skip(/rx₁/, …)` -/
theorem skip_reindex (P : Program) (inp inp' : List Nat) (φ : Nat → Nat) (hm : Mono φ) (ign : Nat) (xs : List Expr)
    (hbody : P.rules[ign]? = some (.skip xs)) (halts : IgnoreAlts P inp inp' φ xs) :
    ∀ fuel q, peg P inp' fuel (.ref ign) (φ q) = (peg P inp fuel (.ref ign) q).map (mapRes φ) := by
  intro fuel q
  cases fuel with
  | zero => simp [peg]
  | succ n =>
    simp only [peg, hbody]
    cases n with
    | zero => simp [peg]
    | succ m =>
      simp only [peg]
      exact pegSkipLoop_end hm xs (ignoreAlts_endRel P inp inp' φ xs halts m) m q

/-! ### doubling one character -/

/-- a token regular expression that neither matches nor looks at the doubled character: matches
    and matched text correspond -/
def RxStable (P : Program) (inp inp' : List Nat) (φ : Nat → Nat) (rx : Nat) : Prop :=
  ∀ q, P.matcher rx inp' (φ q) = (P.matcher rx inp q).map φ ∧
    (∀ e, P.matcher rx inp q = some e → (inp'.drop (φ q)).take (φ e - φ q) = (inp.drop q).take (e - q))

/-- string literals that do not contain `w` -/
def litAvoids (w : Nat) (s : List Nat) : Bool := s.all (· != w)

theorem byte_dbl (pre : List Nat) (w : Nat) (post : List Nat) (b : Nat) (hb : b ≠ w) (q : Nat) :
    ((dbl pre w post)[ins pre.length q]? == some b) = ((one pre w post)[q]? == some b) ∧
    ((one pre w post)[q]? = some b → ins pre.length (q + 1) = ins pre.length q + 1) := by
  refine ⟨by rw [dbl_get], ?_⟩
  intro h
  by_cases h1 : q = pre.length
  · subst h1
    rw [one_at] at h
    exact absurd (Option.some.inj h).symm hb
  · by_cases h2 : q < pre.length
    · rw [ins_le (by omega), ins_le (by omega)]
    · rw [ins_gt (by omega), ins_gt (by omega)]

/-- **C04, lengthening.**  Doubling one character `w` (an ignorable one, in a run that is being
    skipped - or any other character the tokens do not touch) changes no parsed value: on the
    lengthened input every expression has, from the corresponding position, the corresponding
    outcome - defined together, success together, the same value with spans and end position moved
    past the doubled character.  Hypotheses: the ignore rule is `Skip` over regular expressions
    whose matches end at corresponding positions; string and byte literals do not contain `w`;
    token regular expressions neither match nor look at it; no lookbehind (`tokensOk`). -/
theorem peg_lengthen (P : Program) (pre : List Nat) (w : Nat) (post : List Nat)
    (okR : Nat → Bool) (ign : Nat) (xs : List Expr)
    (hign : P.ignored = none ∨ P.ignored = some ign)
    (hbody : P.rules[ign]? = some (.skip xs))
    (halts : IgnoreAlts P (one pre w post) (dbl pre w post) (ins pre.length) xs)
    (hrx : ∀ rx, okR rx = true → RxStable P (one pre w post) (dbl pre w post) (ins pre.length) rx)
    (hP : ∀ k body, k ≠ ign → P.rules[k]? = some body → tokensOk (litAvoids w) okR (· != w) body = true) :
    ∀ (fuel : Nat) (e : Expr) (q : Nat), tokensOk (litAvoids w) okR (· != w) e = true →
      peg P (dbl pre w post) fuel e (ins pre.length q) =
        (peg P (one pre w post) fuel e q).map (mapRes (ins pre.length)) := by
  have hm : Mono (ins pre.length) := insertAt_mono pre.length
  have hst : Stable P (one pre w post) (dbl pre w post) (ins pre.length) (litAvoids w) okR (· != w) ign := by
    refine ⟨hm, ?_, ?_, ?_, hign, skip_reindex P _ _ _ hm ign xs hbody halts⟩
    · intro s q hs
      refine matchAt_dbl pre w post s ?_ q
      intro c hc
      have := List.all_eq_true.mp hs c hc
      simpa using this
    · intro rx q hr
      exact hrx rx hr q
    · intro b q hb
      exact byte_dbl pre w post b (by simpa using hb) q
  exact peg_reindex P _ _ _ _ _ _ ign hst hP

end Sourcer

/-! ### the hypotheses are satisfiable: `ignore / +/` -/

namespace Sourcer

/-- a matcher for `/ +/`: the end of the run of blanks that starts at `p`, if there is one -/
def blanksEnd (inp : List Nat) (p : Nat) : Option Nat :=
  let run := ((inp.drop p).takeWhile (· == 32)).length
  if run = 0 then none else some (p + run)

/-- length of the run of blanks from `p` -/
def blankRun (inp : List Nat) (p : Nat) : Nat := ((inp.drop p).takeWhile (· == 32)).length

theorem blankRun_zero_of_not (inp : List Nat) (p : Nat) (h : inp[p]? ≠ some 32) : blankRun inp p = 0 := by
  unfold blankRun
  cases hd : inp.drop p with
  | nil => simp
  | cons c cs =>
    have hc : inp[p]? = some c := by
      have := congrArg (fun l => l[0]?) hd
      simpa [List.getElem?_drop] using this
    have : c ≠ 32 := fun e => h (by rw [hc, e])
    have hb : (c == 32) = false := by simp [this]
    simp [List.takeWhile, hb]

theorem blankRun_succ_of (inp : List Nat) (p : Nat) (h : inp[p]? = some 32) : blankRun inp p = blankRun inp (p + 1) + 1 := by
  unfold blankRun
  cases hd : inp.drop p with
  | nil =>
    have : inp[p]? = none := by
      have := congrArg (fun l => l[0]?) hd
      simpa [List.getElem?_drop] using this
    rw [this] at h
    exact absurd h (by simp)
  | cons c cs =>
    have hc : inp[p]? = some c := by
      have := congrArg (fun l => l[0]?) hd
      simpa [List.getElem?_drop] using this
    have hc32 : c = 32 := by rw [hc] at h; exact Option.some.inj h
    have hcs : inp.drop (p + 1) = cs := by
      have : inp.drop (p + 1) = (inp.drop p).drop 1 := by rw [List.drop_drop]
      rw [this, hd]; rfl
    rw [hcs]
    have hb : (c == 32) = true := by simp [hc32]
    simp [List.takeWhile, hb]

/-- the run of blanks from a position behind the doubled blank is the same run, one further on -/
theorem blankRun_dbl_gt (pre post : List Nat) : ∀ (n q : Nat), pre.length < q → blankRun (one pre 32 post) q = n →
    blankRun (dbl pre 32 post) (q + 1) = n := by
  intro n
  induction n with
  | zero =>
    intro q hq h
    by_cases hb : (one pre 32 post)[q]? = some 32
    · rw [blankRun_succ_of _ _ hb] at h; omega
    · apply blankRun_zero_of_not
      have := dbl_get pre 32 post q
      rw [ins_gt hq] at this
      rw [this]; exact hb
  | succ m ih =>
    intro q hq h
    by_cases hb : (one pre 32 post)[q]? = some 32
    · rw [blankRun_succ_of _ _ hb] at h
      have hb' : (dbl pre 32 post)[q + 1]? = some 32 := by
        have := dbl_get pre 32 post q
        rw [ins_gt hq] at this
        rw [this]; exact hb
      rw [blankRun_succ_of _ _ hb', ih (q + 1) (by omega) (by omega)]
    · rw [blankRun_zero_of_not _ _ hb] at h; omega

/-- from a position at or before the doubled blank: the run either stops before it (unchanged) or
    runs through it (one longer) -/
theorem blankRun_dbl_le (pre post : List Nat) : ∀ (d q : Nat), q + d = pre.length →
    (q + blankRun (one pre 32 post) q ≤ pre.length → blankRun (dbl pre 32 post) q = blankRun (one pre 32 post) q) ∧
    (pre.length < q + blankRun (one pre 32 post) q → blankRun (dbl pre 32 post) q = blankRun (one pre 32 post) q + 1) := by
  intro d
  induction d with
  | zero =>
    intro q hq
    have hq' : q = pre.length := by omega
    subst hq'
    have h1 : (one pre 32 post)[pre.length]? = some 32 := one_at pre 32 post
    have h2 : (dbl pre 32 post)[pre.length]? = some 32 := dbl_at pre 32 post
    rw [blankRun_succ_of _ _ h1]
    refine ⟨fun h => by omega, fun _ => ?_⟩
    rw [blankRun_succ_of _ _ h2]
    -- behind the doubled blank: dbl from pre.length + 1 reads the old blank and then the old text
    have h3 : (dbl pre 32 post)[pre.length + 1]? = some 32 := by
      unfold dbl
      rw [List.getElem?_append_right (by omega)]
      have : pre.length + 1 - pre.length = 1 := by omega
      rw [this]; rfl
    rw [blankRun_succ_of _ _ h3]
    have := blankRun_dbl_gt pre post (blankRun (one pre 32 post) (pre.length + 1)) (pre.length + 1) (by omega) rfl
    rw [this]
  | succ e ih =>
    intro q hq
    have hlt : q < pre.length := by omega
    have hget : (dbl pre 32 post)[q]? = (one pre 32 post)[q]? := by
      have := dbl_get pre 32 post q
      rw [ins_le (by omega)] at this
      exact this
    by_cases hb : (one pre 32 post)[q]? = some 32
    · have hb' : (dbl pre 32 post)[q]? = some 32 := by rw [hget]; exact hb
      rw [blankRun_succ_of _ _ hb, blankRun_succ_of _ _ hb']
      obtain ⟨i1, i2⟩ := ih (q + 1) (by omega)
      exact ⟨fun h => by rw [i1 (by omega)], fun h => by rw [i2 (by omega)]⟩
    · have hb' : (dbl pre 32 post)[q]? ≠ some 32 := by rw [hget]; exact hb
      rw [blankRun_zero_of_not _ _ hb, blankRun_zero_of_not _ _ hb']
      exact ⟨fun _ => rfl, fun h => by omega⟩

/-- `/ +/` ends at corresponding positions on an input and on the input with one blank doubled -/
theorem blanksEnd_dbl (pre post : List Nat) (q : Nat) :
    blanksEnd (dbl pre 32 post) (ins pre.length q) = (blanksEnd (one pre 32 post) q).map (ins pre.length) := by
  unfold blanksEnd
  show (if blankRun (dbl pre 32 post) (ins pre.length q) = 0 then none
        else some (ins pre.length q + blankRun (dbl pre 32 post) (ins pre.length q)))
      = (if blankRun (one pre 32 post) q = 0 then none else some (q + blankRun (one pre 32 post) q)).map (ins pre.length)
  by_cases hq : pre.length < q
  · rw [ins_gt hq, blankRun_dbl_gt pre post _ q hq rfl]
    by_cases h0 : blankRun (one pre 32 post) q = 0
    · simp [h0]
    · simp only [h0, if_false, Option.map_some]
      rw [ins_gt (by omega)]
      congr 1
      omega
  · have hle : q ≤ pre.length := by omega
    rw [ins_le hle]
    obtain ⟨i1, i2⟩ := blankRun_dbl_le pre post (pre.length - q) q (by omega)
    by_cases hthru : pre.length < q + blankRun (one pre 32 post) q
    · rw [i2 hthru]
      have h0 : blankRun (one pre 32 post) q ≠ 0 := by omega
      simp only [h0, if_false, Option.map_some, Nat.add_eq_zero_iff, and_false]
      rw [ins_gt hthru]
      congr 1
    · rw [i1 (by omega)]
      by_cases h0 : blankRun (one pre 32 post) q = 0
      · simp [h0]
      · simp only [h0, if_false, Option.map_some]
        rw [ins_le (by omega)]

end Sourcer
