import Sourcer.Transform
namespace Sourcer.Tr

theorem applyCbs_log_length : ∀ (cbs : List Cb) (i : Nat) (v : V), (applyCbs cbs i v).2.2.length = cbs.length
  | [], _, _ => rfl
  | f :: fs, i, v => by
    simp only [applyCbs]
    split <;> simp [applyCbs_log_length fs]

mutual
/-- every object occurrence is passed to every callback exactly once -/
theorem tr_log_length (cbs : List Cb) : ∀ v : V, (tr cbs v).2.2.length = cbs.length * objCount v
  | .leaf _ => by simp [tr, objCount]
  | .list xs => by simp [tr, objCount, trList_log_length cbs xs]
  | .obj c t fs pm => by
    simp only [tr, objCount, List.length_append, trList_log_length cbs fs, applyCbs_log_length]
    rw [Nat.mul_add]; omega
theorem trList_log_length (cbs : List Cb) : ∀ xs : List V, (trList cbs xs).2.2.length = cbs.length * objCountL xs
  | [] => by simp [trList, objCountL]
  | x :: xs => by
    simp only [trList, objCountL, List.length_append, tr_log_length cbs x, trList_log_length cbs xs]
    rw [Nat.mul_add]
end

/-- the applications of the first callback, by the tag of the object passed -/
def firstTags (log : Log) : List Nat :=
  log.filterMap fun e => if e.1 = 0 then e.2.tag? else none

theorem firstTags_append (a b : Log) : firstTags (a ++ b) = firstTags a ++ firstTags b := by
  simp [firstTags, List.filterMap_append]

theorem firstTags_cons_ne (i : Nat) (v : V) (rest : Log) (h : i ≠ 0) :
    firstTags ((i, v) :: rest) = firstTags rest := by
  simp [firstTags, List.filterMap_cons, h]

theorem firstTags_cons_zero (c t : Nat) (xs : List V) (pm : Option Nat) (rest : Log) :
    firstTags ((0, V.obj c t xs pm) :: rest) = t :: firstTags rest := by
  simp [firstTags, List.filterMap_cons, V.tag?]

theorem applyCbs_later (cbs : List Cb) : ∀ (i : Nat) (v : V), 0 < i → firstTags (applyCbs cbs i v).2.2 = [] := by
  induction cbs with
  | nil => intro i v _; rfl
  | cons f fs ih =>
    intro i v hi
    have hne : i ≠ 0 := by omega
    simp only [applyCbs]
    split
    · simp only; rw [firstTags_cons_ne _ _ _ hne]; exact ih (i + 1) _ (by omega)
    · simp only; rw [firstTags_cons_ne _ _ _ hne]; exact ih (i + 1) _ (by omega)

theorem applyCbs_first (f : Cb) (fs : List Cb) (c t : Nat) (xs : List V) (pm : Option Nat) :
    firstTags (applyCbs (f :: fs) 0 (.obj c t xs pm)).2.2 = [t] := by
  simp only [applyCbs]
  split
  · simp only; rw [firstTags_cons_zero, applyCbs_later fs 1 _ (by omega)]
  · simp only; rw [firstTags_cons_zero, applyCbs_later fs 1 _ (by omega)]

mutual
/-- children before parents, siblings left to right: the first callback sees the object
    occurrences in post-order -/
theorem tr_order (f : Cb) (fs : List Cb) : ∀ v : V, firstTags (tr (f :: fs) v).2.2 = postTags v
  | .leaf _ => by simp [tr, postTags, firstTags]
  | .list xs => by simp [tr, postTags, trList_order f fs xs]
  | .obj c t xs pm => by
    simp only [tr, postTags, firstTags_append, trList_order f fs xs, applyCbs_first]
theorem trList_order (f : Cb) (fs : List Cb) : ∀ xs : List V, firstTags (trList (f :: fs) xs).2.2 = postTagsL xs
  | [] => by simp [trList, postTagsL, firstTags]
  | x :: xs => by simp only [trList, postTagsL, firstTags_append, tr_order f fs x, trList_order f fs xs]
end

/-- callbacks that always return their argument itself -/
def AllId (cbs : List Cb) : Prop := ∀ f ∈ cbs, ∀ v, f v = none

theorem applyCbs_id : ∀ (cbs : List Cb) (i : Nat) (v : V), AllId cbs →
    (applyCbs cbs i v).1 = v ∧ (applyCbs cbs i v).2.1 = false
  | [], _, _, _ => ⟨rfl, rfl⟩
  | f :: fs, i, v, h => by
    have hf : f v = none := h f (by simp) v
    have := applyCbs_id fs (i + 1) v (fun g hg => h g (List.mem_cons_of_mem _ hg))
    simp only [applyCbs, hf]
    exact this

mutual
/-- **C16 (identity).**  With identity callbacks the result equals the input. -/
theorem tr_id (cbs : List Cb) (h : AllId cbs) : ∀ v : V, (tr cbs v).1 = v
  | .leaf _ => rfl
  | .list xs => by simp [tr, trList_id cbs h xs]
  | .obj c t fs pm => by simp only [tr, trList_id cbs h fs]; exact (applyCbs_id cbs 0 _ h).1
theorem trList_id (cbs : List Cb) (h : AllId cbs) : ∀ xs : List V, (trList cbs xs).1 = xs
  | [] => rfl
  | x :: xs => by simp [trList, tr_id cbs h x, trList_id cbs h xs]
end

end Sourcer.Tr
