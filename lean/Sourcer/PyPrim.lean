/-
  Python primitives used by the code that translator T2 (harness/py2lean.py) emits: integers are
  `Int`, strings are lists of code points, slices have Python's clamping and negative-index
  semantics.
-/
namespace Sourcer.Py

abbrev Str := List Nat

/-- a slice bound as Python normalises it against a sequence of length `len` -/
def sliceIdx (len : Nat) (i : Int) : Nat :=
  if i < 0 then (if i + len < 0 then 0 else (i + len).toNat) else min i.toNat len

/-- `xs[a:b]` -/
def slice (xs : Str) (a b : Int) : Str :=
  let lo := sliceIdx xs.length a
  let hi := sliceIdx xs.length b
  (xs.drop lo).take (hi - lo)

def len (xs : Str) : Int := xs.length

/-- `' ' * n` (a negative count gives the empty string) -/
def strMul (s : Str) (n : Int) : Str := (List.replicate n.toNat s).flatten

/-- index (offset by `base`) of the first newline in `xs` -/
def firstNl : Str → Nat → Option Nat
  | [], _ => none
  | c :: cs, base => if c = 10 then some base else firstNl cs (base + 1)

/-- `_compile_re('\n').search(text, k)`: `m.start()` of the first newline at index ≥ k, if any -/
def searchNl (text : Str) (k : Int) : Option Int :=
  let k' := sliceIdx text.length k
  (firstNl (text.drop k') k').map Int.ofNat

/-- `xs[i]` for a list of ints, `none` = IndexError (after Python's negative wrap) -/
def index (xs : List Int) (i : Int) : Option Int :=
  if i < 0 then (if i + xs.length < 0 then none else xs[(i + xs.length).toNat]?)
  else xs[i.toNat]?

def lit (s : String) : Str := s.toList.map Char.toNat

end Sourcer.Py
