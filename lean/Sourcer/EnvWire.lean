import Sourcer.Env
import Sourcer.Sexp
import Sourcer.Wire
/-
  Wire format and the fixed interpretation of inline Python for the names layer (driver only;
  the theorems hold for every interpretation).
-/
namespace Sourcer.X
open Sourcer Sexp

def atom? : Sexp → Option String
  | .atom s => some s
  | _ => none

def decodePy (fn : Sexp) (names : List Sexp) : Option PyTerm := do
  pure { fn := (← fn.nat?), names := (← names.mapM atom?) }

def optName : Sexp → Option (Option Name)
  | .atom "-" => some none
  | .atom s => some (some s)
  | _ => none

partial def decodeX : Sexp → Option XExpr
  | .list (.atom "lit" :: xs) => (nats? xs).map .lit
  | .list [.atom "cc", lo, hi] => do pure (.cc (← lo.nat?) (← hi.nat?))
  | .list (.atom "seq" :: xs) => (xs.mapM decodeX).map .seq
  | .list (.atom "choice" :: xs) => (xs.mapM decodeX).map .choice
  | .list [.atom "star", e] => (decodeX e).map .star
  | .list [.atom "opt", e] => (decodeX e).map .opt
  | .list [.atom "ref", r] => r.nat?.map .ref
  | .list [.atom "pvar", .atom x] => some (.pvar x)
  | .list (.atom "py" :: fn :: names) => (decodePy fn names).map .py
  | .list [.atom "let", .atom x, e, b] => do pure (.let_ x (← decodeX e) (← decodeX b))
  | .list [.atom "where", e, q] => do pure (.where_ (← decodeX e) (← decodeX q))
  | .list [.atom "apply", e, f] => do pure (.apply (← decodeX e) (← decodeX f))
  | .list [.atom "applyl", f, e] => do pure (.applyL (← decodeX f) (← decodeX e))
  | .list (.atom "rep" :: e :: fn :: names) => do pure (.rep (← decodeX e) (← decodePy fn names))
  | .list (.atom "call" :: t :: args) => do
    let args ← args.mapM fun a => match a with
      | .list [k, e] => do pure ((← optName k), (← decodeX e))
      | _ => none
    pure (.call (← t.nat?) args)
  | .list (.atom "bseq" :: .atom ctor :: .list fields :: items) => do
    let items ← items.mapM fun a => match a with
      | .list [k, e] => do pure ((← optName k), (← decodeX e))
      | _ => none
    pure (.bseq items ctor (← fields.mapM atom?))
  | _ => none

/-- Python `==` on the values of the model (bool is an int) -/
partial def pyEq : Val → Val → Bool
  | .none, .none => true
  | .bool a, .bool b => a == b
  | .bool a, .int b => (if a then 1 else 0) == b
  | .int a, .bool b => a == (if b then 1 else 0)
  | .int a, .int b => a == b
  | .str a, .str b => a == b
  | .bytes a, .bytes b => a == b
  | .list a, .list b => a.length == b.length && (a.zip b).all (fun (x, y) => pyEq x y)
  | .tuple a, .tuple b => a.length == b.length && (a.zip b).all (fun (x, y) => pyEq x y)
  | _, _ => false

def truthy : Val → Bool
  | .none => false
  | .bool b => b
  | .int i => i != 0
  | .str s => !s.isEmpty
  | .bytes s => !s.isEmpty
  | .list xs => !xs.isEmpty
  | .tuple xs => !xs.isEmpty
  | .err => true
  | .obj _ _ _ => true

def digits (s : List Nat) : Option Nat :=
  if s.isEmpty then none else
    s.foldlM (fun acc c => if 48 ≤ c ∧ c ≤ 57 then some (acc * 10 + (c - 48)) else none) 0

/-- The repertoire of inline Python that the harness emits; the harness holds the Python text of
    each symbol.  `fn ≥ 100` is the integer constant `fn - 100`,
    `fn ≥ 200` one of the string constants 'a', 'b', 'ab', 'c'. -/
def pyf (fn : Nat) (args : List Val) : Val :=
  -- `lambda _v: <symbol fn - 1000 applied to _v and the names>` as a value: symbol and captured values
  if fn ≥ 1000 then .tuple (.int (Int.ofNat (fn - 1000)) :: args) else
  if fn ≥ 200 then .str ((#[[97], [98], [97, 98], [99]] : Array (List Nat)).getD (fn - 200) []) else
  if fn ≥ 100 then .int (Int.ofNat (fn - 100)) else
  match fn, args with
  | 0, a :: _ => a                                        -- `a`
  | 1, xs => .tuple xs                                    -- `(a, b, …)`
  | 2, a :: b :: _ => .bool (pyEq a b)                    -- `a == b`
  | 3, a :: b :: _ => .bool (!pyEq a b)                   -- `a != b`
  | 4, (.str s) :: _ => match digits s with               -- `int(a)`
    | some n => .int (Int.ofNat n)
    | none => .err
  | 5, (.str s) :: _ => .int (Int.ofNat s.length)           -- `len(a)`
  | 5, (.list s) :: _ => .int (Int.ofNat s.length)
  | 6, (.int a) :: _ => .int (a + 1)                      -- `a + 1`
  | 7, (.int a) :: (.int b) :: _ => .bool (a < b)          -- `a < b`
  | 8, xs => .list xs                                     -- `[a, b, …]`
  | 9, a :: b :: c :: _ => .bool (pyEq a b || pyEq a c)    -- `a == b or a == c`
  | 10, (.int a) :: _ => .int (if a > 0 then a - 1 else 0)  -- `max(a - 1, 0)`
  | 11, _ => .bool true                                   -- `True`
  | _, _ => .err

/-- calling the value of a `lambda` -/
def app (f v : Val) : Val :=
  match f with
  | .tuple (.int (.ofNat fn) :: captured) => pyf fn (v :: captured)
  | _ => .err

def printIRes (r : Option (Res × Locals)) : String := printRes (r.map (·.1))

/-- `(env (rules e…) (templates (T (p…) body)…) (fuel n) (cases (r pos c c c…)…))`:
    for each case the scoping verdict, the specification's outcome and the implementation's -/
def handleEnv (xs : List Sexp) : Option String := do
  let (rules, templates, fuel, cases) ← match xs with
    | [.list (.atom "rules" :: rs), .list (.atom "templates" :: ts), .list [.atom "fuel", f], .list (.atom "cases" :: cs)] =>
      some (rs, ts, f, cs)
    | _ => none
  let rules ← rules.mapM decodeX
  let templates ← templates.mapM fun t => match t with
    | .list [.atom "T", .list ps, body] => do pure ({ params := (← ps.mapM atom?), body := (← decodeX body) } : Template)
    | _ => none
  let fuel ← fuel.nat?
  let P : XProgram := { rules := rules, templates := templates, pyf := pyf, app := app, truthy := truthy }
  let w := if wsProgram P then "1" else "0"
  let outs ← cases.mapM fun c => match c with
    | .list (r :: p :: cs) => do
      let r ← r.nat?
      let p ← p.nat?
      let inp ← nats? cs
      pure s!"{printRes (xpeg P inp fuel (.ref r) [] p)} {printIRes (xgen P inp fuel (.ref r) [] p)}"
    | _ => none
  pure (s!"ws={w} ; " ++ " ; ".intercalate outs)

def encPy (t : PyTerm) : String := toString t.fn ++ String.join (t.names.map (" " ++ ·))

def encName : Option Name → String
  | none => "-"
  | some n => n

/-- the wire form of an expression (inverse of `decodeX`, same text as the harness writes) -/
partial def encodeX : XExpr → String
  | .lit s => "(lit" ++ String.join (s.map (fun c => " " ++ toString c)) ++ ")"
  | .cc lo hi => s!"(cc {lo} {hi})"
  | .seq xs => "(seq" ++ String.join (xs.map (fun x => " " ++ encodeX x)) ++ ")"
  | .choice xs => "(choice" ++ String.join (xs.map (fun x => " " ++ encodeX x)) ++ ")"
  | .star e => s!"(star {encodeX e})"
  | .opt e => s!"(opt {encodeX e})"
  | .ref r => s!"(ref {r})"
  | .pvar x => s!"(pvar {x})"
  | .py t => s!"(py {encPy t})"
  | .let_ x e b => s!"(let {x} {encodeX e} {encodeX b})"
  | .where_ e q => s!"(where {encodeX e} {encodeX q})"
  | .apply e f => s!"(apply {encodeX e} {encodeX f})"
  | .applyL f e => s!"(applyl {encodeX f} {encodeX e})"
  | .rep e t => s!"(rep {encodeX e} {encPy t})"
  | .call t args => s!"(call {t}" ++ String.join (args.map (fun ka => s!" ({encName ka.1} {encodeX ka.2})")) ++ ")"
  | .bseq items ctor fields =>
    s!"(bseq {ctor} (" ++ " ".intercalate fields ++ ")" ++
      String.join (items.map (fun ka => s!" ({encName ka.1} {encodeX ka.2})")) ++ ")"

/-- `(envsubst (T (p…) body) (arg k e)…)`: the expansion `subst bound body` that
    `C06_call_means_its_expansion_closed_arguments` speaks about, or `na` when its hypotheses fail -/
def handleEnvSubst (xs : List Sexp) : Option String := do
  match xs with
  | .list [.atom "T", .list ps, body] :: args =>
    let params ← ps.mapM atom?
    let body ← decodeX body
    let args ← args.mapM fun a => match a with
      | .list [k, e] => do pure ((← optName k), (← decodeX e))
      | _ => none
    match bindArgs params args with
    | none => pure "na"
    | some bound =>
      if closedArgs bound && pyAvoids bound body then pure (encodeX (subst bound body)) else pure "na"
  | _ => none

/-- `(envfv e…)`: the parameters of the helper function of each argument expression -/
def handleEnvFv (xs : List Sexp) : Option String := do
  let es ← xs.mapM decodeX
  pure (" ; ".intercalate (es.map fun e => " ".intercalate (captured e)))

end Sourcer.X
