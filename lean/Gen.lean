import Gen.Flags
import Gen.Excerpt
