import Gen.Flags
