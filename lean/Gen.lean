import Gen.Flags
import Gen.Excerpt
import Gen.MetaTable
import Gen.Binders
