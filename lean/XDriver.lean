import Gen.Excerpt
import Sourcer.Sexp
/-
  Second driver: evaluates the *translated* runtime arithmetic (Gen/Excerpt.lean, regenerated from
  /repo) so that translator T2 can be validated against the real functions.
    (excerpt pos col c c c …)  → code points of `_extract_excerpt(text, pos, col)`
    (linecol pos c c c …)      → `line col` of `_get_line_and_column(text, pos)` or `none`
-/
open Sourcer Sexp Gen.Excerpt

def handleX (line : String) : String :=
  match Sexp.parse line with
  | some (.list (.atom "excerpt" :: p :: c :: cs)) =>
    match p.int?, c.int?, nats? cs with
    | some p, some c, some text =>
      " ".intercalate ((extract_excerpt false text p c).map toString)
    | _, _, _ => "error"
  | some (.list (.atom "linecol" :: p :: cs)) =>
    match p.int?, nats? cs with
    | some p, some text =>
      match get_line_and_column text p with
      | some (l, c) => s!"{l} {c}"
      | none => "none"
    | _, _ => "error"
  | _ => "error"

partial def loopX (h : IO.FS.Stream) (out : IO.FS.Stream) : IO Unit := do
  let line ← h.getLine
  if line.isEmpty then return ()
  out.putStrLn (handleX line)
  out.flush
  loopX h out

def main : IO Unit := do loopX (← IO.getStdin) (← IO.getStdout)
