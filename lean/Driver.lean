import Sourcer.Wire
import Sourcer.EnvWire
import Sourcer.Proofs.OpShape
import Sourcer.Proofs.Chain
/-
  Line protocol driver: one request per line on stdin, one reply per line on stdout.

    (flags b b b …)                       set the flag table (bits in `FlagTable.ofBits` order)
    (core (bytes 0|1) (ign k|-1) (fuel n) (rx R…) (rules E…) (entry E) (cases (p c c c …) …))
        → for every case "<gen> <peg>" separated by " ; "
    (flagsof E)                           → as/cps bits the table assigns to E
    (transform (cbs ((cls action) …) …) V) → result and callback log
    (visit T) / (traverse T)              → yielded object ids / events parent:field:child:finished
    (peq A B)                             → Python `A == B`, hashable(A), model hashes equal
    (replace O (i V) …)                   → `O._replace(field_i=V, …)`
    (machine (start k) (fuel n) (bodies (k FPROG) …))  → event trace of the `_run` model
    (prepare (rule name ign E) …)         → the prepared program (model of the translator's front half)
    (flatten (n N) (levels (lvl (k E) …) …)) → the rules of the flattened grammar of a chain (`Chain.flatProg`)
-/
open Sourcer Sexp

structure St where
  F : FlagTable

def field (name : String) (xs : List Sexp) : Option (List Sexp) :=
  xs.findSome? fun x => match x with
    | .list (.atom n :: rest) => if n == name then some rest else none
    | _ => none

def handleCore (st : St) (xs : List Sexp) : Option String := do
  let bytes ← (← (← field "bytes" xs).head?).bool?
  let ign ← (← (← field "ign" xs).head?).int?
  let fuel ← (← (← field "fuel" xs).head?).nat?
  let rxs ← (← field "rx" xs).mapM decodeRx
  let rules ← (← field "rules" xs).mapM decodeExpr
  let entry ← decodeExpr (← (← field "entry" xs).head?)
  let cases ← field "cases" xs
  let rxArr := rxs.toArray
  let P : Program :=
    { rules := rules
      ignored := if ign < 0 then none else some ign.toNat
      matcher := fun i inp p => match rxArr[i]? with
        | some r => r.matchAt inp p
        | none => none
      bytesMode := bytes }
  let api := (field "api" xs).isSome
  let outs ← cases.mapM fun c => match c with
    | .list (p :: cs) => do
      let p ← p.nat?
      let inp ← nats? cs
      let g := gen st.F P inp fuel entry p
      let s := peg P inp fuel entry p
      if api then
        let go (full : Bool) : String := match g with
          | some r => printOutcome (parseApi inp.length full r)
          | none => "U"
        pure s!"{go false} {go true} {specOutcome inp.length false s} {specOutcome inp.length true s}"
      else
        pure s!"{printReg g} {printRes s}"
    | _ => none
  pure (" ; ".intercalate outs)

/-- the specification pipeline for a whole (unprepared) grammar: Lean `prepare`, then `peg` -/
def handlePrepCore (st : St) (xs : List Sexp) : Option String := do
  let bytes ← (← (← field "bytes" xs).head?).bool?
  let fuel ← (← (← field "fuel" xs).head?).nat?
  let rxs ← (← field "rx" xs).mapM decodeRx
  let rules ← (← field "decls" xs).mapM decodeRuleDef
  let cases ← field "cases" xs
  let rxArr := rxs.toArray
  let Q := prepare rules
  let P : Program :=
    { rules := Q.bodies
      ignored := Q.ignored
      matcher := fun i inp p => match rxArr[i]? with
        | some r => r.matchAt inp p
        | none => none
      bytesMode := bytes }
  let outs ← cases.mapM fun c => match c with
    | .list (p :: cs) => do
      let p ← p.nat?
      let inp ← nats? cs
      pure s!"{printReg (gen st.F P inp fuel (.ref Q.start) p)} {printRes (peg P inp fuel (.ref Q.start) p)}"
    | _ => none
  pure (" ; ".intercalate outs)

def handle (st : St) (line : String) : St × String :=
  match Sexp.parse line with
  | some (.list (.atom "flags" :: bs)) =>
    match bs.mapM Sexp.bool? with
    | some bits =>
      if bits.length == 2 * FlagTable.numEntries then ({ F := FlagTable.ofBits bits.toArray }, "ok")
      else (st, s!"error wrong-number-of-flag-bits {bits.length}")
    | none => (st, "error bad-flags")
  | some (.list (.atom "core" :: xs)) =>
    match handleCore st xs with
    | some out => (st, out)
    | none => (st, "error bad-core-request")
  | some (.list [.atom "transform", .list (.atom "cbs" :: cbs), v]) =>
    let r := do
      let cbs ← cbs.mapM fun cb => match cb with
        | .list rules => rules.mapM fun r => match r with
          | .list [c, a] => do pure ((← c.nat?), (← decodeAction a))
          | _ => none
        | _ => none
      let v ← decodeTV v
      let res := Tr.transform (cbs.map mkCb) v
      pure (printTV res.1 ++ " | " ++ " ".intercalate (res.2.map fun e => s!"{e.1}={printTV e.2}"))
    match r with
    | some out => (st, out)
    | none => (st, "error bad-transform-request")
  | some (.list [.atom "visit", t]) =>
    match decodeT t with
    | some t => (st, " ".intercalate ((Walk.visit t).map toString))
    | none => (st, "error bad-tree")
  | some (.list [.atom "traverse", t]) =>
    match decodeT t with
    | some t => (st, " ".intercalate ((Walk.traverse t).map printEvent))
    | none => (st, "error bad-tree")
  | some (.list [.atom "peq", a, b]) =>
    match decodePV a, decodePV b with
    | some a, some b =>
      (st, s!"{if Obj.peq a b then 1 else 0} {if Obj.hashable a then 1 else 0} {if Obj.H demoHash a == Obj.H demoHash b then 1 else 0}")
    | _, _ => (st, "error bad-peq-request")
  | some (.list (.atom "replace" :: o :: kws)) =>
    let r := do
      let o ← decodePV o
      let kws ← kws.mapM fun kw => match kw with
        | .list [i, v] => do pure ((← i.nat?), (← decodePV v))
        | _ => none
      pure (printPV (Obj.replace o fun i => (kws.find? (·.1 == i)).map (·.2)))
    match r with
    | some out => (st, out)
    | none => (st, "error bad-replace-request")
  | some (.list (.atom "machine" :: xs)) =>
    let r := do
      let k0 ← (← (← field "start" xs).head?).nat?
      let fuel ← (← (← field "fuel" xs).head?).nat?
      let bodies ← (← field "bodies" xs).mapM fun b => match b with
        | .list [k, p] => do pure ((← k.nat?), (← decodeFProg p))
        | _ => none
      let body : Nat → Run.Prog Nat Nat := fun k =>
        match bodies.find? (·.1 == k) with
        | some (_, p) => p.toProg
        | none => .ret 0
      pure (machineTrace body k0 fuel)
    match r with
    | some out => (st, out)
    | none => (st, "error bad-machine-request")
  | some (.list (.atom "flatten" :: xs)) =>
    -- (flatten (n N) (levels (lvl (k E) …) …)): the rules of `Chain.flatProg`, level 0 = the grammar entered
    let r : Option String := do
      let n ← (← (← field "n" xs).head?).nat?
      let lvls ← field "levels" xs
      let levels ← lvls.mapM fun l => match l with
        | .list (.atom "lvl" :: defs) => defs.mapM fun d => match d with
          | .list [k, e] => do pure (← k.nat?, ← decodeExpr e)
          | _ => none
        | _ => none
      let C : Sourcer.Chain.Chain := ⟨n, levels.map fun defs => fun k => (defs.find? (·.1 == k)).map (·.2)⟩
      let base : Program := { rules := [], ignored := none, matcher := fun _ _ _ => none, bytesMode := false }
      pure ("(rules" ++ encodeList (Sourcer.Chain.flatProg C base).rules ++ ")")
    match r with
    | some out => (st, out)
    | none => (st, "error bad-flatten-request")
  | some (.list (.atom "tagcheck" :: xs)) =>
    match xs.mapM decodeExpr with
    | some es => (st, " ".intercalate (es.map fun e => if allTablesTagged e then "1" else "0"))
    | none => (st, "error bad-tagcheck-request")
  | some (.list (.atom "envsubst" :: xs)) =>
    match Sourcer.X.handleEnvSubst xs with
    | some out => (st, out)
    | none => (st, "error bad-envsubst-request")
  | some (.list (.atom "envfv" :: xs)) =>
    match Sourcer.X.handleEnvFv xs with
    | some out => (st, out)
    | none => (st, "error bad-envfv-request")
  | some (.list (.atom "env" :: xs)) =>
    match Sourcer.X.handleEnv xs with
    | some out => (st, out)
    | none => (st, "error bad-env-request")
  | some (.list (.atom "prepcore" :: xs)) =>
    match handlePrepCore st xs with
    | some out => (st, out)
    | none => (st, "error bad-prepcore-request")
  | some (.list (.atom "prepare" :: rs)) =>
    match rs.mapM decodeRuleDef with
    | some rules =>
      let Q := prepare rules
      let ign := match Q.ignored with
        | some k => toString k
        | none => "-1"
      (st, s!"(ign {ign}) (start {Q.start}) (rules{encodeList Q.bodies})")
    | none => (st, "error bad-prepare-request")
  | some (.list [.atom "flagsof", e]) =>
    match decodeExpr e with
    | some e => (st, printFlags (flagsOf st.F e))
    | none => (st, "error bad-expr")
  | _ => (st, "error bad-request")

partial def loop (h : IO.FS.Stream) (out : IO.FS.Stream) (st : St) : IO Unit := do
  let line ← h.getLine
  if line.isEmpty then return ()
  let (st', reply) := handle st line
  out.putStrLn reply
  out.flush
  loop h out st'

def main : IO Unit := do
  loop (← IO.getStdin) (← IO.getStdout) { F := FlagTable.ofBits #[] }
