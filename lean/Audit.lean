import Sourcer.Properties
import Tie.Flags
import Tie.Excerpt
import Tie.MetaTable
import Tie.Binders
/-
  Axiom audit: `#print axioms` for every property theorem and every tie obligation.
  The check parses this output; anything outside {propext, Classical.choice, Quot.sound} fails.
-/
#print axioms Sourcer.C01_codegen_refines_peg
#print axioms Sourcer.C01_choice_commits_first
#print axioms Sourcer.C01_failed_alternative_leaves_no_trace
#print axioms Sourcer.C01_failed_option_leaves_no_trace
#print axioms Sourcer.C01_lookahead_restores
#print axioms Sourcer.C01_longest_first_on_ties
#print axioms Sourcer.C03_len_bounds
#print axioms Sourcer.C03_sep_allow_empty
#print axioms Sourcer.C03_sep_require_separator
#print axioms Sourcer.C03_sep_trailer
#print axioms Sourcer.C03_sep_keeps_separators
#print axioms Sourcer.C03_no_effect_on_failure
#print axioms Sourcer.C04_every_literal_skips
#print axioms Sourcer.C04_ignored_rule
#print axioms Sourcer.C04_leading_skip
#print axioms Sourcer.C04_start_rule
#print axioms Sourcer.C04_no_other_skip_point
#print axioms Sourcer.C04_literal_then_skip
#print axioms Sourcer.C04_skip_maximal
#print axioms Sourcer.C04_lengthening
#print axioms Sourcer.C04_reindexing
#print axioms Sourcer.C04_lengthening_instance
#print axioms Sourcer.C07_memo_transparent
#print axioms Sourcer.C07_started_only_on_miss
#print axioms Sourcer.C07_hit_returns_stored
#print axioms Sourcer.C07_at_most_once
#print axioms Sourcer.C07_evaluation_bound
#print axioms Sourcer.C07_memo_write_once
#print axioms Sourcer.C08_match_outcome
#print axioms Sourcer.C08_failure_outcome
#print axioms Sourcer.C08_shift_law
#print axioms Sourcer.C08_shift_law_generated_code
#print axioms Sourcer.C09_index_range
#print axioms Sourcer.C10_span_exact
#print axioms Sourcer.C10_finalized_end
#print axioms Sourcer.C10_nested
#print axioms Sourcer.C10_ordered_seq
#print axioms Sourcer.C10_ordered_list
#print axioms Sourcer.C14_eq_equivalence
#print axioms Sourcer.C14_eq_iff_same_class_and_fields
#print axioms Sourcer.C14_obj_ne_other
#print axioms Sourcer.C14_eq_implies_hash_eq
#print axioms Sourcer.C14_asdict_order
#print axioms Sourcer.C14_replace
#print axioms Sourcer.C15_visit_eq_first_occurrence_preorder
#print axioms Sourcer.C15_visit_at_most_once
#print axioms Sourcer.C15_visit_complete
#print axioms Sourcer.C15_traverse_events
#print axioms Sourcer.C15_traverse_brackets
#print axioms Sourcer.C16_once_per_node
#print axioms Sourcer.C16_bottom_up
#print axioms Sourcer.C16_identity
#print axioms Sourcer.C16_metadata
#print axioms Sourcer.C16_copy_keeps_metadata
#print axioms Sourcer.C16_leaves_and_lists
#print axioms Sourcer.C11_context_table_identity
#print axioms Sourcer.C13_late_binding
#print axioms Sourcer.C13_super
#print axioms Sourcer.C13_flattening
#print axioms Sourcer.C13_flattened_name
#print axioms Sourcer.C13_rule_numbering_is_immaterial
#print axioms Sourcer.C17_nested_sequences
#print axioms Sourcer.C17_nested_options
#print axioms Sourcer.C17_nested_failing_choices
#print axioms Sourcer.C17_spilled_helper_same_outcome
#print axioms Sourcer.C18_interleaving
#print axioms Sourcer.C18_interleaving_any_number
#print axioms Sourcer.C18_nested_call_is_invisible
#print axioms Sourcer.C19_sugar
#print axioms Sourcer.C19_repeat
#print axioms Sourcer.C19_choice
#print axioms Sourcer.C01_meaning_independent_of_fuel
#print axioms Sourcer.C01_codegen_refines_peg_from_there_on
#print axioms Sourcer.C02_tree_well_shaped_and_yield
#print axioms Sourcer.C02_generated_code_builds_that_tree
#print axioms Sourcer.C02_reductions_preserve_order
#print axioms Sourcer.C02_run_is_maximal
#print axioms Sourcer.C02_unique
#print axioms Sourcer.C02_result_is_the_well_shaped_tree
#print axioms Sourcer.C05_flat_locals_realise_lexical_scoping
#print axioms Sourcer.C05_rule_outcome
#print axioms Sourcer.C05_where_apply_class
#print axioms Sourcer.C05_shadowing_breaks_it
#print axioms Sourcer.C05_specification_layers_agree
#print axioms Sourcer.C06_call_is_body_with_arguments
#print axioms Sourcer.C06_arguments_bind_parameters
#print axioms Sourcer.C06_call_means_its_expansion_closed_arguments
#print axioms Sourcer.C06_more_fuel_same_outcome
#print axioms Sourcer.C20_renaming_changes_only_names
#print axioms Sourcer.C20_injective_renaming_keeps_classes_apart
#print axioms Tie.implFlags_sound -- module Tie.Flags
#print axioms Tie.impl_refines -- module Tie.Flags
#print axioms Tie.map_index_eq -- module Tie.Excerpt
#print axioms Tie.linecol_spec -- module Tie.Excerpt
#print axioms Tie.excerpt_spec -- module Tie.Excerpt
#print axioms Tie.linecol_defined_iff -- module Tie.Excerpt
#print axioms Tie.linecol_at_newline -- module Tie.Excerpt
#print axioms Tie.metaTable_grouping -- module Tie.MetaTable
#print axioms Tie.binders_agree -- module Tie.Binders
#print axioms Tie.names_flags_conservative -- module Tie.Binders
