-- REGENERATED on every run by harness/py2lean.py from the runtime text in /repo/sourcer/translator.py. Do not edit.
import Sourcer.PyPrim
namespace Gen.Excerpt
open Sourcer.Py

/-- `repr(text[max(0, pos - 1) : pos + 2])` for bytes input: not modelled -/
opaque bytesExcerpt : Str → Int → Str

def caret_at (index : Int) : Str :=
  ((([10] : Str) ++ (strMul ([32] : Str) index)) ++ ([94] : Str))

def map_index_to_line_and_column (text : Str) : List Int × List Int :=
  let line_numbers : List Int := []
  let column_numbers : List Int := []
  let current_line := (1 : Int)
  let current_column := (0 : Int)
  let (current_line, current_column, line_numbers, column_numbers) := text.foldl (fun (current_line, current_column, line_numbers, column_numbers) c =>
      let (current_line, current_column) := if c = 10 then
        let current_line := current_line + (1 : Int)
        let current_column := (0 : Int)
        (current_line, current_column)
      else
        let current_column := current_column + (1 : Int)
        (current_line, current_column)
      let line_numbers := line_numbers ++ [current_line]
      let column_numbers := column_numbers ++ [current_column]
      (current_line, current_column, line_numbers, column_numbers)) (current_line, current_column, line_numbers, column_numbers)
  (line_numbers, column_numbers)

def get_line_and_column (text : Str) (pos : Int) : Option (Int × Int) :=
  let (line_numbers, column_numbers) := (map_index_to_line_and_column text)
  (match (index line_numbers pos), (index column_numbers pos) with | some l, some c => some (l, c) | _, _ => none)

def extract_excerpt (isBytes : Bool) (text : Str) (pos : Int) (col : Int) : Str :=
  if isBytes then bytesExcerpt text pos else
  let start := (pos - (col - (1 : Int)))
  let m := (searchNl text (pos + (1 : Int)))
  let end_ := (match m with | none => (len text) | some i => i)
  if (end_ - start) < (96 : Int) then
    ((slice text start end_) ++ (caret_at (col - (1 : Int))))
  else
    if col < (60 : Int) then
      (((slice text start (start + (90 : Int))) ++ ([32, 46, 46, 46] : Str)) ++ (caret_at (col - (1 : Int))))
    else
      if (end_ - pos) < (42 : Int) then
        ((([46, 46, 46, 32] : Str) ++ (slice text (end_ - (90 : Int)) end_)) ++ (caret_at ((pos - (end_ - (90 : Int))) + (4 : Int))))
      else
        (((([46, 46, 46, 32] : Str) ++ (slice text (pos - (42 : Int)) (pos + (42 : Int)))) ++ ([32, 46, 46, 46] : Str)) ++ (caret_at ((42 : Int) + (4 : Int))))

end Gen.Excerpt
