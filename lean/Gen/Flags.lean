-- REGENERATED on every run by harness/extract_flags.py from /repo/sourcer/expressions. Do not edit.
import Sourcer.FlagBits
namespace Gen
-- note: Sep(discard=False,trailer=False,empty=False,require=True) rejected by constructor
-- note: Sep(discard=False,trailer=False,empty=True,require=True) rejected by constructor
-- note: Sep(discard=True,trailer=False,empty=False,require=True) rejected by constructor
-- note: Sep(discard=True,trailer=False,empty=True,require=True) rejected by constructor
/-- `always_succeeds()` / `can_partially_succeed()` of every expression class, as observed -/
def implBits : Array Bool := #[
  false, false,   -- 0: str nonempty
  true, false,   -- 1: str empty
  false, false,   -- 2: regex
  false, false,   -- 3: byte
  false, true,   -- 4: ref
  false, true,   -- 5: seq allAs=F
  false, true,   -- 6: seq allAs=T
  false, true,   -- 7: cls allAs=F
  true, false,   -- 8: cls allAs=T
  false, true,   -- 9: discard a=FF b=FF
  false, true,   -- 10: discard a=FF b=FT
  false, true,   -- 11: discard a=FF b=TF
  false, true,   -- 12: discard a=FF b=TT
  false, true,   -- 13: discard a=FT b=FF
  false, true,   -- 14: discard a=FT b=FT
  false, true,   -- 15: discard a=FT b=TF
  false, true,   -- 16: discard a=FT b=TT
  false, true,   -- 17: discard a=TF b=FF
  false, true,   -- 18: discard a=TF b=FT
  true, false,   -- 19: discard a=TF b=TF
  true, false,   -- 20: discard a=TF b=TT
  false, true,   -- 21: discard a=TT b=FF
  false, true,   -- 22: discard a=TT b=FT
  true, false,   -- 23: discard a=TT b=TF
  true, false,   -- 24: discard a=TT b=TT
  false, false,   -- 25: choice anyAs=F anyCps=F
  false, true,   -- 26: choice anyAs=F anyCps=T
  true, false,   -- 27: choice anyAs=T anyCps=F
  true, false,   -- 28: choice anyAs=T anyCps=T
  true, false,   -- 29: opt c=FF
  true, false,   -- 30: opt c=FT
  true, false,   -- 31: opt c=TF
  true, false,   -- 32: opt c=TT
  true, false,   -- 33: list min=zero c=FF
  true, false,   -- 34: list min=zero c=FT
  true, false,   -- 35: list min=zero c=TF
  true, false,   -- 36: list min=zero c=TT
  false, false,   -- 37: list min=one c=FF
  false, true,   -- 38: list min=one c=FT
  false, false,   -- 39: list min=one c=TF
  false, true,   -- 40: list min=one c=TT
  false, true,   -- 41: list min=many c=FF
  false, true,   -- 42: list min=many c=FT
  false, true,   -- 43: list min=many c=TF
  false, true,   -- 44: list min=many c=TT
  false, true,   -- 45: sep discard=F trailer=F empty=F require=F
  false, true,   -- 46: sep discard=F trailer=F empty=F require=T
  true, false,   -- 47: sep discard=F trailer=F empty=T require=F
  false, true,   -- 48: sep discard=F trailer=F empty=T require=T
  false, true,   -- 49: sep discard=F trailer=T empty=F require=F
  false, true,   -- 50: sep discard=F trailer=T empty=F require=T
  true, false,   -- 51: sep discard=F trailer=T empty=T require=F
  false, true,   -- 52: sep discard=F trailer=T empty=T require=T
  false, true,   -- 53: sep discard=T trailer=F empty=F require=F
  false, true,   -- 54: sep discard=T trailer=F empty=F require=T
  true, false,   -- 55: sep discard=T trailer=F empty=T require=F
  false, true,   -- 56: sep discard=T trailer=F empty=T require=T
  false, true,   -- 57: sep discard=T trailer=T empty=F require=F
  false, true,   -- 58: sep discard=T trailer=T empty=F require=T
  true, false,   -- 59: sep discard=T trailer=T empty=T require=F
  false, true,   -- 60: sep discard=T trailer=T empty=T require=T
  false, false,   -- 61: expect c=FF
  false, true,   -- 62: expect c=FT
  true, false,   -- 63: expect c=TF
  true, true,   -- 64: expect c=TT
  false, true,   -- 65: expectNot c=FF
  false, true,   -- 66: expectNot c=FT
  false, true,   -- 67: expectNot c=TF
  false, true,   -- 68: expectNot c=TT
  true, false,   -- 69: skip
  false, false,   -- 70: longest anyAs=F anyCps=F
  false, true,   -- 71: longest anyAs=F anyCps=T
  true, false,   -- 72: longest anyAs=T anyCps=F
  true, false,   -- 73: longest anyAs=T anyCps=T
  false, false,   -- 74: backtrack
  false, true,   -- 75: fail
  true, false,   -- 76: py
  false, true,   -- 77: apply a=FF b=FF
  false, true,   -- 78: apply a=FF b=FT
  false, true,   -- 79: apply a=FF b=TF
  false, true,   -- 80: apply a=FF b=TT
  false, true,   -- 81: apply a=FT b=FF
  false, true,   -- 82: apply a=FT b=FT
  false, true,   -- 83: apply a=FT b=TF
  false, true,   -- 84: apply a=FT b=TT
  false, true,   -- 85: apply a=TF b=FF
  false, true,   -- 86: apply a=TF b=FT
  true, false,   -- 87: apply a=TF b=TF
  true, false,   -- 88: apply a=TF b=TT
  false, true,   -- 89: apply a=TT b=FF
  false, true,   -- 90: apply a=TT b=FT
  true, false,   -- 91: apply a=TT b=TF
  true, false,   -- 92: apply a=TT b=TT
  false, false,   -- 93: optable prefix=F operands=FF
  false, true,   -- 94: optable prefix=F operands=FT
  true, false,   -- 95: optable prefix=F operands=TF
  true, false,   -- 96: optable prefix=F operands=TT
  false, true,   -- 97: optable prefix=T operands=FF
  false, true,   -- 98: optable prefix=T operands=FT
  true, false,   -- 99: optable prefix=T operands=TF
  true, false   -- 100: optable prefix=T operands=TT
]

def implFlags : Sourcer.FlagTable := Sourcer.FlagTable.ofBits implBits
end Gen
