-- REGENERATED on every run by harness/meta2lean.py from /repo/grammar.txt (read by generation 1). Do not edit.
namespace Gen
/-- rows of the `Expr` operator table of the metagrammar: (row kind, operator spellings / rule names) -/
def metaExprRows : List (String × List String) := [
  ("mixfix", ["(", "Expr", ")"]),
  ("postfix", ["ArgList", "FieldAccess"]),
  ("postfix", ["?", "*", "+", "Repeat"]),
  ("left", ["//", "/?"]),
  ("left", ["<<", ">>"]),
  ("left", ["<|", "|>", "where"]),
  ("left", ["|"]),
  ("postfix", ["OperatorTable"])
]
end Gen
