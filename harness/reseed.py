#!/venv/bin/python
"""Re-run every filed seeded change (seeded/<id>/patch.diff) against the current checks: apply to /repo, run the quick
check of its property, undo.  Writes seeded/SUMMARY.md.  Usage: harness/reseed.py [seed-id ...]"""
import glob
import json
import os
import re
import subprocess
import sys

VERIF = os.path.dirname(os.path.dirname(os.path.abspath(__file__)))
REPO = '/repo'


def sh(cmd, **kw):
    return subprocess.run(cmd, shell=True, capture_output=True, text=True, **kw)


def main():
    ids = sys.argv[1:] or sorted(os.path.basename(d) for d in glob.glob(os.path.join(VERIF, 'seeded', 'C*')))
    if sh(f'git -C {REPO} status --porcelain').stdout.strip():
        print('refusing: /repo has uncommitted changes')
        return 2
    rows = []
    for sid in ids:
        d = os.path.join(VERIF, 'seeded', sid)
        meta = json.load(open(os.path.join(d, 'meta.json')))
        prop = meta['property']
        patch = os.path.join(d, 'patch.diff')
        files = sorted(set(re.findall(r'^\+\+\+ b/(\S+)', open(patch).read(), flags=re.M)))
        ap = sh(f'git -C {REPO} apply --check {patch}')
        if ap.returncode != 0:
            # later fixes moved the context: try a three-way merge (needs the blobs the patch was made against)
            ap3 = sh(f'git -C {REPO} apply --3way {patch}')
            if ap3.returncode != 0 or 'with conflicts' in (ap3.stdout + ap3.stderr):
                sh(f'git -C {REPO} reset -q --hard && git -C {REPO} clean -fdq')
                rows.append((sid, prop, files, 'does not apply to the current tree (a later fix rewrote the same lines)', ''))
                continue
            sh(f'git -C {REPO} reset -q')      # keep the change in the working tree only
        else:
            sh(f'git -C {REPO} apply {patch}')
        try:
            r = sh(f'cd {VERIF} && rm -rf replays && timeout 1500 ./check {prop} --tier quick')
        finally:
            sh(f'git -C {REPO} checkout -- . && git -C {REPO} clean -fdq')
        viol = [l for l in r.stdout.splitlines() if l.startswith('VIOLATION')]
        first = next((l.strip() for l in r.stdout.splitlines() if l.startswith('  ')), '')
        verdict = 'caught' if r.returncode == 1 and viol else f'MISSED (exit {r.returncode})'
        if viol and 'no-failing-input-found' in viol[0]:
            verdict = 'caught (broken proof/correspondence, no failing input found)'
        rows.append((sid, prop, files, verdict, first[:160]))
        print(sid, verdict, flush=True)
    summary = os.path.join(VERIF, 'seeded', 'SUMMARY.md')
    if sys.argv[1:] and os.path.exists(summary):
        # a partial re-run replaces its own rows only
        done = {r[0] for r in rows}
        for line in open(summary):
            if line.startswith('| C') and line.split('|')[1].strip() not in done:
                parts = [x.strip() for x in line.strip().strip('|').split('|')]
                rows.append((parts[0], parts[1], parts[2].split(', '), parts[3], parts[4] if len(parts) > 4 else ''))
        rows.sort(key=lambda r: (r[0].split('-')[0], int(r[0].split('-')[1])))
    with open(summary, 'w') as f:
        f.write('# Seeded changes re-run against the current checks (harness/reseed.py)\n\n')
        f.write('| seed | check | files touched | verdict | first report |\n|---|---|---|---|---|\n')
        for sid, prop, files, verdict, first in rows:
            f.write(f'| {sid} | {prop} | {", ".join(files)} | {verdict} | {first.replace("|", "/")} |\n')
    return 0


if __name__ == '__main__':
    sys.exit(main())
