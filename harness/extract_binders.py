"""Translator T4 (binding discipline): which names the real symbol counter treats as bound where, probed on the
prepared expression objects of small descriptions -> Gen/Binders.lean.  The names layer (Sourcer/Env.lean) rests on
exactly these facts: `let` binds in its body, a class binds its parameters and its fields (kept or omitted), a rule
binds its parameters, `pass` members and sibling scopes bind nothing."""
import os

from common import LEAN

T = 'T(pa) = pa\n'
# (probe name, description, name looked for in the free names of the first argument expression of the first call of T)
PROBES = [
    ('let_binds_in_body', 'start = let xa = "a" in T(["b", `xa`])\n' + T, 'xa'),
    ('let_binds_in_its_own_binding_expression', 'start = let xa = T(["b", `xa`]) in "c"\n' + T, 'xa'),
    ('class_parameter_bound', 'start = C("q")\nclass C(pb) { fa: T(["b", `pb`]) }\n' + T, 'pb'),
    ('class_earlier_field_bound', 'start = C\nclass C { fa: "x"; fb: T(["b", `fa`]) }\n' + T, 'fa'),
    ('class_earlier_let_field_bound', 'start = C\nclass C { let fa: "x"; fb: T(["b", `fa`]) }\n' + T, 'fa'),
    ('class_later_field_bound', 'start = C\nclass C { fb: T(["b", `fa`]); fa: "x" }\n' + T, 'fa'),
    ('pass_member_binds_nothing', 'start = C\nclass C { pass "x"; fb: T(["b", `qq`]) }\n' + T, 'qq'),
    ('rule_parameter_bound', 'start = R("q")\nR(pb) = T(["b", `pb`])\n' + T, 'pb'),
    ('parameter_used_as_parser_is_local', 'start = R("q")\nR(pb) = T([pb, "b"])\n' + T, 'pb'),
    ('sibling_scope_binds_nothing', 'start = [let xa = "a" in "b", T(["c", `xa`])]\n' + T, 'xa'),
    ('where_predicate_sees_let', 'start = let xa = "a" in T("b" where `lambda v: v != xa`)\n' + T, 'xa'),
    ('count_sees_let', 'start = let xa = /[0-9]/ |> `int` in T("b"{xa})\n' + T, 'xa'),
]


def extract():
    import realrun
    from sourcer import expressions as ex
    from sourcer.expressions.base import visit
    facts = []
    for name, text, looked_for in PROBES:
        _, rules = realrun.compile_grammar(text)
        calls = []

        def pre(node):
            if isinstance(node, ex.Call) and getattr(node.func, 'name', None) == 'T':
                calls.append(node)
        visit(rules, pre)
        if not calls:
            raise RuntimeError(f'probe {name}: no call of T found')
        arg = calls[0].args[0]
        arg = arg.expr if isinstance(arg, ex.KeywordArg) else arg
        facts.append((name, looked_for in arg.freevars()))
    # class attributes the counter dispatches on
    for cls in ('Let', 'Rule', 'Class', 'Ref', 'Seq', 'Where', 'Apply', 'Call', 'List', 'Choice', 'Opt'):
        c = getattr(ex, cls)
        facts.append((f'{cls}.defines_local', bool(getattr(c, 'defines_local', False))))
        facts.append((f'{cls}.has_params', bool(getattr(c, 'has_params', False))))
        facts.append((f'{cls}.is_reference', bool(getattr(c, 'is_reference', False))))
    return facts


def extract_flags():
    """the static flags (always_succeeds, can_partially_succeed) of the classes of the names layer, for every
    combination of child flags: (kind, [child flags], flags)"""
    from sourcer import expressions as ex
    from extract_flags import _stub_class, FLAGS4, flags_of
    stub = _stub_class(ex)
    py = ex.PythonExpression
    rows = []
    for c in FLAGS4:
        rows.append(('where', [c], flags_of(ex.Where(stub(*c), py('f')))))
    for a in FLAGS4:
        for b in FLAGS4:
            rows.append(('let', [a, b], flags_of(ex.Let('x', stub(*a), stub(*b)))))
    for c in FLAGS4:
        rows.append(('call', [c], flags_of(ex.Call(ex.Ref('T'), [stub(*c)]))))
        rows.append(('call', [c], flags_of(ex.Call(ex.Ref('T'), [ex.KeywordArg('k', stub(*c))]))))
    for c in FLAGS4:
        rows.append(('count', [c], flags_of(ex.List(stub(*c), min_len='n', max_len='n'))))
    return rows


def render(facts, flag_rows=None):
    if flag_rows is not None:
        b = lambda v: 'true' if v else 'false'
        fl = lambda f: f'({b(f[0])}, {b(f[1])})'
        rows = ',\n'.join(f'  ("{k}", [{", ".join(fl(c) for c in cs)}], {fl(f)})' for k, cs, f in flag_rows)
        return render(facts)[:-len('end Gen\n')] + (
            '/-- the static flags of the classes of the names layer: (class, flags of the children, (always_succeeds, can_partially_succeed)) -/\n'
            'def namesFlags : List (String × List (Bool × Bool) × (Bool × Bool)) := [\n' + rows + '\n]\nend Gen\n')
    body = ',\n'.join(f'  ("{n}", {"true" if b else "false"})' for n, b in facts)
    return ('-- REGENERATED on every run by harness/extract_binders.py from the real symbol counter of /repo. Do not edit.\n'
            'namespace Gen\n'
            '/-- what the real `SymbolCounter` / `freevars()` treat as bound where (probe, answer) -/\n'
            'def binderFacts : List (String × Bool) := [\n' + body + '\n]\nend Gen\n')


def regenerate():
    from extract_flags import write_if_changed
    return write_if_changed(os.path.join(LEAN, 'Gen', 'Binders.lean'), render(extract(), extract_flags()))


if __name__ == '__main__':
    import common
    common.import_real()
    print(render(extract(), extract_flags()))
