"""Programs of the names layer (lean/Sourcer/Env.lean): generator, renderer to sourcer's description
language, wire encoder for the Lean driver, and template expansion.

Expression forms (tuples):
  ('lit', 'ab') ('cc', 'a', 'c') ('seq', [e..]) ('choice', [e..]) ('star', e) ('opt', e)
  ('ref', r) ('pvar', x) ('py', fn, [names]) ('let', x, e, b) ('where', e, fn, [names])
  ('apply', e, fn, [names]) ('rep', e, fn, [names]) ('call', t, [(kw|None, arg)..])
  ('bseq', ctor, [fields], [(name|None, e)..])
A program: {'rules': [(name, body)], 'templates': [(name, [params], body)], 'named': str|None}
Rule 0 is the start rule.  A rule/template whose body is a 'bseq' is a class.
"""
import random

# ---------------------------------------------------------------- inline Python repertoire

CONST_STRS = ['a', 'b', 'ab', 'c']


def py_text(fn, names, extra=False):
    if fn >= 1000:
        return py_text(fn - 1000, names, True)        # a lambda as a value
    a = (['_v'] if extra else []) + list(names)
    if fn >= 200:
        body = repr(CONST_STRS[fn - 200])
    elif fn >= 100:
        body = str(fn - 100)
    elif fn == 0:
        body = a[0]
    elif fn == 1:
        body = '(' + ''.join(x + ', ' for x in a) + ')'
    elif fn == 2:
        body = f'{a[0]} == {a[1]}'
    elif fn == 3:
        body = f'{a[0]} != {a[1]}'
    elif fn == 4:
        body = f'int({a[0]})'
    elif fn == 5:
        body = f'len({a[0]})'
    elif fn == 6:
        body = f'{a[0]} + 1'
    elif fn == 7:
        body = f'{a[0]} < {a[1]}'
    elif fn == 8:
        body = '[' + ', '.join(a) + ']'
    elif fn == 9:
        body = f'{a[0]} == {a[1]} or {a[0]} == {a[2]}'
    elif fn == 10:
        body = f'max({a[0]} - 1, 0)'
    elif fn == 11:
        body = 'True'
    else:
        raise ValueError(fn)
    return f'lambda _v: {body}' if extra else body


def fun_of(e):
    """the function operand of ('where'|'apply', e, fn, names) or ('where'|'apply', e, function expression)"""
    if len(e) == 4:
        return ('py', 1000 + e[2], e[3])
    return e[2]


# ---------------------------------------------------------------- rendering

def render(e, P):
    k = e[0]
    if k == 'lit':
        return '"' + e[1] + '"'
    if k == 'cc':
        return f'/[{e[1]}-{e[2]}]/'
    if k == 'seq':
        return '[' + ', '.join(render(x, P) for x in e[1]) + ']'
    if k == 'choice':
        return '(' + ' | '.join(render(x, P) for x in e[1]) + ')'
    if k == 'star':
        return '(' + render(e[1], P) + ')*'
    if k == 'opt':
        return '(' + render(e[1], P) + ')?'
    if k == 'ref':
        return P['rules'][e[1]][0]
    if k == 'pvar':
        return e[1]
    if k == 'py':
        return '`' + py_text(e[1], e[2]) + '`'
    if k == 'let':
        return f'(let {e[1]} = {render(e[2], P)} in {render(e[3], P)})'
    if k == 'where':
        return f'({render(e[1], P)} where {render(fun_of(e), P)})'
    if k == 'apply':
        return f'({render(e[1], P)} |> {render(fun_of(e), P)})'
    if k == 'applyl':
        return f'({render(e[1], P)} <| {render(e[2], P)})'
    if k == 'rep':
        return f'({render(e[1], P)}){{`{py_text(e[2], e[3])}`}}'
    if k == 'call':
        args = ', '.join((f'{kw}=' if kw else '') + render(a, P) for kw, a in e[2])
        return f'{P["templates"][e[1]][0]}({args})'
    raise ValueError(k)


def render_def(name, params, body, P):
    ps = '' if params is None else '(' + ', '.join(params) + ')'
    if body[0] == 'bseq':
        lines = []
        kept = set(body[2])
        for nm, ex in body[3]:
            if nm is None:
                lines.append(f'    pass {render(ex, P)}')
            elif nm in kept:
                lines.append(f'    {nm}: {render(ex, P)}')
            else:
                lines.append(f'    let {nm}: {render(ex, P)}')
        return f'class {name}{ps} {{\n' + '\n'.join(lines) + '\n}\n'
    return f'{name}{ps} = {render(body, P)}\n'


def grammar_text(P):
    out = []
    if P.get('named'):
        out.append(f'grammar {P["named"]}\n')
    for name, body in P['rules']:
        out.append(render_def(name, None, body, P))
    for name, params, body in P['templates']:
        out.append(render_def(name, params, body, P))
    if P.get('ignore'):
        # the inputs of these programs never contain a blank: the declaration changes how the grammar is prepared
        # (leading skip of the start rule, skip_ignored on literals), not what the programs mean
        out.append('ignore / +/\n')
    return ''.join(out)


# ---------------------------------------------------------------- wire

def wire(e):
    k = e[0]
    if k == 'lit':
        return '(lit' + ''.join(f' {ord(c)}' for c in e[1]) + ')'
    if k == 'cc':
        return f'(cc {ord(e[1])} {ord(e[2])})'
    if k in ('seq', 'choice'):
        return f'({k}' + ''.join(' ' + wire(x) for x in e[1]) + ')'
    if k in ('star', 'opt'):
        return f'({k} {wire(e[1])})'
    if k == 'ref':
        return f'(ref {e[1]})'
    if k == 'pvar':
        return f'(pvar {e[1]})'
    if k == 'py':
        return f'(py {e[1]}' + ''.join(' ' + n for n in e[2]) + ')'
    if k == 'let':
        return f'(let {e[1]} {wire(e[2])} {wire(e[3])})'
    if k in ('where', 'apply'):
        return f'({k} {wire(e[1])} {wire(fun_of(e))})'
    if k == 'applyl':
        return f'(applyl {wire(e[1])} {wire(e[2])})'
    if k == 'rep':
        return f'(rep {wire(e[1])} {e[2]}' + ''.join(' ' + n for n in e[3]) + ')'
    if k == 'call':
        return f'(call {e[1]}' + ''.join(f' ({kw or "-"} {wire(a)})' for kw, a in e[2]) + ')'
    if k == 'bseq':
        return (f'(bseq {e[1]} (' + ' '.join(e[2]) + ')'
                + ''.join(f' ({nm or "-"} {wire(x)})' for nm, x in e[3]) + ')')
    raise ValueError(k)


def env_request(P, cases, fuel=400):
    """cases: [(rule index, pos, text)]"""
    rules = ' '.join(wire(b) for _, b in P['rules'])
    temps = ' '.join(f'(T ({" ".join(ps)}) {wire(b)})' for _, ps, b in P['templates'])
    cs = ' '.join(f'({r} {p}' + ''.join(f' {ord(c)}' for c in t) + ')' for r, p, t in cases)
    return f'(env (rules {rules}) (templates {temps}) (fuel {fuel}) (cases {cs}))'


# ---------------------------------------------------------------- expansion (C06)

def subst(e, sigma):
    """replace parser parameters by argument expressions; binders stop the substitution of the names they bind"""
    k = e[0]
    if k in ('lit', 'cc', 'ref', 'py'):
        return e
    if k == 'pvar':
        return sigma.get(e[1], e)
    if k in ('seq', 'choice'):
        return (k, [subst(x, sigma) for x in e[1]])
    if k in ('star', 'opt'):
        return (k, subst(e[1], sigma))
    if k == 'let':
        inner = {a: b for a, b in sigma.items() if a != e[1]}
        return ('let', e[1], subst(e[2], sigma), subst(e[3], inner))
    if k in ('where', 'apply', 'rep'):
        return (k, subst(e[1], sigma), e[2], e[3])
    if k == 'applyl':
        return (k, subst(e[1], sigma), subst(e[2], sigma))
    if k == 'call':
        return ('call', e[1], [(kw, subst(a, sigma)) for kw, a in e[2]])
    raise ValueError(k)


def bound_names(e):
    k = e[0]
    if k in ('lit', 'cc', 'ref', 'py', 'pvar'):
        return set()
    if k in ('seq', 'choice'):
        return set().union(*[bound_names(x) for x in e[1]]) if e[1] else set()
    if k in ('star', 'opt', 'where', 'apply', 'rep'):
        return bound_names(e[1])
    if k == 'applyl':
        return bound_names(e[1]) | bound_names(e[2])
    if k == 'let':
        return {e[1]} | bound_names(e[2]) | bound_names(e[3])
    if k == 'call':
        return set().union(*[bound_names(a) for _, a in e[2]]) if e[2] else set()
    if k == 'bseq':
        return {n for n, _ in e[3] if n} | (set().union(*[bound_names(x) for _, x in e[3]]) if e[3] else set())
    raise ValueError(k)


def free_names(e):
    k = e[0]
    if k in ('lit', 'cc', 'ref'):
        return set()
    if k == 'pvar':
        return {e[1]}
    if k == 'py':
        return set(e[2])
    if k in ('seq', 'choice'):
        return set().union(*[free_names(x) for x in e[1]]) if e[1] else set()
    if k in ('star', 'opt'):
        return free_names(e[1])
    if k == 'let':
        return free_names(e[2]) | (free_names(e[3]) - {e[1]})
    if k in ('where', 'apply', 'rep'):
        return free_names(e[1]) | set(e[3])
    if k == 'applyl':
        return free_names(e[1]) | free_names(e[2])
    if k == 'call':
        return set().union(*[free_names(a) for _, a in e[2]]) if e[2] else set()
    if k == 'bseq':
        out = set(e[2])
        for nm, x in reversed(e[3]):
            if nm:
                out -= {nm}
            out |= free_names(x)
        return out
    raise ValueError(k)


def python_names(e):
    """names that inline Python of e mentions"""
    k = e[0]
    if k in ('lit', 'cc', 'ref', 'pvar'):
        return set()
    if k == 'py':
        return set(e[2])
    if k in ('seq', 'choice'):
        return set().union(*[python_names(x) for x in e[1]]) if e[1] else set()
    if k in ('star', 'opt'):
        return python_names(e[1])
    if k == 'let':
        return python_names(e[2]) | python_names(e[3])
    if k in ('where', 'apply', 'rep'):
        return python_names(e[1]) | set(e[3])
    if k == 'applyl':
        return python_names(e[1]) | python_names(e[2])
    if k == 'call':
        return set().union(*[python_names(a) for _, a in e[2]]) if e[2] else set()
    if k == 'bseq':
        return set(e[2]) | (set().union(*[python_names(x) for _, x in e[3]]) if e[3] else set())
    raise ValueError(k)


def ref_names(e, P):
    """names of the rules an expression refers to (as they are spelled in the description)"""
    k = e[0]
    if k == 'ref':
        return {P['rules'][e[1]][0]}
    if k in ('lit', 'cc', 'py', 'pvar'):
        return set()
    if k in ('seq', 'choice'):
        return set().union(*[ref_names(x, P) for x in e[1]]) if e[1] else set()
    if k in ('star', 'opt', 'where', 'apply', 'rep'):
        return ref_names(e[1], P)
    if k == 'applyl':
        return ref_names(e[1], P) | ref_names(e[2], P)
    if k == 'let':
        return ref_names(e[2], P) | ref_names(e[3], P)
    if k == 'call':
        return set().union(*[ref_names(a, P) for _, a in e[2]]) if e[2] else set()
    if k == 'bseq':
        return set().union(*[ref_names(x, P) for _, x in e[3]]) if e[3] else set()
    raise ValueError(k)


def bind_args(params, args):
    pos = [a for kw, a in args if kw is None]
    kws = {kw: a for kw, a in args if kw is not None}
    out = {}
    for i, q in enumerate(params):
        out[q] = pos[i] if i < len(pos) else kws[q]
    return out


def expand(e, P, depth=0):
    """inline every call of a non-class template: value arguments become `let`, parsers are substituted.
    Returns None when the call cannot be written as its expansion in the description language
    (class templates; recursion deeper than the limit; an argument whose free names the body rebinds)."""
    k = e[0]
    if k in ('lit', 'cc', 'ref', 'py', 'pvar'):
        return e
    if k in ('seq', 'choice'):
        xs = [expand(x, P, depth) for x in e[1]]
        return None if any(x is None for x in xs) else (k, xs)
    if k in ('star', 'opt'):
        x = expand(e[1], P, depth)
        return None if x is None else (k, x)
    if k == 'let':
        a, b = expand(e[2], P, depth), expand(e[3], P, depth)
        return None if a is None or b is None else ('let', e[1], a, b)
    if k in ('where', 'apply', 'rep'):
        x = expand(e[1], P, depth)
        return None if x is None else (k, x, e[2], e[3])
    if k == 'applyl':
        a, b = expand(e[1], P, depth), expand(e[2], P, depth)
        return None if a is None or b is None else (k, a, b)
    if k == 'bseq':
        items = [(nm, expand(x, P, depth)) for nm, x in e[3]]
        return None if any(x is None for _, x in items) else ('bseq', e[1], e[2], items)
    if k == 'call':
        name, params, body = P['templates'][e[1]]
        if depth > 6:
            return None
        if body[0] == 'bseq':
            # a class cannot be written inline: the call stays, its arguments are expanded
            args = [(kw, expand(a, P, depth)) for kw, a in e[2]]
            return None if any(a is None for _, a in args) else ('call', e[1], args)
        try:
            bound = bind_args(params, e[2])
        except (KeyError, IndexError):
            return None
        sigma, lets = {}, []
        inner_binders = bound_names(body) | set(params)
        pyuses = python_names(body)
        for q in params:
            a = expand(bound[q], P, depth)
            if a is None:
                return None
            if (free_names(a) | ref_names(a, P)) & inner_binders:
                return None          # capture (of a local name or of the spelling of a rule): not expressible without renaming
            if a[0] == 'py':
                lets.append((q, a))                       # a value
            elif a[0] == 'pvar':
                sigma[q] = a                              # a name passed along: what the name denotes
                if q in pyuses:
                    lets.append((q, ('py', 0, [a[1]])))
            elif a[0] == 'lit':
                sigma[q] = a                              # value and parser
                if q in pyuses:
                    if a[1] not in CONST_STRS:
                        return None
                    lets.append((q, ('py', 200 + CONST_STRS.index(a[1]), [])))
            else:
                sigma[q] = a
        new = subst(body, sigma)
        new = expand(new, P, depth + 1)
        if new is None:
            return None
        for q, v in reversed(lets):
            new = ('let', q, v, new)
        return new
    raise ValueError(k)


# ---------------------------------------------------------------- generator

VAL_NAMES = ['xa', 'xb', 'xc', 'ya', 'yb', 'za', 'wa', 'ka', 'ma']
PARSER_NAMES = ['pa', 'pb', 'qa', 'qb']


class Gen:
    """typed random programs: value names carry 'S' (str), 'I' (int) or 'A' (anything); parser names 'P';
    string-literal parameters 'B' (value and parser)"""

    def __init__(self, rng, shadow=0.0, named=None):
        self.rng = rng
        self.shadow = shadow
        self.named = named
        self.rules = []
        self.templates = []     # (name, params, kinds, body)
        self.counter = 0

    def fresh(self, scope, parser=False):
        pool = PARSER_NAMES if parser else VAL_NAMES
        if self.rng.random() < self.shadow and not parser:
            inscope = [n for n, k in scope.items() if k in 'SIA']
            if inscope:
                return self.rng.choice(inscope)
        free = [n for n in pool if n not in scope]
        if not free:
            self.counter += 1
            return f'{pool[0]}{self.counter}x'
        return self.rng.choice(free)

    # value-producing inline Python of a wanted type
    def py_value(self, scope, want=None):
        r = self.rng
        S = [n for n, k in scope.items() if k in 'SB']
        I = [n for n, k in scope.items() if k == 'I']
        V = [n for n, k in scope.items() if k in 'SIAB']
        opts = []
        if want in (None, 'I'):
            opts.append(('py', 100 + r.randrange(4), []))
            if I:
                opts.append(('py', 0, [r.choice(I)]))
                opts.append(('py', 6, [r.choice(I)]))
                opts.append(('py', 10, [r.choice(I)]))
            if S:
                opts.append(('py', 5, [r.choice(S)]))
        if want in (None, 'S'):
            opts.append(('py', 200 + r.randrange(len(CONST_STRS)), []))
            if S:
                opts.append(('py', 0, [r.choice(S)]))
        if want in (None, 'A') and V:
            k = r.randrange(1, min(3, len(V)) + 1)
            opts.append(('py', r.choice([1, 8]), r.sample(V, k)))
            opts.append(('py', 0, [r.choice(V)]))
        if not opts:
            return ('py', 100 + r.randrange(4), []), 'I'
        e = r.choice(opts)
        if e[1] >= 200:
            t = 'S'
        elif e[1] >= 100 or e[1] in (5, 6, 10):
            t = 'I'
        elif e[1] in (1, 8):
            t = 'A'
        else:
            t = scope[e[2][0]].replace('B', 'S')
        return e, t

    def expr(self, depth, scope, level):
        """returns (expr, result type); consumes input with good probability"""
        r = self.rng
        S = [n for n, k in scope.items() if k in 'SB']
        I = [n for n, k in scope.items() if k == 'I']
        PS = [n for n, k in scope.items() if k in 'PB']
        if depth <= 0:
            c = r.random()
            if c < 0.3:
                return ('lit', r.choice(['a', 'b', 'ab', 'c'])), 'S'
            if c < 0.55:
                return ('cc', 'a', 'c'), 'S'
            if c < 0.65:
                return ('cc', '0', '3'), 'S'
            if c < 0.8 and PS:
                return ('pvar', r.choice(PS)), 'A'
            if c < 0.9:
                return self.py_value(scope)
            return ('lit', r.choice(['a', 'b'])), 'S'
        c = r.random()
        if c < 0.14:
            n = r.randrange(1, 4)
            return ('seq', [self.expr(depth - 1, scope, level)[0] for _ in range(n)]), 'A'
        if c < 0.26:
            n = r.randrange(2, 4)
            xs = [self.expr(depth - 1, scope, level) for _ in range(n)]
            ts = {t for _, t in xs}
            return ('choice', [x for x, _ in xs]), (ts.pop() if len(ts) == 1 else 'A')
        if c < 0.32:
            # repetition bodies must consume: a sequence that starts with a literal
            body = ('seq', [('cc', 'a', 'c'), self.expr(depth - 1, scope, level)[0]])
            return ('star', body), 'A'
        if c < 0.37:
            return ('opt', self.expr(depth - 1, scope, level)[0]), 'A'
        if c < 0.55:
            e1, t1 = self.expr(depth - 1, scope, level)
            if r.random() < 0.35:
                e1, t1 = ('apply', ('cc', '0', '3'), 4, []), 'I'
            x = self.fresh(scope)
            inner = dict(scope)
            inner[x] = t1
            b, tb = self.expr(depth - 1, inner, level)
            if r.random() < 0.5:
                v, tv = self.py_value(inner)
                b = ('seq', [b, v])
                tb = 'A'
            return ('let', x, e1, b), tb
        if c < 0.65:
            e1, t1 = self.expr(depth - 1, scope, level)
            if t1 == 'S' and S:
                return ('where', e1, r.choice([2, 3]), [r.choice(S)]), 'S'
            if t1 == 'S' and len(S) >= 2:
                return ('where', e1, 9, r.sample(S, 2)), 'S'
            e1 = ('apply', ('cc', '0', '3'), 4, [])
            if I:
                return ('where', e1, 7, [r.choice(I)]), 'I'
            return e1, 'I'
        if c < 0.73:
            e1, t1 = self.expr(depth - 1, scope, level)
            V = [n for n, k in scope.items() if k in 'SIAB']
            names = r.sample(V, min(len(V), r.randrange(0, 3)))
            return ('apply', e1, r.choice([1, 8]), names), 'A'
        if c < 0.77:
            # f <| e: the function is a parser that consumes and returns a lambda capturing what it parsed
            # (a Python lambda captures the variable, not the value: the binder gets a name that nothing else
            # in the program binds, so that no later assignment can reach the captured variable - see DESIGN.md)
            self.counter += 1
            x = f'fn{self.counter}k'
            V = [n for n, k in scope.items() if k in 'SIAB']
            names = [x] + r.sample(V, min(len(V), r.randrange(0, 2)))
            f = ('let', x, ('cc', 'a', 'c'), ('py', 1000 + r.choice([1, 8]), names))
            if r.random() < 0.3:
                f = ('py', 1000 + r.choice([1, 8]), names[1:])
            return ('applyl', f, self.expr(depth - 1, scope, level)[0]), 'A'
        if c < 0.8:
            cnt, _ = self.py_value(scope, 'I')
            return ('rep', ('cc', 'a', 'c'), cnt[1], cnt[2]), 'A'
        if c < 0.86:
            later = [i for i in range(level + 1, len(self.rules_plan))]
            if later:
                return ('ref', r.choice(later)), 'A'
        # call a template
        if self.templates:
            t = r.randrange(len(self.templates))
            name, params, kinds, body = self.templates[t]
            args = []
            for q, kd in zip(params, kinds):
                if kd == 'P':
                    c2 = r.random()
                    if c2 < 0.15 and PS:
                        a = ('pvar', r.choice(PS))
                    elif c2 < 0.3:
                        a = ('lit', r.choice(['a', 'b', 'ab']))
                    else:
                        a = self.expr(max(depth - 1, 1), scope, level)[0]
                        if a[0] in ('py', 'lit', 'pvar'):
                            a = ('seq', [a])
                elif kd == 'B':
                    a = ('lit', r.choice(['a', 'b', 'ab']))
                else:
                    a, ta = self.py_value(scope, kd)
                    if ta != kd and kd != 'A':
                        a = ('py', 100 + r.randrange(4), []) if kd == 'I' else ('lit', 'a')
                    if kd == 'S' and a[0] == 'py' and r.random() < 0.3:
                        a = ('pvar', a[2][0]) if a[1] == 0 else a
                args.append((q, a))
            # positional prefix, keywords for the rest (shuffled)
            cut = r.randrange(len(args) + 1) if r.random() < 0.4 else len(args)
            pos = [(None, a) for _, a in args[:cut]]
            kws = list(args[cut:])
            r.shuffle(kws)
            return ('call', t, pos + kws), 'A'
        return ('lit', 'a'), 'S'

    def template(self, idx, depth):
        r = self.rng
        n = r.randrange(1, 4)
        params, kinds = [], []
        scope = {}
        for _ in range(n):
            kd = r.choice(['P', 'P', 'S', 'I', 'A', 'B'])
            nm = self.fresh(scope, parser=kd in 'PB')
            if r.random() < 0.12:
                nm = r.choice(['R1', 'R2'])      # a parameter that hides a rule of the same name
            while nm in scope:
                nm = self.fresh({**scope, **{x: 'S' for x in VAL_NAMES if x in scope}}, parser=kd in 'PB') + 'q'

            params.append(nm)
            kinds.append(kd)
            scope[nm] = kd
        name = f'T{idx}'
        if r.random() < 0.3:
            body = self.class_body(f'T{idx}', depth, scope, 10 ** 6)
        else:
            body = self.expr(depth, scope, 10 ** 6)[0]
            # make sure every parser parameter is used
            unused = [p for p, kd in zip(params, kinds) if kd in 'PB' and p not in free_names(body)]
            if unused:
                body = ('seq', [body] + [('opt', ('pvar', p)) for p in unused])
        return (name, params, kinds, body)

    def class_body(self, ctor, depth, scope, level):
        r = self.rng
        scope = dict(scope)
        items, fields = [], []
        for _ in range(r.randrange(1, 5)):
            c = r.random()
            e, t = self.expr(depth - 1, scope, level)
            if r.random() < 0.3:
                e, t = ('apply', ('cc', '0', '3'), 4, []), 'I'
            if c < 0.2:
                items.append((None, e))
            else:
                nm = self.fresh(scope)
                if nm in [n for n, _ in items]:
                    continue
                items.append((nm, e))
                scope[nm] = t
                if c < 0.8:
                    fields.append(nm)
        return ('bseq', ctor, fields, items)

    def program(self, n_rules=3, n_templates=3, depth=3):
        self.rules_plan = list(range(n_rules))
        self.templates = []
        # templates first, later ones may call earlier ones
        for i in range(n_templates):
            self.templates.append(self.template(i, depth - 1))
        rules = []
        hidden = {q for _, ps, _, _ in self.templates for q in ps}
        for i in range(n_rules):
            # (a rule whose name a parameter hides stays a plain rule: a class R1 whose body, after expansion,
            # binds a local R1 would hide its own constructor - a collision the renaming property C20 excludes)
            if f'R{i}' not in hidden and ((i > 0 and self.rng.random() < 0.3) or (i == 0 and self.rng.random() < 0.15)):
                body = self.class_body('start' if i == 0 else f'R{i}', depth, {}, i)
            else:
                body = self.expr(depth, {}, i)[0]
            rules.append(('start' if i == 0 else f'R{i}', body))
        return {'rules': rules, 'templates': [(n, p, b) for n, p, _, b in self.templates], 'named': self.named,
                'ignore': self.rng.random() < 0.25}


def inputs_for(rng, n=10):
    out = ['', 'a', 'ab', 'abc', 'aab', '1a', '2ab', '0', 'b', 'abab', 'ca1b']
    for _ in range(n):
        out.append(''.join(rng.choice('aabbc0123') for _ in range(rng.randrange(1, 7))))
    return list(dict.fromkeys(out))


def sample(e, P, rng, env=None, depth=0):
    """a string that the expression is likely to accept (predicates and counts are guessed)"""
    env = env or {}
    if depth > 12:
        return ''
    k = e[0]
    if k == 'lit':
        return e[1]
    if k == 'cc':
        return chr(rng.randrange(ord(e[1]), ord(e[2]) + 1))
    if k == 'seq':
        return ''.join(sample(x, P, rng, env, depth + 1) for x in e[1])
    if k == 'choice':
        return sample(rng.choice(e[1]), P, rng, env, depth + 1)
    if k == 'star':
        return ''.join(sample(e[1], P, rng, env, depth + 1) for _ in range(rng.randrange(0, 3)))
    if k == 'opt':
        return sample(e[1], P, rng, env, depth + 1) if rng.random() < 0.6 else ''
    if k == 'ref':
        return sample(P['rules'][e[1]][1], P, rng, {}, depth + 1)
    if k == 'pvar':
        if e[1] in env:
            a, aenv = env[e[1]]
            return sample(a, P, rng, aenv, depth + 1)
        return ''
    if k == 'py':
        return ''
    if k == 'let':
        return sample(e[2], P, rng, env, depth + 1) + sample(e[3], P, rng, env, depth + 1)
    if k in ('where', 'apply'):
        return sample(e[1], P, rng, env, depth + 1)
    if k == 'applyl':
        return sample(e[1], P, rng, env, depth + 1) + sample(e[2], P, rng, env, depth + 1)
    if k == 'rep':
        n = e[2] - 100 if 100 <= e[2] < 200 else rng.randrange(0, 4)
        return ''.join(sample(e[1], P, rng, env, depth + 1) for _ in range(n))
    if k == 'call':
        name, params, body = P['templates'][e[1]]
        try:
            bound = bind_args(params, e[2])
        except (KeyError, IndexError):
            return ''
        return sample(body, P, rng, {q: (a, env) for q, a in bound.items()}, depth + 1)
    if k == 'bseq':
        return ''.join(sample(x, P, rng, env, depth + 1) for _, x in e[3])
    raise ValueError(k)


def inputs_from(P, rng, n=10):
    out = []
    for _ in range(n):
        s = sample(P['rules'][0][1], P, rng)
        out.append(s)
        if s and rng.random() < 0.4:
            i = rng.randrange(len(s))
            out.append(s[:i] + rng.choice('abc0123') + s[i + 1:])
        if rng.random() < 0.2:
            out.append(s + rng.choice('abc0'))
    return list(dict.fromkeys(out))
