"""Writes /verif/MANIFEST.json from the table below (kept in one place so it stays valid)."""
import json
import os

VERIF = os.path.dirname(os.path.dirname(os.path.abspath(__file__)))

CHECKS = {
    'C01': dict(
        technique='Lean 4 refinement theorem (gen ≈ peg for every locally sound flag table) + flag table regenerated from source and checked by kernel evaluation + differential correspondence',
        text=('Proof: C01_codegen_refines_peg shows, for all grammars/inputs/positions/fuel, that the model of the '
              'emitted code computes the documented PEG meaning whenever the static flag table satisfies '
              'LocallySound; the table is re-extracted from /repo on every run and LocallySound is re-proved '
              '(Tie.implFlags_sound). The model is tied to the code by running real Grammar()/parse and the '
              'compiled Lean model on the prepared expression objects of thousands of enumerated grammars x all short inputs.'),
        note=('Trusted: Lean kernel; propext/Classical.choice/Quot.sound; extractor T1; the hand-written denotation `gen` of '
              'the emitted Python (tied by the correspondence run, not derived); CPython re replaced by a matcher parameter in theorems.'),
        design='7 (C01), 4.1 T1'),
}

CHECKS['C03'] = dict(
    technique='Lean 4 theorems on the spec of bounded repetition/Sep (bounds, greediness, trailer, allow_empty, require_separator) + the C01 refinement theorem + differential correspondence incl. data-dependent bounds',
    text=('Proof: the List/Sep cases of C01_codegen_refines_peg (code model computes the documented meaning for every locally sound flag table, '
          're-proved for the table extracted from /repo), plus C03_len_bounds, C03_sep_trailer, C03_sep_allow_empty, C03_sep_require_separator, '
          'C03_sep_keeps_separators, C03_no_effect_on_failure about the specification. Correspondence: element x bounds x Sep option sets x contexts x all short inputs; '
          'data-dependent bounds (let-bound, rule parameter, parsed digit) are compared on the implementation against the static spelling the model decides.'),
    note=('Trusted as for C01. Data-dependent bounds are not in the Lean expression type yet: they are tied to the proved static case by a metamorphic '
          'run on the implementation only.'),
    design='7 (C03)')

CHECKS['C04'] = dict(
    technique='Lean 4 model of grammar preparation with theorems (every literal skips, skip rule = Skip over the ignored rules, leading skip only at the start rule, skip maximal) + re-indexing theorem for the lengthening clause + C01 refinement + correspondence of the preparation model with the real translator + metamorphic lengthening run',
    text=('Proof: C04_every_literal_skips, C04_ignored_rule, C04_leading_skip, C04_no_other_skip_point about the Lean model `prepare` of the translator front half; '
          'C04_literal_then_skip and C04_skip_maximal about the specification; the emitted code is covered by C01_codegen_refines_peg. '
          'Tie: for every generated grammar the prepared expression objects of the real translator are compared structurally with `prepare` of the same grammar, and real parse '
          'results with peg(prepare(grammar)) on all short inputs containing ignorable text in every position; the lengthening clause is also run metamorphically on the implementation (every ignorable run doubled). '
          'C04_lengthening / C04_reindexing: doubling one character w of the input changes no parsed value (an equation of Option values for every expression incl. operator tables: defined together, same outcome, same value, spans and end position moved past the doubled character), '
          'for an ignore rule Skip over regexes whose matches end at corresponding positions, literals that do not contain w, token regexes that neither match nor look at it and no Backtrack - an instance of a general re-indexing law for strictly monotone position maps (of which the C08 shift law is another). '
          'PARTIAL: that a concrete regular expression satisfies the stability hypotheses is a fact about the matcher, a parameter of the model.'),
    note='Trusted as for C01; start rule = the rule named start (any capitalisation), else the first rule that is not ignored (C04_start_rule; one generated grammar in five has none).',
    design='7 (C04)')

CHECKS['C05'] = dict(
    technique='Lean 4 names-layer model (lexical specification xpeg with environments and closures; code model xgen with one flat dictionary of locals per call and helper functions over sorted free names) with a simulation theorem for all well-scoped programs + binding facts and static flags of the names-layer classes regenerated from the source (T4) + differential correspondence of real parser, code model and specification',
    text=('Proof: C05_flat_locals_realise_lexical_scoping (xgen_sim: on every well-scoped program without shadowing, wherever the lexical specification is defined the model of the generated code computes the same outcome and leaves the names in scope as they were - '
          'for every interpretation of inline Python, every input and fuel), C05_rule_outcome, C05_where_apply_class (what where / |> / <| / class bodies mean), C05_specification_layers_agree (the names layer and the core specification agree on their common fragment), '
          'C05_shadowing_breaks_it (the lexical specification and the code model differ on the shadowing witness, and the code model returns what the real parser returns: the recorded finding). '
          'Tie: T4 regenerates on every run which names the real symbol counter treats as bound where, and the static flags of Where/Let/Call/data-dependent List for all operand flags; Tie.binders_agree and Tie.names_flags_conservative re-prove that they are what the model presupposes. '
          'Correspondence: hand-written families for every clause (abandoned alternatives, repetition, recursion, counts, classes with let/pass/requires members, <| and |> order, parameters hiding rules, predicates that reject consumed text under * ? | {n}, == but differently typed keyword arguments) '
          'and typed random programs, named and unnamed: real parser = xgen (is the model faithful?), real parser = xpeg (does the property hold?), sorted(expr.freevars()) of every argument expression = captured e. '
          'PARTIAL: programs in which a binder shadows a name in scope violate the property (known findings C05-shadowing, C05-lambda-late-binding); positions are threaded functionally in the names layer (restores are the subject of C01/C03 and of names_flags_conservative).'),
    note=('Trusted: Lean kernel; propext/Classical.choice/Quot.sound; translator T4; inline Python is an uninterpreted pure function in the theorems and a fixed repertoire (identity, tuples, lists, comparisons, int, len, +1, constants, lambdas) in the correspondence; '
          'the hand-written model xgen of the emitted code (tied by the correspondence run).'),
    design='0.2 (names layer), 7 (C05)')

CHECKS['C06'] = dict(
    technique='Lean 4 theorems about the names-layer model: a call means the body with the parameters bound to the arguments (semantic), a call means its textual expansion (step-indexed substitution simulation, closed arguments), fuel monotonicity + the C05 simulation theorem for the generated code + call-versus-expansion correspondence on the real generator',
    text=('Proof: C06_call_is_body_with_arguments and C06_arguments_bind_parameters (positional and keyword arguments in any order bind the parameters; the call evaluates the body in exactly that environment), '
          'C06_call_means_its_expansion_closed_arguments (Proofs/EnvSubst: the call and the body with the argument expressions substituted for the parameters have the same outcome, closures compared by behaviour in a step-indexed relation), '
          'C06_more_fuel_same_outcome, and C05_flat_locals_realise_lexical_scoping for the generated code (helper functions over sorted free names, values captured at the call site, _StringLiteral). '
          'Tie: T4 (as for C05). Correspondence: families (same template at one position with different arguments, nested in itself, positional/keyword, values of every type incl. unhashable and == but differently typed ones, literals as value and parser, '
          'compound arguments that mention call-site names and are passed on, recursion, classes with parameters, every single differing argument index) and typed random programs: real = xgen, real = xpeg, and the real parser of the program = the real parser of its textual expansion '
          '(the expansion function of the harness is compared with the Lean subst on every program); for bytes literals, parsed objects, keyword/container arguments, the n=n lambda idiom, classes named like constructors and tuple-valued inline Python arguments the call is compared with a hand-written expansion on the real generator. '
          'PARTIAL: the expansion theorem is proved for closed argument expressions; arguments that mention call-site names are covered by the semantic theorem and by the correspondence. The memo of the trampoline is outside the names layer (C07).'),
    note='Trusted as for C05; the textual expansion of the harness refuses call sites whose arguments mention a name that the body rebinds (no renaming is attempted).',
    design='0.2 (names layer), 7 (C06)')

CHECKS['C07'] = dict(
    technique='Lean 4 model of the _run trampoline (stack + memo small-step machine) with invariant and simulation theorems + step-trace correspondence of the real _run driven by synthetic generators + evaluation-count checks on exponential grammar families',
    text=('Proof: C07_memo_transparent (machine = direct recursive evaluation of the bodies, for all body systems), C07_started_only_on_miss and C07_hit_returns_stored (no hypothesis), '
          'C07_at_most_once / C07_evaluation_bound / C07_memo_write_once (under no re-entry of a key that is on the stack, by an inductive invariant over all reachable states). '
          'Tie: the real _run of a generated module is driven with generator functions built from random finite resumption trees and its event trace (begin/resume/return per key) is compared '
          'token for token with the Lean machine; end to end, rule bodies log through inline Python and every (rule, position) must be logged at most once, also through rule parameters.'),
    note='Trusted: Lean kernel; generator send/yield semantics of CPython are modelled by Prog/Gtor, tied by the trace comparison.',
    design='7 (C07)')

CHECKS['C09'] = dict(
    technique='Python->Lean translation (T2) of the runtime excerpt/line-column arithmetic regenerated on every run + Lean 4 theorems about the translated definitions (all texts, all indices) + exhaustive message sweep on the implementation + failing-position correspondence with the code model',
    text=('Proof: Tie.excerpt_spec (for every text and every index not holding a line break, the translated _extract_excerpt yields one line without line break followed by a caret standing '
          'under text[index], in all four abbreviation regimes and for lines of any length) and Tie.linecol_spec (line = 1 + newlines before, column = 1 + offset in line), Tie.linecol_defined_iff (a pair exists for exactly the indices below len(text): at the end of input the function is an IndexError, which is why the emitted code reports None, None there) and Tie.linecol_at_newline (what the table holds at a line break - the indices the property excludes) are proved about '
          'Gen/Excerpt.lean, which translator T2 regenerates from the runtime text in /repo/sourcer/translator.py on every run; a changed constant or comparison breaks the proof for all inputs at once. '
          'T2 itself is validated by running the translated definitions against the real functions. The implementation messages are swept over line length x column x line position. '
          'PARTIAL: index in [pos, len] / never beyond the first unmatchable character is tied through the failing _pos of the code model on the C01 grammar set (no theorem yet); bytes rendering not modelled.'),
    note='Trusted: Lean kernel; translator T2 (validated differentially on every run); Python slice/regex-search primitives as modelled in Sourcer/PyPrim.lean.',
    design='7 (C09), 4.1 T2')

CHECKS['C08'] = dict(
    technique='Lean 4 theorems (outcome of parse fixed by the spec match; no IndexError because all spans and positions stay inside the input, incl. lookahead/Backtrack) on top of the C01 refinement + API-level differential correspondence over every entry point x offset x fullparse',
    text=('Proof: C08_match_outcome (match => value or PartialParseError(value, end) exactly by fullparse/end-of-input, finalisation never raises: peg_bounded shows every span and position of a parsed value lies in [0, len] for all programs) '
          'and C08_failure_outcome (no match => ParseError, index in [pos, len]) for every locally sound flag table. Tie: module-level parse, R.parse and C.parse of every rule/class of generated grammars on all short inputs, every start '
          'offset and both fullparse values, compared with the Lean parseApi(gen) and with the spec outcome; the shift law also metamorphically on the implementation. '
          'C08_shift_law / C08_shift_law_generated_code: for programs without Backtrack and a shift-invariant matcher, peg (pre ++ text) from pre.length + p = peg text from p with end position and all spans moved by pre.length (an equation of Option values, all constructs incl. operator tables), and the code model follows. '
          'PARTIAL: shift-invariance of the regex matcher (no anchors) is a hypothesis; parameterised-class entry points are checked on the implementation only.'),
    note='Trusted as for C01; _finalize_parse_info is modelled by hand (Sourcer/Api.lean: finalize, parseApi) and tied by the correspondence.',
    design='7 (C08)')

CHECKS['C10'] = dict(
    technique='Lean 4 theorems on spans in the specification (exact span of a class instance, nesting, successive members/elements in successive intervals) + C01 refinement + translated line/column theorem + every-instance differential correspondence',
    text=('Proof: C10_span_exact (an instance carries (position where its match began, position where it ended)), C10_finalized_end, C10_nested (every span inside a value parsed from p to p\' lies in [p, p\'], by induction over all constructs), '
          'C10_ordered_seq / C10_ordered_list (values of successive members/elements occupy successive intervals) for programs without value-producing lookahead and Backtrack; the code model computes the same values (C01), '
          'line and column of an offset are Tie.linecol_spec. Tie: every instance of every result of generated class grammars (nested, repeated, optional, separated, memo-reused, behind abandoned alternatives, with ignore, pos>0, multi-line) is compared '
          'with the model (index spans) and with the line/column of its offsets.'),
    note='Trusted as for C01/C09; conversion-exactly-once of shared instances is checked on the implementation only.',
    design='7 (C10)')

CHECKS['C14'] = dict(
    technique='Lean 4 model of Python == / ParsedObject.__hash__ / _hash / _asdict / _replace on result trees with theorems (equivalence relation, same class and equal fields, equal => equal hash through lists/tuples/dicts, _replace) + pairwise differential correspondence on pools of equal / almost-equal trees',
    text=('Proof: C14_eq_equivalence (reflexive, symmetric, transitive, incl. True == 1 and containers), C14_eq_iff_same_class_and_fields, C14_obj_ne_other, C14_eq_implies_hash_eq (for every choice of builtin hash functions whose tuple hash '
          'depends only on element hashes; the "same path through _hash" lemma is hashable_congr), C14_asdict_order, C14_replace. Tie: the Lean peq decides == for all ordered pairs of pools of real objects built to contain '
          'equal-but-not-identical and almost-equal members; hash consistency, sets, _asdict, _replace (incl. explicit None) are compared. PARTIAL: copy.deepcopy, pickle and eval(repr(x)) have no model and are exercised on the implementation only.'),
    note='Trusted: Lean kernel; floats/NaN outside the model; dicts canonicalised by key order; CPython builtin hash as a parameter.',
    design='7 (C14)')

CHECKS['C15'] = dict(
    technique='Lean 4 models of the explicit-stack loops of visit and traverse with theorems identifying them with recursive depth-first specifications (arbitrary sharing, identical leaves) + event-for-event correspondence on random object graphs',
    text=('Proof: C15_visit_eq_first_occurrence_preorder and C15_traverse_events (loop = recursive specification for every tree with arbitrary identities, by induction on a stack measure), C15_visit_at_most_once (no object twice, only reachable ones), '
          'C15_visit_complete (no identity of an object or container occurring twice: exactly the reachable objects in pre-order; both loops remember objects and containers, as the code does), C15_traverse_brackets. Tie: real visit/traverse on random object graphs with shared sub-objects/containers and identical leaf objects (None, cached ints, '
          'interned strings, the empty tuple) are compared object-for-object and event-for-event (by identity) with the Lean loops. PARTIAL: "not limited by recursion depth" is exercised on depth 3000..20000 only.'),
    note='Trusted: Lean kernel; object graphs modelled as identity-labelled trees.',
    design='7 (C15)')
CHECKS['C16'] = dict(
    technique='Lean 4 model of transform/_transform and the callback chain with theorems (once per node, post-order, identity law, metadata rule) + differential correspondence with callbacks given as data',
    text=('Proof: C16_once_per_node (|log| = callbacks x object occurrences), C16_bottom_up (the first callback sees the occurrences in post-order, each rebuilt from transformed children), C16_identity, C16_metadata, '
          'C16_copy_keeps_metadata, C16_leaves_and_lists. Tie: the real transform and the Lean model run the same data-described callbacks (identity, class-to-class with/without metadata, to scalar, to list, _replace, equal copy) on random trees; '
          'result incl. metadata of every node, callback log with arguments, and the input afterwards are compared.'),
    note='Trusted: Lean kernel; Python identity is abstracted to "callback returned its argument or a different object".',
    design='7 (C16)')

CHECKS['C02'] = dict(
    technique='Lean 4 model of the emitted shunting-yard loop inside the code model + refinement theorem to the operational specification (PEG sub-parsers + operator-precedence stacks) + declarative theorem by stack invariant: the result is a well-shaped tree whose in-order reading is a trace of consecutively accepted operands and operators ending at the returned position + differential correspondence over random tables x token strings',
    text=('Proof: C02_tree_well_shaped_and_yield (for every tagged table, fuel, input and position: the value returned is OTree.toVal of a tree that is WellShaped - every operator open at the right edge of a left operand gives way (tighter row, or same row and left-associative), '
          'every operator open at the left edge of a right operand is held (not tighter-or-left, no non-associative conflict), prefix/postfix likewise - and whose yield is a Trace of the sub-parsers from the start to the returned end position: exactly the occurrences consumed, ending with a complete operand), '
          'C02_generated_code_builds_that_tree (the code model gen returns that value and position: genOT_refines inside C01_codegen_refines_peg, with the OperatorTable/Apply flags re-extracted from /repo), C02_reductions_preserve_order. '
          'Tie: random tables (1-5 rows, all six row kinds, operator spellings shared between prefix/infix/postfix rows and prefixes of one another, literal / regex / rule / class / consuming-rule operands, several enclosing contexts) x token strings, complete and truncated: '
          'tree and end index compared with the Lean model and specification; the tagging hypothesis of the theorem is evaluated by the driver (allTablesTagged) on every table the real generator builds. '
          'C02_unique / C02_result_is_the_well_shaped_tree (two well-shaped trees with the same reading are equal: the stack operations rebuild every well-shaped tree from its reading). '
          'C02_run_is_maximal (the expression ends at the returned position only because no infix operator can be read there, or the one read is not followed by an operand - it is left unconsumed -, or it is non-associative and one of its row is open at the right edge).'),
    note='Trusted as for C01.',
    design='0.2, 0.9, 7 (C02)')

CHECKS['C11'] = dict(
    technique='Lean 4 theorem on the context table of a parentless named module (identity) + C01 refinement for the unnamed reading + cross-variant differential run (named / include_source / repeated compilation / emitted source in an isolated interpreter) against each other, against template expansions and against the Lean model',
    text=('Proof: C11_context_table_identity (looking a rule up through the _Context table of a module without parent finds the rule own implementation - what the direct reference of an unnamed grammar denotes); the unnamed reading is decided by the '
          'core model (C01). Tie: every sampled description (core, ignore, class, operator-table, template and parameter descriptions) is compiled as {unnamed, named, include_source, second compilation, named+include_source} and its emitted '
          '_source_code is imported by a fresh interpreter started with -I -S (standard library only); all variants must agree on outcome class, value incl. spans, and position; named and unnamed variants are compared with the Lean model, '
          'template descriptions with hand-written expansions. PARTIAL: compile/exec/importlib/include_source have no model.'),
    note='Trusted as for C01; the variants are implementation-level observations.',
    design='7 (C11)')

CHECKS['C12'] = dict(
    technique='generation 0/1/2 differential (shipped parser vs parser regenerated from grammar.txt on repository, generated and corrupted descriptions; text fixed point of regeneration) resting on the Lean 4 refinement theorem for what emitted code computes',
    text=('Proof part: by C01_codegen_refines_peg (and the flag table re-proved from source) the parser that any generation emits for a rule computes the PEG meaning of the expression objects it was generated from, so generations agree on every description iff they '
          'were generated from equal objects and equal runtime text. That finite residue is checked on every run: shipped parser and generation 1 produce the same tree or the same rejection index for every description of the repository, for generated and for '
          'corrupted descriptions; generation 1 accepts grammar.txt; generation 2 (generation 1 installed in a scratch copy) reproduces generation 1 byte for byte. PARTIAL: the metagrammar itself (templates, where, inline Python) is outside the Lean '
          'expression type, and bootstrapping (exec/importlib) has no model - those parts are implementation-level.'),
    note='Trusted as for C01; scratch copies live under a temporary directory outside /repo and /verif and are removed. The shipped parser.py text differs from generation 1 since the fix: commits changed runtime text; behaviour is compared.',
    design='7 (C12)',
    category='proof')

CHECKS['C13'] = dict(
    technique='Lean 4 model of the _Context tables of an extends chain with theorems (lookup = nearest definer; super = next definer above the writing module) + C01 refinement for the flattened grammar + chain-vs-flattening differential correspondence',
    text=('Proof: C13_late_binding (the table the generated epilogue builds binds every name to the nearest level of the chain that defines it, for chains of any length) and C13_super; C13_flattening / C13_flattened_name (the program the modules of a chain amount to - every definition a rule, plain references through the entry table, super.k through the parent table of the containing module - means what the flattened single grammar means, for expressions written at any level; via C13_rule_numbering_is_immaterial: the meaning does not depend on how rules are numbered, ordered or duplicated); the flattened grammar is decided by the core model (C01). The flattening computed by the harness is compared rule by rule with the Lean construction (driver command flatten) on every generated chain. Every rule of every level is also used as entry point (B.R.parse). '
          'Tie: random chains of 2-3 grammars (overridden / inherited / new rules, super references at every level, ignore declarations named and anonymous in base and derived levels, dotted names, templates overridden and rules passed as arguments) '
          'are parsed through every level and compared with the flattened grammar compiled by the real code; flattened grammars are compared with the Lean model; base modules are re-observed after children (and a sibling reusing a name) were created. '
          'PARTIAL: sys.modules/importlib have no model; what an ignore declared only in a derived grammar does to inherited rules is not constrained by the property and not checked.'),
    note='Trusted as for C01; the flattening function of the harness is tied to Chain.flatProg on every run. Known finding: entry points of inherited classes (C13-inherited-class-entry-point).',
    design='7 (C13)')

CHECKS['C17'] = dict(
    technique='Lean 4 theorems on the specification (k-fold transparent wrappers, for every k) + C01 refinement + C07 trampoline theorem + depth sweep of wrapper kinds x inner expressions across every block-budget threshold against expected values and the Lean model, plus 10^4-10^5-deep inputs',
    text=('Proof: C17_nested_sequences, C17_nested_options, C17_nested_failing_choices (k layers yield the k-fold wrapped value, for every k and every inner expression, in the specification; the code model follows by C01), '
          'C07_memo_transparent (the trampoline computes the recursive meaning with a flat loop), C17_spilled_helper_same_outcome (names layer: an expression run in a helper frame that holds nothing but the values of its sorted free names has the lexical outcome, the same as compiled in place). Tie: names-layer programs whose binder scopes are wrapped past the block budget (real = code model = specification); inner expressions (literal, regex, rule/class reference, template calls, inline Python and repetition counts mentioning bound names, parameters, '
          'operator tables, never-failing expressions) x wrapper kinds x depths 1..120 (every multiple of the block budget crossed) x named/unnamed x with/without ignore are compiled and run by the real code and compared with the k-fold wrapped value; '
          'a subset is compared with the Lean model, which has no nesting limit. PARTIAL: the split into helper functions itself and the flatness of the Python stack are not expressible in the model; inputs with 10^4 (thorough 10^5) nested brackets are run under the default recursion limit.'),
    note='Trusted as for C01.',
    design='7 (C17)')
CHECKS['C18'] = dict(
    technique='Lean 4 theorem that any interleaving of the steps of two _run machines equals their sequential runs (all state is per call) + history differential: every call of random histories against the same call alone on a freshly compiled module, threads, re-entrant and raising callbacks, later Grammar() calls',
    text=('Proof: C18_interleaving (for every schedule, each of two machines ends where it would running alone: a step reads and writes only its own call state), C18_interleaving_any_number (the same for any number of calls in flight under any schedule) and C18_nested_call_is_invisible (a nested parse run to its end at a callback point leaves the outer call where uninterrupted steps take it), with C07_memo_write_once and C08_match_outcome describing the per-call outcome. '
          'The model has no shared state by construction, so the theorems are the oracle, not evidence about the code. Tie: random histories on one module (all entry points; texts built at run time with equal lengths so that freed texts are reused; '
          'failing calls, calls raising from inline Python, nested parses started from inline Python; gc and Grammar() calls in between) - every outcome incl. line/column equals the outcome alone on a fresh module; 2-4 threads with a 1e-6 s switch interval; '
          'modules extending or reusing the name of an existing module must not alter it. PARTIAL: thread schedules and the GIL are runtime behaviour, sampled only.'),
    note='Trusted: Lean kernel; the history harness.',
    design='7 (C18)')

CHECKS['C19'] = dict(
    technique='Lean 4 model of the translator front end (elabSyn) with theorems that operator and constructor spellings elaborate to the same expression + operator table of the metagrammar regenerated from grammar.txt and proved equal to the documented grouping (T3) + spelling/layout differential correspondence',
    text=('Proof: C19_sugar (e?/Opt, e*/List, e+/Some, >>/Right, <</Left, ///Sep, /?/Sep(allow_trailer=True), [a,b]/Seq elaborate to the very same expression), C19_repeat (e{m,n}/List(min_len,max_len)), C19_choice (a|b/Choice for non-choice operands), '
          'Tie.metaTable_grouping (the rows of the Expr operator table that generation 1 reads from grammar.txt, regenerated on every run, are the documented ones in the documented order: by C02 un-parenthesised operators group accordingly). '
          'Tie: every generated expression is rendered in random combinations of alternative spellings and layouts; the real parser + translator must produce the same prepared expression objects and the compiled parsers the same outcomes; '
          'un-parenthesised operator chains are compared with their documented grouping; every description is also compared with the Lean meaning (prepare + peg) of the expression it spells (the generator tree, independent of the real translator). '
          'PARTIAL: layout clauses (comments, newlines, ";", redundant parentheses) are decided by running the real description parser only.'),
    note='Trusted as for C01; translator T3 (harness/meta2lean.py).',
    design='7 (C19), 4.1 T3')

CHECKS['C20'] = dict(
    technique='Lean 4 theorem that the meaning is equivariant under renaming of classes and fields (all constructs incl. operator tables); rules/parameters/let variables are positions in the models, so renaming them is the identity by construction; the Python identifiers of the generated text are decided by a renaming metamorphic correspondence against the real generator with adversarial name lists derived from the emitted module and the runtime text on every run',
    text=('Proof: C20_renaming_changes_only_names (for all renamings c, f of classes and fields that leave the API names alone, every program, input, fuel, expression, position: peg (renamed program) (renamed e) = (peg program e).map rename - same definedness, outcome class and positions, value renamed), '
          'C20_injective_renaming_keeps_classes_apart. PARTIAL: what can break the property lives in the emitted Python text (temporaries, helpers, builtins) and has no counterpart in the model; it is decided by correspondence: grammar families with rules, classes, templates, fields, parameters and let variables; '
          'every slot is renamed, one at a time and all at once (injectively), into random identifiers, names shaped like the temporaries the emitted module really uses, names of locals of generated/runtime functions, '
          'builtins read by the runtime text or the generated functions, and expression-constructor names; values (names mapped back), positions and error classes must equal those under the neutral naming. '
          'Open known findings: names equal to a builtin that the runtime/generated code reads (module level and local).'),
    note='Trusted as for C01; the name lists are derived by ast from the emitted source and the runtime text.',
    design='0.2, 7 (C20)')

NOT_YET = {
}

ALL = [f'C{i:02d}' for i in range(1, 21)]


def main():
    checks = []
    for pid in ALL:
        if pid not in CHECKS:
            continue
        c = CHECKS[pid]
        checks.append({
            'property_id': pid,
            'quick_cmd': f'./check {pid} --tier quick',
            'thorough_cmd': f'./check {pid} --tier thorough',
            'evidence_file': f'evidence/{pid}.json',
            'replay_cmd_template': f'./check {pid} --replay {{path}}',
            'engine': 'lean-model+correspondence',
            'level_claimed': {'category': c.get('category', 'proof'), 'text': c['text'], 'design_ref': c['design']},
            'level_note': c['note'],
            'technique': c['technique'],
        })
    # a check module without an entry in the table above would silently stay out of the interface
    built = {f'C{name[1:3]}' for name in os.listdir(os.path.join(VERIF, 'harness', 'props')) if name.startswith('c') and name.endswith('.py') and name[1:3].isdigit()}
    missing = sorted(built - set(CHECKS))
    if missing:
        raise SystemExit(f'harness/props has check modules that the manifest table does not list: {missing}')
    na = [{'property_id': pid, 'reason': NOT_YET.get(pid, 'check not built yet in this round (model and theorems planned in DESIGN.md section 7); not claimed')}
          for pid in ALL if pid not in CHECKS]
    doc = {
        'version': 1,
        'setup_cmd': 'cd lean && lake build Sourcer driver Gen Tie xdriver',
        'hooks': {
            'guard': 'SOURCER_VERIF',
            'enable': 'no source hooks are needed; checks import /repo in-process and set SOURCER_VERIF=1 (unused by /repo)',
            'baseline_off_cmd': 'cd /repo && /venv/bin/python -m pytest -ra -q -p no:cacheprovider --timeout=900 --continue-on-collection-errors',
            'source_commits': [],
            'add_only': True,
        },
        'engines': [{
            'name': 'lean-model+correspondence',
            'path': 'check',
            'serves_properties': [c['property_id'] for c in checks],
            'kind_free_text': 'Lean 4 model + theorems (lean/), translators regenerating Lean from /repo, differential correspondence harness (harness/)',
        }],
        'checks': checks,
        'not_applicable': na,
        'notes': 'See DESIGN.md. known_findings.json lists recorded and fixed defects.',
    }
    with open(os.path.join(VERIF, 'MANIFEST.json'), 'w') as f:
        json.dump(doc, f, indent=1, ensure_ascii=False)
        f.write('\n')


if __name__ == '__main__':
    main()
