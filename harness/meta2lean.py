"""Translator T3 (operator table of the metagrammar): the rows of the `Expr` table in /repo's
grammar.txt, as read by the parser generated from it by the current code -> Gen/MetaTable.lean."""
import ast
import os

from common import LEAN, REPO


class Untranslatable(Exception):
    pass


def _leaves(node, parser):
    """string literals and rule names mentioned by an operator expression, in source order
    (the names of templates that are called, like `wrap`, are not operators)"""
    out = []
    if isinstance(node, parser.StringLiteral):
        out.append(ast.literal_eval(node.value))
    elif isinstance(node, parser.Ref):
        out.append(node.value)
    elif isinstance(node, parser.Postfix):
        if isinstance(node.operator, parser.ArgList):
            for a in node.operator.args:
                out += _leaves(a, parser)
        else:
            out += _leaves(node.left, parser)
    elif isinstance(node, parser.Infix):
        out += _leaves(node.left, parser) + _leaves(node.right, parser)
    elif isinstance(node, parser.KeywordArg):
        out += _leaves(node.expr, parser)
    elif isinstance(node, (list, tuple)):
        for x in node:
            out += _leaves(x, parser)
    return out


def extract():
    import realrun
    text = open(os.path.join(REPO, 'grammar.txt')).read()
    gen1, _ = realrun.compile_grammar(text)
    tree = gen1.parse(text)
    rule = None
    for stmt in tree.body:
        if type(stmt).__name__ == 'RuleDef' and stmt.name == 'Expr':
            rule = stmt
    if rule is None:
        raise Untranslatable('no rule named Expr in grammar.txt')
    expr = rule.expr
    if not (type(expr).__name__ == 'Postfix' and type(expr.operator).__name__ == 'OperatorTable'):
        raise Untranslatable('Expr is not an operator table')
    rows = []
    for row in expr.operator.rows:
        rows.append((row.associativity, _leaves(list(row.operators), gen1)))
    return rows


def render(rows):
    def q(s):
        return '"' + s.replace('\\', '\\\\').replace('"', '\\"') + '"'
    body = ',\n'.join(f'  ({q(k)}, [{", ".join(q(o) for o in ops)}])' for k, ops in rows)
    return (
        '-- REGENERATED on every run by harness/meta2lean.py from /repo/grammar.txt (read by generation 1). Do not edit.\n'
        'namespace Gen\n'
        '/-- rows of the `Expr` operator table of the metagrammar: (row kind, operator spellings / rule names) -/\n'
        'def metaExprRows : List (String × List String) := [\n'
        f'{body}\n]\n'
        'end Gen\n'
    )


def regenerate():
    from extract_flags import write_if_changed
    return write_if_changed(os.path.join(LEAN, 'Gen', 'MetaTable.lean'), render(extract()))


if __name__ == '__main__':
    print(render(extract()))
