"""Regenerate the translated Lean files from /repo, build, audit axioms.  Shared by all checks."""
import fcntl
import glob
import hashlib
import json
import os
import re
import subprocess
import time

from common import LEAN, VERIF

ALLOWED_AXIOMS = {'propext', 'Classical.choice', 'Quot.sound'}
FORBIDDEN = re.compile(r'\b(sorry|admit|native_decide|bv_decide|implemented_by)\b|^\s*axiom\s|\bunsafe\s|maxHeartbeats\s+0')


class LeanState:
    def __init__(self):
        self.regen = {}            # translator -> {'ok': bool, 'note': str}
        self.build_ok = False
        self.failed_modules = []
        self.build_log = ''
        self.axioms = {}           # theorem -> list of axioms (absent = not found)
        self.forbidden = []
        self.wall = 0.0

    def theorem_ok(self, name):
        ax = self.axioms.get(name)
        return ax is not None and set(ax) <= ALLOWED_AXIOMS

    def obligations(self, theorems):
        """(obligations, discharged, failing-names)"""
        bad = [t for t in theorems if not self.theorem_ok(t)]
        if self.forbidden:
            bad = list(theorems)
        return len(theorems), len(theorems) - len(bad), bad


def leanchecker(st):
    """thorough tier: the toolchain's independent re-checker replays the compiled proofs of the property and tie
    modules in a fresh kernel.  Returns None when it accepts, else a note.  Cached on the source hash."""
    key = _hash_sources() + '|' + ','.join(sorted(st.failed_modules))
    cache_path = os.path.join(LEAN, '.lake', 'leanchecker_cache.json')
    try:
        with open(cache_path) as fh:
            cache = json.load(fh)
        if cache.get('key') == key:
            return cache['note']
    except Exception:             # noqa: BLE001
        pass
    mods = ['Sourcer.Properties'] + [m for m in ('Tie.Flags', 'Tie.Excerpt', 'Tie.MetaTable', 'Tie.Binders') if m not in st.failed_modules]
    rc, out = _run(['lake', 'env', 'leanchecker'] + mods)
    note = None if rc == 0 else 'leanchecker rejects the compiled proofs: ' + out.strip().split('\n')[0][:200]
    with open(cache_path, 'w') as fh:
        json.dump({'key': key, 'note': note}, fh)
    return note


def _strip_comments(text):
    text = re.sub(r'/-.*?-/', '', text, flags=re.S)
    text = re.sub(r'--[^\n]*', '', text)
    return text


def _sources():
    files = []
    for pat in ('*.lean', 'Sourcer/**/*.lean', 'Gen/**/*.lean', 'Tie/**/*.lean'):
        files += glob.glob(os.path.join(LEAN, pat), recursive=True)
    return sorted(set(files))


def _hash_sources():
    h = hashlib.sha256()
    for f in _sources():
        h.update(f.encode())
        with open(f, 'rb') as fh:
            h.update(fh.read())
    return h.hexdigest()


def _run(cmd, timeout=1500):
    p = subprocess.run(cmd, cwd=LEAN, stdout=subprocess.PIPE, stderr=subprocess.STDOUT, text=True,
                       timeout=timeout)
    return p.returncode, p.stdout


def ensure(translators=('flags',)):
    """regenerate + build everything; returns LeanState.  Serialised by a file lock so that
    checks may be started concurrently."""
    st = LeanState()
    t0 = time.time()
    os.makedirs(os.path.join(LEAN, '.lake'), exist_ok=True)
    with open(os.path.join(LEAN, '.lake', 'verif.lock'), 'w') as lock:
        fcntl.flock(lock, fcntl.LOCK_EX)
        # --- translators -----------------------------------------------------------------
        import extract_flags
        try:
            entries, changed = extract_flags.regenerate()
            st.regen['flags'] = {'ok': True, 'changed': changed, 'entries': entries}
        except Exception as exc:      # noqa: BLE001
            st.regen['flags'] = {'ok': False, 'note': f'{type(exc).__name__}: {exc}'}
        try:
            import py2lean
            changed = py2lean.regenerate()
            st.regen['excerpt'] = {'ok': True, 'changed': changed}
        except ImportError:
            pass
        except Exception as exc:      # noqa: BLE001
            st.regen['excerpt'] = {'ok': False, 'note': f'{type(exc).__name__}: {exc}'}
        try:
            import meta2lean
            changed = meta2lean.regenerate()
            st.regen['metatable'] = {'ok': True, 'changed': changed}
        except Exception as exc:      # noqa: BLE001
            st.regen['metatable'] = {'ok': False, 'note': f'{type(exc).__name__}: {exc}'}
        try:
            import extract_binders
            changed = extract_binders.regenerate()
            st.regen['binders'] = {'ok': True, 'changed': changed}
        except Exception as exc:      # noqa: BLE001
            st.regen['binders'] = {'ok': False, 'note': f'{type(exc).__name__}: {exc}'}
        # --- build -----------------------------------------------------------------------
        rc, out = _run(['lake', 'build', 'Sourcer', 'driver'])
        st.build_log = out
        st.build_ok = rc == 0
        if not st.build_ok:
            st.wall = time.time() - t0
            return st
        rc2, out2 = _run(['lake', 'build', 'Gen', 'Tie', 'xdriver'])
        st.build_log += out2
        if rc2 != 0:
            for m in re.finditer(r'^- ([\w.]+)\s*$', out2, flags=re.M):
                st.failed_modules.append(m.group(1))
            if not st.failed_modules:
                st.failed_modules.append('Tie')
            # a failing Gen module takes the Tie module that imports it with it
            for g, t in (('Gen.Flags', 'Tie.Flags'), ('Gen.Excerpt', 'Tie.Excerpt'), ('Gen.MetaTable', 'Tie.MetaTable'),
                         ('Gen.Binders', 'Tie.Binders')):
                if g in st.failed_modules and t not in st.failed_modules:
                    st.failed_modules.append(t)
            if any(m in st.failed_modules for m in ('Gen.Excerpt', 'Tie.Excerpt', 'xdriver', 'XDriver')):
                # build the other tie modules on their own so that one broken tie does not hide the rest
                _run(['lake', 'build', 'Gen.Flags', 'Tie.Flags'])
            if any(m in st.failed_modules for m in ('Gen.Flags', 'Tie.Flags')):
                _run(['lake', 'build', 'Gen.Excerpt', 'Tie.Excerpt', 'xdriver'])
            if 'Tie.MetaTable' not in st.failed_modules:
                _run(['lake', 'build', 'Gen.MetaTable', 'Tie.MetaTable'])
            if 'Tie.Binders' not in st.failed_modules:
                _run(['lake', 'build', 'Gen.Binders', 'Tie.Binders'])
        # --- forbidden tokens --------------------------------------------------------------
        for f in _sources():
            with open(f) as fh:
                body = _strip_comments(fh.read())
            for i, line in enumerate(body.split('\n')):
                if FORBIDDEN.search(line):
                    st.forbidden.append(f'{os.path.relpath(f, LEAN)}: {line.strip()[:80]}')
        # --- axiom audit (cached on the hash of all sources) ---------------------------------
        key = _hash_sources() + '|' + ','.join(sorted(st.failed_modules))
        cache_path = os.path.join(LEAN, '.lake', 'audit_cache.json')
        cache = {}
        try:
            with open(cache_path) as fh:
                cache = json.load(fh)
        except Exception:             # noqa: BLE001
            pass
        if cache.get('key') == key:
            st.axioms = cache['axioms']
        else:
            st.axioms = _audit(st.failed_modules)
            with open(cache_path, 'w') as fh:
                json.dump({'key': key, 'axioms': st.axioms}, fh)
    st.wall = time.time() - t0
    return st


def _audit(failed_modules):
    """Run Audit.lean; when a Tie module failed to build, audit the remaining imports only."""
    with open(os.path.join(LEAN, 'Audit.lean')) as fh:
        text = fh.read()
    lines = text.split('\n')
    dropped_ns = set()
    keep = []
    for line in lines:
        m = re.match(r'import\s+([\w.]+)', line)
        if m and any(m.group(1) == f or f.startswith(m.group(1) + '.') or m.group(1).startswith(f)
                     for f in failed_modules):
            dropped_ns.add(m.group(1))
            continue
        keep.append(line)
    if dropped_ns:
        # drop #print lines whose theorem lives in a dropped module (Tie.X -> namespace Tie, marked by comment)
        out_lines = []
        for line in keep:
            m = re.match(r'#print axioms ([\w.]+)\s*(?:--\s*module\s+([\w.]+))?', line)
            if m and m.group(2) and m.group(2) in dropped_ns:
                continue
            out_lines.append(line)
        keep = out_lines
    tmp = os.path.join(LEAN, '.lake', 'AuditRun.lean')
    with open(tmp, 'w') as fh:
        fh.write('\n'.join(keep))
    rc, out = _run(['lake', 'env', 'lean', tmp])
    axioms = {}
    for m in re.finditer(r"'([\w.]+)' depends on axioms: \[([^\]]*)\]", out):
        axioms[m.group(1)] = [a.strip() for a in m.group(2).split(',') if a.strip()]
    for m in re.finditer(r"'([\w.]+)' does not depend on any axioms", out):
        axioms[m.group(1)] = []
    return axioms


if __name__ == '__main__':
    st = ensure()
    print('build_ok', st.build_ok, 'failed', st.failed_modules, 'forbidden', st.forbidden)
    for k, v in st.axioms.items():
        print(k, v)
    print('wall', round(st.wall, 1))
