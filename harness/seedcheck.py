#!/venv/bin/python
"""Development-time validation of a seeded change (never part of a registered command).

  seedcheck.py <seed-id> <property> <patch.diff> <demo.py> [--needs "..."] [--checks C01,C09]

1. confirms in a scratch worktree (outside /repo and /verif) that the patch applies, the
   repository's suite still passes with it, the demonstration fails with it and passes without;
2. applies it to /repo, runs the property's quick check (and any others named), undoes it;
3. files patch, demonstration and meta.json under /verif/seeded/<seed-id>/.
"""
import argparse
import json
import os
import shutil
import subprocess
import sys
import tempfile

VERIF = os.path.dirname(os.path.dirname(os.path.abspath(__file__)))
PY = '/venv/bin/python'


def sh(cmd, cwd=None, timeout=1800):
    p = subprocess.run(cmd, cwd=cwd, shell=isinstance(cmd, str), stdout=subprocess.PIPE,
                       stderr=subprocess.STDOUT, text=True, timeout=timeout)
    return p.returncode, p.stdout


def main():
    ap = argparse.ArgumentParser()
    ap.add_argument('seed_id')
    ap.add_argument('prop')
    ap.add_argument('patch')
    ap.add_argument('demo')
    ap.add_argument('--needs', default='')
    ap.add_argument('--checks', default='')
    ap.add_argument('--tier', default='quick')
    a = ap.parse_args()
    patch = os.path.abspath(a.patch)
    demo = os.path.abspath(a.demo)
    meta = {'seed_id': a.seed_id, 'property': a.prop, 'needs': a.needs, 'ran': []}

    wt = tempfile.mkdtemp(prefix='seedchk_', dir='/tmp')
    os.rmdir(wt)
    rc, out = sh(['git', '-C', '/repo', 'worktree', 'add', '--detach', wt, 'HEAD'])
    assert rc == 0, out
    try:
        rc, out = sh(['git', 'apply', '--3way', patch], cwd=wt)
        if rc != 0:
            rc, out = sh(f'patch -p1 --fuzz=3 < {patch}', cwd=wt)
        meta['applies'] = rc == 0
        if rc != 0:
            print('PATCH DOES NOT APPLY\n' + out)
            return 2
        # refresh the patch against the current HEAD
        rc, newdiff = sh(['git', 'diff', 'HEAD'], cwd=wt)
        rc, out = sh([PY, '-m', 'pytest', '-q', '-p', 'no:cacheprovider', '-x'], cwd=wt)
        meta['suite_with_patch'] = out.strip().split('\n')[-1]
        suite_ok = rc == 0
        rc_with, out_with = sh([PY, demo, wt], cwd=wt, timeout=300)
        sh(['git', 'checkout', '--', '.'], cwd=wt)
        sh(['git', 'reset', '-q', '--hard', 'HEAD'], cwd=wt)
        rc_without, out_without = sh([PY, demo, wt], cwd=wt, timeout=300)
        meta['demo_with_patch_exit'] = rc_with
        meta['demo_without_patch_exit'] = rc_without
        meta['demo_with_patch_output'] = out_with[-600:]
        meta['ran'].append('scratch worktree: git apply; pytest; demo with patch; git checkout; demo without patch')
        print(f'suite_ok={suite_ok} ({meta["suite_with_patch"]}) demo_with={rc_with} demo_without={rc_without}')
        if not (suite_ok and rc_with != 0 and rc_without == 0):
            print('SEED NOT CONFIRMED')
            print(out_with[-800:])
            print(out_without[-800:])
            return 3
    finally:
        sh(['git', '-C', '/repo', 'worktree', 'remove', '--force', wt])
        shutil.rmtree(wt, ignore_errors=True)

    # run the checks against /repo with the change applied
    tmp_patch = tempfile.NamedTemporaryFile('w', suffix='.diff', delete=False)
    tmp_patch.write(newdiff)
    tmp_patch.close()
    results = {}
    rc, out = sh(['git', '-C', '/repo', 'status', '--porcelain'])
    assert out.strip() == '', '/repo not clean: ' + out
    rc, out = sh(['git', '-C', '/repo', 'apply', tmp_patch.name])
    assert rc == 0, out
    try:
        for chk in [a.prop] + [c for c in a.checks.split(',') if c and c != a.prop]:
            rc, out = sh([os.path.join(VERIF, 'check'), chk, '--tier', a.tier], cwd=VERIF)
            lines = [l for l in out.split('\n') if l.startswith(('VIOLATION', 'OK', 'KNOWN'))]
            results[chk] = {'exit': rc, 'lines': lines[:4], 'detail': [l for l in out.split('\n') if l.startswith('  ')][:3]}
            print(f'check {chk}: exit={rc} {lines[:2]}')
    finally:
        sh(['git', '-C', '/repo', 'checkout', '--', '.'])
        os.unlink(tmp_patch.name)
    meta['checks'] = results
    meta['caught_by'] = [c for c, r in results.items() if r['exit'] == 1]
    meta['ran'].append('git -C /repo apply; ./check <id> --tier quick; git -C /repo checkout -- .')

    dest = os.path.join(VERIF, 'seeded', a.seed_id)
    os.makedirs(dest, exist_ok=True)
    with open(os.path.join(dest, 'patch.diff'), 'w') as f:
        f.write(newdiff)
    shutil.copy(demo, os.path.join(dest, 'demo.py'))
    with open(os.path.join(dest, 'meta.json'), 'w') as f:
        json.dump(meta, f, indent=1)
    shutil.rmtree(os.path.join(VERIF, 'replays'), ignore_errors=True)
    return 0 if meta['caught_by'] else 1


if __name__ == '__main__':
    sys.exit(main())
