"""Translator T1: the static flag methods of /repo's expression classes -> a finite table.

Every class is instantiated from the working tree with stub children that realise every
combination of child flags (and, for variadic classes, every value of the aggregates the table is
indexed by, each through several child lists).  Two realisations of the same table entry that
disagree mean the table shape no longer captures the method: that is reported as
`Untranslatable` and treated like a broken proof obligation by the checks.
"""
import itertools
import os

from common import LEAN, import_real


class Untranslatable(Exception):
    pass


def _stub_class(ex):
    class Stub(ex.base.Expression):
        num_blocks = 0

        def __init__(self, as_, cps):
            self._as, self._cps = as_, cps

        def always_succeeds(self):
            return self._as

        def can_partially_succeed(self):
            return self._cps

        def __str__(self):
            return f'stub({self._as},{self._cps})'
    return Stub


FLAGS4 = [(False, False), (False, True), (True, False), (True, True)]


def flags_of(e):
    a, c = e.always_succeeds(), e.can_partially_succeed()
    if not isinstance(a, bool):
        a = bool(a)
    if not isinstance(c, bool):
        c = bool(c)
    return (a, c)


def _agree(name, values):
    vs = set(values)
    if len(vs) != 1:
        raise Untranslatable(f'{name}: realisations of one table entry disagree: {sorted(vs)}')
    return vs.pop()


def _lists_with(stub, pred_as, pred_cps, want_as, want_cps, max_len=3):
    """child lists (length 1..max_len) whose aggregates equal the wanted values"""
    out = []
    for n in range(1, max_len + 1):
        for combo in itertools.product(FLAGS4, repeat=n):
            if pred_as([a for a, _ in combo]) == want_as and pred_cps([c for _, c in combo]) == want_cps:
                out.append([stub(a, c) for a, c in combo])
    return out


def extract():
    """returns (entries, notes): entries = list of 101 (as, cps) pairs in FlagTable.ofBits order"""
    sourcer = import_real()
    from sourcer import expressions as ex
    stub = _stub_class(ex)
    E = []
    notes = []

    # 0,1 str (nonempty, empty)
    E.append(_agree('Str nonempty', [flags_of(ex.Str(v)) for v in ('a', 'ab', b'a', ' ')]))
    E.append(_agree('Str empty', [flags_of(ex.Str(v)) for v in ('', b'')]))
    # 2 regex, 3 byte, 4 ref
    E.append(_agree('Regex', [flags_of(ex.Regex(p, ignore_case=i)) for p in ('a', 'a*', '', b'a') for i in (False, True)]))
    E.append(_agree('Byte', [flags_of(ex.Byte(b)) for b in (0, 0x61, 255)]))
    E.append(_agree('Ref', [flags_of(ex.Ref(n)) for n in ('A', 'start')]))
    # 5,6 seq by allAs ; 7,8 cls by allAs
    def seq_lists(want):
        out = [[]] if want else []
        for n in range(1, 4):
            for combo in itertools.product(FLAGS4, repeat=n):
                if all(a for a, _ in combo) == want:
                    out.append([stub(a, c) for a, c in combo])
        return out
    for want in (False, True):
        E.append(_agree(f'Seq allAs={want}', [flags_of(ex.Seq(*xs)) for xs in seq_lists(want)]))
    for want in (False, True):
        vals = []
        for xs in seq_lists(want):
            members = [ex.Rule(f'f{i}', None, x, is_omitted=(i % 2 == 1)) for i, x in enumerate(xs)]
            vals.append(flags_of(ex.Class('C', None, members)))
        E.append(_agree(f'Class allAs={want}', vals))
    # 9..24 discard
    for a in FLAGS4:
        for b in FLAGS4:
            E.append(_agree(f'Discard {a} {b}', [flags_of(ex.Discard(stub(*a), stub(*b), discard_left=l)) for l in (True, False)]))
    # 25..28 choice (anyAs, anyCps)
    for aa in (False, True):
        for ac in (False, True):
            lists = _lists_with(stub, any, any, aa, ac)
            E.append(_agree(f'Choice anyAs={aa} anyCps={ac}', [flags_of(ex.Choice(*xs)) for xs in lists]))
    # 29..32 opt
    for c in FLAGS4:
        E.append(flags_of(ex.Opt(stub(*c))))
    # 33..44 list (minclass, child)
    mins = {'zero': [None, 0, '0'], 'one': [1, '1'], 'many': [2, '2', 3, 'n', 'len(x)']}
    for m in ('zero', 'one', 'many'):
        for c in FLAGS4:
            vals = []
            for mn in mins[m]:
                for mx in (None, 5, '5', 'k'):
                    vals.append(flags_of(ex.List(stub(*c), min_len=mn, max_len=mx)))
            E.append(_agree(f'List min={m} child={c}', vals))
    # 45..60 sep (discard, trailer, empty, require); independent of children
    for d in (False, True):
        for t in (False, True):
            for em in (False, True):
                for rq in (False, True):
                    vals = []
                    for a in FLAGS4:
                        for b in FLAGS4:
                            try:
                                s = ex.Sep(stub(*a), stub(*b), discard_separators=d, allow_trailer=t,
                                           allow_empty=em, require_separator=rq)
                            except Exception:
                                continue
                            vals.append(flags_of(s))
                    if not vals:
                        notes.append(f'Sep(discard={d},trailer={t},empty={em},require={rq}) rejected by constructor')
                        E.append((False, True))
                    else:
                        E.append(_agree(f'Sep {d}{t}{em}{rq}', vals))
    # 61..64 expect, 65..68 expectNot
    for c in FLAGS4:
        E.append(flags_of(ex.Expect(stub(*c))))
    for c in FLAGS4:
        E.append(flags_of(ex.ExpectNot(stub(*c))))
    # 69 skip
    E.append(_agree('Skip', [flags_of(ex.Skip(*[stub(a, c) for a, c in combo]))
                             for n in range(1, 3) for combo in itertools.product(FLAGS4, repeat=n)]))
    # 70..73 longest
    for aa in (False, True):
        for ac in (False, True):
            lists = _lists_with(stub, any, any, aa, ac)
            E.append(_agree(f'Longest anyAs={aa} anyCps={ac}', [flags_of(ex.Longest(*xs)) for xs in lists]))
    # 74 backtrack 75 fail 76 py
    E.append(_agree('Backtrack', [flags_of(ex.Backtrack(n)) for n in (0, 1, 2)]))
    E.append(_agree('Fail', [flags_of(ex.Fail()), flags_of(ex.Fail('m'))]))
    E.append(_agree('PythonExpression', [flags_of(ex.PythonExpression(s)) for s in ('None', '1', 'x')]))
    # 77..92 apply (Apply(expr1, expr2))
    for a in FLAGS4:
        for b in FLAGS4:
            E.append(_agree(f'Apply {a} {b}', [flags_of(ex.Apply(stub(*a), stub(*b), apply_left=l)) for l in (True, False)]))
    # 93..100 operator table (has prefix rows, flags of the operands)
    for hp in (False, True):
        for c in FLAGS4:
            vals = []
            for pre_flags in (FLAGS4 if hp else [None]):
                for post in (None, stub(False, False)):
                    for inf in (None, stub(False, True)):
                        t = ex.OperatorTable('operand', [], stub(*pre_flags) if pre_flags else None, stub(*c), post, inf)
                        vals.append(flags_of(t))
            E.append(_agree(f'OperatorTable prefix={hp} operands={c}', vals))
    assert len(E) == 101, len(E)
    return E, notes


ENTRY_NAMES = None


def entry_names():
    names = ['str nonempty', 'str empty', 'regex', 'byte', 'ref', 'seq allAs=F', 'seq allAs=T',
             'cls allAs=F', 'cls allAs=T']
    f = lambda x: ('T' if x[0] else 'F') + ('T' if x[1] else 'F')
    names += [f'discard a={f(a)} b={f(b)}' for a in FLAGS4 for b in FLAGS4]
    names += [f'choice anyAs={aa} anyCps={ac}' for aa in 'FT' for ac in 'FT']
    names += [f'opt c={f(c)}' for c in FLAGS4]
    names += [f'list min={m} c={f(c)}' for m in ('zero', 'one', 'many') for c in FLAGS4]
    names += [f'sep discard={d} trailer={t} empty={e} require={r}' for d in 'FT' for t in 'FT' for e in 'FT' for r in 'FT']
    names += [f'expect c={f(c)}' for c in FLAGS4]
    names += [f'expectNot c={f(c)}' for c in FLAGS4]
    names += ['skip']
    names += [f'longest anyAs={aa} anyCps={ac}' for aa in 'FT' for ac in 'FT']
    names += ['backtrack', 'fail', 'py']
    names += [f'apply a={f(a)} b={f(b)}' for a in FLAGS4 for b in FLAGS4]
    names += [f'optable prefix={hp} operands={f(c)}' for hp in 'FT' for c in FLAGS4]
    assert len(names) == 101
    return names


def bits_of(entries):
    bits = []
    for a, c in entries:
        bits += [bool(a), bool(c)]
    return bits


def render_lean(entries, notes):
    names = entry_names()
    rows = []
    for i, (n, (a, c)) in enumerate(zip(names, entries)):
        rows.append(f'  {"true" if a else "false"}, {"true" if c else "false"}{"," if i + 1 < len(entries) else ""}   -- {i}: {n}')
    body = '\n'.join(rows)
    note_txt = ''.join(f'-- note: {n}\n' for n in notes)
    return (
        '-- REGENERATED on every run by harness/extract_flags.py from /repo/sourcer/expressions. Do not edit.\n'
        'import Sourcer.FlagBits\n'
        'namespace Gen\n'
        f'{note_txt}'
        '/-- `always_succeeds()` / `can_partially_succeed()` of every expression class, as observed -/\n'
        'def implBits : Array Bool := #[\n'
        f'{body}\n]\n\n'
        'def implFlags : Sourcer.FlagTable := Sourcer.FlagTable.ofBits implBits\n'
        'end Gen\n'
    )


def write_if_changed(path, text):
    try:
        with open(path) as f:
            if f.read() == text:
                return False
    except FileNotFoundError:
        pass
    os.makedirs(os.path.dirname(path), exist_ok=True)
    with open(path, 'w') as f:
        f.write(text)
    return True


def regenerate():
    entries, notes = extract()
    path = os.path.join(LEAN, 'Gen', 'Flags.lean')
    changed = write_if_changed(path, render_lean(entries, notes))
    return entries, changed


if __name__ == '__main__':
    entries, changed = regenerate()
    for n, e in zip(entry_names(), entries):
        print(f'{n:50s} as={e[0]!s:5} cps={e[1]!s:5}')
    print('changed' if changed else 'unchanged')
