"""C19 - alternative spellings of the grammar language are interchangeable."""
import random

import gengram as G
from gengram import *       # noqa: F401,F403
import corerun
from props import c01

ID = 'C19'
THEOREMS = [
    'Sourcer.C19_sugar',
    'Sourcer.C19_repeat',
    'Sourcer.C19_choice',
    'Tie.metaTable_grouping',
    'Sourcer.C01_codegen_refines_peg',
]
TIE_MODULES = ['Tie.MetaTable', 'Tie.Flags']
TRANSLATORS = ('flags', 'metatable')
ASSUMPTIONS = [
    'layout clauses (comments, newlines, ";", line breaks around operators, redundant parentheses) are facts about concrete text decided by running the real '
    'description parser, not by a theorem',
]

PREC = {'//': 3, '/?': 3, '<<': 2, '>>': 2, '|': 1}


def _job(job):
    rr = corerun._state['rr']
    drv = corerun._state['driver']
    out = {'id': job['id'], 'bad': [], 'n': 0, 'elab_same': 0}
    try:
        base_mod, base_rules = rr.compile_grammar(job['base'])
    except Exception as exc:      # noqa: BLE001
        out['bad'].append(('harness', f'base spelling does not compile: {type(exc).__name__}: {exc}'))
        return out
    try:
        bw = rr.Wire(base_rules)
        base_bodies, base_ign = bw.program()
        base_wire = rr.inline_rx(' '.join(base_bodies), bw.rx)
    except rr.Unsupported as exc:
        if any(same for _, same in job['alts']):
            out['bad'].append(('harness', f'base spelling has no core expression: {exc}'))
            return out
        base_wire = base_ign = None       # only behaviour is compared for this pair
    base_out = [rr.run_real_api(base_mod.parse, t, 0, True)[0] for t in job['inputs']]
    if job.get('prep'):
        # the intended expression (the harness's own tree, not what the translator made of the text) through the Lean
        # specification pipeline: prepare, then peg
        req, rxs = job['prep']
        cs = ' '.join('(0' + ''.join(f' {c}' for c in rr.codes(t)) + ')' for t in job['inputs'])
        decls = req[len('(prepare '):-1]
        reply = drv.ask(f'(prepcore (bytes 0) (fuel 200) (rx {" ".join(rxs)}) (decls {decls}) (cases {cs}))')
        if not reply.startswith('error'):
            for t, item, real in zip(job['inputs'], reply.split(' ; '), base_out):
                _, spec = rr.parse_reply_item(item)
                out['n'] += 1
                if spec[0] == 'U':
                    continue
                ok = (spec[0] == 'F' and real[0] == 'E') or (spec[0] == 'S' and (
                    (real[0] == 'V' and real[1] == spec[1] and spec[2] == len(t)) or (real[0] == 'P' and real[1] == spec[1] and real[2] == spec[2])))
                if not ok:
                    out['bad'].append(('spec', f'on {t!r} the description {job["base"]!r} gives {str(real)[:100]}, the expression it spells means {str(spec)[:100]}'))
                    break
    for alt, same_tree in job['alts']:
        try:
            mod, rules = rr.compile_grammar(alt)
        except Exception as exc:  # noqa: BLE001
            out['bad'].append(('spec', f'alternative spelling is rejected ({type(exc).__name__}: {str(exc)[:100]}): {alt!r} (base {job["base"]!r})'))
            continue
        if same_tree:
            w = rr.Wire(rules)
            try:
                bodies, ign = w.program()
                wire = rr.inline_rx(' '.join(bodies), w.rx)
                out['elab_same'] += 1
                if wire != base_wire or ign != base_ign:
                    out['bad'].append(('spec', f'alternative spelling elaborates to a different expression: {alt!r} vs {job["base"]!r}'))
                    continue
            except rr.Unsupported:
                pass
        for t, want in zip(job['inputs'], base_out):
            got = rr.run_real_api(mod.parse, t, 0, True)[0]
            out['n'] += 1
            if got != want:
                out['bad'].append(('spec', f'on {t!r} the spelling {alt!r} gives {str(got)[:100]}, the spelling {job["base"]!r} gives {str(want)[:100]}'))
                break
    return out


def flat_chain(rng):
    """an un-parenthesised chain of operands and binary operators, and its documented grouping"""
    n = rng.randint(2, 5)
    operands = []
    for _ in range(n + 1):
        o = rng.choice(['"a"', '"b"', '"ab"', 'A', '/a+/'])
        # operands stay non-nullable: a separated list of nullable elements and separators is ill-formed (it never ends)
        o += rng.choice(['', '', '+', '{2}', '{1,2}'])
        operands.append(o)
    ops = [rng.choice(list(PREC)) for _ in range(n)]
    flat = operands[0] + ''.join(f' {op} {x}' for op, x in zip(ops, operands[1:]))
    # precedence climbing, every binary operator left-associative
    def climb(i, min_prec):
        left = operands[i]
        j = i
        while j < len(ops) and PREC[ops[j]] >= min_prec:
            op = ops[j]
            right, j2 = climb(j + 1, PREC[op] + 1)
            left = f'({left} {op} {right})'
            j = j2
        return left, j
    grouped, _ = climb(0, 1)
    return flat, grouped


def build_jobs(tier, seed):
    rng = random.Random(seed)
    jobs = []
    an = G.Analysis(G.HELPERS)
    n = 500 if tier == 'quick' else 5000
    inputs = G.all_inputs('ab', 4) + ['A', 'ab,ab', 'a,b,']
    for i in range(n):
        for _ in range(30):
            e = G.random_expr(rng, rng.choice([1, 2, 3]))
            if an.wellformed(e):
                break
        else:
            continue
        name, ctx = rng.choice(G.CONTEXTS)
        e = ctx(e)
        if not an.wellformed(e):
            continue
        base, rules = G.grammar_text(e)
        ignores = ['ignore / +/'] if rng.random() < 0.2 else []
        if ignores:
            base = base + ignores[0] + '\n'
        alts = []
        for _ in range(3):
            same = rng.random() < 0.6
            alts.append((G.grammar_text_alt(e, rng, rules, ignores=ignores, choice_ctor_ok=not same or True), same))
        # the Choice(...) constructor keeps nested choices apart, `|` flattens them: only spellings without that
        # difference are required to elaborate to the very same expression
        alts = [(a, same and 'Choice(' not in a) for a, same in alts]
        from props import c04
        decls = [('rule', 'start', e)] + [('rule', k, v) for k, v in rules.items()] + ([('ignore', None, RX(' +'))] if ignores else [])
        jobs.append({'id': len(jobs), 'base': base, 'alts': alts, 'inputs': inputs + ([' a b', 'a  b '] if ignores else []),
                     'prep': c04.prep_request(decls)})
    # hand-picked instances of the documented pairs at their edges: constructor forms nested where `|` would flatten,
    # bounds with two digits (text order differs from numeric order), bounds of zero
    longs = ['a' * k for k in (0, 1, 2, 3, 8, 9, 10, 11, 12, 13)]
    for base, alt in [
            ('start = ((["a", "b"] | "c") | "a")\n', 'start = Choice(Choice(["a", "b"], "c"), "a")\n'),
            ('start = [((A | "c") | "a"), /.*/]\nA = "a" >> "b"\n', 'start = [Choice(Choice(A, "c"), "a"), /.*/]\nA = "a" >> "b"\n'),
            ('start = List("a", min_len=2, max_len=10)\n', 'start = "a"{2,10}\n'),
            ('start = List("a", min_len=9, max_len=12)\n', 'start = "a"{9,12}\n'),
            ('start = [List("a", min_len=10, max_len=11), "a"*]\n', 'start = ["a"{10,11}, "a"*]\n'),
            ('start = [List("a", min_len=0, max_len=0), "a"*]\n', 'start = ["a"{0}, "a"*]\n'),
            ('start = [List("a", min_len=0, max_len=0), "a"*]\n', 'start = ["a"{0,0}, "a"*]\n'),
            ('start = [List("a", max_len=0), "a"*]\n', 'start = ["a"{,0}, "a"*]\n'),
            ('start = [List("a", min_len=0), "b"?]\n', 'start = ["a"{0,}, "b"?]\n'),
            ('start = Sep("a", ",", allow_trailer=True)\n', 'start = "a" /? ","\n'),
            ('start = Some("a" | "b")\n', 'start = ("a" | "b")+\n'),
    ]:
        jobs.append({'id': len(jobs), 'base': base, 'alts': [(alt, False)], 'inputs': inputs + longs + ['ac', 'abc', 'a,a,', 'c']})
    # postfix operators applied to one another, and rules whose names equal a constructor's name up to case
    for base, alt in [
            ('start = ["<", Opt(Some("a")), ">"]\n', 'start = ["<", "a"+?, ">"]\n'),
            ('start = ["<", Opt(Some("a")), ">"]\n', 'start = ["<", ("a"+)?, ">"]\n'),
            ('start = ["<", Opt(List("a")), ">"]\n', 'start = ["<", "a"*?, ">"]\n'),
            ('start = ["<", Opt(List("a", min_len=2, max_len=2)), ">"]\n', 'start = ["<", "a"{2}?, ">"]\n'),
            ('start = ["<", Opt(List("a", min_len=1, max_len=2)), ">"]\n', 'start = ["<", "a"{1,2}?, ">"]\n'),
            ('start = ["<", Some(Some("a")), ">"]\n', 'start = ["<", "a"++, ">"]\n'),
            ('start = ["<", List(Some("a")), ">"]\n', 'start = ["<", "a"+*, ">"]\n'),
            ('start = ["<", Opt(Opt("a")), ">"]\n', 'start = ["<", "a"??, ">"]\n'),
            ('start = ["<", Some(Opt("a") << "b"), ">"]\n', 'start = ["<", ("a"? << "b")+, ">"]\n'),
            ('left = "a"\nright = "b"\nstart = ["<", Left(left, right), ">"]\n', 'left = "a"\nright = "b"\nstart = ["<", left << right, ">"]\n'),
            ('left = "a"\nright = "b"\nstart = ["<", Right(left, right), ">"]\n', 'left = "a"\nright = "b"\nstart = ["<", left >> right, ">"]\n'),
            ('opt = Opt("a")\nstart = ["<", opt, ">"]\n', 'opt = "a"?\nstart = ["<", opt, ">"]\n'),
            # (no rule called `list`: that name shadows a builtin the runtime reads - the recorded finding of C20, not a matter of spelling)
            ('some = Some("a")\nfail = List("b")\nstart = ["<", some, fail, ">"]\n', 'some = "a"+\nfail = "b"*\nstart = ["<", some, fail, ">"]\n'),
            ('sep = Sep("a", ",")\nstart = ["<", sep, ">"]\n', 'sep = "a" // ","\nstart = ["<", sep, ">"]\n'),
            ('seq = Seq("a", "b")\nchoice = Choice("a", "b")\nstart = ["<", seq | choice, ">"]\n', 'seq = ["a", "b"]\nchoice = "a" | "b"\nstart = ["<", seq | choice, ">"]\n'),
            ('skip = Skip("a")\nexpect = Expect("b")\nstart = ["<", skip, expect, "b", ">"]\n', 'skip = Skip("a")\nexpect = Expect("b")\nstart = ["<", skip, expect, "b", ">"]\n'),
    ]:
        jobs.append({'id': len(jobs), 'base': base, 'alts': [(alt, False)],
                     'inputs': ['<' + t + '>' for t in G.all_inputs('ab', 3) + ['a,a', 'a,b', 'a,', 'aab', 'abb', 'bbb']] + ['<', '', '<a']})
    # bounds given as names in both spellings; a constructor used next to a rule whose parameter has the constructor's name
    for base, alt in [
            ('start = r(1, 2)\nr(m, n) = ["<", List("a", min_len=m, max_len=n), ">"]\n', 'start = r(1, 2)\nr(m, n) = ["<", "a"{m,n}, ">"]\n'),
            ('start = r(2)\nr(n) = ["<", List("a", min_len=n, max_len=n), ">"]\n', 'start = r(2)\nr(n) = ["<", "a"{n}, ">"]\n'),
            ('start = let n = `2` in ["<", List("a", n, n), ">"]\n', 'start = let n = `2` in ["<", "a"{n}, ">"]\n'),
            ('start = ["<", Opt("a"), f("b"), ">"]\nf(Opt) = Opt\n', 'start = ["<", "a"?, f("b"), ">"]\nf(Opt) = Opt\n'),
            ('start = ["<", Some("a"), P("b"), ">"]\nclass P(Some) { x: Some }\n', 'start = ["<", "a"+, P("b"), ">"]\nclass P(Some) { x: Some }\n'),
    ]:
        jobs.append({'id': len(jobs), 'base': base, 'alts': [(alt, False)],
                     'inputs': ['<' + t + '>' for t in G.all_inputs('ab', 3) + ['aab', 'abb']] + ['<', '']})
    # a bare expression against `start = ...` when the expression begins with a byte literal, a number or inline Python: the
    # description language reads that first token as a Python statement (recorded finding)
    for base, alt, inputs in [
            ('start = 0x41 >> 0x42\n', '0x41 >> 0x42', [b'AB', b'A', b'']),
            ('start = `1` | "a"\n', '`1` | "a"', ['', 'a']),
            ('start = None >> "a"\n', 'None >> "a"', ['a', '']),
    ]:
        jobs.append({'id': len(jobs), 'base': base, 'alts': [(alt, False)], 'inputs': inputs, 'finding_class': 'bare-expression-python-first'})
    # option values that have to be computed, in both spellings; statements indented as a block next to literals that continue
    # on the next line (the blanks in front of a continuation line belong to the literal)
    for base, alt in [
            ('start = ["<", List("a", min_len=`1+1`, max_len=`2*2`), ">"]\n', 'start = ["<", "a"{`1+1`,`2*2`}, ">"]\n'),
            ('start = ["<", List("a", max_len=`max(1, 2)`), ">"]\n', 'start = ["<", "a"{,`max(1, 2)`}, ">"]\n'),
            ('start = ["<", Sep("a", ",", allow_trailer=`not False`), ">"]\n', 'start = ["<", "a" /? ",", ">"]\n'),
            ("start = [\"<\", (Stanza | Pair)+, \">\"]\nStanza = '''a\n    b''' << /,?/\nPair = /b\n    a/ << /,?/\n",
             "    start = [\"<\", (Stanza | Pair)+, \">\"]\n    Stanza = '''a\n    b''' << /,?/\n    Pair = /b\n    a/ << /,?/\n"),
    ]:
        jobs.append({'id': len(jobs), 'base': base, 'alts': [(alt, False)],
                     'inputs': ['<' + t + '>' for t in G.all_inputs('a', 5) + ['a,a', 'a,', 'a\n    b', 'a\nb', 'b\n    a,a\n    b', 'b\na']] + ['<', '']})
    # grouping of un-parenthesised operators
    for i in range(n // 2):
        flat, grouped = flat_chain(rng)
        helpers = 'A = "a" >> "b"\n'
        jobs.append({'id': len(jobs), 'base': f'start = {grouped}\n{helpers}', 'alts': [(f'start = {flat}\n{helpers}', True)], 'inputs': inputs})
    return jobs


def run(tier, seed, lean):
    from extract_flags import bits_of
    bits = bits_of(lean.regen['flags']['entries']) if lean.regen.get('flags', {}).get('ok') else None
    jobs = build_jobs(tier, seed)
    results = corerun.pool_map(_job, jobs, corerun._init, (bits,), chunksize=8)
    by_id = {j['id']: j for j in jobs}
    violations, broken = [], []
    for r in results:
        for kind, what in r['bad']:
            item = {'key': what, 'sig': by_id[r['id']]['base'], 'kind': kind, 'base': by_id[r['id']]['base'], 'what': what, 'seed': seed,
                    'finding_class': by_id[r['id']].get('finding_class', 'none')}
            (broken if kind == 'harness' else violations).append(item)
    # the base spellings against the Lean model
    mjobs = [{'id': k, 'text': j['base'], 'cases': [(0, t) for t in j['inputs'][:20]], 'entries': ['__module__'], 'fuel': 200,
              'meta': {'ctx': 'base spelling'}} for k, j in enumerate(random.Random(seed).sample(jobs, min(len(jobs), 150)))]
    from props import c08
    summ = c08.summarize(corerun.run_jobs_api(mjobs, bits), 'base spellings against the model')
    violations += summ['violations']
    broken += summ['broken']
    cov = {
        'evaluations': sum(r['n'] for r in results) + summ['coverage']['evaluations'],
        'distinct_nontrivial': sum(1 for r in results if r['n'] > 0),
        'rule': ('every generated expression is rendered in random combinations of the alternative spellings (operator vs constructor forms incl. '
                 'keyword options in any order, e{m,n} vs List(...)) and layouts (=, :, =>; newline vs ";"; comments; blank lines; line breaks around '
                 'operators and after commas; redundant parentheses; ignore/ignored; bare expression vs start = ...); the real description parser + '
                 'translator must produce the same prepared expression objects (structural comparison) and the compiled parsers must agree on every '
                 'input; random un-parenthesised operator chains are compared with their documented grouping; base spellings are compared with the '
                 'Lean model. Non-trivial = job whose variants were run on inputs.'),
        'samples': [{'base': jobs[0]['base'], 'alternatives': [a for a, _ in jobs[0]['alts']]}, {'flat_vs_grouped': [jobs[-1]['alts'][0][0], jobs[-1]['base']]}],
        'spelling_variants': sum(len(j['alts']) for j in jobs),
        'same_expression_checked': sum(r['elab_same'] for r in results),
        'traces_validated_against_impl': summ['coverage']['evaluations'],
    }
    return {'coverage': cov, 'violations': violations, 'broken': broken}


def replay(case, lean):
    out = run('quick', case.get('seed', 0), lean)
    out['violations'] = [v for v in out['violations'] if v.get('sig') == case.get('sig')][:3]
    return out
