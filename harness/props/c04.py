"""C04 - ignored patterns are skipped exactly at token boundaries."""
import random

import gengram as G
from gengram import *       # noqa: F401,F403
import corerun
import realrun
from props import c01

ID = 'C04'
THEOREMS = [
    'Sourcer.C01_codegen_refines_peg',
    'Sourcer.C04_every_literal_skips',
    'Sourcer.C04_ignored_rule',
    'Sourcer.C04_leading_skip',
    'Sourcer.C04_start_rule',
    'Sourcer.C04_no_other_skip_point',
    'Sourcer.C04_literal_then_skip',
    'Sourcer.C04_skip_maximal',
    'Tie.implFlags_sound',
    'Tie.impl_refines',
    'Sourcer.C04_lengthening',
    'Sourcer.C04_reindexing',
    'Sourcer.C04_lengthening_instance',
]
TIE_MODULES = ['Tie.Flags']
ASSUMPTIONS = [
    'start rule = the rule named start (any capitalisation), else the first rule that is not ignored (C04_start_rule); one grammar in five has none',
    'C04_lengthening is proved for one doubled character under explicit hypotheses on the tokens (literals do not contain it, token regexes neither match nor look at it, '
    'ignore regexes end at corresponding positions, no Backtrack); that a concrete regular expression satisfies RxStable / IgnoreAlts is a fact about the matcher (a parameter of the '
    'model) and is exercised by the lengthening correspondence on the implementation',
]

# ignore declaration sets: (list of (name|None, expr), ignorable characters, position 'before'|'after'|'split')
# (declarations, characters the inputs draw on, characters every run of which is ignorable by itself
#  - only those runs are lengthened by the metamorphic test)
IGNORE_SETS = [
    ([(None, RX(' +'))], ' ', ' '),
    ([('Sp', REP(1, None, S(' ')))], ' ', ' '),
    ([(None, S(' '))], ' ', ' '),
    ([('Sp', S(' ')), (None, RX('#+'))], ' #', ' #'),
    ([(None, S(' ')), (None, S('#'))], ' #', ' #'),
    ([('Sp', RX(' +')), ('Cm', RIGHT(S('#'), S('#')))], ' #', ''),     # second pattern can fail after consuming
    ([('Cm', SEQ(S('#'), S(' '), S('#'))), ('Sp', S(' '))], ' #', ''),  # literals inside an ignored rule
]

LEAVES = [S('a'), S('ab'), RX('a+'), RX('[ab]'), CI('a'), REF('A'), REF('B'), S(''), FAIL, PY('None')]
BYTE_LEAVES = [S('a'), BYTE(0x62), RX('a+'), REF('A')]

EXTRA_INPUTS = [' a b ', 'a  b', '  ab  ', 'a b a b', ' a#b ', '# #a', 'a ##b', 'a # #b', 'a #b', '##ab## ']


def render_grammar(decls, bm=False):
    lines = []
    for d in decls:
        if d[0] == 'rule':
            lines.append(f'{d[1]} = {G.render(d[2], bm)}')
        elif d[0] == 'ignore':
            lines.append(f'ignore {d[1]} = {G.render(d[2], bm)}' if d[1] else f'ignore {G.render(d[2], bm)}')
        elif d[0] == 'class':
            ms = []
            for fname, omitted, e in d[2]:
                if fname is None:
                    ms.append(f'    pass {G.render(e, bm)}')
                else:
                    ms.append(f'    {"let " if omitted else ""}{fname}: {G.render(e, bm)}')
            lines.append(f'class {d[1]} {{\n' + '\n'.join(ms) + '\n}')
    return '\n'.join(lines) + '\n'


def prep_request(decls, bm=False):
    names = [d[1] if d[1] else f'_anon{i}' for i, d in enumerate(decls)]
    tw = realrun.TupleWire(names, bm)
    rules = []
    for d, n in zip(decls, names):
        if d[0] == 'class':
            ms = []
            for fname, omitted, e in d[2]:
                if fname is not None and not omitted:
                    ms.append(f'(keep {fname} {tw.expr(e)})')
                else:
                    ms.append(f'(drop {tw.expr(e)})')
            body = f'(cls {d[1]}' + ''.join(' ' + m for m in ms) + ')'
        else:
            body = tw.expr(d[2])
        rules.append(f'(rule {n} {1 if d[0] == "ignore" else 0} {body})')
    return '(prepare ' + ' '.join(rules) + ')', tw.rx


def build_jobs(tier, seed):
    rng = random.Random(seed)
    jobs = []
    max_len = 4 if tier == 'quick' else 5
    inputs_cache = {}
    an = G.Analysis(G.HELPERS)
    seen = set()
    n = 1400 if tier == 'quick' else 12000

    def body_expr(depth_, leaves):
        for _ in range(50):
            e = G.random_expr(rng, depth_, leaves)
            if an.wellformed(e) and not an.has_bt(e):
                return e
        return S('a')

    for i in range(n):
        bm = rng.random() < 0.1
        leaves = BYTE_LEAVES if bm else LEAVES
        igs, chars, stretch = rng.choice(IGNORE_SETS)
        where = rng.choice(['before', 'after', 'split'])
        start_kind = rng.choice(['plain', 'plain', 'class', 'classlet'])
        start_name = rng.choice(['start', 'Start', 'START'])
        # one grammar in five has no rule called start: module-level parse then starts with the first rule that is not
        # ignored - wherever the ignore declarations stand - and skips in front of it
        no_start = rng.random() < 0.2
        if no_start:
            start_name = rng.choice(['Main', 'Begin', 'restart'])
        if start_kind == 'plain':
            e = body_expr(rng.choice([1, 2, 3]), leaves)
            ctxname, ctx = rng.choice(G.CONTEXTS[:8])
            e = ctx(e)
            if not an.wellformed(e):
                continue
            start_decl = ('rule', start_name, e)
        else:
            ms = []
            for j in range(rng.randint(1, 3)):
                e = body_expr(rng.choice([0, 1, 2]), leaves)
                kind = rng.choice(['field', 'field', 'let', 'pass']) if start_kind == 'classlet' else 'field'
                ms.append((None if kind == 'pass' else f'f{j}', kind == 'let', e))
            if ms[0][2][0] == 'py' or all(m[0] is None or m[1] for m in ms):
                ms[0] = ('f0', False, S('a'))
            start_decl = ('class', start_name, ms)
            ctxname = start_kind
        helpers = [('rule', k, v) for k, v in G.HELPERS.items()]
        if not bm:
            # a rule that begins with a regex literal able to match the empty string, used as an entry point of its own
            # (no leading skip there): after the empty match ignorable text is skipped like after any other match
            helpers.append(('rule', 'NR', RIGHT(RX('b*'), S('a'))))
        ign_decls = [('ignore', nme, ex_) for nme, ex_ in igs]
        if where == 'before':
            decls = ign_decls + [start_decl] + helpers
        elif where == 'after':
            decls = [start_decl] + helpers + ign_decls
        else:
            decls = ign_decls[:1] + [start_decl] + helpers + ign_decls[1:]
        if rng.random() < 0.3 and not no_start:
            # a non-start rule in front: the start rule is found by name, not by position
            decls = [('rule', 'Z', S('b'))] + decls
        text = render_grammar(decls, bm)
        if text in seen:
            continue
        seen.add(text)
        key = (chars, bm, max_len)
        if key not in inputs_cache:
            alpha = 'ab' + chars
            ins = G.all_inputs(alpha, max_len if len(alpha) == 3 else max_len - (1 if tier == 'quick' else 0), bm)
            extra = [t.encode('latin-1') if bm else t for t in EXTRA_INPUTS if all(c in alpha for c in t)]
            inputs_cache[key] = [(0, t) for t in ins + extra]
        req, rxs = prep_request(decls, bm)
        jobs.append({'id': len(jobs), 'text': text, 'bm': bm, 'cases': inputs_cache[key],
                     'entries': [start_name] + ([] if bm or no_start else ['NR']), 'prep_entry': start_name, 'prep_request': req, 'prep_rx': rxs, 'lengthen': stretch,
                     'fuel': 160, 'module_parse': no_start,
                     'meta': {'ctx': f'{start_kind}/{where}/{len(igs)}ign' + ('/nostart' if no_start else ''), 'kinds': [], 'depth': 0}})
    return jobs


# ignore declarations that a grammar inherits: (chain of descriptions, the same as one grammar per level, inputs)
EXTENDS_CHAINS = [
    (['grammar {p}a\nignore /\\s+/\nstart = Item*\nItem = "x"\n',
      'grammar {p}b extends {p}a\noverride Item = Pair | super.Item\nPair = "y" >> "z"\n',
      'grammar {p}c extends {p}b\noverride Pair = "y" >> "w" | super.Pair\n'],
     ['ignore /\\s+/\nstart = Item*\nItem = "x"\n',
      'ignore /\\s+/\nstart = Item*\nItem = Pair | "x"\nPair = "y" >> "z"\n',
      'ignore /\\s+/\nstart = Item*\nItem = Pair | "x"\nPair = "y" >> "w" | "y" >> "z"\n'],
     ['x y z x', 'xyzx', ' x', 'y z', '', 'x y w', ' y  z ', 'x yz']),
    (['grammar {p}a\nignore / +/\nignore /#[^\\n]*\\n?/\nstart = Word+\nWord = /[a-z]+/\n',
      'grammar {p}b extends {p}a\noverride start = "begin" >> Word+ << "."\n',
      'grammar {p}c extends {p}b\nclass Start {{ head: Word; tail: ":" >> Word* }}\n'],
     ['ignore / +/\nignore /#[^\\n]*\\n?/\nstart = Word+\nWord = /[a-z]+/\n',
      'ignore / +/\nignore /#[^\\n]*\\n?/\nstart = "begin" >> Word+ << "."\nWord = /[a-z]+/\n',
      'ignore / +/\nignore /#[^\\n]*\\n?/\nclass Start {{ head: Word; tail: ":" >> Word* }}\nWord = /[a-z]+/\n'],
     ['  begin ab cd.', 'begin ab.  # done\n', 'begin ab .', ' ab cd', '  ab: cd ef', 'ab:cd', ' # c\n ab : cd', '', 'begin.']),
    (['grammar {p}a\nignore Sp = / +/\nstart = Item+\nItem = "x"\n',
      'grammar {p}b extends {p}a\nignore /#+/\noverride start = "go" >> Item*\n'],
     ['ignore Sp = / +/\nstart = Item+\nItem = "x"\n',
      'ignore Sp = / +/\nignore /#+/\nstart = "go" >> Item*\nItem = "x"\n'],
     [' x x', '  go x x', 'go # x', '#go x', 'gox#x', '']),
]


def extends_family(seed):
    bad = []
    n = 0
    for ci, (levels, flats, inputs) in enumerate(EXTENDS_CHAINS):
        fix = lambda t: t.replace('{p}', f'c04x{seed}_{ci}_').replace('{{', '{').replace('}}', '}')      # noqa: E731
        mods = []
        try:
            for t in levels:
                mods.append(realrun.compile_grammar(fix(t))[0])
        except Exception as exc:      # noqa: BLE001
            bad.append({'key': f'extends|{ci}', 'sig': f'extends|{ci}', 'kind': 'spec',
                        'what': f'chain {ci} with inherited ignore declarations does not compile: {type(exc).__name__}: {str(exc)[:150]}'})
            continue
        for li, (mod, ft) in enumerate(zip(mods, flats)):
            flat, _ = realrun.compile_grammar(fix(ft))
            for t in inputs:
                a = realrun.run_real_api(mod.parse, t, 0, True)[0]
                b = realrun.run_real_api(flat.parse, t, 0, True)[0]
                n += 1
                if a != b and not (a[0] == b[0] == 'E'):
                    bad.append({'key': f'extends|{ci}|{li}|{t}', 'sig': f'extends|{ci}|{li}', 'kind': 'spec', 'input': t,
                                'what': f'inherited ignore declarations, chain {ci} level {li}: on {t!r} the derived grammar gives {str(a)[:90]}, '
                                        f'the same rules in one grammar give {str(b)[:90]}'})
                    break
    return bad, n


def run(tier, seed, lean):
    from extract_flags import bits_of
    bits = bits_of(lean.regen['flags']['entries']) if lean.regen.get('flags', {}).get('ok') else None
    jobs = build_jobs(tier, seed)
    results = corerun.run_jobs(jobs, bits)
    out = c01.summarize(results, 'grammars with ignore declarations (named/anonymous, 1-2 patterns, before/after/split, plain or class start rule)')
    out['coverage']['prepare_correspondence_checked'] = sum(r.get('prep_checked', 0) for r in results)
    out['coverage']['lengthening_metamorphic_cases'] = sum(r.get('lengthen_cases', 0) for r in results)
    ev, en = extends_family(seed)
    out['violations'] += ev
    out['coverage']['evaluations'] += en
    out['coverage']['inherited_ignore_cases'] = en
    return out


def replay(case, lean):
    from extract_flags import bits_of
    bits = bits_of(lean.regen['flags']['entries'])
    inp = case.get('base_input', case['input'])
    job = {'id': 0, 'text': case['grammar'], 'bm': case.get('bm', False), 'fuel': 160,
           'entries': [case.get('entry', 'start')],
           'cases': [(0, inp.encode('latin-1') if case.get('bm') else inp)]}
    if case.get('prep'):
        job.update({'prep_request': case['prep']['request'], 'prep_rx': case['prep']['rx'],
                    'prep_entry': case['prep']['entry']})
    return c01.summarize(corerun.run_jobs([job], bits), 'replay')
