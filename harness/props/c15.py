"""C15 - visit and traverse enumerate the whole tree, once, in order."""
import random
import sys

from common import Driver
import realrun

ID = 'C15'
THEOREMS = [
    'Sourcer.C15_visit_eq_first_occurrence_preorder',
    'Sourcer.C15_visit_at_most_once',
    'Sourcer.C15_visit_complete',
    'Sourcer.C15_traverse_events',
    'Sourcer.C15_traverse_brackets',
]
TIE_MODULES = []
TRANSLATORS = ()
ASSUMPTIONS = [
    'object graphs are modelled as trees whose nodes carry an identity (equal id = same Python object)',
    '"not limited by the recursion depth" is a fact about the Python stack: the model loops are iterative by construction, the clause is exercised on trees of depth 3000..20000',
]

GRAMMAR = '''class Z { pass "z" }
class U { a: "u" }
class B2 { a: "x"; b: "y" }
class T3 { a: "x"; b: "y"; c: "z" }
start = "s"
'''
CLASSES = {'Z': [], 'U': ['a'], 'B2': ['a', 'b'], 'T3': ['a', 'b', 'c']}


class Builder:
    """builds a real object graph and its description (kind, id, labelled children) together"""

    def __init__(self, mod, rng):
        self.mod = mod
        self.rng = rng
        self.next_id = 100
        self.pool = []          # (python object, description) candidates for sharing
        self.leaf_ids = {}      # identity of identical leaf objects
        self.pyid = {}          # id(python object) -> description id

    def fresh(self):
        self.next_id += 1
        return self.next_id

    def leaf(self):
        r = self.rng
        c = r.random()
        if c < 0.25:
            v, key = None, 'none'
        elif c < 0.5:
            v = r.choice([0, 1, 2, 7])
            key = ('int', v)                    # small ints are cached: identical objects
        elif c < 0.65:
            v = r.choice(['', 'a', '+'])
            key = ('str', v)                    # interned: identical objects
        elif c < 0.75:
            v, key = (), 'emptytuple'           # the empty tuple is a singleton
        else:
            v = ''.join(r.choice('abcdef') for _ in range(6)) + str(self.next_id)   # a fresh, non-interned string
            key = None
        if key is None:
            i = self.fresh()
        else:
            if key not in self.leaf_ids:
                self.leaf_ids[key] = self.fresh()
            i = self.leaf_ids[key]
        self.pyid[id(v)] = i
        self._keep = getattr(self, '_keep', [])
        self._keep.append(v)
        kind = 't' if key == 'emptytuple' else 'x'
        return v, (kind, i, [])

    def node(self, depth):
        r = self.rng
        if self.pool and r.random() < 0.15:
            return r.choice(self.pool)                     # a shared object / container
        if depth <= 0 or r.random() < 0.3:
            return self.leaf()
        c = r.random()
        if c < 0.25:
            kids = [self.node(depth - 1) for _ in range(r.randint(0, 3))]
            v = [k[0] for k in kids]
            d = ('l', self.fresh(), [(i, k[1]) for i, k in enumerate(kids)])
        elif c < 0.4:
            kids = [self.node(depth - 1) for _ in range(r.randint(1, 3))]
            v = tuple(k[0] for k in kids)
            d = ('t', self.fresh(), [(i, k[1]) for i, k in enumerate(kids)])
        elif c < 0.55:
            keys = r.sample([1, 2, 3, 5, 8], r.randint(0, 3))
            kids = [(k, self.node(depth - 1)) for k in keys]
            v = {k: kid[0] for k, kid in kids}
            d = ('d', self.fresh(), [(k, kid[1]) for k, kid in kids])
        else:
            cls = r.choice(list(CLASSES))
            kids = [self.node(depth - 1) for _ in CLASSES[cls]]
            v = getattr(self.mod, cls)(*[k[0] for k in kids])
            d = ('o', self.fresh(), [(i, k[1]) for i, k in enumerate(kids)])
        self.pyid[id(v)] = d[1]
        item = (v, d)
        if v != ():
            self.pool.append(item)
        return item


def wire(d):
    out = []
    stack = [d]
    # iterative rendering (descriptions can be thousands of levels deep)
    def rec(d):
        return f'({d[0]} {d[1]}' + ''.join(f' ({lab} {rec(c)})' for lab, c in d[2]) + ')'
    return rec(d)


def field_label(parent, field):
    if field is None:
        return '-'
    if isinstance(field, str):
        return str(type(parent)._fields.index(field))
    return str(field)


def real_traverse(mod, b, v):
    out = []
    for e in mod.traverse(v):
        par = '-' if e.parent is None else str(b.pyid[id(e.parent)])
        out.append(f'{par}:{field_label(e.parent, e.field)}:{b.pyid[id(e.child)]}:{1 if e.is_finished else 0}')
    return ' '.join(out)


def run(tier, seed, lean):
    sys.setrecursionlimit(100000)
    rng = random.Random(seed)
    mod, _ = realrun.compile_grammar(GRAMMAR)
    drv = Driver()
    n = 1200 if tier == 'quick' else 12000
    violations, broken = [], []
    evals = 0
    nontrivial = 0
    samples = []
    for i in range(n):
        b = Builder(mod, rng)
        v, d = b.node(rng.choice([2, 3, 4, 5]))
        w = wire(d)
        evals += 1
        real_v = ' '.join(str(b.pyid[id(o)]) for o in mod.visit(v))
        model_v = drv.ask(f'(visit {w})')
        real_t = real_traverse(mod, b, v)
        model_t = drv.ask(f'(traverse {w})')
        # the Lean definitions evaluated here are the loops; the theorems identify them with the recursive
        # specifications, so a disagreement is a violation of the property with this tree as the replay
        if real_v != model_v:
            violations.append({'key': f'visit|{w}', 'sig': 'visit', 'kind': 'spec', 'tree': w, 'seed': seed, 'tier': tier,
                               'what': f'visit yields [{real_v}], first-occurrence pre-order is [{model_v}] on {w[:200]}'})
        if real_t != model_t:
            violations.append({'key': f'traverse|{w}', 'sig': 'traverse', 'kind': 'spec', 'tree': w, 'seed': seed, 'tier': tier,
                               'what': f'traverse events differ: real [{real_t[:160]}] spec [{model_t[:160]}] on {w[:160]}'})
        ids = [t for t in w.replace('(', ' ').replace(')', ' ').split()]
        if len(real_t.split()) > 6 and (len(set(real_t.split())) < len(real_t.split()) or 'x' in w):
            nontrivial += 1
        if len(samples) < 3 and i % 211 == 0:
            samples.append({'tree': w[:300], 'visit': real_v, 'traverse': real_t[:300]})
    # depth beyond the recursion limit
    sys.setrecursionlimit(1000)
    deep_checked = 0
    for kind in ('list', 'tuple', 'obj', 'dict'):
        for depth in ([3000] if tier == 'quick' else [3000, 20000]):
            leaf = mod.U('leafvalue')
            v = leaf
            for _ in range(depth):
                if kind == 'list':
                    v = [v]
                elif kind == 'tuple':
                    v = (v,)
                elif kind == 'dict':
                    v = {1: v}
                else:
                    v = mod.U(v)
            evals += 1
            deep_checked += 1
            try:
                objs = list(mod.visit(v))
                events = sum(1 for _ in mod.traverse(v))
                want_objs = depth + 1 if kind == 'obj' else 1
                # every level contributes 2 events, the leaf object 2, its field 2
                want_events = 2 * depth + 4
                if len(objs) != want_objs or events != want_events:
                    violations.append({'key': f'deep|{kind}|{depth}', 'sig': 'deep', 'kind': 'spec',
                                       'what': f'nesting depth {depth} through {kind}: {len(objs)} objects / {events} events, expected {want_objs} / {want_events}'})
            except RecursionError:
                violations.append({'key': f'deep|{kind}|{depth}', 'sig': 'deep', 'kind': 'spec',
                                   'what': f'RecursionError at nesting depth {depth} through {kind}'})
    sys.setrecursionlimit(100000)
    drv.close()
    # containers met again are not expanded again: a list that contains itself, and lists shared forty levels deep (2^40 paths)
    import common
    for name, make in (('a list that contains itself', lambda o: (lambda l: (l.append(l), l)[1])([o, (o,)])),
                       ('shared lists nested forty deep', lambda o: __import__('functools').reduce(lambda l, _: [l, l], range(40), [o])),
                       ('a dict that contains itself', lambda o: (lambda d: (d.__setitem__('self', d), d)[1])({'a': o})),):
        o = mod.U(1)
        tree = make(o)
        evals += 1
        try:
            with common.time_limit(10):
                got = list(mod.visit(tree))
                ev = sum(1 for _ in mod.traverse(tree))
            if len(got) != 1 or got[0] is not o or ev % 2:
                violations.append({'key': f'cyclic|{name}', 'sig': 'cyclic', 'kind': 'spec', 'what': f'{name}: visit yields {len(got)} objects, traverse {ev} events'})
        except common.Timeout:
            violations.append({'key': f'cyclic|{name}', 'sig': 'cyclic', 'kind': 'spec', 'what': f'{name}: visit/traverse did not finish within ten seconds'})
    cov = {
        'evaluations': evals,
        'distinct_nontrivial': nontrivial,
        'rule': ('random object graphs (objects of arity 1..3, lists, tuples, dicts; identical leaf objects: None, cached ints, interned '
                 'strings, the empty tuple; fresh equal strings; shared sub-objects and containers chosen from the already built ones) '
                 'given to the real visit/traverse and to the Lean loops; yielded objects and every event (parent, field, child, '
                 'finished) are compared by identity. Non-trivial = tree with repeated events or identical leaves. Plus chains of depth '
                 '3000/20000 through each container kind under the default recursion limit.'),
        'samples': samples,
        'traces_validated_against_impl': evals,
        'deep_trees': deep_checked,
    }
    return {'coverage': cov, 'violations': violations, 'broken': broken}


def replay(case, lean):
    out = run(case.get('tier', 'quick'), case.get('seed', 0), lean)
    out['violations'] = [v for v in out['violations'] if v['sig'] == case.get('sig')][:3]
    return out
