"""C05 - bound names and data-dependent predicates see the values parsed earlier."""
import random

import envgen
import envrun

ID = 'C05'
THEOREMS = [
    'Sourcer.C05_flat_locals_realise_lexical_scoping',
    'Sourcer.C05_rule_outcome',
    'Sourcer.C05_where_apply_class',
    'Sourcer.C05_shadowing_breaks_it',
    'Sourcer.C05_specification_layers_agree',
    'Tie.binders_agree',
    'Tie.names_flags_conservative',
]
TIE_MODULES = ['Tie.Binders']
TRANSLATORS = ('binders',)
ASSUMPTIONS = [
    'inline Python is an uninterpreted pure function of the values of the local names it mentions (theorems hold for every interpretation); the driver '
    'interprets the fixed repertoire of harness/envgen.py (identity, tuples, lists, ==, !=, <, int, len, +1, constants)',
    'positions are threaded functionally in the names layer; the restores of the emitted code are the subject of C01/C03',
]

# hand-written families: every clause of the statement, including the classic traps
def hand_programs():
    L, CC, D = (lambda s: ('lit', s)), ('cc', 'a', 'c'), ('apply', ('cc', '0', '3'), 4, [])
    V = lambda n: ('py', 0, [n])
    out = []
    # abandoned alternative binds the same name first
    out.append(('abandoned-alternative', {'rules': [('start', ('choice', [
        ('let', 'xa', CC, ('seq', [L('!'), V('xa')])),
        ('let', 'xa', ('cc', 'a', 'b'), ('seq', [V('xa'), ('opt', L('c'))]))]))], 'templates': []}))
    # shadowing (the known finding): inner let, then the outer name again
    out.append(('shadow-inner-let', {'rules': [('start', ('let', 'xa', L('a'), ('seq', [('let', 'xa', L('b'), V('xa')), V('xa')])))], 'templates': []}))
    out.append(('shadow-abandoned', {'rules': [('start', ('let', 'xa', L('a'), ('choice', [('let', 'xa', L('b'), L('!')), V('xa')])))], 'templates': []}))
    # repetition: every iteration sees its own binding
    out.append(('repetition', {'rules': [('start', ('star', ('let', 'xa', CC, ('seq', [('where', CC, 2, ['xa']), V('xa')]))))], 'templates': []}))
    # recursion: the callee's bindings do not leak into the caller
    out.append(('recursion', {'rules': [('start', ('let', 'xa', CC, ('seq', [('opt', ('ref', 0)), V('xa')])))], 'templates': []}))
    # data-dependent count
    out.append(('count', {'rules': [('start', ('let', 'na', D, ('seq', [('rep', CC, 0, ['na']), ('py', 6, ['na'])])))], 'templates': []}))
    out.append(('count-neg', {'rules': [('start', ('let', 'na', D, ('rep', CC, 10, ['na'])))], 'templates': []}))
    # class: plain, let, pass members; a requirement; fields in declaration order
    out.append(('class', {'rules': [('start', ('ref', 1)), ('R1', ('bseq', 'R1', ['xa', 'xc'], [
        ('xa', D), (None, L(',')), ('xb', D), ('xc', ('py', 1, ['xa', 'xb'])), (None, ('where', ('py', 100, []), 7, ['xa', 'xb']))]))],
        'templates': []}))
    # f <| a and a |> f: operands in the order written; the function may be parsed, too
    sign = ('let', 'ka', ('cc', 'a', 'b'), ('py', 1001, ['ka']))      # consumes a letter, returns lambda _v: (_v, ka)
    out.append(('apply-left', {'rules': [('start', ('applyl', sign, D))], 'templates': []}))
    out.append(('apply-right', {'rules': [('start', ('apply', D, 1, [])), ], 'templates': []}))
    # known finding: a lambda captures the variable; a sibling binder of the same name reassigns it before the call
    out.append(('lambda-late-binding', {'rules': [('start', ('applyl', sign, ('let', 'ka', D, ('py', 100, []))))], 'templates': []}))
    # a class as start rule with omitted members first, with and without an ignore declaration
    for ign in (False, True):
        out.append(('start-class' + ('-ignore' if ign else ''), {'rules': [('start', ('bseq', 'start', ['xb', 'xc'], [
            ('na', D), (None, L(',')), ('xb', ('rep', CC, 0, ['na'])), ('xc', ('py', 1, ['na', 'xb']))]))], 'templates': [], 'ignore': ign}))
    # a parameter named like a rule denotes the argument, not the rule
    out.append(('param-hides-rule', {'rules': [('start', ('seq', [('call', 0, [(None, D)]), ('opt', ('ref', 1))])), ('R1', L('a'))],
                                     'templates': [('T0', ['R1'], ('seq', [L('('), ('pvar', 'R1'), L(')')]))]}))
    # parameters: sibling invocations at the same position, nested and recursive
    out.append(('params', {'rules': [('start', ('seq', [('call', 0, [(None, ('py', 200, []))]), ('call', 0, [(None, ('py', 201, []))])]))],
                           'templates': [('T0', ['xa'], ('seq', [('opt', ('where', CC, 2, ['xa'])), V('xa')]))]}))
    out.append(('param-recursion', {'rules': [('start', ('call', 0, [(None, ('py', 100, []))]))],
                                    'templates': [('T0', ['na'], ('choice', [('seq', [L('a'), ('call', 0, [(None, ('py', 6, ['na']))]), V('na')]), V('na')]))]}))
    # a predicate that rejects what its operand consumed: the position is restored under repetition, option, choice and count
    W = ('where', CC, 3, ['xa'])                                      # a letter other than the first one
    out.append(('where-rejects-star', {'rules': [('start', ('let', 'xa', CC, ('seq', [('star', W), ('star', CC)])))], 'templates': []}))
    out.append(('where-rejects-choice', {'rules': [('start', ('let', 'xa', CC, ('seq', [('choice', [W, ('seq', [CC, CC])]), ('star', CC)])))], 'templates': []}))
    out.append(('where-rejects-opt', {'rules': [('start', ('let', 'xa', CC, ('seq', [('opt', W), ('opt', ('where', L('ab'), 3, ['xa'])), ('star', CC)])))], 'templates': []}))
    out.append(('where-rejects-count', {'rules': [('start', ('let', 'xa', CC, ('seq', [('opt', ('rep', W, 102, [])), ('star', CC)])))], 'templates': []}))
    out.append(('where-rejects-field', {'rules': [('start', ('bseq', 'start', ['xb', 'xc'], [('xa', CC), ('xb', ('star', W)), ('xc', ('star', CC))]))], 'templates': []}))
    # == but not interchangeable argument values, passed by keyword, must not share a memo entry
    out.append(('equal-values-keyword', {'rules': [('start', ('seq', [('call', 0, [('xa', ('py', 101, []))]), ('call', 0, [('xa', ('py', 11, []))]),
                                                                      ('call', 0, [('xa', ('py', 101, []))])]))],
                                         'templates': [('T0', ['xa'], ('py', 0, ['xa']))]}))
    out.append(('equal-values-keyword-nested', {'rules': [('start', ('let', 'ya', ('py', 101, []), ('let', 'yb', ('py', 11, []), ('seq', [
        ('call', 0, [('xa', ('py', 8, ['ya'])), ('xb', ('py', 100, []))]), ('call', 0, [('xb', ('py', 100, [])), ('xa', ('py', 8, ['yb']))]),
        ('call', 0, [('xb', ('py', 101, [])), ('xa', ('py', 1, ['ya', 'yb']))]), ('call', 0, [('xb', ('py', 11, [])), ('xa', ('py', 1, ['ya', 'yb']))])]))))],
                                                'templates': [('T0', ['xa', 'xb'], ('py', 1, ['xa', 'xb']))]}))
    # a count that turns out to be zero, in an alternative that is not the first (the status on entry is that of the abandoned one)
    out.append(('count-zero-alternative', {'rules': [('start', ('let', 'na', D, ('seq', [('choice', [('seq', [L('!'), ('rep', CC, 0, ['na'])]), ('rep', CC, 0, ['na'])]), ('star', CC)])))], 'templates': []}))
    out.append(('count-zero-first-in-rule', {'rules': [('start', ('let', 'na', D, ('seq', [('call', 0, [(None, ('py', 0, ['na']))]), ('star', CC)])))],
                                             'templates': [('T0', ['nb'], ('rep', CC, 0, ['nb']))]}))
    # let inside an argument expression; argument mentions call-site names
    out.append(('arg-mentions-let', {'rules': [('start', ('let', 'xa', CC, ('call', 0, [(None, ('where', CC, 3, ['xa']))])))],
                                     'templates': [('T0', ['pa'], ('seq', [('pvar', 'pa'), ('opt', ('pvar', 'pa'))]))]}))
    out.append(('arg-mentions-field', {'rules': [('start', ('ref', 1)), ('R1', ('bseq', 'R1', ['xa', 'xb'], [
        ('xa', CC), ('xb', ('call', 0, [(None, ('where', CC, 3, ['xa']))]))]))],
        'templates': [('T0', ['pa'], ('seq', [('pvar', 'pa'), ('opt', ('pvar', 'pa'))]))]}))
    return out


def build_jobs(tier, seed, expand=False):
    rng = random.Random(seed)
    jobs = []
    inputs = envgen.inputs_for(rng, 12) + ['a!', 'b', 'bc', 'aab', 'abcab', '2,3', '3,2', '1,1', '2abc', '0', '3abc', 'aaa', 'aa', 'ab', 'ba', 'a,b', '2,ab', '1,c', '(2)', '(2)a', '(a)', '0,']
    for named in (None, 'envh'):
        for fam, P in hand_programs():
            Q = dict(P)
            Q['named'] = named
            jobs.append({'id': f'hand-{fam}-{named}', 'family': fam, 'program': Q, 'inputs': inputs, 'seed': seed, 'expand': expand,
                         # function values capture by value in the model: for this family the difference is the finding itself
                         'memo_sensitive': fam == 'lambda-late-binding'})
    n = 600 if tier == "quick" else 6000
    for i in range(n):
        sh = 0.25 if i % 5 == 0 else 0.0
        g = envgen.Gen(random.Random(rng.randrange(1 << 30)), shadow=sh, named=('envg' if i % 3 == 0 else None))
        P = g.program(n_rules=rng.randrange(2, 4), n_templates=rng.randrange(0, 4), depth=rng.randrange(2, 4))
        jobs.append({'id': f'gen{i}', 'family': 'generated' + ('-shadowing' if sh else ''), 'program': P,
                     'inputs': list(dict.fromkeys(envgen.inputs_from(P, random.Random(rng.randrange(1 << 30)), 14)
                                                  + envgen.inputs_for(random.Random(rng.randrange(1 << 30)), 3))),
                     'seed': seed, 'expand': expand})
    return jobs


def extra_pairs(seed):
    """call-versus-expansion pairs on the real generator for inline Python outside the repertoire of the names-layer model
    (shared with C06)"""
    from props import c06
    return c06.bytes_family(seed)


def summarise(results, jobs):
    violations, broken = [], []
    evals = stuck = ws1 = ws0 = expanded = closure_args = subst_ties = 0
    outcomes = {}
    for r in results:
        evals += r['evals']
        stuck += r['stuck']
        if r['ws'] is True:
            ws1 += 1
        elif r['ws'] is False:
            ws0 += 1
        expanded += r['kinds'].get('expanded', 0)
        closure_args += r['kinds'].get('closure_args', 0)
        subst_ties += r['kinds'].get('subst_ties', 0)
        for k, v in r['outcomes'].items():
            outcomes[k] = outcomes.get(k, 0) + v
        violations += r['viol']
        broken += r['broken']
    samples = []
    for j in jobs:
        if len(samples) >= 3:
            break
        if j['id'].startswith('gen') and j['program']['templates']:
            samples.append({'description': envgen.grammar_text(j['program']), 'inputs': j['inputs'][:6]})
    cov = {'samples': samples, 'evaluations': evals, 'programs': len(jobs), 'well_scoped_programs': ws1, 'programs_with_shadowing': ws0,
           'cases_where_model_is_undefined': stuck, 'real_outcomes': outcomes, 'programs_compared_with_their_expansion': expanded, 'argument_expressions_with_helper_functions': closure_args, 'expansions_compared_with_lean_subst': subst_ties,
           'distinct_nontrivial': ws1 + ws0}
    return cov, violations, broken


def run(tier, seed, lean):
    jobs = build_jobs(tier, seed)
    results = envrun.run_jobs(jobs)
    cov, violations, broken = summarise(results, jobs)
    for v in violations:
        if v.get('sig', '').startswith('lambda-late-binding'):
            v['finding_class'] = 'late-binding'
    pv, pn = extra_pairs(seed)
    violations += pv
    cov['evaluations'] += pn
    cov['call_vs_expansion_pairs_on_the_real_generator'] = pn
    cov['rule'] = ('hand-written families for every clause (abandoned alternatives, repetition, recursion, counts, classes with let/pass/requires, '
                   'parameters, arguments that mention call-site names) and typed random programs with let, class bodies, where, |>, counts, templates; '
                   'with and without a grammar header; one in five random programs shadows names on purpose. Every case: real parser = xgen '
                   '(implementation model, correspondence) and real parser = xpeg (lexical specification, the property)')
    return {'coverage': cov, 'violations': violations, 'broken': broken}


def replay(case, lean):
    envrun._init()
    P = eval(case['program'])
    res = envrun.run_program(P, [case['input']])
    out = {'coverage': {'evaluations': 1}, 'violations': [], 'broken': []}
    for t, real, spec, impl in res.get('rows', []):
        if spec[0] != 'U' and real != spec:
            out['violations'].append({'key': case.get('key', 'replay'), 'what': f'{real} vs {spec}', 'finding_class': case.get('finding_class', 'none')})
    return out
