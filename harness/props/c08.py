"""C08 - parse has exactly three outcomes, fixed by the start rule's match."""
import random

import gengram as G
from gengram import *       # noqa: F401,F403
import corerun
from props import c01, c04

ID = 'C08'
THEOREMS = [
    'Sourcer.C08_match_outcome',
    'Sourcer.C08_failure_outcome',
    'Sourcer.C01_codegen_refines_peg',
    'Tie.implFlags_sound',
    'Sourcer.C08_shift_law',
    'Sourcer.C08_shift_law_generated_code',
]
TIE_MODULES = ['Tie.Flags']
ASSUMPTIONS = [
    'the regex matcher stays inside the input (MatcherBounded) - true of CPython re.match(text, pos)',
    'the offset-shift law is checked on the implementation (metamorphic), not proved',
]

LEAVES = [S('a'), S('ab'), S(''), RX('a+'), RX('a*'), RX('[ab\\n]'), REF('A'), REF('B'), REF('K'), REF('N'), REF('M'),
          FAIL, PY('None'), PY('0'), SEQ()]
BYTE_LEAVES = [S('a'), S('ab'), BYTE(0x62), RX('a+'), RX('[ab\\n]'), REF('A'), REF('K'), REF('N'), REF('M'), FAIL]


def class_decl(rng, name, leaves, an, nullable_ok=True):
    ms = []
    for j in range(rng.randint(1, 3)):
        for _ in range(20):
            e = G.random_expr(rng, rng.choice([0, 1, 2]), leaves)
            if an.wellformed(e):
                break
        else:
            e = S('a')
        kind = rng.choice(['field', 'field', 'field', 'let', 'pass'])
        if e[0] == 'py' and kind == 'pass':
            kind = 'field'
        ms.append((None if kind == 'pass' else f'f{j}', kind == 'let', e))
    return ('class', name, ms)


def build_jobs(tier, seed, for_c10=False):
    rng = random.Random(seed)
    jobs = []
    n = 700 if tier == 'quick' else 6000
    max_len = 3 if tier == 'quick' else 4
    base_inputs = G.all_inputs('ab', max_len) + ['abab', 'a\nb', '\nab', 'ab\n', 'a\n\nba', 'bab\na']
    helpers_rules = dict(G.HELPERS)
    # K: a class with a nullable body, N: a class that consumes
    proto = dict(helpers_rules)
    proto['K'] = SEQ(OPT(S('a')))
    proto['N'] = SEQ(S('a'), OPT(S('b')))
    proto['M'] = SEQ(RX('[ab\\n]+'))           # M: a class that can reach far (a lookahead leaves instances that end beyond the match)
    an = G.Analysis(proto)
    seen = set()
    for i in range(n):
        bm = rng.random() < 0.1
        leaves = BYTE_LEAVES if bm else LEAVES
        with_ignore = rng.random() < 0.25
        decls = []
        start_kind = rng.choice(['plain', 'plain', 'class'])
        if start_kind == 'plain':
            for _ in range(30):
                e = G.random_expr(rng, rng.choice([1, 2, 3]), leaves)
                if an.wellformed(e):
                    break
            else:
                continue
            decls.append(('rule', 'start', e))
        else:
            decls.append(class_decl(rng, 'start', leaves, an))
        decls.append(('class', 'K', [('x', False, OPT(S('a')))]))
        decls.append(('class', 'N', [('x', False, S('a')), ('y', rng.random() < 0.3, OPT(S('b'))),
                                     (None, False, OPT(REF('K')))][:rng.randint(2, 3)]))
        decls.append(('class', 'M', [('x', False, RX('[ab\\n]+'))]))
        decls += [('rule', k, v) for k, v in G.HELPERS.items()]
        if with_ignore:
            decls.insert(rng.randint(0, len(decls)), ('ignore', None, RX(' +')))
        text = c04.render_grammar(decls, bm)
        if text in seen:
            continue
        seen.add(text)
        inputs = list(base_inputs)
        if with_ignore:
            inputs += [' a b', 'a  b ', ' ab a']
        cases = []
        for t in inputs:
            offs = range(0, len(t) + 1) if rng.random() < 0.5 or len(t) <= 2 else [0, rng.randint(0, len(t)), len(t)]
            for k in offs:
                cases.append((k, t))
            if len(t) <= 1 or rng.random() < 0.1:
                # an offset beyond the end: the text from there on is empty
                cases.append((len(t) + rng.choice([1, 2, 5]), t))
        if bm:
            cases = [(k, t.encode('latin-1')) for k, t in cases]
        entries = ['__module__', 'start', 'K', 'N'] + rng.sample(['A', 'B', 'C'], 1)
        jobs.append({'id': len(jobs), 'text': text, 'cases': cases, 'entries': entries, 'bm': bm,
                     'check_shift': not with_ignore or True, 'check_linecol': True, 'fuel': 120,
                     'meta': {'ctx': f'{start_kind}{"/ignore" if with_ignore else ""}', 'kinds': [], 'depth': 0}})
    return jobs


def fix_module_entry(jobs):
    # '__module__' is the module-level parse(); the driver needs the start rule's index
    return jobs


def summarize(results, what):
    out = c01.summarize(results, what)
    out['coverage']['instances_checked_line_column'] = sum(r.get('instances', 0) for r in results)
    out['coverage']['offset_shift_cases'] = sum(r.get('shift_cases', 0) for r in results)
    out['coverage']['rule'] = (what + ': every rule and class of each generated grammar as entry point (module-level parse, R.parse, '
                               'C.parse) x every input up to a length bound over {a,b,newline} x start offsets x both values of fullparse; '
                               'compared: outcome class, value with finalised spans, partial_result, last_position.index; line/column of every '
                               'instance; parse(text,k) against parse(text[k:],0) shifted. Non-trivial = at least two outcome classes; distinct by grammar text')
    for v in out['violations'] + out['broken']:
        if 'detail' in v:
            v['what'] = v['detail'] + ' | ' + v.get('what', '')
        v['what'] = f'entry {v.get("entry")} pos={v.get("pos")} fullparse={v.get("full")}: ' + v.get('what', '')
    return out


def param_class_cases():
    """C.parse(args)(text, pos, fullparse) of a parameterised class against the static spelling that the
    model decides (implementation-only metamorphic; parameters are outside the Lean expression type)"""
    import realrun as rr
    bad = []
    n = 0
    for header in ('', 'grammar c08_param_mod\n'):
        dyn, _ = rr.compile_grammar(header + 'class Rep(n) { xs: "a"{n}; y: "b"? }\nstart = Rep(`2`)\n')
        for k in range(0, 4):
            sta, _ = rr.compile_grammar(f'class Rep {{ xs: "a"{{{k}}}; y: "b"? }}\nstart = Rep\n')
            for text in ['', 'a', 'aa', 'aab', 'aaab', 'baa', 'aaaa', 'ab', 'xaab']:
                for pos in range(0, min(len(text), 2) + 1):
                    for full in (False, True):
                        n += 1
                        try:
                            d = rr.run_real_api(dyn.Rep.parse(k), text, pos, full)[0]
                        except Exception as exc:      # noqa: BLE001
                            d = ('X', type(exc).__name__)
                        s_ = rr.run_real_api(sta.Rep.parse, text, pos, full)[0]
                        if d != s_ and not (d[0] == s_[0] == 'E'):
                            bad.append({'key': f'param|{header}|{k}|{text}|{pos}|{full}', 'kind': 'spec', 'sig': 'param-class' + header,
                                        'grammar': header + 'class Rep(n) {...}', 'input': text, 'pos': pos, 'full': full,
                                        'what': f'Rep.parse({k})({text!r}, {pos}, {full}) -> {d}, but the static class with {{{k}}} -> {s_}'})
    return n, bad


def run(tier, seed, lean):
    from extract_flags import bits_of
    bits = bits_of(lean.regen['flags']['entries']) if lean.regen.get('flags', {}).get('ok') else None
    jobs = build_jobs(tier, seed)
    results = corerun.run_jobs_api(jobs, bits)
    out = summarize(results, 'three outcomes of parse')
    n, bad = param_class_cases()
    out['coverage']['parameterised_class_entry_cases'] = n
    out['coverage']['evaluations'] += n
    out['violations'] += bad
    return out


def replay(case, lean):
    from extract_flags import bits_of
    bits = bits_of(lean.regen['flags']['entries'])
    job = {'id': 0, 'text': case['grammar'], 'entries': [case.get('entry', '__module__')],
           'cases': [(case.get('pos', 0), case['input'])], 'check_shift': True, 'check_linecol': True, 'fuel': 120}
    return summarize(corerun.run_jobs_api([job], bits), 'replay')
