"""C02 - operator tables build the tree dictated by precedence and associativity."""
import itertools
import random

import gengram as G
import corerun
from props import c01

ID = 'C02'
THEOREMS = [
    'Sourcer.C02_tree_well_shaped_and_yield',
    'Sourcer.C02_generated_code_builds_that_tree',
    'Sourcer.C02_reductions_preserve_order',
    'Sourcer.C02_run_is_maximal',
    'Sourcer.C02_unique',
    'Sourcer.C02_result_is_the_well_shaped_tree',
    'Sourcer.C01_codegen_refines_peg',
    'Tie.implFlags_sound',
    'Tie.impl_refines',
]
TIE_MODULES = ['Tie.Flags']
ASSUMPTIONS = [
    'C02_tree_well_shaped_and_yield needs the rows of a table to be tagged (prec, assoc) with assoc = 0 on prefix rows and != 0 on infix rows; '
    'the driver evaluates that hypothesis (allTablesTagged) on every table the real generator builds (tags are read from the source text of the real tagger lambdas)',
    'C02_run_is_maximal states maximality as the exhaustive list of reasons for which the loop ends (no infix operator readable, dangling '
    'operator without operand, non-associative repeat); "longest match among rows" is the Longest semantics of the sub-parsers (C01)',
    'across rows the longest match wins (Longest), inside a row the first alternative that matches (ordered choice): part of the sub-parsers, covered by C01',
]

SPELLINGS = ['+', '-', '++', '!', '*']
KINDS = ['left', 'right', 'infix', 'prefix', 'postfix', 'mixfix']
OPERANDS = [
    ('lit', '"1"', []),
    ('regex', '/[12]/', []),
    ('ref', 'N', ['N = /[12]/']),
    ('consuming', 'Q', ['Q = "1" >> "2"']),          # can fail after consuming
    ('class', 'K', ['class K { v: /[12]/ }']),
]
MIXFIX = ['"(" >> E << ")"', '"[" >> E << "]"', '["1", "!"]']


def q(s):
    return '"' + s + '"'


def rand_table(rng, max_rows, defs=None):
    """defs: when given, some rows name their operators through a rule (`Op0 = "+" | "-"`) instead of spelling them; the
    rules are collected there"""
    rows = []
    for _ in range(rng.randint(1, max_rows)):
        kind = rng.choice(KINDS)
        if kind == 'mixfix':
            ops = [rng.choice(MIXFIX)]
        else:
            spells = rng.sample(SPELLINGS, rng.randint(1, 2))
            if defs is not None and rng.random() < 0.3:
                name = f'Op{len(defs)}'
                defs[name] = spells
                ops = [name]
            else:
                ops = [q(s) for s in spells]
        rows.append((kind, ops))
    return rows


def render_table(operand, rows, sep='\n'):
    body = sep.join(f'    {k}: {", ".join(ops)}' for k, ops in rows)
    return f'{operand} between {{\n{body}\n}}'


def directed_inputs(rng, rows, n, defs=None):
    """token sequences built from the table's own operators: (pre* operand post*) (inf pre* operand post*)*, 2-5 operands,
    complete and truncated - long enough for two operators of one row with operators of other rows pending between them"""
    un = lambda o: (defs or {}).get(o) or [o.strip('"')]
    pre = [x for k, ops in rows if k == 'prefix' for o in ops for x in un(o)]
    post = [x for k, ops in rows if k == 'postfix' for o in ops for x in un(o)]
    inf = [x for k, ops in rows if k in ('left', 'right', 'infix') for o in ops for x in un(o)]
    out = []
    for _ in range(n):
        parts = []
        for i in range(rng.randint(2, 5)):
            if i:
                if not inf:
                    break
                parts.append(rng.choice(inf))
            if pre and rng.random() < 0.35:
                parts.append(rng.choice(pre))
            parts.append(rng.choice('12'))
            if post and rng.random() < 0.35:
                parts.append(rng.choice(post))
        s = ''.join(parts)
        out.append(s)
        if rng.random() < 0.25 and len(s) > 1:
            out.append(s[:rng.randrange(1, len(s))])
    return list(dict.fromkeys(out))


def build_jobs(tier, seed):
    rng = random.Random(seed)
    jobs = []
    n = 900 if tier == 'quick' else 8000
    max_len = 4 if tier == 'quick' else 5
    alpha = '12+-!*'
    base = G.all_inputs('1+-!', max_len) + G.all_inputs('12*+', 3)
    extra = ['1+2*1', '1++1', '-1+-1!', '1+1+', '(1+2)*1', '1-1-1', '1!+!1', '[1]', '1*(2+1)!', '--1', '1!!', '1+(1', '12+12', '1 + 1']
    seen = set()
    for i in range(n):
        okind, otext, orules = rng.choice(OPERANDS)
        defs = {}
        rows = rand_table(rng, 3 if tier == 'quick' or rng.random() < 0.7 else 5, defs)
        with_ignore = rng.random() < 0.15
        ctx = rng.choice(['plain', 'plain', 'alt', 'seq', 'opt'])
        table = render_table(otext, rows)
        lines = [f'E = {table}'] + orules + [f'{k} = ' + ' | '.join(q(x) for x in v) for k, v in defs.items()]
        if ctx == 'plain':
            lines.insert(0, 'start = E')
        elif ctx == 'alt':
            lines.insert(0, 'start = (E << "?") | [E, /.*/]')
        elif ctx == 'seq':
            lines.insert(0, 'start = [E, /[-+!*]*/, E?]')
        else:
            lines.insert(0, 'start = [(E << "!")?, /.*/]')
        if with_ignore:
            lines.append('ignore / +/')
        text = '\n'.join(lines) + '\n'
        if text in seen:
            continue
        seen.add(text)
        inputs = rng.sample(base, min(len(base), 260 if tier == 'quick' else 700)) + extra
        inputs = list(dict.fromkeys(inputs + directed_inputs(rng, rows, 40 if tier == 'quick' else 120, defs)))
        inlined = None
        if defs:
            # the same table with the operator rules written out in the rows: a reference means its body
            rows_in = [(k, [x for o in ops for x in ([q(y) for y in defs[o]] if o in defs else [o])]) for k, ops in rows]
            inlined = text.replace(table, render_table(otext, rows_in))
        jobs.append({'id': len(jobs), 'text': text, 'cases': [(0, t) for t in inputs], 'entries': ['start', 'E'], 'fuel': 400, 'inlined': inlined,
                     'meta': {'ctx': f'{okind}/{ctx}/{"+".join(k for k, _ in rows)}', 'kinds': [k for k, _ in rows], 'depth': len(rows)}})
    return jobs


def _inline_job(job):
    rr = corerun._state['rr']
    out = {'id': job['id'], 'text': job['text'], 'n': 0, 'bad': []}
    try:
        a, _ = rr.compile_grammar(job['text'])
        b, _ = rr.compile_grammar(job['inlined'])
    except Exception as exc:      # noqa: BLE001
        out['bad'].append(('(compile)', type(exc).__name__, str(exc)[:80]))
        return out
    for t in job['inputs']:
        ra = rr.run_real_api(a.parse, t, 0, True, limit=3.0)[0]
        rb = rr.run_real_api(b.parse, t, 0, True, limit=3.0)[0]
        out['n'] += 1
        if ra != rb and not (ra[0] == rb[0] == 'E'):
            out['bad'].append((t, ra, rb))
            break
    return out


def run(tier, seed, lean):
    from extract_flags import bits_of
    bits = bits_of(lean.regen['flags']['entries']) if lean.regen.get('flags', {}).get('ok') else None
    jobs = build_jobs(tier, seed)
    for j in jobs:
        j['tagcheck'] = True
    results = corerun.run_jobs(jobs, bits)
    out = c01.summarize(results, 'operator tables (1-5 rows over left/right/infix/prefix/postfix/mixfix, spellings shared between rows and prefixes of one another, operand literal/regex/rule/class/consuming rule, in several enclosing contexts)')
    untagged = [r for r in results if r.get('tagcheck') is not None and ('0' in r['tagcheck'].split() or r['tagcheck'].startswith('error'))]
    out['coverage']['tables_checked_for_tagging'] = sum(1 for r in results if r.get('tagcheck') is not None)
    for r in untagged[:5]:
        out['broken'].append({'key': f'{r["id"]}|tagging', 'grammar': r['text'],
                              'what': 'a table of the real generator is not tagged (prec, assoc) as the hypothesis of C02_tree_well_shaped_and_yield requires: '
                                      + r['tagcheck'][:80]})
    # rows whose operators are named through rules against the same rows with the operators written out
    pairs = [j for j in jobs if j.get('inlined')]
    pairs = random.Random(seed).sample(pairs, min(len(pairs), 80 if tier == 'quick' else 600))
    res = corerun.pool_map(_inline_job, [{'id': j['id'], 'text': j['text'], 'inlined': j['inlined'], 'inputs': [t for _, t in j['cases']][:160]} for j in pairs],
                           corerun._init, (bits,), chunksize=4)
    for r in res:
        out['coverage']['evaluations'] += r['n']
        for m in r['bad'][:1]:
            out['violations'].append({'key': f'inline|{r["text"]}|{m[0]}', 'sig': 'rule-named-operators', 'kind': 'spec', 'grammar': r['text'], 'input': m[0],
                                      'what': f'on {m[0]!r} the table with operators named through rules gives {str(m[1])[:90]}, with the operators written out '
                                              f'in the rows {str(m[2])[:90]} [{r["text"][:200]!r}]'})
    out['coverage']['tables_compared_with_inlined_operator_rules'] = len(res)
    # operators of a postfix row and of an infix row that can be read at the same place: the statement lets the longest
    # match / the longest expression win, the generated loop reads postfix operators first (recorded finding)
    import realrun
    for text, cases in POSTFIX_VS_INFIX:
        mod, _ = realrun.compile_grammar(text)
        for inp, want in cases:
            got = realrun.run_real_api(mod.parse, inp, 0, True)[0]
            out['coverage']['evaluations'] += 1
            if tuple(got) != tuple(want):
                out['violations'].append({'key': f'postfix-vs-infix|{text}|{inp}', 'sig': 'postfix-vs-infix', 'kind': 'spec', 'grammar': text, 'input': inp,
                                          'finding_class': 'postfix-before-infix',
                                          'what': f'on {inp!r} the table {text.splitlines()[0]!r} gives {str(got)[:90]}, the tree the statement describes is {str(want)[:90]}'})
    return out


POSTFIX_VS_INFIX = [
    ('start = /[0-9]/ between { postfix: "!"; left: "*"; infix: "!=", "==" }\n',
     [('1!=2', ('V', '(o Infix (left (s 49)) (operator (s 33 61)) (right (s 50)))')), ('1!', ('V', '(o Postfix (left (s 49)) (operator (s 33)))')),
      ('1!*2', ('V', '(o Infix (left (o Postfix (left (s 49)) (operator (s 33)))) (operator (s 42)) (right (s 50)))'))]),
    ('start = /[0-9]/ between { postfix: "+"; left: "+" }\n',
     [('1+2', ('V', '(o Infix (left (s 49)) (operator (s 43)) (right (s 50)))')), ('1+', ('V', '(o Postfix (left (s 49)) (operator (s 43)))')),
      ('1++2', ('V', '(o Infix (left (o Postfix (left (s 49)) (operator (s 43)))) (operator (s 43)) (right (s 50)))'))]),
]


replay = c01.replay
