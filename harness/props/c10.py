"""C10 - class instances carry the exact span of input they were parsed from."""
import random

import gengram as G
from gengram import *       # noqa: F401,F403
import corerun
from props import c01, c04, c08

ID = 'C10'
THEOREMS = [
    'Sourcer.C10_span_exact',
    'Sourcer.C10_finalized_end',
    'Sourcer.C10_nested',
    'Sourcer.C10_ordered_seq',
    'Sourcer.C10_ordered_list',
    'Sourcer.C08_match_outcome',
    'Sourcer.C01_codegen_refines_peg',
    'Tie.linecol_spec',
    'Tie.implFlags_sound',
]
TIE_MODULES = ['Tie.Flags', 'Tie.Excerpt']
TRANSLATORS = ('flags', 'excerpt')
ASSUMPTIONS = [
    'nesting/ordering theorems exclude value-producing lookahead (Expect) and Backtrack, as the property does',
    'each instance is converted once per *occurrence* in the model; conversion of shared (memoised) instances exactly once is checked on the implementation',
]

# leaves are mostly class references, so that results are trees of instances
LEAVES = [REF('N'), REF('N'), REF('M'), REF('K'), REF('L'), S('a'), S('b'), RX('[ab]'), S('\n'), REF('A')]

CLASS_DECLS = [
    ('class', 'K', [('x', False, OPT(S('a')))]),                                        # may consume nothing
    ('class', 'N', [('x', False, S('a')), ('y', False, OPT(S('b')))]),
    ('class', 'M', [(None, False, S('b')), ('n', False, OPT(REF('N'))), ('k', True, REF('K')), (None, False, OPT(S('\n')))]),
    ('class', 'L', [('items', False, REP(1, None, REF('N'))), ('tail', False, SEP(REF('M'), S('a')))]),
]

WRAPS = [
    lambda e: e,
    lambda e: SEQ(EXP(e), e),                      # memoised reuse of the very same instances
    lambda e: ALT(LEFT(e, S('!')), e),             # first alternative abandoned after building instances
    lambda e: REP(0, None, e),
    lambda e: SEQ(OPT(e), REP(0, None, REF('N'))),
    lambda e: SEP(e, S('\n')),
    lambda e: RIGHT(NOT(LEFT(e, S('!'))), e),
]


def build_jobs(tier, seed):
    rng = random.Random(seed)
    jobs = []
    n = 500 if tier == 'quick' else 5000
    proto = dict(G.HELPERS)
    proto.update({'K': SEQ(OPT(S('a'))), 'N': SEQ(S('a'), OPT(S('b'))), 'M': SEQ(S('b'), OPT(REF('N'))),
                  'L': SEQ(REP(1, None, REF('N')))})
    an = G.Analysis(proto)
    max_len = 4 if tier == 'quick' else 5
    base = G.all_inputs('ab', max_len) + ['a\nab', 'ab\nb', 'b\na\nab', 'abab\n', '\nab', 'bab\n\nab', 'aab\nbab\nab']
    seen = set()
    for i in range(n):
        with_ignore = rng.random() < 0.35
        for _ in range(40):
            e = rng.choice(WRAPS)(G.random_expr(rng, rng.choice([1, 2, 2, 3]), LEAVES))
            if an.wellformed(e) and not an.has_bt(e):
                break
        else:
            continue
        start_kind = rng.choice(['plain', 'plain', 'class'])
        if start_kind == 'plain':
            start = ('rule', 'start', e)
        else:
            start = ('class', 'start', [('head', False, e), ('rest', rng.random() < 0.3, REP(0, None, REF('N')))])
        decls = [start] + CLASS_DECLS + [('rule', k, v) for k, v in G.HELPERS.items()]
        if with_ignore:
            decls.insert(rng.randint(0, len(decls)), ('ignore', None, RX(' +')))
        text = c04.render_grammar(decls)
        if text in seen:
            continue
        seen.add(text)
        inputs = list(base)
        if with_ignore:
            inputs += [' a b', 'a  b ', ' ab a ', 'ab \n ab', 'b a\n a b']
        cases = []
        for t in inputs:
            offs = [0] if len(t) > 3 and rng.random() < 0.6 else [0, rng.randint(0, len(t))]
            for k in sorted(set(offs)):
                cases.append((k, t))
        jobs.append({'id': len(jobs), 'text': text, 'cases': cases, 'entries': ['__module__', 'L', 'M'],
                     'check_shift': True, 'check_linecol': True, 'fuel': 160,
                     'meta': {'ctx': f'{start_kind}{"/ignore" if with_ignore else ""}', 'kinds': sorted(G.kinds(e)), 'depth': G.depth(e)}})
    # instances that are operands of operator tables: Infix/Prefix/Postfix nodes carry no span of their own, the
    # instances below and after them do
    for rows in (['left: "*"', 'left: "+"'], ['prefix: "-"', 'postfix: "!"', 'right: "^"', 'left: "+"'],
                 ['mixfix: "(" >> E << ")"', 'infix: "="', 'left: "+"']):
        for ign in ('', 'ignore /[ \\r\\n]+/\n'):
            text = ('start = Stmt*\nclass Stmt { expr: E; semi: ";" }\n'
                    'E = N between {\n' + ''.join(f'    {r}\n' for r in rows) + '}\n'
                    'class N { digits: /[0-9]/ }\n' + ign)
            inputs = ['7;1+2*3;4;', '1+2;3;', '1;', '-1!;2;', '1^2^3;4;', '(1+2)+3;4;', '1=2;3;', '1+;2;', '1+2', '', ';']
            if ign:
                inputs += ['7;\n1 + 2 * 3;\n4;', ' 1 + 2 ;\n 3 ;', '- 1 ! ;\n\n2;', '7;\r\n1 + 2;\r\n3;', '1;\r2;\n\r3;']
            cases = [(0, t) for t in inputs] + [(2, t) for t in inputs if len(t) > 4]
            jobs.append({'id': len(jobs), 'text': text, 'cases': cases, 'entries': ['__module__'],
                         'check_shift': True, 'check_linecol': True, 'fuel': 200,
                         'meta': {'ctx': 'operator-table' + ('/ignore' if ign else ''), 'kinds': ['optable', 'cls'], 'depth': 3}})
    return jobs


def run(tier, seed, lean):
    from extract_flags import bits_of
    bits = bits_of(lean.regen['flags']['entries']) if lean.regen.get('flags', {}).get('ok') else None
    jobs = build_jobs(tier, seed)
    results = corerun.run_jobs_api(jobs, bits)
    out = c08.summarize(results, 'spans of class instances')
    n, bad = shared_and_equal_instances()
    out['coverage']['evaluations'] += n
    out['coverage']['shared_or_equal_instance_cases'] = n
    out['violations'] += bad
    n, bad = instances_in_containers()
    out['coverage']['evaluations'] += n
    out['coverage']['instances_below_tuples_and_dicts'] = n
    out['violations'] += bad
    return out


CONTAINER_GRAMMARS = [
    ('start = [Header, Item*] |> `tuple`\nclass Header { name: Word << ":" }\nclass Item { value: /[0-9]+/ }\nWord = /[a-z]+/\nignore /\\s+/\n',
     ['cfg: 1 22\n333', 'x:', 'cfg: 1\n\n 2']),
    ('start = (Pair // ",") |> `dict`\nPair = [Word << "=", Value]\nclass Value { digits: /[0-9]+/ }\nWord = /[a-z]+/\nignore /\\s+/\n',
     ['a = 1,\nbc = 23', 'a=1']),
    ('start = Statement /? ";"\nStatement = [Command, Location] |> `tuple`\nclass Command { verb: "go" | "stay" }\nclass Location { place: "here" | "there" }\nignore /\\s+/\n',
     ['go there;\nstay here ;', 'go here']),
    ('start = Record*\nclass Record { name: Word; fields: "{" >> ((Field /? ",") |> `dict`) << "}" }\nField = [Word << ":", Value]\nclass Value { digits: /[0-9]+/ }\nWord = /[a-z]+/\nignore /\\s+/\n',
     [' p {x: 1,\n y: 22}\nq {}', 'p{}']),
    # instances used as the KEYS of a dict made by inline Python
    ('start = (Pair*) |> `dict`\nPair = [Key, "=" >> /[0-9]+/]\nclass Key { v: /[a-z]+/ }\nignore /\\s+/\n',
     ['a=1 b=2', 'a=1\n bc=2']),
    # an instance kept from a lookahead that reaches over line breaks beyond the end of the match
    ('start = Head\nclass Head { name: Word; peek: Expect(Body) }\nclass Body { first: Word; second: Word }\nWord = /[a-z]+/\nignore /\\s+/\n',
     ['head\nfoo\nbar', 'head foo\n  bar baz']),
]


def _walk(v, seen=None):
    seen = set() if seen is None else seen
    if id(v) in seen:
        return
    if isinstance(v, (list, tuple)) and not hasattr(v, '_fields'):
        seen.add(id(v))
        for x in v:
            yield from _walk(x, seen)
    elif isinstance(v, dict):
        seen.add(id(v))
        for k, x in v.items():
            yield from _walk(k, seen)
            yield from _walk(x, seen)
    elif hasattr(v, '_fields') and hasattr(v, '_metadata'):
        seen.add(id(v))
        yield v
        for f in v._fields:
            yield from _walk(getattr(v, f), seen)


def instances_in_containers():
    """results whose outermost value, or some value inside, is a tuple or a dict made by inline Python: every instance below is
    converted, with the line and column of its offsets; also with fullparse=False and from an offset"""
    import realrun as rr
    bad = []
    n = 0
    for g, texts in CONTAINER_GRAMMARS:
        m, _ = rr.compile_grammar(g)
        for text in texts:
            for pos, full in ((0, True), (0, False), (1, False)):
                t = ('\n' * pos) + text if pos else text
                try:
                    v = m.parse(t, pos, full)
                except Exception as exc:      # noqa: BLE001
                    v = getattr(exc, 'partial_result', None)
                    if v is None:
                        bad.append({'key': f'containers|{g}|{text}|{pos}', 'kind': 'spec', 'grammar': g, 'input': t, 'sig': 'containers',
                                    'what': f'parse({t!r}, {pos}, {full}) raised {type(exc).__name__}: {str(exc)[:100]}'})
                        continue
                for inst in _walk(v):
                    n += 1
                    info = inst._metadata.position_info
                    ok = hasattr(info, 'start') and pos <= info.start.index <= info.end.index < len(t)
                    if ok:
                        for which in (info.start, info.end):
                            if t[which.index] != '\n' and (which.line, which.column) != corerun._linecol(t, which.index):
                                ok = False
                    if not ok:
                        bad.append({'key': f'containers|{g}|{text}|{pos}|{full}', 'kind': 'spec', 'grammar': g, 'input': t, 'sig': 'containers',
                                    'what': f'parse({t!r}, {pos}, {full}): instance {inst!r} has position_info {info!r}'})
                        break
    return n, bad


def shared_and_equal_instances():
    """instances that are shared (memoised) or merely equal must each be converted exactly once"""
    import realrun as rr
    bad = []
    n = 0
    g = ('ignore /\\s+/\n'
         'start = Stmt /? ";"\n'
         'class Stmt { name: Name; pass "="; value: Num }\n'
         'class Name { text: /[a-z]+/ }\n'
         'class Num { text: /[0-9]+/ }\n')
    m, _ = rr.compile_grammar(g)
    for text in ['a = 1; b = 2; c = 1; a = 1', 'x=1;x=1;x=1', 'a = 1 ;\n a = 1;\n\n  a = 1']:
        v = m.parse(text)
        for inst in rr.instances(v):
            n += 1
            info = inst._metadata.position_info
            if not hasattr(info, 'start'):
                bad.append({'key': f'equal|{text}', 'kind': 'spec', 'grammar': g, 'input': text, 'sig': 'equal-instances',
                            'what': f'an instance equal to an earlier one kept its raw span {info!r} on {text!r}'})
                break
            seg = text[info.start.index:info.end.index + 1]
            want = getattr(inst, 'text', None)
            if want is not None and seg.strip() != want:
                bad.append({'key': f'equal-span|{text}', 'kind': 'spec', 'grammar': g, 'input': text, 'sig': 'equal-instances',
                            'what': f'instance {inst!r} spans {seg!r}'})
                break
    g2 = 'start = [Expect(N), N, Expect([N, N]), N]\nclass N { x: "a"; y: "b"? }\n'
    m2, _ = rr.compile_grammar(g2)
    for text in ['aab', 'abaab', 'aa']:
        try:
            v = m2.parse(text)
        except Exception as exc:      # noqa: BLE001
            v = getattr(exc, 'partial_result', None)
        if v is None:
            continue
        for inst in rr.instances(v):
            n += 1
            info = inst._metadata.position_info
            if not hasattr(info, 'start') or info.end.index < info.start.index or text[info.start.index] != 'a':
                bad.append({'key': f'shared|{text}', 'kind': 'spec', 'grammar': g2, 'input': text, 'sig': 'shared-instances',
                            'what': f'shared instance has position_info {info!r} on {text!r}'})
                break
    return n, bad


replay = c08.replay
