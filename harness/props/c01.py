"""C01 - generated parsers implement PEG semantics for the core expressions."""
import random

import gengram as G
from gengram import *       # noqa: F401,F403
import corerun

ID = 'C01'
THEOREMS = [
    'Sourcer.C01_codegen_refines_peg',
    'Sourcer.C01_meaning_independent_of_fuel',
    'Sourcer.C01_codegen_refines_peg_from_there_on',
    'Sourcer.C01_choice_commits_first',
    'Sourcer.C01_failed_alternative_leaves_no_trace',
    'Sourcer.C01_failed_option_leaves_no_trace',
    'Sourcer.C01_lookahead_restores',
    'Sourcer.C01_longest_first_on_ties',
    'Tie.implFlags_sound',
    'Tie.impl_refines',
]
TIE_MODULES = ['Tie.Flags']

BYTE_LEAVES = [S('a'), S('ab'), S(''), RX('a+'), BYTE(0x61), BYTE(0x62), REF('A'), FAIL]

EXTRA_TEXT_INPUTS = ['A', 'Ab', 'aB', 'AA', 'aA', 'Aa', 'AAb', 'aAb', 'AaA', 'abab', 'aabb', 'ababa', 'bbbbb', 'aaaaa']


def build_jobs(tier, seed):
    rng = random.Random(seed)
    jobs = []
    max_len = 4 if tier == 'quick' else 5
    text_inputs = [(0, t) for t in G.all_inputs('ab', max_len)] + [(0, t) for t in EXTRA_TEXT_INPUTS]
    byte_inputs = [(0, t) for t in G.all_inputs('ab', max_len, bm=True)]
    an = G.Analysis(G.HELPERS)
    seen = set()

    def add(e, ctxname, bm=False):
        if not an.wellformed(e):
            return
        text, _ = G.grammar_text(e, bm)
        if text in seen:
            return
        seen.add(text)
        job = {'id': len(jobs), 'text': text, 'bm': bm, 'cases': byte_inputs if bm else text_inputs,
               'meta': {'ctx': ctxname, 'depth': G.depth(e), 'kinds': sorted(G.kinds(e))}}
        # the intended expression (the generator's own tree) through the Lean pipeline `prepare` + `peg`: the reference does
        # not depend on what the real translator made of the description
        from props import c04
        _, rules = G.grammar_text(e, bm)
        decls = [('rule', 'start', e)] + [('rule', k, v) for k, v in rules.items()]
        req, rxs = c04.prep_request(decls, bm)
        job.update({'prep_request': req, 'prep_rx': rxs, 'prep_entry': 'start'})
        jobs.append(job)

    # (a) exhaustive: every depth<=1 expression over the leaf basis in every enclosing context
    d1 = G.depth1_exprs()
    if tier == 'quick':
        # all contexts for unary parents and leaves; binary parents in a seeded third of the contexts
        for e in d1:
            binary = len(G.children(e)) == 2
            ctxs = G.CONTEXTS if not binary else [G.CONTEXTS[0]] + rng.sample(G.CONTEXTS[1:], 3)
            for name, c in ctxs:
                add(c(e), name)
    else:
        for e in d1:
            for name, c in G.CONTEXTS:
                add(c(e), name)
    # (b) seeded random deeper trees
    n_rand = 1500 if tier == 'quick' else 12000
    for _ in range(n_rand):
        e = G.random_expr(rng, rng.choice([2, 3, 3, 4]))
        name, c = rng.choice(G.CONTEXTS)
        add(c(e), 'rand-' + name)
    # (c) bytes mode
    n_bytes = 400 if tier == 'quick' else 3000
    for _ in range(n_bytes):
        e = G.random_expr(rng, rng.choice([1, 2, 3]), leaves=BYTE_LEAVES)
        name, c = rng.choice(G.CONTEXTS)
        add(c(e), 'bytes-' + name, bm=True)
    # (e) regex literals that accept the empty string only in some places (anchors, lookahead): they can fail like any other
    #     literal, whatever `re.match(pattern, '')` says
    anchors = [RX('$'), RX('(?![ab])'), RX('(?=b)'), RX('a*$'), RX('\\Z'), RX('^a'), RX('(?!a)[ab]')]
    for rx in anchors:
        for name, c in G.CONTEXTS:
            add(c(rx), 'anchor-' + name)
            add(c(SEQ(S('a'), rx, OPT(S('b')))), 'anchor-seq-' + name)
            add(c(ALT(LEFT(S('a'), rx), S('ab'), S('a'))), 'anchor-alt-' + name)
            add(c(REP(0, None, LEFT(S('a'), ALT(rx, S(','))))), 'anchor-rep-' + name)
    # (d) one rule nested deeply enough for the generator to move its inner part into a helper function, between siblings
    # that keep temporaries alive across it (the checkpoint of an enclosing choice/option/repetition, the items of an
    # enclosing sequence): the model has no nesting limit
    deep_inputs = [(0, 'a' * k + t) for k in (0, 1, 15, 16, 17, 18, 19, 20, 21, 22) for t in ('', 'z', 'xz', 'q', 'b', 'pq')] + \
                  [(0, 'p' + 'a' * k + 'q') for k in (15, 16, 17, 18, 19, 20, 21, 22)]
    for d in (14, 15, 16, 17, 18, 19, 20, 21, 22):
        chain = S('a')
        for _ in range(d - 1):
            chain = RIGHT(S('a'), chain)
        nest = S('a')
        for _ in range(d):
            nest = SEQ(S('a'), OPT(nest))
        for name, e in (('deep-choice', ALT(RIGHT(chain, RIGHT(OPT(S('x')), S('z'))), RX('a+'))),
                        ('deep-seq', SEQ(OPT(S('p')), chain, OPT(S('q')), RX('[a-z]*'))),
                        ('deep-rep', SEQ(REP(0, None, LEFT(chain, OPT(S('x')))), RX('[a-z]*'))),
                        ('deep-nest', SEQ(nest, RX('[a-z]*')))):
            if an.wellformed(e):
                text, _ = G.grammar_text(e)
                job = {'id': len(jobs), 'text': text, 'bm': False, 'cases': deep_inputs, 'fuel': 8 * d + 80,
                       'meta': {'ctx': name, 'depth': d, 'kinds': sorted(G.kinds(e))}}
                jobs.append(job)
    return jobs


def run(tier, seed, lean):
    from extract_flags import bits_of
    bits = bits_of(lean.regen['flags']['entries']) if lean.regen.get('flags', {}).get('ok') else None
    jobs = build_jobs(tier, seed)
    results = corerun.run_jobs(jobs, bits)
    return summarize(results, 'core PEG constructs')


def summarize(results, what, cmp_failpos=False):
    ev = 0
    undefined = 0
    outcomes = {}
    ctxs = {}
    kinds = {}
    violations = []
    broken = []
    unsupported = 0
    nontrivial = set()
    samples = []
    failpos_cmp = failpos_diff = 0
    for r in results:
        if r['compile'] != 'ok':
            violations.append({'key': 'compile|' + r['text'], 'what': f'Grammar() raised {r["compile"]}',
                               'grammar': r['text'], 'detail': r['compile']})
            continue
        if r['unsupported']:
            unsupported += 1
            continue
        ev += r['n_cases']
        undefined += r['undefined']
        failpos_cmp += r['failpos_cmp']
        failpos_diff += r['failpos_diff']
        for k, v in r['outcomes'].items():
            outcomes[k] = outcomes.get(k, 0) + v
        meta = r.get('meta') or {}
        ctxs[meta.get('ctx', '?')] = ctxs.get(meta.get('ctx', '?'), 0) + 1
        for k in meta.get('kinds', []):
            kinds[k] = kinds.get(k, 0) + 1
        # a grammar is non-trivial when its inputs produced at least two different outcome classes
        if len([k for k in r['outcomes'] if r['outcomes'][k] > 0]) >= 2:
            nontrivial.add(r['text'])
        if len(samples) < 6 and r['id'] % 997 == 0:
            samples.append({'grammar': r['text'], 'outcomes': r['outcomes']})
        for m in r['mismatches']:
            item = {'key': f'{r["text"]}|{m["entry"]}|{m["pos"]}|{m["input"]}',
                    'grammar': r['text'], 'sig': m.get('variant') or r['text'], 'bm': r.get('bm', False), 'prep': r.get('prep'), **m}
            if m['kind'] == 'spec':
                item['what'] = (f'implementation {m["real"]} but documented meaning {m["peg"]} '
                                f'on input {m["input"]!r}')
                violations.append(item)
            elif m['kind'] == 'failpos':
                if cmp_failpos:
                    broken.append(item)
            else:
                item['what'] = f'implementation {m["real"]} but code model {m["gen"]} on {m["input"]!r}'
                broken.append(item)
    if not samples and results:
        r = results[0]
        samples.append({'grammar': r['text'], 'outcomes': r['outcomes']})
    cov = {
        'evaluations': ev,
        'distinct_nontrivial': len(nontrivial),
        'rule': (f'{what}: exhaustive parent x child x context product over a leaf basis covering every '
                 'flag combination plus seeded random deeper trees, each against every input up to a '
                 'length bound over {a,b}; a grammar counts as non-trivial when its inputs produced at '
                 'least two different outcome classes (match / failure); distinct by grammar text'),
        'samples': samples,
        'programs': len(results) - unsupported,
        'grammars_skipped_unsupported': unsupported,
        'undefined_by_spec': undefined,
        'outcome_histogram': outcomes,
        'context_histogram': ctxs,
        'construct_histogram': kinds,
        'failure_positions_compared': failpos_cmp,
        'failure_positions_differing': failpos_diff,
        'traces_validated_against_impl': ev - undefined,
    }
    return {'coverage': cov, 'violations': violations, 'broken': broken}


def replay(case, lean):
    """re-run one recorded case (grammar text + input) -> list of violations"""
    from extract_flags import bits_of
    bits = bits_of(lean.regen['flags']['entries'])
    inp = case.get('base_input', case['input'])
    job = {'id': 0, 'text': case['grammar'], 'bm': case.get('bm', False),
           'entries': [case.get('entry', 'start')],
           'cases': [(case.get('pos', 0), inp.encode('latin-1') if case.get('bm') else inp)]}
    if case.get('variant'):
        job['dyn'] = {'text': case['variant'], 'prefix': case.get('prefix', '')}
    res = corerun.run_jobs([job], bits)
    return summarize(res, 'replay')
