"""C06 - parameterised rules behave like their expansion."""
import random

import envgen
import envrun
import realrun
from props import c05

ID = 'C06'
THEOREMS = [
    'Sourcer.C06_call_is_body_with_arguments',
    'Sourcer.C06_arguments_bind_parameters',
    'Sourcer.C06_call_means_its_expansion_closed_arguments',
    'Sourcer.C06_more_fuel_same_outcome',
    'Sourcer.C05_flat_locals_realise_lexical_scoping',
    'Tie.binders_agree',
    'Tie.names_flags_conservative',
]
TIE_MODULES = ['Tie.Binders']
TRANSLATORS = ('binders',)
ASSUMPTIONS = c05.ASSUMPTIONS + [
    'the memo of the trampoline is outside the names layer: transparent for template calls provided the key equality is exact (C07 proves transparency for keys '
    'with a correct equality; the equal-values families exercise 1 / True, also nested)',
    'the textual expansion (harness/envgen.expand) refuses call sites whose arguments mention a name that the body rebinds (no renaming is attempted)',
]


def hand_programs():
    L, CC, D = (lambda s: ('lit', s)), ('cc', 'a', 'c'), ('apply', ('cc', '0', '3'), 4, [])
    V = lambda n: ('py', 0, [n])
    out = []
    # the same template with different arguments at the same position, nested in itself
    twice = ('T0', ['pa'], ('seq', [('pvar', 'pa'), ('pvar', 'pa')]))
    out.append(('same-position', {'rules': [('start', ('choice', [('call', 0, [(None, L('a'))]), ('call', 0, [(None, CC)]),
                                                                  ('call', 0, [(None, ('call', 0, [(None, L('b'))]))])]))], 'templates': [twice]}))
    # positional and keyword arguments, keywords in any order
    pair = ('T0', ['pa', 'xa', 'pb'], ('seq', [('pvar', 'pa'), V('xa'), ('opt', ('pvar', 'pb'))]))
    out.append(('keywords', {'rules': [('start', ('seq', [('call', 0, [(None, L('a')), ('pb', CC), ('xa', ('py', 101, []))]),
                                                          ('call', 0, [('xa', ('py', 102, [])), ('pb', L('b')), ('pa', CC)])]))], 'templates': [pair]}))
    # values of every type: str, int, list (unhashable), tuple, None-ish; earlier results passed along
    ident = ('T0', ['xa'], ('seq', [V('xa'), ('opt', L('a'))]))
    out.append(('value-types', {'rules': [('start', ('let', 'ya', ('star', ('seq', [CC])), ('seq', [
        ('call', 0, [(None, V('ya'))]), ('call', 0, [(None, ('py', 8, ['ya', 'ya']))]), ('call', 0, [(None, ('py', 1, ['ya']))]),
        ('call', 0, [(None, ('py', 103, []))]), ('call', 0, [(None, ('py', 202, []))]), ('call', 0, [(None, ('py', 5, ['ya']))])])))],
        'templates': [ident]}))
    # a string literal is a value and a parser
    both = ('T0', ['pa'], ('seq', [('pvar', 'pa'), V('pa'), ('py', 5, ['pa']), ('where', CC, 3, ['pa'])]))
    out.append(('literal-both', {'rules': [('start', ('choice', [('call', 0, [(None, L('ab'))]), ('call', 0, [(None, L('a'))])]))], 'templates': [both]}))
    # compound arguments that mention call-site names, passed on to another template
    inner = ('T1', ['qa'], ('seq', [('pvar', 'qa'), ('opt', ('pvar', 'qa'))]))
    outer = ('T0', ['pa', 'xb'], ('seq', [('call', 1, [(None, ('pvar', 'pa'))]), ('call', 1, [(None, ('where', CC, 3, ['xb']))])]))
    out.append(('pass-along', {'rules': [('start', ('let', 'xa', CC, ('call', 0, [(None, ('where', CC, 2, ['xa'])), (None, V('xa'))])))],
                               'templates': [outer, inner]}))
    # recursion with a data argument and with a parser argument
    out.append(('recursive', {'rules': [('start', ('call', 0, [(None, ('py', 100, [])), (None, CC)]))],
                              'templates': [('T0', ['na', 'pa'], ('choice', [('seq', [('pvar', 'pa'), ('call', 0, [(None, ('py', 6, ['na'])), (None, ('pvar', 'pa'))])]), V('na')]))]}))
    # a class with parameters
    out.append(('class-template', {'rules': [('start', ('seq', [('call', 0, [(None, L('a')), (None, ('py', 101, []))]), ('call', 0, [('xa', ('py', 102, [])), ('pa', CC)])]))],
                                   'templates': [('T0', ['pa', 'xa'], ('bseq', 'T0', ['ya', 'yb'], [('ya', ('pvar', 'pa')), ('yb', ('py', 1, ['xa', 'ya'])), (None, ('opt', ('pvar', 'pa')))]))]}))
    # two instantiations at the same position that differ in exactly one argument (every index, positional and keyword)
    four = ('T0', ['pa', 'pb', 'pc', 'xa'], ('seq', [('pvar', 'pa'), ('pvar', 'pb'), ('pvar', 'pc'), V('xa')]))
    base = [L('a'), L('a'), L('a'), ('py', 101, [])]
    for i in range(4):
        other = list(base)
        other[i] = L('ab') if i < 3 else ('py', 102, [])
        for kwform in (False, True):
            mk = (lambda args: [(q, a) for q, a in zip(four[1], args)][::-1]) if kwform else (lambda args: [(None, a) for a in args])
            out.append((f'one-argument-differs-{i}{"k" if kwform else ""}', {'rules': [('start', ('choice', [
                ('seq', [('call', 0, mk(base)), L('!')]), ('call', 0, mk(other))]))], 'templates': [four]}))
    # == but not interchangeable argument values must not share a memo entry (fixed defect), also nested in lists and tuples
    out.append(('equal-values', {'rules': [('start', ('seq', [('call', 0, [(None, ('py', 101, []))]), ('call', 0, [(None, ('py', 11, []))]),
                                                              ('call', 0, [(None, ('py', 101, []))])]))],
                                 'templates': [('T0', ['xa'], V('xa'))]}))
    out.append(('equal-values-nested', {'rules': [('start', ('let', 'ya', ('py', 101, []), ('let', 'yb', ('py', 11, []), ('seq', [
        ('call', 0, [(None, ('py', 8, ['ya']))]), ('call', 0, [(None, ('py', 8, ['yb']))]),
        ('call', 0, [(None, ('py', 1, ['ya', 'yb']))]), ('call', 0, [(None, ('py', 1, ['yb', 'ya']))])]))))],
                                        'templates': [('T0', ['xa'], V('xa'))]}))
    return out


def build_jobs(tier, seed):
    rng = random.Random(seed)
    inputs = envgen.inputs_for(rng, 12) + ['aaa', 'abaa', 'aaba', 'aaab', 'aaa!', 'abaa!', 'aa', 'bb', 'abab', 'ab', 'aaaa', 'acab', 'aab', 'abc', 'cab', 'ccc', 'aaa', 'ac', 'ca', 'abca']
    jobs = []
    for named in (None, 'envk'):
        for fam, P in hand_programs():
            Q = dict(P)
            Q['named'] = named
            jobs.append({'id': f'hand-{fam}-{named}', 'family': fam, 'program': Q, 'inputs': inputs, 'seed': seed, 'expand': True,
                         'memo_sensitive': False})
    n = 600 if tier == "quick" else 6000
    for i in range(n):
        g = envgen.Gen(random.Random(rng.randrange(1 << 30)), shadow=0.0, named=('envm' if i % 3 == 0 else None))
        P = g.program(n_rules=rng.randrange(1, 4), n_templates=rng.randrange(1, 5), depth=rng.randrange(2, 4))
        jobs.append({'id': f'gen{i}', 'family': 'generated', 'program': P,
                     'inputs': list(dict.fromkeys(envgen.inputs_from(P, random.Random(rng.randrange(1 << 30)), 14)
                                                  + envgen.inputs_for(random.Random(rng.randrange(1 << 30)), 3))),
                     'seed': seed, 'expand': True})
    return jobs


# the names layer is modelled over text; for bytes grammars the call is compared with its hand-written expansion on the
# real generator: (description with template calls, description with the calls expanded, inputs)
BYTES_PAIRS = [
    ('Word = b/[a-z]+/\nT(w) = Word where `lambda v: v == w`\nstart = [T(b"ab"), T(b"c")]\n',
     'Word = b/[a-z]+/\nstart = [Word where `lambda v: v == b"ab"`, Word where `lambda v: v == b"c"`]\n'),
    ('T(w) = [w, `w`, `len(w)`, w?]\nstart = T(b"ab") | T(b"a")\n',
     'start = [b"ab", `b"ab"`, `len(b"ab")`, b"ab"?] | [b"a", `b"a"`, `len(b"a")`, b"a"?]\n'),
    ('T(w, n) = [w{n}, `(w, n)`]\nstart = T(b"a", 2) | T(0x62, 1)\n',
     'start = [b"a"{2}, `(b"a", 2)`] | [0x62{1}, `(0x62, 1)`]\n'),
    ('class K(w) { head: w; same: b/[a-z]*/ |> `lambda v: v == w` }\nstart = K(b"ab")\n',
     'class K { head: b"ab"; same: b/[a-z]*/ |> `lambda v: v == b"ab"` }\nstart = K\n'),
    ('T(w) = b/[a-z]/ where `lambda v: v in w`\nstart = T(b"abc")+\n',
     'start = (b/[a-z]/ where `lambda v: v in b"abc"`)+\n'),
]
# parsed objects as argument values: equal objects are not interchangeable (positions, field types); spans are compared
OBJECT_PAIRS = [
    ('start = Alt1 | Alt2\nclass Alt1 { a: A; t: T(a); x: "x" }\nclass Alt2 { z: "0"; a: A; t: T(a); y: "y" }\nclass A { v: /\\d+/ |> `int` }\nT(x) = "!" |> `lambda _: x`\n',
     'start = Alt1 | Alt2\nclass Alt1 { a: A; t: "!" |> `lambda _: a`; x: "x" }\nclass Alt2 { z: "0"; a: A; t: "!" |> `lambda _: a`; y: "y" }\nclass A { v: /\\d+/ |> `int` }\n'),
    ('class Box(v) { value: `v` }\nT(b) = `type(b.value).__name__`\nstart = [let a = Box(1) in T(a), let a = Box(True) in T(a), /.*/]\n',
     'class Box(v) { value: `v` }\nstart = [let a = Box(1) in `type(a.value).__name__`, let a = Box(True) in `type(a.value).__name__`, /.*/]\n'),
    ('class W { w: /[a-z]+/ }\nPair(p) = [`p`, W]\nstart = (let a = W in (Pair(a) << "!")) | ("a" >> (let a = W in Pair(a)))\n',
     'class W { w: /[a-z]+/ }\nstart = (let a = W in ([`a`, W] << "!")) | ("a" >> (let a = W in [`a`, W]))\n'),
    # a call-site name that is also the parameter of a lambda in the same piece of inline Python (the `n=n` idiom)
    ('Int = /[0-9]/ |> `int`\nItem = /[a-z]/\nAngle(p) = "<" >> p << ">"\nVal(v) = "<" >> `v` << ">"\nstart = let n = Int in [Angle(Item* where `lambda items, n=n: len(items) == n`), Val(`(lambda n: n + 1)(n)`)]\n',
     'Int = /[0-9]/ |> `int`\nItem = /[a-z]/\nstart = let n = Int in ["<" >> (Item* where `lambda items, n=n: len(items) == n`) << ">", "<" >> `(lambda n: n + 1)(n)` << ">"]\n'),
    # the same idiom with a class field whose name is also a global of the module (a rule), in an argument expression
    ('start = Span+\nclass Span {{ start: Int << ":"; stop: Paren(Int where `lambda v, start=start: v != start`) }}\nParen(x) = "(" >> x << ")"\nInt = /[0-9]+/ |> `int`\n'.replace('{{', '{').replace('}}', '}'),
     'start = Span+\nclass Span {{ start: Int << ":"; stop: "(" >> (Int where `lambda v, start=start: v != start`) << ")" }}\nInt = /[0-9]+/ |> `int`\n'.replace('{{', '{').replace('}}', '}')),
    # a class with parameters whose name is that of a built-in expression constructor
    ('class List(item) {{ items: "[" >> (item /? ",") << "]" }}\nclass Opt(x) {{ value: Some(x) | "none" }}\nInt = /[0-9]/ |> `int`\nstart = List(Int) | Opt(x=Int)\n'.replace('{{', '{').replace('}}', '}'),
     'class List {{ items: "[" >> (Int /? ",") << "]" }}\nclass Opt {{ value: Some(Int) | "none" }}\nInt = /[0-9]/ |> `int`\nstart = List | Opt\n'.replace('{{', '{').replace('}}', '}')),
    # keyword arguments and containers whose values are == but of different types
    ('Show(v) = `repr(v)`\nKind(vs) = `[v.__class__.__name__ for v in vs]`\nstart = [Show(v=`1`), Show(v=`True`), Show(v=`1.0`), Kind(`[0, "a"]`), Kind(`[False, "a"]`), Kind(vs=`(0.0, "a")`), Kind(vs=`(0, "a")`), /.*/]\n',
     'start = [`repr(1)`, `repr(True)`, `repr(1.0)`, `["int", "str"]`, `["bool", "str"]`, `["float", "str"]`, `["int", "str"]`, /.*/]\n'),
    # an inline Python argument is one argument, whatever commas it contains
    ('T(a) = [`a`, /[a-z]?/]\nU(a, b) = `(a, b)`\nstart = [T(`1, 2`), U(b=`3, 4`, a=`[i for i in (1, 2)]`), T(a=`5, `)]\n',
     'start = [[`(1, 2)`, /[a-z]?/], `([i for i in (1, 2)], (3, 4))`, [`(5, )`, /[a-z]?/]]\n'),
]
OBJECT_INPUTS = ['07!y', '7!x', '07!x', '7!y', '', 'ab', 'aab', 'abab!', 'aabab', 'a', '2<ab><>', '1<a><>', '2<a><>', '[1,2]', '[1,2,]', '12', 'none', '[]', '1:(1)', '1:(2)3:(3)', '1:(2)']
BYTES_INPUTS = [b'ab', b'abab', b'abc', b'a', b'aa', b'aab', b'b', b'c', b'abca', b'', b'cab', b'ba']


def bytes_family(seed):
    bad = []
    n = 0
    for k, (called, expanded) in enumerate(BYTES_PAIRS + OBJECT_PAIRS):
        inputs = BYTES_INPUTS if k < len(BYTES_PAIRS) else OBJECT_INPUTS
        for named in (False, True):
            hdr = (lambda tag: f'grammar c06b{seed}_{k}{tag}\n') if named else (lambda tag: '')
            try:
                a, _ = realrun.compile_grammar(hdr('c') + called)
                b, _ = realrun.compile_grammar(hdr('e') + expanded)
            except Exception as exc:      # noqa: BLE001
                bad.append({'key': f'bytes|{k}|compile', 'sig': f'bytes|{k}', 'kind': 'spec', 'seed': seed,
                            'what': f'bytes family {k}: compilation raised {type(exc).__name__}: {str(exc)[:150]}'})
                continue
            for t in inputs:
                ra = realrun.run_real_api(a.parse, t, 0, True)[0]
                rb = realrun.run_real_api(b.parse, t, 0, True)[0]
                n += 1
                if ra != rb and not (ra[0] == rb[0] == 'E'):
                    bad.append({'key': f'bytes|{k}|{named}|{t}', 'sig': f'bytes|{k}', 'kind': 'spec', 'seed': seed,
                                'what': f'call and expansion: {called!r} on {t!r} gives {str(ra)[:100]}, its expansion {expanded!r} gives {str(rb)[:100]}'})
                    break
    return bad, n


def run(tier, seed, lean):
    jobs = build_jobs(tier, seed)
    results = envrun.run_jobs(jobs)
    cov, violations, broken = c05.summarise(results, jobs)
    bv, bn = bytes_family(seed)
    violations += bv
    cov['evaluations'] += bn
    cov['bytes_call_vs_expansion'] = bn
    cov['rule'] = ('hand-written families (same template at the same position with different arguments, nested in itself, positional/keyword in any order, '
                   'argument values of every type including unhashable ones, string literals as value and parser, compound arguments that mention '
                   'call-site names and are passed on, recursion, classes with parameters) and typed random programs, with and without a grammar header. '
                   'Every case: real parser = xgen (correspondence), real parser = xpeg (the property: call = body with arguments), and the real parser of '
                   'the program = the real parser of its textual expansion (calls of non-class templates inlined; value arguments become let)')
    return {'coverage': cov, 'violations': violations, 'broken': broken}


replay = c05.replay
