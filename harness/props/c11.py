"""C11 - behaviour does not depend on how the grammar module was produced."""
import json
import os
import random
import shutil
import subprocess
import sys
import tempfile

import gengram as G
import corerun
import realrun
from props import c01, c04, c08, c10, c02

ID = 'C11'
THEOREMS = [
    'Sourcer.C11_context_table_identity',
    'Sourcer.C01_codegen_refines_peg',
    'Tie.implFlags_sound',
]
TIE_MODULES = ['Tie.Flags']
ASSUMPTIONS = [
    'compile/exec/importlib and include_source have no model: the variants are compared on the implementation, and the unnamed in-memory variant with the Lean model',
]

# (description, inputs, hand-written expansion without templates / parameters that the Lean model can decide)
TEMPLATE_GRAMMARS = [
    ('Either(a, b) => Parens(a | b)\nAnyOf(a, b, c) => Parens(a | b | c)\nParens(x) => "(" >> x << ")"\n'
     'start = [Either("a", "b"), AnyOf("a", "b", "ab")?, Either(W, "b")*]\nW = /a+/\n',
     ['(a)', '(b)(ab)', '(a)(a)(aa)(b)', '(ab)', '(a', '', '(b)(b)(c)'],
     'start = [("(" >> ("a" | "b") << ")"), ("(" >> ("a" | "b" | "ab") << ")")?, ("(" >> (W | "b") << ")")*]\nW = /a+/\n'),
    ('Token(t) => t << /[ ]*/\nName = /[a-z]+/\nstart = Token("let") >> Token(Name) << Token("=")\n',
     ['let x =', 'let  abc=', 'letx=', 'let x', ''],
     'Name = /[a-z]+/\nstart = ("let" << /[ ]*/) >> (Name << /[ ]*/) << ("=" << /[ ]*/)\n'),
    ('class Pair(sep) { a: /[a-z]+/; pass sep; b: /[a-z]+/ }\nstart = Pair(":") | Pair("-")\n',
     ['x:y', 'x-y', 'x+y', 'x:', ''],
     'class Pair { a: /[a-z]+/; pass ":"; b: /[a-z]+/ }\nclass Pair2 { a: /[a-z]+/; pass "-"; b: /[a-z]+/ }\nstart = Pair | Pair2\n'),
    ('Rep(x, n) = x{n}\nstart = let k = /\\d/ |> `int` in Rep("a", k)\n',
     ['2aa', '0', '3aa', '1ab', 'a'], None),
    ('ignore /[ \\t]+/\nclass Assign { name: Word; value: "=" >> Word }\nWord = /[a-z]+/\nstart = Assign /? ";"\n',
     ['x = y', 'x =\ny', 'x = y\nz = w', 'x=y;z = w;', ' a=b', ''], None),
    ('start = Sum\nSum = Prod between {\n left: "+", "-"\n}\nProd = Atom between {\n prefix: "-"\n left: "*"\n}\nAtom = /\\d/ | ("(" >> Sum << ")")\n',
     ['1+2*3', '-(1+2)', '1+', '(1', ''], None),
    # an expression nested too deep for one Python function (helper functions), reached through a template
    ('ignore / +/\nstart = Chain(Word)\nChain(Tail) => ' + ''.join(f'("{c}" >> ' for c in 'lkjihgfedcba') + 'Tail' + ' | Word)' * 12 + '\nWord = /[A-Z]+/\n',
     ['l k j i h g f e d c b a ZZ', 'l k j i h g f e d c b a', 'l k j i h g f e d c b x', 'AB', 'l AB', 'l k AB', ''], None),
    # a template that calls one of its parameters with arguments
    ('ignore / +/\nstart = Value\nValue = Word | Listing(Parens, Value) | Listing(Brackets, Value)\nListing(wrapper, T) => wrapper(T /? ",")\n'
     'Parens(x) => "(" >> x << ")"\nBrackets(x) => "[" >> x << "]"\nWord = /[a-z]+/\n',
     ['(a, b)', '[a b]', 'a', '[a, (b, c)]', '(', ''], None),
    # a Python section whose behaviour depends on how the module was compiled (assert, docstrings, __debug__)
    ('```\ndef small(x):\n    "small things"\n    assert len(x) < 3, "too long"\n    return True\ndef doc(_):\n    return (small.__doc__, __debug__)\n```\n'
     'start = [/[a-z]+/ where `small`, "!"? |> `doc`]\n',
     ['ab', 'abcd', 'ab!', '', 'a'], None),
]

RUNNER = r'''
import importlib.util, json, sys
jobs = json.load(open(sys.argv[1]))
out = []
def show(v):
    if v is None: return 'N'
    if v is True: return 'T'
    if v is False: return 'F'
    if isinstance(v, int): return '(i %d)' % v
    if isinstance(v, str): return '(s' + ''.join(' %d' % ord(c) for c in v) + ')'
    if isinstance(v, bytes): return '(b' + ''.join(' %d' % c for c in v) + ')'
    if isinstance(v, list): return '(l' + ''.join(' ' + show(x) for x in v) + ')'
    if isinstance(v, tuple) and not hasattr(v, '_fields'): return '(t' + ''.join(' ' + show(x) for x in v) + ')'
    if hasattr(v, '_fields') and hasattr(v, '_metadata'):
        info = v._metadata.position_info
        sp = ''
        if info is not None:
            sp = ' (span %d %d)' % (info.start.index, info.end.index)
        return '(o ' + type(v).__name__ + sp + ''.join(' (%s %s)' % (f, show(getattr(v, f))) for f in v._fields) + ')'
    return '(unknown %s)' % type(v).__name__
for j in jobs:
    res = []
    try:
        spec = importlib.util.spec_from_file_location(j['module'], j['path'])
        mod = importlib.util.module_from_spec(spec)
        sys.modules[j['module']] = mod
        spec.loader.exec_module(mod)
    except BaseException as exc:
        out.append({'id': j['id'], 'load_error': type(exc).__name__ + ': ' + str(exc)[:200]})
        continue
    for text in j['inputs']:
        if j.get('bytes'):
            text = text.encode('latin-1')
        try:
            v = mod.parse(text)
            res.append(['V', show(v)])
        except BaseException as exc:
            n = type(exc).__name__
            if n == 'PartialParseError':
                res.append(['P', show(exc.partial_result), exc.last_position.index])
            elif n == 'ParseError':
                res.append(['E', exc.position.index])
            else:
                res.append(['X', n])
    out.append({'id': j['id'], 'results': res})
json.dump(out, open(sys.argv[2], 'w'))
'''


def variants_of(text, tag):
    """(variant name, description text, kwargs)"""
    return [
        ('unnamed', text, {}),
        ('named', f'grammar c11_{tag}\n' + text, {}),
        ('include_source', text, {'include_source': True}),
        ('second-compilation', text, {}),
        ('named+include_source', f'grammar c11s_{tag}\n' + text, {'include_source': True}),
    ]


def collect_grammars(tier, seed):
    rng = random.Random(seed)
    out = []
    for text, inputs, _expansion in TEMPLATE_GRAMMARS:
        out.append((text, inputs, False))
    n_each = 25 if tier == 'quick' else 250
    for mod_, kw in ((c01, {}), (c04, {}), (c10, {}), (c02, {})):
        jobs = mod_.build_jobs('quick', seed)
        for j in rng.sample(jobs, min(len(jobs), n_each)):
            cases = [t for _, t in j['cases'] if _ == 0]
            inputs = rng.sample(cases, min(len(cases), 25))
            if j.get('bm'):
                out.append((j['text'], [t.decode('latin-1') for t in inputs], True))
            else:
                out.append((j['text'], inputs, False))
    # descriptions with bound names, templates and arguments that mention call-site names (the names layer of C05/C06)
    import envgen
    n_env = 60 if tier == 'quick' else 500
    for i in range(n_env):
        g = envgen.Gen(random.Random(rng.randrange(1 << 30)), shadow=0.0, named=None)
        P = g.program(n_rules=rng.randrange(1, 4), n_templates=rng.randrange(1, 4), depth=rng.randrange(2, 4))
        P['ignore'] = False
        inputs = list(dict.fromkeys(envgen.inputs_from(P, random.Random(rng.randrange(1 << 30)), 10)))[:12]
        out.append((envgen.grammar_text(P), inputs, False))
    return out


# compiled between the first and the second compilation of every description: it defines rules named like the
# built-in constructors, which must not leak into any later compilation
POISON = ('start = List\n' + ''.join(f'{n} = "a"\n' for n in (
    'List', 'Opt', 'Some', 'Seq', 'Choice', 'Sep', 'Left', 'Right', 'Expect', 'ExpectNot', 'Skip', 'Longest', 'Fail', 'Backtrack')))


def extends_across_variants(tag):
    """a child grammar must compile and behave the same whatever variant its parent was produced as"""
    bad = []
    n = 0
    results = {}
    for vname, kw in (('plain parent', {}), ('include_source parent', {'include_source': True}),
                      ('emitted source of the parent executed as a module', {'include_source': True, 'exec': True})):
        pname = f'c11p_{tag}_{len(results)}'
        try:
            do_exec = kw.pop('exec', False)
            pmod, _ = realrun.compile_grammar(f'grammar {pname}\nstart = [A+, B?]\nA = "a"\nB = "b"\n', **kw)
            if do_exec:
                # the emitted source, run on its own under another module name, must serve as a parent just as well
                import types
                pname = pname + '_exec'
                m = types.ModuleType(pname)
                exec(compile(pmod._source_code, f'<{pname}>', 'exec'), m.__dict__)
                sys.modules[pname] = m
            child, _ = realrun.compile_grammar(f'grammar c11c_{tag}_{len(results)} extends {pname}\noverride A = "x" | super.A\n')
            res = [realrun.run_real_api(child.parse, t, 0, True)[0] for t in ('xa', 'ab', 'xxb', 'b', '')]
        except Exception as exc:       # noqa: BLE001
            res = [('X-compile', type(exc).__name__, str(exc)[:80])]
        n += 5
        results[vname] = res
    for vname, res in results.items():
        if res != results['plain parent']:
            bad.append({'key': f'extends-variants|{vname}', 'sig': 'extends-variants', 'kind': 'spec',
                        'what': f'a child behaves differently when its parent is the variant "{vname}": {str(res)[:160]} '
                                f'vs {str(results["plain parent"])[:160]} for a plainly compiled parent'})
    # entry points of rules, classes and classes with parameters, in every variant
    text = 'start = Pair(Name, Int) // ";"\nclass Pair(a, b) { first: a; second: "&" >> b }\nName = /[a-z]+/\nInt = /[0-9]+/ |> `int`\nclass Tag { name: Name }\nclass Rep(n) { xs: "a"{n}; rest: Name? }\n'
    per_variant = {}
    for vname, vtext, kw in variants_of(text, f'{tag}_entry'):
        try:
            mod, _ = realrun.compile_grammar(vtext, **kw)
            calls = [('Name', lambda m: m.Name.parse), ('Tag', lambda m: m.Tag.parse), ('Int', lambda m: m.Int.parse),
                     ('Pair(Name, Int)', lambda m: m.Pair.parse(m.Name, m.Int)), ('Pair("x", "y")', lambda m: m.Pair.parse('x', 'y')),
                     # a class with parameters as entry point: value arguments (public), implementation functions as parser arguments
                     ('Rep(2)', lambda m: m.Rep.parse(2)), ('Rep(n=1)', lambda m: m.Rep.parse(n=1)),
                     ('Pair(_try_Name, _try_Int)', lambda m: m.Pair.parse(m._try_Name, m._try_Int))]
            res = []
            for cname, get in calls:
                for t in ('ab&12', 'ab', 'x&y', '12', '', 'aab', 'a'):
                    try:
                        res.append((cname, t, realrun.run_real_api(get(mod), t, 0, True)[0]))
                    except Exception as exc:       # noqa: BLE001
                        res.append((cname, t, ('X-entry', type(exc).__name__)))
                    n += 1
        except Exception as exc:       # noqa: BLE001
            res = [('X-compile', type(exc).__name__)]
        per_variant[vname] = res
    for vname, res in per_variant.items():
        if res != per_variant['unnamed']:
            k = next((i for i in range(min(len(res), len(per_variant['unnamed']))) if res[i] != per_variant['unnamed'][i]), 0)
            bad.append({'key': f'entry-points|{vname}', 'sig': 'entry-points', 'kind': 'spec',
                        'what': f'entry point in variant "{vname}": {str(res[k])[:160]} vs {str(per_variant["unnamed"][k])[:160]} in the plain module'})
    # compiled repeatedly: a parent name compiled twice with different bodies, children compiled after each
    from props import c13
    b2, n2 = c13.name_reuse_scenarios(f'c11nr{tag}', realrun)
    bad += [dict(x, sig='name-reuse') for x in b2]
    n += n2
    return n, bad


def run(tier, seed, lean):
    from extract_flags import bits_of
    grammars = collect_grammars(tier, seed)
    violations, broken = [], []
    evals = 0
    nontrivial = 0
    samples = []
    tmp = tempfile.mkdtemp(prefix='c11_')
    ext_jobs = []
    baselines = {}
    try:
        for gi, (text, inputs, bm) in enumerate(grammars):
            tag = f'{seed}_{gi}'
            base = None
            has_start = any(line.lower().startswith(('start ', 'start=', 'class start')) for line in text.split('\n'))
            for vname, vtext, kw in variants_of(text, tag):
                try:
                    if vname == 'second-compilation':
                        realrun.compile_grammar(POISON)
                    mod, _ = realrun.compile_grammar(vtext, **kw)
                except Exception as exc:       # noqa: BLE001
                    res = [('X-compile', type(exc).__name__)]
                    mod = None
                else:
                    res = []
                    for t in inputs:
                        tt = t.encode('latin-1') if bm else t
                        res.append(realrun.run_real_api(mod.parse, tt, 0, True)[0])
                        evals += 1
                if vname == 'unnamed':
                    base = res
                    baselines[gi] = res
                    if len({r[0] for r in res}) >= 2:
                        nontrivial += 1
                elif res != base:
                    k = next((i for i in range(min(len(res), len(base))) if res[i] != base[i]), 0)
                    violations.append({'key': f'{vname}|{text}', 'sig': vname + '|' + text, 'kind': 'spec', 'grammar': text, 'variant': vname,
                                       'input': inputs[k] if k < len(inputs) else '',
                                       'what': f'variant "{vname}" differs from the plain in-memory module on {inputs[k] if k < len(inputs) else "?"!r}: '
                                               f'{res[k] if k < len(res) else res} vs {base[k] if k < len(base) else base} [{text[:120]!r}]'})
                # the emitted source, executed on its own
                if mod is not None and kw.get('include_source'):
                    modname = f'c11x_{tag}' if 'named' in vname else f'c11u_{tag}'
                    path = os.path.join(tmp, modname + '.py')
                    with open(path, 'w') as f:
                        f.write(mod._source_code)
                    ext_jobs.append({'id': f'{gi}|{vname}', 'module': modname, 'path': path, 'inputs': inputs, 'bytes': bm,
                                     'gi': gi, 'text': text})
            if len(samples) < 3 and gi % 37 == 0:
                samples.append({'grammar': text[:200], 'inputs': inputs[:4], 'baseline': [list(b) for b in (base or [])[:4]]})
        n_ext, bad_ext = extends_across_variants(f'{seed}')
        evals += n_ext
        violations += bad_ext
        # one fresh interpreter, isolated from site-packages and from /repo
        with open(os.path.join(tmp, 'runner.py'), 'w') as f:
            f.write(RUNNER)
        with open(os.path.join(tmp, 'jobs.json'), 'w') as f:
            json.dump(ext_jobs, f)
        p = subprocess.run([sys.executable, '-I', '-S', os.path.join(tmp, 'runner.py'), os.path.join(tmp, 'jobs.json'),
                            os.path.join(tmp, 'out.json')], cwd=tmp, stdout=subprocess.PIPE, stderr=subprocess.STDOUT, text=True, timeout=1200)
        if p.returncode != 0:
            violations.append({'key': 'runner', 'sig': 'runner', 'kind': 'spec',
                               'what': f'emitted sources could not be executed in an isolated interpreter: {p.stdout[-300:]}'})
        else:
            with open(os.path.join(tmp, 'out.json')) as f:
                ext = json.load(f)
            by_id = {j['id']: j for j in ext_jobs}
            for r in ext:
                j = by_id[r['id']]
                if 'load_error' in r:
                    violations.append({'key': f'load|{j["text"]}', 'sig': 'load|' + j['text'], 'kind': 'spec', 'grammar': j['text'],
                                       'what': f'emitted source does not load on its own: {r["load_error"]} [{j["text"][:120]!r}]'})
                    continue
                got = [tuple(x) for x in r['results']]
                base = baselines[j['gi']]
                evals += len(got)
                if got != base:
                    k = next((i for i in range(min(len(got), len(base))) if got[i] != base[i]), 0)
                    violations.append({'key': f'emitted|{r["id"]}|{j["text"]}', 'sig': 'emitted|' + j['text'], 'kind': 'spec', 'grammar': j['text'],
                                       'input': j['inputs'][k],
                                       'what': f'emitted source executed separately differs on {j["inputs"][k]!r}: {got[k]} vs {base[k]} [{j["text"][:120]!r}]'})
    finally:
        shutil.rmtree(tmp, ignore_errors=True)
    # template descriptions against their hand-written expansions (which the model can decide)
    def norm(r):
        return tuple((x[0],) + tuple(str(y).replace('Pair2', 'Pair') for y in x[1:]) for x in r)
    expansions = []
    for gi, (text, inputs, expansion) in enumerate(TEMPLATE_GRAMMARS):
        if expansion is None:
            continue
        emod, _ = realrun.compile_grammar(expansion)
        eres = [realrun.run_real_api(emod.parse, t, 0, True)[0] for t in inputs]
        evals += len(inputs)
        if norm(eres) != norm(baselines[gi]):
            k = next((i for i in range(len(eres)) if norm([eres[i]]) != norm([baselines[gi][i]])), 0)
            violations.append({'key': f'expansion|{text}', 'sig': 'expansion|' + text, 'kind': 'spec', 'grammar': text, 'input': inputs[k],
                               'what': f'template description differs from its expansion on {inputs[k]!r}: {baselines[gi][k]} vs {eres[k]} [{text[:100]!r}]'})
        expansions.append((expansion, inputs, False))
    # the plain variant against the Lean model (core grammars): reuse the C08 machinery on a sample
    bits = bits_of(lean.regen['flags']['entries']) if lean.regen.get('flags', {}).get('ok') else None
    jobs = []
    for gi, (text, inputs, bm) in enumerate(expansions + grammars[len(TEMPLATE_GRAMMARS):]):
        for name_variant in (False, True):
            t = (f'grammar c11m_{seed}_{gi}\n' + text) if name_variant else text
            jobs.append({'id': len(jobs), 'text': t, 'bm': bm, 'cases': [(0, (x.encode('latin-1') if bm else x)) for x in inputs[:12]],
                         'entries': ['__module__'], 'fuel': 200, 'meta': {'ctx': 'named' if name_variant else 'unnamed'}})
    res = corerun.run_jobs_api(jobs, bits)
    summ = c08.summarize(res, 'named and unnamed variants against the model')
    violations += summ['violations']
    broken += summ['broken']
    evals += summ['coverage']['evaluations']
    cov = {
        'evaluations': evals,
        'distinct_nontrivial': nontrivial,
        'rule': ('grammars of the C01/C02/C04/C10 generators plus template/class-parameter/ignore/operator-table descriptions, each in the variants '
                 '{unnamed, named, include_source, compiled a second time, named+include_source} in one process and {emitted _source_code written to '
                 'a file and imported by a fresh interpreter started with -I -S (standard library only)}; all variants must give the same outcome class, '
                 'value (incl. spans) and position on every input; named and unnamed variants are also compared with the Lean model. '
                 'Non-trivial = grammar with at least two outcome classes.'),
        'samples': samples,
        'grammars': len(grammars),
        'emitted_sources_executed_separately': len(ext_jobs),
        'model_comparisons': summ['coverage']['evaluations'],
        'traces_validated_against_impl': summ['coverage']['evaluations'],
    }
    return {'coverage': cov, 'violations': violations, 'broken': broken}


def replay(case, lean):
    out = run('quick', case.get('seed', 0), lean)
    out['violations'] = [v for v in out['violations'] if v.get('grammar') == case.get('grammar')][:3]
    return out
