"""C03 - bounded repetition and separated lists honour their bounds and options."""
import itertools
import random

import gengram as G
from gengram import *       # noqa: F401,F403
import corerun
from props import c01

ID = 'C03'
THEOREMS = [
    'Sourcer.C01_codegen_refines_peg',
    'Sourcer.C01_meaning_independent_of_fuel',
    'Sourcer.C01_codegen_refines_peg_from_there_on',
    'Sourcer.C03_len_bounds',
    'Sourcer.C03_sep_allow_empty',
    'Sourcer.C03_sep_require_separator',
    'Sourcer.C03_sep_trailer',
    'Sourcer.C03_sep_keeps_separators',
    'Sourcer.C03_no_effect_on_failure',
    'Tie.implFlags_sound',
    'Tie.impl_refines',
]
TIE_MODULES = ['Tie.Flags']

# the last three can match without consuming: an empty match is a match and counts towards the bounds (with an upper bound the
# repetition ends; without one such elements are ill-formed and the generator's well-formedness test drops them)
ELEMS = [S('a'), S('ab'), REF('A'), RX('a+'), ALT(S('a'), S('b')), SEQ(S('a'), OPT(S('b'))), REF('C'),
         OPT(S('a')), REP(0, None, S('a')), REF('B')]
SEPS = [S(','), S('b'), REF('A'), RX(',+'), OPT(S(',')), LEFT(S(','), S('a'))]
EXTRA = ['a,a,a,a', 'ab,ab,', 'aa,,a', 'a,a,b', 'ababab', 'aaaaaa']

SEP_OPTS = [(d, t, em, rq) for d in (True, False) for t in (True, False) for em in (True, False)
            for rq in (True, False) if not (rq and not t)]

BOUNDS = [(m, n) for m in range(0, 4) for n in range(m, 4)] + [(m, None) for m in range(0, 4)]

CONTEXTS = [
    ('id', lambda e: e),
    ('seq-cont', lambda e: SEQ(e, RX('[ab,]*'))),
    ('alt', lambda e: ALT(LEFT(e, S('!')), RX('[ab,]*'))),
    ('alt2', lambda e: ALT(e, S('ab'), S('a'))),
    ('opt', lambda e: SEQ(OPT(LEFT(e, S('!'))), RX('[ab,]*'))),
    ('expect', lambda e: SEQ(EXP(e), RX('[ab,]*'))),
    ('expectnot', lambda e: SEQ(NOT(LEFT(e, S('b'))), RX('[ab,]*'))),
    ('star', lambda e: SEQ(REP(0, None, LEFT(e, S('b'))), RX('[ab,]*'))),
]


def dyn_variants(elem, m, n, ctx, rng):
    """data-dependent spellings of ctx(elem{m,n}); returns list of (grammar text, prefix)"""
    out = []
    hole = ('rx', 'HOLE')
    body = G.render(ctx(hole))
    er = G.render(elem)
    def bounds(ms, ns):
        if n is None:
            return f'({er}){{{ms},}}'
        if m == n:
            return f'({er}){{{ns}}}'
        return f'({er}){{{ms},{ns}}}'
    helpers = ''.join(f'{k} = {G.render(v)}\n' for k, v in G.HELPERS.items())
    # (1) let-bound constants
    nb = 'None' if n is None else str(n)
    rep = bounds('m', 'n')
    t1 = f'start = let m = `{m}` in let n = `{nb}` in {body.replace("/HOLE/", rep)}\n' + helpers
    out.append((t1, ''))
    # (2) rule parameter
    t2 = f'start = {body.replace("/HOLE/", f"R(`{m}`, `{nb}`)")}\nR(m, n) = {rep}\n' + helpers
    out.append((t2, ''))
    # (4) bounds written as Python expressions with an operator that binds looser than a comparison
    if n is not None:
        t4 = f'start = {body.replace("/HOLE/", bounds(f"`0 or {m}`", f"`0 or {n}`"))}\n' + helpers
        out.append((t4, ''))
        # (5) numerals with leading zeros
        t5 = f'start = {body.replace("/HOLE/", bounds(f"0{m}", f"00{n}"))}\n' + helpers
        out.append((t5, ''))
    # (3) bound parsed from the input (a digit in front)
    if n is not None and m == n:
        t3 = (f'start = let n = /\\d/ |> `int` in {body.replace("/HOLE/", bounds("n", "n"))}\n' + helpers)
        out.append((t3, str(n)))
    return out


def build_jobs(tier, seed):
    rng = random.Random(seed)
    jobs = []
    max_len = 4 if tier == 'quick' else 5
    inputs = [(0, t) for t in G.all_inputs('ab,', max_len)] + [(0, t) for t in EXTRA]
    an = G.Analysis(G.HELPERS)
    seen = set()

    def add(e, name, dyn=None):
        if not an.wellformed(e):
            return
        text, _ = G.grammar_text(e)
        key = (text, dyn['text'] if dyn else None)
        if key in seen:
            return
        seen.add(key)
        job = {'id': len(jobs), 'text': text, 'cases': inputs,
               'meta': {'ctx': name, 'depth': G.depth(e), 'kinds': sorted(G.kinds(e))}}
        from props import c04
        _, rules_ = G.grammar_text(e)
        req, rxs = c04.prep_request([('rule', 'start', e)] + [('rule', k, v) for k, v in rules_.items()])
        job.update({'prep_request': req, 'prep_rx': rxs, 'prep_entry': 'start'})
        if dyn:
            job['dyn'] = dyn
        jobs.append(job)

    frac = 0.35 if tier == 'quick' else 1.0
    # bounded repetition: every element x every bound pair x every context
    for elem in ELEMS:
        for (m, n) in BOUNDS:
            for name, ctx in CONTEXTS:
                if rng.random() > frac:
                    continue
                e = ctx(REP(m, n, elem))
                add(e, 'rep-' + name)
                for text, prefix in dyn_variants(elem, m, n, ctx, rng):
                    if rng.random() < (0.5 if tier == 'quick' else 1.0):
                        add(e, 'dyn-' + name, dyn={'text': text, 'prefix': prefix})
    # bounds that turn out to be inconsistent only at parse time (lower above upper): the repetition cannot match
    for elem in ELEMS:
        for (m, n) in [(1, 0), (2, 1), (3, 1), (2, 0), (3, 2)]:
            for name, ctx in CONTEXTS:
                if rng.random() > frac:
                    continue
                hole = ('rx', 'HOLE')
                body = G.render(ctx(hole))
                helpers = ''.join(f'{k} = {G.render(v)}\n' for k, v in G.HELPERS.items())
                rep = f'({G.render(elem)}){{m,n}}'
                text = f'start = let m = `{m}` in let n = `{n}` in {body.replace("/HOLE/", rep)}\n' + helpers
                add(ctx(('fail',)), 'dyn-inconsistent-' + name, dyn={'text': text, 'prefix': ''})
                text2 = f'start = let m = `{m}` in {body.replace("/HOLE/", f"({G.render(elem)}){{m,{n}}}")}\n' + helpers
                add(ctx(('fail',)), 'dyn-inconsistent-' + name, dyn={'text': text2, 'prefix': ''})
    # separated lists: element x separator x all accepted option sets x context
    for elem in ELEMS:
        for sep in SEPS:
            for opts in SEP_OPTS:
                for name, ctx in CONTEXTS:
                    if rng.random() > frac * 0.6:
                        continue
                    add(ctx(('sep', opts, elem, sep)), 'sep-' + name)
    # nested: lists of lists, repetition of separated lists
    n_nested = 300 if tier == 'quick' else 3000
    for _ in range(n_nested):
        elem = rng.choice(ELEMS)
        sep = rng.choice(SEPS)
        inner = rng.choice([('sep', rng.choice(SEP_OPTS), elem, sep), REP(*rng.choice(BOUNDS), elem)])
        m, n = rng.choice(BOUNDS)
        outer = rng.choice([REP(m, n, SEQ(inner, S('b'))), ('sep', rng.choice(SEP_OPTS), inner, S('b')),
                            REP(m, n, LEFT(inner, S('b')))])
        name, ctx = rng.choice(CONTEXTS)
        add(ctx(outer), 'nested-' + name)
    return jobs


def run(tier, seed, lean):
    from extract_flags import bits_of
    bits = bits_of(lean.regen['flags']['entries']) if lean.regen.get('flags', {}).get('ok') else None
    jobs = build_jobs(tier, seed)
    results = corerun.run_jobs(jobs, bits)
    out = c01.summarize(results, 'bounded repetition {m,n} (static and data-dependent bounds) and Sep option sets')
    out['coverage']['data_dependent_cases'] = sum(r.get('dyn_cases', 0) for r in results)
    return out


replay = c01.replay
