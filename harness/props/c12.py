"""C12 - the shipped grammar-description parser is a fixed point of the generator."""
import ast
import glob
import os
import random
import re
import shutil
import subprocess
import sys
import tempfile

from common import REPO, pval
import realrun
from props import c01, c02, c03, c04, c10

ID = 'C12'
THEOREMS = [
    'Sourcer.C01_codegen_refines_peg',
    'Tie.implFlags_sound',
]
TIE_MODULES = ['Tie.Flags']
ASSUMPTIONS = [
    'bootstrapping (exec, importlib.reload, writing sourcer/parser.py) has no model; generations are built in a scratch copy outside /repo and /verif',
    'the Lean theorems say that emitted code computes the PEG meaning of the expression objects it was generated from (core fragment); that generations 0 and 1 '
    'were generated from equal expression objects is checked here by comparing the trees both produce for grammar.txt',
]


def corpus(tier, seed):
    rng = random.Random(seed)
    texts = []
    # descriptions in the repository: string constants of tests/examples, fenced blocks of docs/README
    for path in glob.glob(os.path.join(REPO, 'tests', '*.py')) + glob.glob(os.path.join(REPO, 'examples', '*.py')):
        try:
            tree = ast.parse(open(path).read())
        except SyntaxError:
            continue
        for node in ast.walk(tree):
            if isinstance(node, ast.Constant) and isinstance(node.value, str) and ('=' in node.value or 'class' in node.value) and len(node.value) > 8:
                texts.append(node.value)
    for path in glob.glob(os.path.join(REPO, 'docs', '**', '*.md'), recursive=True) + [os.path.join(REPO, 'README.md')]:
        body = open(path).read()
        for m in re.finditer(r'(?:~~~|```)(?:\w*)\n(.*?)(?:~~~|```)', body, flags=re.S):
            texts.append(m.group(1))
        for m in re.finditer(r"Grammar\(r?'''(.*?)'''", body, flags=re.S):
            texts.append(m.group(1))
        for m in re.finditer(r'Grammar\(r?"""(.*?)"""', body, flags=re.S):
            texts.append(m.group(1))
    texts.append(open(os.path.join(REPO, 'grammar.txt')).read())
    repo_n = len(texts)
    # generated descriptions of the other properties
    n_gen = 150 if tier == 'quick' else 1500
    for mod in (c01, c02, c03, c04, c10):
        jobs = mod.build_jobs('quick', seed)
        for j in rng.sample(jobs, min(len(jobs), n_gen // 5)):
            texts.append(j['text'])
            if j.get('dyn'):
                texts.append(j['dyn']['text'])
    # alternative layouts
    extra = [
        'grammar a.b.c extends x.y\nstart = "a"; B = start\n',
        'start = "a" # comment\n\n\n# another\nB: "b"\nC => [B,\n   B]\n',
        'ignored Space = / +/\noverride A = "a"\nclass P(x, y) {\n  a: x; let b = y\n  pass "z"\n  requires `a`\n}\n',
        '```\nimport re\n```\nstart = `1` |> `lambda x: x`\n',
        '"a" | "b"',
        'start = A between {\n left: "+", "-"\n right: "^",\n postfix: "!"\n}\nA = /x/',
        'start = "a"{2}\nB = "b"{1,}\nC = "c"{,3}\nD = "d"{`n`}\nE = let n = /\\d/ in "e"{n}\n',
        "start = b'ab' | b/x+/i | 'q'i | 0x1F | super.start\n",
    ]
    texts += extra
    # characters outside ASCII where the description language uses character classes: white space after a line break (\s in
    # Newline), digits of other scripts (\d in counts and numbers), letters in names (\w), and in the places where they
    # are ordinary content
    for ws in ('\u00a0', '\u2028', '\u0085', '\u001f', '\u3000', '\t'):
        texts.append(f'A = "x"\n{ws}{ws}B = "y"\n')
        texts.append(f'A = "x"{ws}\nB = "y"\n')
        texts.append(f'class C {{\n{ws}a: "x"\n{ws}b: "y"\n}}\n')
        texts.append(f'start = ["a",\n{ws}"b"]\n')
    for dg in ('\u0663', '\u0967', '\uff13'):
        texts.append(f'start = Item{{{dg}}}\nItem = "a"\n')
        texts.append(f'start = Item{{1,{dg}}}\nItem = `{dg}`\n')
        texts.append(f'start = "a" | 0x{dg}F\n')
    for name in ('\u00e9t\u00e9', 'na\u00efve', 'x\u0663', '\u03bb'):
        texts.append(f'{name} = "a"\nstart = {name} | "\u00e9"\n')
        texts.append(f'class C {{ {name}: /[\u00e0-\u00ff]+/ }}\n')
    # identifiers that begin or end with a word of the description language itself (the words are read from
    # grammar.txt on every run): keyword boundaries are where the two parsers can part ways
    gtxt = open(os.path.join(REPO, 'grammar.txt')).read()
    words = sorted(set(re.findall(r'''["']([A-Za-z]{2,})["']''', gtxt)))
    shapes = [
        '{id} = "a"\nstart = {id} | "b"\n',
        'start = C\nclass C {{ {id}: "a"; let {id}2: "b"; x: {id}? }}\n',
        'class C {{\n    {id}: "a"\n    {id}_: "b"\n}}\n',
        'T({id}, y) = [{id}, y]\nstart = T("a", "b")\n',
        'start = let {id} = "a" in [{id}, {id}]\n',
        'start = {id}\nignored {id} = "a"\n',
        'start = "a" between {{ left: {id}\n right: "b" }}\n{id} = "+"\n',
        'grammar {id}\nstart = {id}.x | super.{id}\n',
        'start = {id}("a", {id}=`1`)\n',
    ]
    for w in words:
        for ident in (w + 'ter', w + '_x', w + '1', 'x' + w, w.capitalize() + 'X', w.upper(), w):
            for sh in (shapes if tier != 'quick' else rng.sample(shapes, 3)):
                texts.append(sh.format(id=ident))
    base = list(dict.fromkeys(texts))
    # corrupted versions: deleted / duplicated / swapped characters and tokens
    n_mut = 600 if tier == 'quick' else 6000
    muts = []
    for _ in range(n_mut):
        t = rng.choice(base)
        if not t:
            continue
        k = rng.random()
        i = rng.randrange(len(t))
        if k < 0.3:
            m = t[:i] + t[i + 1:]
        elif k < 0.5:
            m = t[:i] + t[i] + t[i:]
        elif k < 0.7 and i + 1 < len(t):
            m = t[:i] + t[i + 1] + t[i] + t[i + 2:]
        elif k < 0.85:
            m = t[:i] + rng.choice('()[]{}|,;:=<>"\'`/\\?*+ \n') + t[i:]
        else:
            j = rng.randrange(len(t))
            a, b = sorted((i, j))
            m = t[:a] + t[b:]
        muts.append(m)
    return base, muts, repo_n


def outcome(parse, text):
    try:
        return ('V', pval(parse(text)))
    except RecursionError:
        return ('X', 'RecursionError')
    except Exception as exc:          # noqa: BLE001
        n = type(exc).__name__
        if n == 'PartialParseError' and hasattr(exc, 'last_position'):
            return ('P', exc.last_position.index)
        if n == 'ParseError' and hasattr(exc, 'position'):
            return ('E', exc.position.index)
        return ('X', n)


def run(tier, seed, lean):
    sys.setrecursionlimit(20000)
    violations, broken = [], []
    evals = 0
    grammar_txt = open(os.path.join(REPO, 'grammar.txt')).read()
    import sourcer.parser as gen0
    try:
        gen1, _ = realrun.compile_grammar(grammar_txt, include_source=True)
    except Exception as exc:          # noqa: BLE001
        violations.append({'key': 'gen1', 'sig': 'gen1', 'kind': 'spec',
                           'what': f'grammar.txt does not compile with the current code: {type(exc).__name__}: {exc}'})
        return {'coverage': {'evaluations': 1, 'distinct_nontrivial': 0, 'rule': '', 'samples': [{}]}, 'violations': violations, 'broken': []}
    src1 = gen1._source_code
    # (b) generation 1 accepts grammar.txt itself
    o = outcome(gen1.parse, grammar_txt)
    if o[0] != 'V':
        violations.append({'key': 'self', 'sig': 'self', 'kind': 'spec', 'what': f'generation 1 does not accept grammar.txt: {o}'})
    # (a) both generations read every description alike
    base, muts, repo_n = corpus(tier, seed)
    accepted = rejected = 0
    samples = []
    for text in base + muts:
        a, b = outcome(gen0.parse, text), outcome(gen1.parse, text)
        evals += 1
        if a[0] == 'V':
            accepted += 1
        else:
            rejected += 1
        if a != b:
            violations.append({'key': f'differ|{text}', 'sig': 'differ|' + text[:60], 'kind': 'spec', 'description': text,
                               'what': f'shipped parser and generation 1 read a description differently: {str(a)[:120]} vs {str(b)[:120]} on {text[:80]!r}'})
        if len(samples) < 3 and a[0] != 'V' and len(text) < 120:
            samples.append({'description': text, 'outcome': list(a)})
    # (c) generation 2: install generation 1 in a scratch copy and regenerate
    scratch = tempfile.mkdtemp(prefix='c12_')
    gen2_ok = None
    try:
        for name in ('sourcer', 'grammar.txt', 'generate_parser.py', 'tests', 'docs', 'README.md', 'examples'):
            src = os.path.join(REPO, name)
            dst = os.path.join(scratch, name)
            if os.path.isdir(src):
                shutil.copytree(src, dst, ignore=shutil.ignore_patterns('__pycache__'))
            elif os.path.exists(src):
                shutil.copy(src, dst)
        with open(os.path.join(scratch, 'sourcer', 'parser.py'), 'w') as f:
            f.write('# Generated by ../generate_parser.py\n')
            f.write(src1)
        code = ("import sys; sys.path.insert(0, '.'); import sourcer; d = open('grammar.txt').read(); "
                "g = sourcer.Grammar(d, include_source=True); assert g.parse(d); sys.stdout.write(g._source_code)")
        p = subprocess.run([sys.executable, '-c', code], cwd=scratch, stdout=subprocess.PIPE, stderr=subprocess.PIPE, text=True, timeout=600)
        evals += 1
        if p.returncode != 0:
            violations.append({'key': 'gen2', 'sig': 'gen2', 'kind': 'spec',
                               'what': f'with generation 1 installed, regenerating fails: {p.stderr[-300:]}'})
        else:
            gen2_ok = p.stdout == src1
            if not gen2_ok:
                a, b = src1.split('\n'), p.stdout.split('\n')
                k = next((i for i in range(min(len(a), len(b))) if a[i] != b[i]), min(len(a), len(b)))
                violations.append({'key': 'gen2-text', 'sig': 'gen2-text', 'kind': 'spec',
                                   'what': f'generation 2 differs from generation 1 at line {k + 1}: {a[k][:80] if k < len(a) else "<end>"!r} vs {b[k][:80] if k < len(b) else "<end>"!r}'})
        if tier == 'thorough':
            p = subprocess.run([sys.executable, '-m', 'pytest', '-q', '-p', 'no:cacheprovider', '-x'], cwd=scratch,
                               stdout=subprocess.PIPE, stderr=subprocess.STDOUT, text=True, timeout=1200)
            evals += 1
            if p.returncode != 0:
                violations.append({'key': 'suite-gen1', 'sig': 'suite-gen1', 'kind': 'spec',
                                   'what': f'the repository suite fails with generation 1 installed: {p.stdout[-300:]}'})
    finally:
        shutil.rmtree(scratch, ignore_errors=True)
    cov = {
        'evaluations': evals,
        'distinct_nontrivial': rejected,
        'rule': ('every description found in the repository (tests, examples, docs, README, grammar.txt), descriptions generated for the other '
                 'properties, layout variants, and corrupted versions (characters deleted, duplicated, swapped, inserted, spans removed) are '
                 'parsed by the shipped parser and by generation 1: same tree (canonical print) or same rejection class and index; generation 1 '
                 'accepts grammar.txt; generation 2 (generation 1 installed in a scratch copy, regenerated in a fresh interpreter) equals '
                 'generation 1 byte for byte. Non-trivial = rejected descriptions (the error index is compared).'),
        'samples': samples or [{'note': 'all descriptions accepted'}],
        'descriptions_from_repository': repo_n,
        'descriptions_total': len(base) + len(muts),
        'accepted': accepted,
        'rejected': rejected,
        'generation2_equals_generation1': gen2_ok,
        'generation1_equals_shipped_text': src1.strip() == '\n'.join(open(os.path.join(REPO, 'sourcer', 'parser.py')).read().split('\n')[1:]).strip(),
    }
    return {'coverage': cov, 'violations': violations, 'broken': broken}


def replay(case, lean):
    out = run('quick', case.get('seed', 0), lean)
    out['violations'] = [v for v in out['violations'] if v['sig'] == case.get('sig')][:3]
    return out
